//! SourceMap JSON serialisation (C15, parser part of C17).
use crate::tree::{fmt_map, parse_smap};
use crate::{hex, Toks};
use rspack_sources::SourceMap;

fn res(r: Result<SourceMap, rspack_sources::Error>) -> String {
  match r {
    Ok(m) => fmt_map(&Some(m)),
    Err(_) => "ERR".to_string(),
  }
}

struct ShortWriter {
  buf: Vec<u8>,
  per_call: usize,
}

impl std::io::Write for ShortWriter {
  fn write(&mut self, data: &[u8]) -> std::io::Result<usize> {
    let n = data.len().min(self.per_call);
    self.buf.extend_from_slice(&data[..n]);
    Ok(n)
  }
  fn flush(&mut self) -> std::io::Result<()> {
    Ok(())
  }
}

pub fn jsonv_case(t: &mut Toks) -> String {
  let m = parse_smap(t);
  let tj = m.clone().to_json().expect("to_json");
  // a writer that accepts only a few bytes per `write` call (sockets and pipes do that): the
  // document must arrive complete whatever the writer's appetite
  let mut sw = ShortWriter { buf: Vec::new(), per_call: tj.len() % 7 + 1 };
  m.clone().to_writer(&mut sw).expect("to_writer");
  let tw = sw.buf;
  format!(
    "tj={} tw={} rt={} rs={} rr={}",
    hex(tj.as_bytes()),
    hex(&tw),
    res(SourceMap::from_json(&tj)),
    res(SourceMap::from_slice(tj.as_bytes())),
    res(SourceMap::from_reader(tj.as_bytes()))
  )
}

/// Arbitrary bytes: from_json only when they are UTF-8.
pub fn jsond_case(t: &mut Toks) -> String {
  let d = t.bytes();
  let fj = match std::str::from_utf8(&d) {
    Ok(s) => res(SourceMap::from_json(s)),
    Err(_) => "NOTUTF8".to_string(),
  };
  format!(
    "fj={} fs={} fr={}",
    fj,
    res(SourceMap::from_slice(&d)),
    res(SourceMap::from_reader(&d[..]))
  )
}
