//! SourceMap JSON serialisation (C15, parser part of C17).
use crate::tree::{fmt_map, parse_smap};
use crate::{hex, Toks};
use rspack_sources::SourceMap;

fn res(r: Result<SourceMap, rspack_sources::Error>) -> String {
  match r {
    Ok(m) => fmt_map(&Some(m)),
    Err(_) => "ERR".to_string(),
  }
}

pub fn jsonv_case(t: &mut Toks) -> String {
  let m = parse_smap(t);
  let tj = m.clone().to_json().expect("to_json");
  let mut tw = Vec::new();
  m.clone().to_writer(&mut tw).expect("to_writer");
  format!(
    "tj={} tw={} rt={} rs={} rr={}",
    hex(tj.as_bytes()),
    hex(&tw),
    res(SourceMap::from_json(&tj)),
    res(SourceMap::from_slice(tj.as_bytes())),
    res(SourceMap::from_reader(tj.as_bytes()))
  )
}

/// Arbitrary bytes: from_json only when they are UTF-8.
pub fn jsond_case(t: &mut Toks) -> String {
  let d = t.bytes();
  let fj = match std::str::from_utf8(&d) {
    Ok(s) => res(SourceMap::from_json(s)),
    Err(_) => "NOTUTF8".to_string(),
  };
  format!(
    "fj={} fs={} fr={}",
    fj,
    res(SourceMap::from_slice(&d)),
    res(SourceMap::from_reader(&d[..]))
  )
}
