//! A `Hasher` that records every typed write verbatim.
use std::hash::Hasher;

#[derive(Default)]
pub struct RecHasher {
  pub events: Vec<String>,
}

impl Hasher for RecHasher {
  fn finish(&self) -> u64 {
    0
  }
  fn write(&mut self, bytes: &[u8]) {
    self.events.push(format!("b:{}", crate::hex(bytes)));
  }
  fn write_u8(&mut self, i: u8) {
    self.events.push(format!("u8:{}", i));
  }
  fn write_u16(&mut self, i: u16) {
    self.events.push(format!("u16:{}", i));
  }
  fn write_u32(&mut self, i: u32) {
    self.events.push(format!("u32:{}", i));
  }
  fn write_u64(&mut self, i: u64) {
    self.events.push(format!("u64:{}", i));
  }
  fn write_u128(&mut self, i: u128) {
    self.events.push(format!("u128:{}", i));
  }
  fn write_usize(&mut self, i: usize) {
    self.events.push(format!("us:{}", i));
  }
  fn write_i8(&mut self, i: i8) {
    self.events.push(format!("i8:{}", i));
  }
  fn write_i16(&mut self, i: i16) {
    self.events.push(format!("i16:{}", i));
  }
  fn write_i32(&mut self, i: i32) {
    self.events.push(format!("i32:{}", i));
  }
  fn write_i64(&mut self, i: i64) {
    self.events.push(format!("i64:{}", i));
  }
  fn write_i128(&mut self, i: i128) {
    self.events.push(format!("i128:{}", i));
  }
  fn write_isize(&mut self, i: isize) {
    self.events.push(format!("is:{}", i));
  }
}

impl RecHasher {
  pub fn joined(&self) -> String {
    if self.events.is_empty() {
      ".".to_string()
    } else {
      self.events.join(",")
    }
  }
}
