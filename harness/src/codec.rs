use crate::{fmt_mlist, hex, Toks};
use rspack_sources::{decode_mappings, encode_mappings, SourceMap};

fn decode(s: &str) -> Vec<rspack_sources::Mapping> {
  let map = SourceMap::new(
    s.to_string(),
    Vec::<String>::new(),
    Vec::<String>::new(),
    Vec::<String>::new(),
  );
  decode_mappings(&map).collect()
}

pub fn codec_enc(t: &mut Toks) -> String {
  let ms = t.mappings();
  let enc = encode_mappings(ms.clone().into_iter());
  let dec = decode(&enc);
  let reenc = encode_mappings(dec.clone().into_iter());
  let lenc = rspack_sources::verif_encode_mappings_lines_only(ms.into_iter());
  let ldec = decode(&lenc);
  format!(
    "enc={} dec={} reenc={} lenc={} ldec={}",
    hex(enc.as_bytes()),
    fmt_mlist(&dec),
    hex(reenc.as_bytes()),
    hex(lenc.as_bytes()),
    fmt_mlist(&ldec)
  )
}

pub fn codec_dec(t: &mut Toks) -> String {
  let s = t.text();
  format!("dec={}", fmt_mlist(&decode(&s)))
}
