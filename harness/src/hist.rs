//! Histories of calls on one object (C05; C10 and C14 use `tree`-based histories).
use crate::rec_hasher::RecHasher;
use crate::tree::{build, record_stream, Ctx, RecWriter};
use crate::{hex, Toks};
use rspack_sources::{BoxSource, MapOptions, ReplaceSource, ReplacementEnforce, Source};

fn chunk_text(events: &str) -> String {
  // concatenation of the chunk texts of a recorded stream
  let mut out = Vec::new();
  if events != "_" {
    for e in events.split('|') {
      let f: Vec<&str> = e.split(':').collect();
      if f[0] == "C" && f[1] != "-" {
        out.extend(crate::unhex(f[1]));
      }
    }
  }
  hex(&out)
}

pub fn rhist_case(t: &mut Toks) -> String {
  let mut ctx = Ctx::default();
  let inner: BoxSource = build(t, &mut ctx).boxed();
  let mut obj = ReplaceSource::new(inner);
  let n = t.num();
  let mut outs: Vec<String> = Vec::new();
  for _ in 0..n {
    match t.next() {
      "mut" => {
        let start = t.num() as u32;
        let end = t.num() as u32;
        let content = t.text();
        let name = t.opt_text();
        let enf = t.num();
        // exercise all four public mutators
        match (enf, start == end) {
          (1, true) => obj.insert(start, &content, name.as_deref()),
          (1, false) => obj.replace(start, end, &content, name.as_deref()),
          (e, same) => {
            let e = if e == 0 { ReplacementEnforce::Pre } else { ReplacementEnforce::Post };
            if same {
              obj.insert_with_enforce(start, &content, name.as_deref(), e)
            } else {
              obj.replace_with_enforce(start, end, &content, name.as_deref(), e)
            }
          }
        }
        outs.push("-".into());
      }
      "clone" => {
        obj = obj.clone();
        outs.push("-".into());
      }
      "obs" => {
        let k = t.num();
        outs.push(match k {
          0 => hex(obj.source().as_bytes()),
          1 => hex(&obj.buffer()),
          2 => format!("n{}", obj.size()),
          3 => hex(obj.rope().to_string().as_bytes()),
          4 => {
            let mut w = RecWriter::default();
            obj.to_writer(&mut w).unwrap();
            hex(&w.calls.concat())
          }
          5 => {
            let mut h = RecHasher::default();
            obj.update_hash(&mut h);
            "-".into()
          }
          6 => chunk_text(&record_stream(&obj, true, false).0),
          7 => {
            obj.map(&MapOptions::default());
            "-".into()
          }
          _ => panic!("observer"),
        });
      }
      k => panic!("rhist op {}", k),
    }
  }
  format!("outs={}", if outs.is_empty() { "_".to_string() } else { outs.join(",") })
}

// ---------------------------------------------------------------------------
// histories of observers on one object, and pairs
// ---------------------------------------------------------------------------
use crate::tree::fmt_map;

pub fn run_hop(obj: &mut BoxSource, op: &str) -> String {
  match op {
    "src" => format!("T{}", hex(obj.source().as_bytes())),
    "buf" => format!("T{}", hex(&obj.buffer())),
    "size" => format!("n{}", obj.size()),
    "rope" => format!("T{}", hex(obj.rope().to_string().as_bytes())),
    "m1" => format!("M{}", fmt_map(&obj.map(&MapOptions::new(true)))),
    "m0" => format!("M{}", fmt_map(&obj.map(&MapOptions::new(false)))),
    "s10" | "s00" | "s11" | "s01" => {
      let c = &op[1..2] == "1";
      let f = &op[2..3] == "1";
      let (e, g) = record_stream(obj, c, f);
      format!("E{}@{}", e, g)
    }
    "hash" => {
      let mut h = RecHasher::default();
      obj.update_hash(&mut h);
      format!("H{}", if h.events.is_empty() { "_".to_string() } else { h.events.join(",") })
    }
    "cl" => {
      let c = obj.clone();
      *obj = c;
      "-".to_string()
    }
    k => panic!("hop {}", k),
  }
}

fn guarded_hop(obj: &mut BoxSource, op: &str) -> String {
  let r = std::panic::catch_unwind(std::panic::AssertUnwindSafe(|| run_hop(obj, op)));
  r.unwrap_or_else(|_| "PANIC".to_string())
}

fn parse_hops<'a>(t: &mut Toks<'a>) -> Vec<&'a str> {
  let n = t.num();
  (0..n).map(|_| t.next()).collect()
}

/// `thist`: reference = a fresh copy of the object per call; `chist`: reference = the wrapped source.
pub fn hist_case(line: &str, wrapped_ref: bool) -> String {
  let mut t = Toks::new(line);
  t.next();
  t.next();
  let start = t.pos;
  let mut ctx = Ctx::default();
  let mut obj = build(&mut t, &mut ctx).boxed();
  let end = t.pos;
  let ops = parse_hops(&mut t);
  let mut out = Vec::new();
  for (i, op) in ops.iter().enumerate() {
    out.push(format!("a{}={}", i, guarded_hop(&mut obj, op)));
  }
  // reference answers, each on a freshly built object
  for (i, op) in ops.iter().enumerate() {
    let mut t2 = Toks::new(line);
    t2.pos = start;
    if wrapped_ref {
      assert_eq!(t2.next(), "cached");
      t2.next();
    }
    let _ = end;
    let mut ctx2 = Ctx::default();
    let mut fresh = build(&mut t2, &mut ctx2).boxed();
    out.push(format!("r{}={}", i, guarded_hop(&mut fresh, op)));
  }
  out.join(" ")
}

/// `fhist <src> <nthreads> (<n> <op>*)*`: the threads run their programs on ONE shared object and
/// are released together (no scheduler); answers in thread-major order, then the reference answers
/// of freshly built objects.
pub fn fhist_case(line: &str) -> String {
  let mut t = Toks::new(line);
  t.next();
  t.next();
  let start = t.pos;
  let mut ctx = Ctx::default();
  let obj: BoxSource = build(&mut t, &mut ctx).boxed();
  let nthreads = t.num() as usize;
  let progs: Vec<Vec<String>> = (0..nthreads)
    .map(|_| parse_hops(&mut t).iter().map(|s| s.to_string()).collect())
    .collect();
  let barrier = std::sync::Arc::new(std::sync::Barrier::new(nthreads));
  let handles: Vec<_> = progs
    .iter()
    .cloned()
    .map(|ops| {
      let mut mine: BoxSource = obj.clone();
      let b = barrier.clone();
      std::thread::spawn(move || {
        b.wait();
        ops.iter().map(|op| guarded_hop(&mut mine, op)).collect::<Vec<String>>()
      })
    })
    .collect();
  let mut out = Vec::new();
  let mut i = 0;
  for h in handles {
    match h.join() {
      Ok(answers) => {
        for a in answers {
          out.push(format!("a{}={}", i, a));
          i += 1;
        }
      }
      Err(_) => out.push(format!("a{}=PANIC", i)),
    }
  }
  let mut i = 0;
  for ops in &progs {
    for op in ops {
      let mut t2 = Toks::new(line);
      t2.pos = start;
      let mut ctx2 = Ctx::default();
      let mut fresh = build(&mut t2, &mut ctx2).boxed();
      out.push(format!("r{}={}", i, guarded_hop(&mut fresh, op)));
      i += 1;
    }
  }
  out.join(" ")
}

const FINAL_OPS: [&str; 8] = ["hash", "src", "buf", "m1", "m0", "s10", "s00", "hash"];

pub fn pair_case(t: &mut Toks) -> String {
  let _relaxed = t.next();
  let mut ctx = Ctx::default();
  let mut a = build(t, &mut ctx).boxed();
  let opsa = parse_hops(t);
  let mut ctx_b = Ctx::default();
  let mut b = build(t, &mut ctx_b).boxed();
  let opsb = parse_hops(t);
  let eq0 = PartialEq::eq(&a, &b);
  for op in opsa {
    guarded_hop(&mut a, op);
  }
  for op in opsb {
    guarded_hop(&mut b, op);
  }
  let eq = PartialEq::eq(&a, &b);
  let eqr = PartialEq::eq(&b, &a);
  let mut out = vec![format!("eq0={}", eq0 as u8), format!("eq={}", eq as u8), format!("eqr={}", eqr as u8)];
  for (i, op) in FINAL_OPS.iter().enumerate() {
    out.push(format!("A{}={}", i, guarded_hop(&mut a, op)));
  }
  for (i, op) in FINAL_OPS.iter().enumerate() {
    out.push(format!("B{}={}", i, guarded_hop(&mut b, op)));
  }
  out.join(" ")
}
