//! Histories of calls on one object (C05; C10 and C14 use `tree`-based histories).
use crate::rec_hasher::RecHasher;
use crate::tree::{build, record_stream, Ctx, RecWriter};
use crate::{hex, Toks};
use rspack_sources::{BoxSource, MapOptions, ReplaceSource, ReplacementEnforce, Source};

fn chunk_text(events: &str) -> String {
  // concatenation of the chunk texts of a recorded stream
  let mut out = Vec::new();
  if events != "_" {
    for e in events.split('|') {
      let f: Vec<&str> = e.split(':').collect();
      if f[0] == "C" && f[1] != "-" {
        out.extend(crate::unhex(f[1]));
      }
    }
  }
  hex(&out)
}

pub fn rhist_case(t: &mut Toks) -> String {
  let mut ctx = Ctx::default();
  let inner: BoxSource = build(t, &mut ctx).boxed();
  let mut obj = ReplaceSource::new(inner);
  let n = t.num();
  let mut outs: Vec<String> = Vec::new();
  for _ in 0..n {
    match t.next() {
      "mut" => {
        let start = t.num() as u32;
        let end = t.num() as u32;
        let content = t.text();
        let name = t.opt_text();
        let enf = t.num();
        // exercise all four public mutators
        match (enf, start == end) {
          (1, true) => obj.insert(start, &content, name.as_deref()),
          (1, false) => obj.replace(start, end, &content, name.as_deref()),
          (e, same) => {
            let e = if e == 0 { ReplacementEnforce::Pre } else { ReplacementEnforce::Post };
            if same {
              obj.insert_with_enforce(start, &content, name.as_deref(), e)
            } else {
              obj.replace_with_enforce(start, end, &content, name.as_deref(), e)
            }
          }
        }
        outs.push("-".into());
      }
      "clone" => {
        obj = obj.clone();
        outs.push("-".into());
      }
      "obs" => {
        let k = t.num();
        outs.push(match k {
          0 => hex(obj.source().as_bytes()),
          1 => hex(&obj.buffer()),
          2 => format!("n{}", obj.size()),
          3 => hex(obj.rope().to_string().as_bytes()),
          4 => {
            let mut w = RecWriter::default();
            obj.to_writer(&mut w).unwrap();
            hex(&w.calls.concat())
          }
          5 => {
            let mut h = RecHasher::default();
            obj.update_hash(&mut h);
            "-".into()
          }
          6 => chunk_text(&record_stream(&obj, true, false).0),
          7 => {
            obj.map(&MapOptions::default());
            "-".into()
          }
          _ => panic!("observer"),
        });
      }
      k => panic!("rhist op {}", k),
    }
  }
  format!("outs={}", if outs.is_empty() { "_".to_string() } else { outs.join(",") })
}
