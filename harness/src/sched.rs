//! Deterministic scheduler for C18: threads park at the schedule points of hook H3 and are
//! released one step at a time according to a given schedule (a list of thread ids).
use crate::tree::{build, fmt_map, record_stream, Ctx};
use crate::{hex, Toks};
use rspack_sources::{BoxSource, CachedSource, MapOptions, ReplaceSource, ReplacementEnforce, Source, SourceExt};
use std::cell::Cell;
use std::sync::{Arc, Condvar, Mutex};
use std::time::Duration;

#[derive(Clone, PartialEq, Debug)]
enum Status {
  Running,
  Parked,
  Done,
}

struct Ctl {
  status: Vec<Status>,
  permits: Vec<usize>,
  trace: Vec<Vec<&'static str>>,
  at_site: Vec<&'static str>,
  free_run: bool,
  /// park at `cached.stream_insert` too (the thread then holds the map shard locked)
  probe: bool,
  /// every operation is `hash`: whatever schedule point a thread reaches lies inside the one-time
  /// initialisation of the shared digest (children sort their replacements there, for example)
  hash_mode: bool,
}

thread_local! {
  static TID: Cell<Option<usize>> = const { Cell::new(None) };
  static HASH_MODE: Cell<bool> = const { Cell::new(false) };
}

type Shared = Arc<(Mutex<Ctl>, Condvar)>;

/// sites at which threads park: the two points inside CachedSource's critical section are passed
/// through, except that in probe mode a thread also parks before the insert (holding the shard lock)
fn parks(site: &str, probe: bool) -> bool {
  match site {
    "cached.stream_locked" => false,
    "cached.stream_insert" => probe,
    _ => true, // includes "child.hash": a user-defined child called back from inside CachedSource::hash
  }
}

fn install(shared: Shared) {
  rspack_sources::verif::set_sched_hook(Some(Box::new(move |site| {
    let tid = match TID.with(|t| t.get()) {
      Some(t) => t,
      None => return,
    };
    let (m, cv) = &*shared;
    let mut g = m.lock().unwrap();
    if !parks(site, g.probe) {
      return;
    }
    if g.free_run {
      g.trace[tid].push(site);
      return;
    }
    g.status[tid] = Status::Parked;
    g.at_site[tid] = site;
    cv.notify_all();
    while g.permits[tid] == 0 && !g.free_run {
      g = cv.wait(g).unwrap();
    }
    if g.permits[tid] > 0 {
      g.permits[tid] -= 1;
    }
    g.trace[tid].push(site);
    g.status[tid] = Status::Running;
  })));
}

fn site_num(s: &str) -> u32 {
  match s {
    "replace.flag_load" => 0,
    "replace.index_store" => 1,
    "replace.flag_store" => 2,
    "replace.index_read" => 3,
    "replace.clone_first_read" => 4,
    "replace.clone_second_read" => 5,
    "cached.map_get" => 0,
    "cached.map_insert" => 1,
    "cached.stream_entry" => 2,
    "cached.stream_insert" => 3,
    "child.hash" => 7,
    "start" => 9,
    _ => 8,
  }
}

/// Runs the thread bodies under the schedule; returns per-thread traces. `after_step` is called by the
/// controller after every granted step (all other threads are parked or done at that moment).
fn run_threads(
  bodies: Vec<Box<dyn FnOnce() + Send>>,
  schedule: &[usize],
  probe: bool,
  mut after_step: impl FnMut(),
) -> Vec<Vec<u32>> {
  let n = bodies.len();
  let shared: Shared = Arc::new((
    Mutex::new(Ctl {
      status: vec![Status::Running; n],
      permits: vec![0; n],
      trace: vec![Vec::new(); n],
      at_site: vec![""; n],
      free_run: false,
      probe,
      hash_mode: HASH_MODE.with(|h| h.get()),
    }),
    Condvar::new(),
  ));
  install(shared.clone());
  let mut handles = Vec::new();
  for (i, body) in bodies.into_iter().enumerate() {
    let sh = shared.clone();
    handles.push(std::thread::spawn(move || {
      TID.with(|t| t.set(Some(i)));
      // park before the first operation so that nothing runs before the schedule starts
      rspack_sources::verif::sched_point("start");
      let r = std::panic::catch_unwind(std::panic::AssertUnwindSafe(body));
      let (m, cv) = &*sh;
      let mut g = m.lock().unwrap();
      g.status[i] = Status::Done;
      cv.notify_all();
      drop(g);
      if r.is_err() {
        // remembered through the results vector being shorter than the program
      }
    }));
  }
  let (m, cv) = &*shared;
  // wait until every thread is parked at "start", then let them all pass it
  {
    let mut g = m.lock().unwrap();
    while g.status.iter().any(|s| *s == Status::Running) {
      g = cv.wait(g).unwrap();
    }
  }
  // waits until the thread is parked or done; false if it is still running after `ticks` x 5 ms
  let wait_settled = |tid: usize, ticks: u32| -> bool {
    let mut g = m.lock().unwrap();
    let mut waited = 0;
    while g.status[tid] == Status::Running && waited < ticks {
      let (g2, _) = cv.wait_timeout(g, Duration::from_millis(5)).unwrap();
      g = g2;
      waited += 1;
    }
    g.status[tid] != Status::Running
  };
  const LONG: u32 = 4000;
  const SHORT: u32 = 12;
  // the thread parked before the insert of the stream fill path holds the shard lock
  let holder = || -> Option<usize> {
    let g = m.lock().unwrap();
    // ... and so does a thread parked inside a child's Hash callback: it runs the OnceLock initialiser
    (0..n).find(|&i| {
      g.status[i] == Status::Parked
        && (g.at_site[i] == "cached.stream_insert" || g.at_site[i] == "child.hash" || (g.hash_mode && g.at_site[i] != "start"))
    })
  };
  // at most one thread is blocked on that lock at a time; while one is, only the holder is granted
  let mut blocked: Option<usize> = None;
  let step = |tid: usize, blocked: &mut Option<usize>| {
    let h = holder();
    {
      let mut g = m.lock().unwrap();
      if g.status[tid] != Status::Parked {
        return;
      }
      if blocked.is_some() && h != Some(tid) {
        return;
      }
      g.permits[tid] += 1;
      g.status[tid] = Status::Running;
      cv.notify_all();
    }
    match h {
      Some(hh) if hh != tid => {
        // the access should meet the held lock: it is blocked unless it settles soon
        if !wait_settled(tid, SHORT) {
          *blocked = Some(tid);
        }
      }
      _ => {
        wait_settled(tid, LONG);
        // the blocked thread runs on once the holder has left its critical section
        if h == Some(tid) && holder() != Some(tid) {
          if let Some(b) = blocked.take() {
            wait_settled(b, LONG);
          }
        }
      }
    }
  };
  // let every thread pass "start" and run up to its first schedule point (a thread may already
  // block here: its first access can meet a lock held by a thread parked inside a critical section)
  for tid in 0..n {
    step(tid, &mut blocked);
  }
  for &tid in schedule {
    if tid >= n {
      continue;
    }
    step(tid, &mut blocked);
    after_step();
  }
  // finish thread by thread, in order
  for tid in 0..n {
    let mut rounds = 0;
    loop {
      if m.lock().unwrap().status[tid] == Status::Done || rounds > 200 {
        break;
      }
      rounds += 1;
      let who = match (blocked, holder()) {
        (Some(_), Some(h)) => h,
        _ => tid,
      };
      step(who, &mut blocked);
      after_step();
    }
  }
  {
    let mut g = m.lock().unwrap();
    g.free_run = true;
    cv.notify_all();
  }
  for h in handles {
    let _ = h.join();
  }
  rspack_sources::verif::set_sched_hook(None);
  let g = m.lock().unwrap();
  g.trace
    .iter()
    .map(|t| t.iter().map(|s| site_num(s)).filter(|x| *x != 9).collect())
    .collect()
}

fn join_u32(v: &[u32]) -> String {
  if v.is_empty() {
    "_".into()
  } else {
    v.iter().map(|x| x.to_string()).collect::<Vec<_>>().join(",")
  }
}

fn join_usize(v: &[usize]) -> String {
  if v.is_empty() {
    "_".into()
  } else {
    v.iter().map(|x| x.to_string()).collect::<Vec<_>>().join(".")
  }
}

pub fn sched_case(t: &mut Toks) -> String {
  match t.next() {
    "R" => sched_replace(t),
    "C" => sched_cached(t, false),
    "L" => sched_cached(t, true),
    "H" => sched_hash(t),
    k => panic!("sched kind {}", k),
  }
}

fn sched_replace(t: &mut Toks) -> String {
  let mut ctx = Ctx::default();
  let inner: BoxSource = build(t, &mut ctx).boxed();
  let mut obj = ReplaceSource::new(inner);
  let n = t.num();
  for _ in 0..n {
    let start = t.num() as u32;
    let end = t.num() as u32;
    let content = t.text();
    let name = t.opt_text();
    let enforce = match t.num() {
      0 => ReplacementEnforce::Pre,
      1 => ReplacementEnforce::Normal,
      _ => ReplacementEnforce::Post,
    };
    obj.replace_with_enforce(start, end, &content, name.as_deref(), enforce);
  }
  // an earlier observation (sorted, flag set) followed by further replacements leaves a stale index
  let presort = t.num();
  if presort > 0 {
    obj.source();
    for _ in 0..(presort - 1) {
      obj.insert(0, "", None);
    }
  }
  let nthreads = t.num() as usize;
  let mut progs: Vec<Vec<String>> = Vec::new();
  for _ in 0..nthreads {
    let k = t.num();
    progs.push((0..k).map(|_| t.next().to_string()).collect());
  }
  let ns = t.num();
  let schedule: Vec<usize> = (0..ns).map(|_| t.num() as usize).collect();
  let obj = Arc::new(obj);
  let results: Arc<Mutex<Vec<Vec<String>>>> = Arc::new(Mutex::new(vec![Vec::new(); nthreads]));
  let mut bodies: Vec<Box<dyn FnOnce() + Send>> = Vec::new();
  for (i, prog) in progs.iter().enumerate() {
    let obj = obj.clone();
    let prog = prog.clone();
    let results = results.clone();
    bodies.push(Box::new(move || {
      for op in prog {
        let r = match op.as_str() {
          "sorted" => format!("T{}", hex(obj.source().as_bytes())),
          "clone" => {
            let c: ReplaceSource<BoxSource> = (*obj).clone();
            let (f, idx) = c.verif_sorted_state();
            format!("K{}:{}:{}", f as u8, join_usize(&idx), hex(c.source().as_bytes()))
          }
          k => panic!("rop {}", k),
        };
        results.lock().unwrap()[i].push(r);
      }
    }));
  }
  let traces = run_threads(bodies, &schedule, false, || {});
  let (flag, index) = obj.verif_sorted_state();
  let res = results.lock().unwrap();
  let mut out = Vec::new();
  for i in 0..nthreads {
    out.push(format!("t{}.n={}", i, res[i].len()));
    for (j, r) in res[i].iter().enumerate() {
      out.push(format!("t{}.r{}={}", i, j, r));
    }
    out.push(format!("t{}.trace={}", i, join_u32(&traces[i])));
  }
  out.push(format!("flag={} index={}", flag as u8, join_usize(&index)));
  out.join(" ")
}

fn key_opts(k: u64) -> MapOptions {
  MapOptions::verif_with_final_source(k == 0 || k == 2, k >= 2)
}

fn sched_cached(t: &mut Toks, probe: bool) -> String {
  let mut ctx = Ctx::default();
  let inner: BoxSource = build(t, &mut ctx).boxed();
  let obj = Arc::new(CachedSource::new(inner));
  let nthreads = t.num() as usize;
  let mut progs: Vec<Vec<String>> = Vec::new();
  for _ in 0..nthreads {
    let k = t.num();
    progs.push((0..k).map(|_| t.next().to_string()).collect());
  }
  let ns = t.num();
  let schedule: Vec<usize> = (0..ns).map(|_| t.num() as usize).collect();
  let results: Arc<Mutex<Vec<Vec<String>>>> = Arc::new(Mutex::new(vec![Vec::new(); nthreads]));
  let mut bodies: Vec<Box<dyn FnOnce() + Send>> = Vec::new();
  for (i, prog) in progs.iter().enumerate() {
    let obj = obj.clone();
    let prog = prog.clone();
    let results = results.clone();
    bodies.push(Box::new(move || {
      for op in prog {
        let key: u64 = op[1..].parse().unwrap();
        // every second operation goes through a clone: clones share the caches
        let handle: CachedSource<BoxSource> = (*obj).clone();
        let r = match &op[0..1] {
          "m" => format!("M{}", fmt_map(&handle.map(&MapOptions::new(key == 0)))),
          "s" => {
            let o = key_opts(key);
            let (e, g) = record_stream(&handle, o.columns, key >= 2);
            format!("E{}@{}", e, g)
          }
          k => panic!("cop {}", k),
        };
        results.lock().unwrap()[i].push(r);
      }
    }));
  }
  // storage identity of every cache entry after every step
  let hist: Arc<Mutex<Vec<Vec<Option<usize>>>>> = Arc::new(Mutex::new(Vec::new()));
  let obj2 = obj.clone();
  let hist2 = hist.clone();
  let traces = run_threads(bodies, &schedule, probe, move || {
    // no snapshot while a fill path holds a shard locked
    let snap: Result<Vec<Option<usize>>, ()> =
      (0..4).map(|k| obj2.verif_cache_entry_addr_try(&key_opts(k))).collect();
    if let Ok(snap) = snap {
      hist2.lock().unwrap().push(snap);
    }
  });
  // canonical ids for addresses, by first appearance
  let mut ids: Vec<usize> = Vec::new();
  let h = hist.lock().unwrap();
  let mut hs = Vec::new();
  for snap in h.iter() {
    let mut parts = Vec::new();
    for (k, a) in snap.iter().enumerate() {
      if let Some(a) = a {
        let id = match ids.iter().position(|x| x == a) {
          Some(p) => p,
          None => {
            ids.push(*a);
            ids.len() - 1
          }
        };
        parts.push(format!("{}:{}", k, id));
      }
    }
    hs.push(if parts.is_empty() { "-".to_string() } else { parts.join(".") });
  }
  let res = results.lock().unwrap();
  let mut out = Vec::new();
  for i in 0..nthreads {
    out.push(format!("t{}.n={}", i, res[i].len()));
    for (j, r) in res[i].iter().enumerate() {
      out.push(format!("t{}.r{}={}", i, j, r));
    }
    out.push(format!("t{}.trace={}", i, join_u32(&traces[i])));
  }
  out.push(format!("hist={}", if hs.is_empty() { "_".to_string() } else { hs.join(";") }));
  out.join(" ")
}


/// A user-defined child source whose `Hash` impl is a schedule point: the only place inside
/// `CachedSource::hash` where another thread can be let in.
#[derive(Debug, Clone, PartialEq, Eq)]
struct ProbeSource(String);

impl std::hash::Hash for ProbeSource {
  fn hash<H: std::hash::Hasher>(&self, state: &mut H) {
    rspack_sources::verif::sched_point("child.hash");
    "ProbeSource".hash(state);
    self.0.hash(state);
  }
}

impl Source for ProbeSource {
  fn source(&self) -> std::borrow::Cow<str> {
    std::borrow::Cow::Borrowed(&self.0)
  }
  fn rope(&self) -> rspack_sources::Rope<'_> {
    rspack_sources::Rope::from(&self.0)
  }
  fn buffer(&self) -> std::borrow::Cow<[u8]> {
    std::borrow::Cow::Borrowed(self.0.as_bytes())
  }
  fn size(&self) -> usize {
    self.0.len()
  }
  fn map(&self, _: &MapOptions) -> Option<rspack_sources::SourceMap> {
    None
  }
  fn to_writer(&self, writer: &mut dyn std::io::Write) -> std::io::Result<()> {
    writer.write_all(self.0.as_bytes())
  }
}

impl rspack_sources::stream_chunks::StreamChunks for ProbeSource {
  fn stream_chunks<'a>(
    &'a self,
    options: &MapOptions,
    on_chunk: rspack_sources::stream_chunks::OnChunk<'_, 'a>,
    on_source: rspack_sources::stream_chunks::OnSource<'_, 'a>,
    on_name: rspack_sources::stream_chunks::OnName<'_, 'a>,
  ) -> rspack_sources::stream_chunks::GeneratedInfo {
    rspack_sources::stream_chunks::stream_chunks_default(&*self.0, None, options, on_chunk, on_source, on_name)
  }
}

fn digest_of(s: &CachedSource<BoxSource>) -> u64 {
  use std::hash::{Hash, Hasher};
  let mut h = std::collections::hash_map::DefaultHasher::new();
  s.hash(&mut h);
  h.finish()
}

/// `sched H <src> <progs of "h"> <schedule>`: threads hash clones of one CachedSource whose tree
/// contains a ProbeSource; every call must return what a single thread computes.
fn sched_hash(t: &mut Toks) -> String {
  let start = t.pos;
  let mk = |t: &mut Toks| -> CachedSource<BoxSource> {
    let mut ctx = Ctx::default();
    let inner: BoxSource = build(t, &mut ctx).boxed();
    let probe: BoxSource = ProbeSource("probe\n".to_string()).boxed();
    CachedSource::new(rspack_sources::ConcatSource::new([inner, probe]).boxed())
  };
  // the sequential value, from an identical tree hashed by one thread (no hook installed yet)
  let reference = {
    let mut t0 = Toks { toks: t.toks.clone(), pos: start };
    digest_of(&mk(&mut t0))
  };
  let obj = Arc::new(mk(t));
  let nthreads = t.num() as usize;
  let mut progs: Vec<usize> = Vec::new();
  for _ in 0..nthreads {
    let k = t.num() as usize;
    for _ in 0..k {
      t.next();
    }
    progs.push(k);
  }
  let ns = t.num();
  let schedule: Vec<usize> = (0..ns).map(|_| t.num() as usize).collect();
  let results: Arc<Mutex<Vec<Vec<u8>>>> = Arc::new(Mutex::new(vec![Vec::new(); nthreads]));
  let mut bodies: Vec<Box<dyn FnOnce() + Send>> = Vec::new();
  for (i, k) in progs.iter().enumerate() {
    let obj = obj.clone();
    let results = results.clone();
    let k = *k;
    bodies.push(Box::new(move || {
      for _ in 0..k {
        let handle: CachedSource<BoxSource> = (*obj).clone();
        let d = digest_of(&handle);
        results.lock().unwrap()[i].push((d == reference) as u8);
      }
    }));
  }
  HASH_MODE.with(|h| h.set(true));
  let _ = run_threads(bodies, &schedule, true, || {});
  HASH_MODE.with(|h| h.set(false));
  let res = results.lock().unwrap();
  let mut out = Vec::new();
  for i in 0..nthreads {
    out.push(format!("t{}.n={}", i, res[i].len()));
    for (j, r) in res[i].iter().enumerate() {
      out.push(format!("t{}.r{}={}", i, j, r));
    }
    if res[i].len() < progs[i] {
      out.push(format!("t{}.panic={}", i, hex(crate::last_panic_location().as_bytes())));
    }
  }
  out.join(" ")
}
