//! Rope programs (C16, rope part of C19).
use std::ops::Bound;
use crate::rec_hasher::RecHasher;
use crate::{hex, Toks};
use rspack_sources::stream_chunks::stream_chunks_default;
use rspack_sources::{MapOptions, Rope};
use std::hash::Hash;

fn leak(s: String) -> &'static str {
  Box::leak(s.into_boxed_str())
}

/// Builds the rope of a program; `None` when a slice is rejected or a line index is out of range.
pub fn build(t: &mut Toks) -> Option<Rope<'static>> {
  match t.next() {
    "new" => Some(Rope::new()),
    "from" => Some(Rope::from(leak(t.text()))),
    "iter" => {
      let n = t.num();
      let items: Vec<&'static str> = (0..n).map(|_| leak(t.text())).collect();
      Some(items.into_iter().collect::<Rope>())
    }
    "add" => {
      let r = build(t);
      let v = leak(t.text());
      r.map(|mut r| {
        r.add(v);
        r
      })
    }
    "app" => {
      let r = build(t);
      let o = build(t);
      match (r, o) {
        (Some(mut r), Some(o)) => {
          r.append(o);
          Some(r)
        }
        _ => None,
      }
    }
    "slice" => {
      let r = build(t);
      let a = t.num() as usize;
      let b = t.num() as usize;
      r.and_then(|r| r.get_byte_slice(a..b))
    }
    "line" => {
      let r = build(t);
      let trailing = t.num() == 1;
      let k = t.num() as usize;
      r.and_then(|r| {
        if trailing {
          r.lines().nth(k)
        } else {
          lines_nt(&r).into_iter().nth(k)
        }
      })
    }
    k => panic!("unknown rope op {}", k),
  }
}

/// `lines_impl(false)` as visible from outside the crate: the chunks of the raw streaming helper.
fn lines_nt(r: &Rope<'static>) -> Vec<Rope<'static>> {
  let mut out = Vec::new();
  stream_chunks_default(
    r.clone(),
    None,
    &MapOptions::default(),
    &mut |chunk, _| out.push(chunk.unwrap()),
    &mut |_, _, _| {},
    &mut |_, _| {},
  );
  out
}

fn hexlist(v: &[String]) -> String {
  if v.is_empty() {
    "_".into()
  } else {
    v.join(",")
  }
}

pub fn rope_case(t: &mut Toks) -> String {
  let r = build(t);
  let r2 = build(t);
  let (r, r2) = match (r, r2) {
    (Some(r), Some(r2)) => (r, r2),
    _ => return "ok=0".to_string(),
  };
  let n = r.len();
  let s = r.to_string();
  let gb: Vec<String> = (0..n + 2)
    .map(|i| {
      // the panicking accessor agrees with the checked one inside the rope ("X" would diverge)
      if i < n && Some(r.byte(i)) != r.get_byte(i) {
        return "X".to_string();
      }
      r.get_byte(i).map_or("-".to_string(), |b| b.to_string())
    })
    .collect();
  let ci: Vec<String> = r
    .char_indices()
    .map(|(i, c)| format!("{}:{}", i, c as u32))
    .collect();
  let lines: Vec<String> =
    r.lines().map(|l| hex(l.to_string().as_bytes())).collect();
  let nt: Vec<String> = lines_nt(&r)
    .iter()
    .map(|l| hex(l.to_string().as_bytes()))
    .collect();
  let mut sl = Vec::new();
  for a in 0..n + 2 {
    for b in 0..n + 2 {
      // the same range [a, b) through every kind of bound the API accepts
      let g = match (a + 2 * b) % 5 {
        1 if b >= 1 => r.get_byte_slice(a..=b - 1),
        2 if a >= 1 => r.get_byte_slice((Bound::Excluded(a - 1), Bound::Excluded(b))),
        3 if a == 0 => r.get_byte_slice(..b),
        4 if b == n => r.get_byte_slice(a..),
        _ => r.get_byte_slice(a..b),
      };
      sl.push(format!(
        "{}:{}:{}",
        a,
        b,
        g.map_or("-".to_string(), |x| hex(x.to_string().as_bytes()))
      ));
    }
  }
  let ew: Vec<String> = ['\n', 'a', 'é', '😀', ';']
    .iter()
    .map(|c| {
      format!(
        "{}:{}",
        hex(c.to_string().as_bytes()),
        r.ends_with(*c) as u8
      )
    })
    .collect();
  let mut h = RecHasher::default();
  r.hash(&mut h);
  let hs: Vec<String> = h
    .events
    .iter()
    .filter_map(|e| e.strip_prefix("b:").map(|x| x.to_string()))
    .collect();
  let s2 = r2.to_string();
  format!(
    "ok=1 len={} empty={} str={} bytes={} gb={} ci={} lines={} nt={} sl={} ew={} hash={} sw={} eq={} eqs={}",
    n,
    r.is_empty() as u8,
    hex(s.as_bytes()),
    hex(&r.to_bytes()),
    hexlist(&gb),
    hexlist(&ci),
    hexlist(&lines),
    hexlist(&nt),
    sl.join(";"),
    hexlist(&ew),
    hexlist(&hs),
    r.starts_with(&r2) as u8,
    (r == r2) as u8,
    // PartialEq<str> and PartialEq<&str> must agree (2 would diverge from the model)
    if (r == *s2.as_str()) == (r == s2.as_str()) { (r == *s2.as_str()) as u8 } else { 2 }
  )
}
