//! Executes every case of a case file on the implementation and prints one
//! canonical observation line per case.
use rs_verif_harness::*;
use std::io::{BufRead, Write};

fn run_case(line: &str) -> String {
  let mut t = Toks::new(line);
  let id = t.next().to_string();
  let kind = t.next();
  let line_owned = line.to_string();
  let kind_owned = kind.to_string();
  let out = guarded(move || {
    let mut t = Toks::new(&line_owned);
    t.next();
    t.next();
    match kind_owned.as_str() {
      "codec_enc" => codec::codec_enc(&mut t),
      "codec_dec" => codec::codec_dec(&mut t),
      "rope" => rope::rope_case(&mut t),
      "tree" => tree::tree_case(&line_owned),
      "rhist" => hist::rhist_case(&mut t),
      "wr" => tree::writer_case(&mut t),
      "sched" => sched::sched_case(&mut t),
      "jsonv" => json::jsonv_case(&mut t),
      "jsond" => json::jsond_case(&mut t),
      "comp" => tree::comp_case(&line_owned),
      "thist" => hist::hist_case(&line_owned, false),
      "chist" => hist::hist_case(&line_owned, true),
      "fhist" => hist::fhist_case(&line_owned),
      "pair" => hist::pair_case(&mut t),
      k => panic!("unknown case kind {}", k),
    }
  });
  format!("{} {}", id, out)
}

static UB_SITES: std::sync::Mutex<Vec<&'static str>> = std::sync::Mutex::new(Vec::new());

fn main() {
  // C19: every unsafe operation reports whether its documented precondition holds
  rspack_sources::verif::set_unsafe_hook(Some(Box::new(|site, holds| {
    if !holds {
      if let Ok(mut g) = UB_SITES.lock() {
        g.push(site);
      }
    }
  })));
  let args: Vec<String> = std::env::args().collect();
  install_panic_hook();
  let f = std::fs::File::open(&args[1]).expect("case file");
  let out = std::io::stdout();
  let mut out = std::io::BufWriter::new(out.lock());
  for line in std::io::BufReader::new(f).lines() {
    let line = line.unwrap();
    if line.trim().is_empty() {
      continue;
    }
    let mut res = run_case(&line);
    if let Ok(mut g) = UB_SITES.lock() {
      if !g.is_empty() {
        g.sort();
        g.dedup();
        res.push_str(&format!(" UB={}", g.join(",")));
        g.clear();
      }
    }
    writeln!(out, "{}", res).unwrap();
  }
}
