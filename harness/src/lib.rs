//! Shared helpers of the verification harness: case parsing and canonical printing.
use rspack_sources::{Mapping, OriginalLocation};

pub mod codec;
pub mod rec_hasher;
pub mod rope;
pub mod tree;
pub mod hist;
pub mod json;
pub mod sched;

pub fn unhex(h: &str) -> Vec<u8> {
  if h == "." {
    return Vec::new();
  }
  let b = h.as_bytes();
  let hv = |c: u8| -> u8 {
    match c {
      b'0'..=b'9' => c - 48,
      b'a'..=b'f' => c - 87,
      b'A'..=b'F' => c - 55,
      _ => panic!("bad hex"),
    }
  };
  (0..b.len() / 2).map(|i| hv(b[2 * i]) * 16 + hv(b[2 * i + 1])).collect()
}

pub fn unhex_str(h: &str) -> String {
  String::from_utf8(unhex(h)).expect("case text must be UTF-8")
}

pub fn hex(b: &[u8]) -> String {
  if b.is_empty() {
    return ".".to_string();
  }
  let mut s = String::with_capacity(b.len() * 2);
  for x in b {
    s.push_str(&format!("{:02x}", x));
  }
  s
}

pub fn opt_hex(b: Option<&[u8]>) -> String {
  match b {
    None => "-".to_string(),
    Some(b) => hex(b),
  }
}

pub struct Toks<'a> {
  pub toks: Vec<&'a str>,
  pub pos: usize,
}

impl<'a> Toks<'a> {
  pub fn new(line: &'a str) -> Self {
    Toks { toks: line.split(' ').filter(|t| !t.is_empty()).collect(), pos: 0 }
  }
  pub fn next(&mut self) -> &'a str {
    let t = self.toks[self.pos];
    self.pos += 1;
    t
  }
  pub fn peek(&self) -> Option<&'a str> {
    self.toks.get(self.pos).copied()
  }
  pub fn num(&mut self) -> u64 {
    self.next().parse().expect("number")
  }
  pub fn opt_num(&mut self) -> Option<u64> {
    let t = self.next();
    if t == "-" {
      None
    } else {
      Some(t.parse().expect("number"))
    }
  }
  pub fn text(&mut self) -> String {
    unhex_str(self.next())
  }
  pub fn bytes(&mut self) -> Vec<u8> {
    unhex(self.next())
  }
  pub fn opt_text(&mut self) -> Option<String> {
    let t = self.next();
    if t == "-" {
      None
    } else {
      Some(unhex_str(t))
    }
  }
  pub fn mapping(&mut self) -> Mapping {
    let gl = self.num() as u32;
    let gc = self.num() as u32;
    let si = self.opt_num();
    let ol = self.opt_num();
    let oc = self.opt_num();
    let ni = self.opt_num();
    Mapping {
      generated_line: gl,
      generated_column: gc,
      original: si.map(|si| OriginalLocation {
        source_index: si as u32,
        original_line: ol.unwrap() as u32,
        original_column: oc.unwrap() as u32,
        name_index: ni.map(|n| n as u32),
      }),
    }
  }
  pub fn mappings(&mut self) -> Vec<Mapping> {
    let n = self.num();
    (0..n).map(|_| self.mapping()).collect()
  }
}

pub fn fmt_mapping(m: &Mapping) -> String {
  match &m.original {
    None => format!("{}:{}:-:-:-:-", m.generated_line, m.generated_column),
    Some(o) => format!(
      "{}:{}:{}:{}:{}:{}",
      m.generated_line,
      m.generated_column,
      o.source_index,
      o.original_line,
      o.original_column,
      o.name_index.map_or("-".to_string(), |n| n.to_string())
    ),
  }
}

pub fn fmt_mlist(ms: &[Mapping]) -> String {
  if ms.is_empty() {
    return ".".to_string();
  }
  ms.iter().map(fmt_mapping).collect::<Vec<_>>().join(";")
}

pub static LAST_PANIC_LOCATION: std::sync::Mutex<String> = std::sync::Mutex::new(String::new());

/// Installs a silent panic hook that remembers where the last panic happened.
pub fn install_panic_hook() {
  std::panic::set_hook(Box::new(|info| {
    if let Some(l) = info.location() {
      if let Ok(mut g) = LAST_PANIC_LOCATION.lock() {
        *g = format!("{}:{}", l.file(), l.line());
      }
    }
  }));
}

pub fn last_panic_location() -> String {
  LAST_PANIC_LOCATION.lock().map(|g| g.clone()).unwrap_or_default()
}

/// Runs `f`, turning a panic into an observation `PANIC=<hex message>`.
pub fn guarded<F: FnOnce() -> String + std::panic::UnwindSafe>(f: F) -> String {
  match std::panic::catch_unwind(f) {
    Ok(s) => s,
    Err(e) => {
      let msg = if let Some(s) = e.downcast_ref::<&str>() {
        s.to_string()
      } else if let Some(s) = e.downcast_ref::<String>() {
        s.clone()
      } else {
        "panic".to_string()
      };
      format!("PANIC={}", hex(format!("{} @ {}", msg, last_panic_location()).as_bytes()))
    }
  }
}
