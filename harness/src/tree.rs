//! Source trees: construction from a case, warm-ups, and the observers.
use crate::{hex, opt_hex, Toks};
use rspack_sources::stream_chunks::{stream_chunks_default, GeneratedInfo, OnChunk, OnName, OnSource, StreamChunks};
use rspack_sources::{
  BoxSource, CachedSource, ConcatSource, MapOptions, Mapping, OriginalSource, RawBufferSource, RawSource,
  RawStringSource, ReplaceSource, ReplacementEnforce, Rope, Source, SourceExt, SourceMap, SourceMapSource,
  SourceMapSourceOptions,
};
use std::borrow::Cow;
use std::collections::HashMap;

/// A user-defined source that streams through the public default helper.
#[derive(Debug, Clone, Hash, PartialEq, Eq)]
pub struct UserSource {
  pub value: String,
  pub map: SourceMap,
}

impl Source for UserSource {
  fn source(&self) -> Cow<str> {
    Cow::Borrowed(&self.value)
  }
  fn rope(&self) -> Rope<'_> {
    Rope::from(&self.value)
  }
  fn buffer(&self) -> Cow<[u8]> {
    Cow::Borrowed(self.value.as_bytes())
  }
  fn size(&self) -> usize {
    self.value.len()
  }
  fn map(&self, _: &MapOptions) -> Option<SourceMap> {
    Some(self.map.clone())
  }
  fn to_writer(&self, writer: &mut dyn std::io::Write) -> std::io::Result<()> {
    writer.write_all(self.value.as_bytes())
  }
}

impl StreamChunks for UserSource {
  fn stream_chunks<'a>(
    &'a self,
    options: &MapOptions,
    on_chunk: OnChunk<'_, 'a>,
    on_source: OnSource<'_, 'a>,
    on_name: OnName<'_, 'a>,
  ) -> GeneratedInfo {
    stream_chunks_default(&*self.value, Some(&self.map), options, on_chunk, on_source, on_name)
  }
}

pub enum Built {
  Concat(ConcatSource),
  Other(BoxSource),
}

impl Built {
  pub fn boxed(self) -> BoxSource {
    match self {
      Built::Concat(c) => c.boxed(),
      Built::Other(b) => b,
    }
  }
}

#[derive(Default)]
pub struct Ctx {
  pub cached: HashMap<u64, CachedSource<BoxSource>>,
}

fn hexlist_parse(s: &str) -> Vec<String> {
  if s == "_" {
    Vec::new()
  } else {
    s.split(',').map(crate::unhex_str).collect()
  }
}

pub fn parse_smap(t: &mut Toks) -> SourceMap {
  assert_eq!(t.next(), "M");
  let mappings = t.text();
  let sources = hexlist_parse(t.next());
  let contents = hexlist_parse(t.next());
  let names = hexlist_parse(t.next());
  let file = t.opt_text();
  let root = t.opt_text();
  let dbg = t.opt_text();
  // every other map gets its tables through the setters instead of the constructor
  let mut m = if mappings.len() % 2 == 0 {
    SourceMap::new(mappings, sources, contents, names)
  } else {
    let mut m = SourceMap::new(mappings, vec!["placeholder".to_string()], vec!["x".to_string()], vec!["y".to_string()]);
    m.set_sources(sources);
    m.set_sources_content(contents);
    m.set_names(names);
    m
  };
  m.set_file(file);
  m.set_source_root(root);
  m.set_debug_id(dbg);
  // the indexed getters agree with the tables
  for i in 0..=m.sources().len() {
    assert_eq!(m.get_source(i), m.sources().get(i).map(|s| s.as_ref()), "get_source");
  }
  for i in 0..=m.names().len() {
    assert_eq!(m.get_name(i), m.names().get(i).map(|s| s.as_ref()), "get_name");
  }
  m
}

pub fn build(t: &mut Toks, ctx: &mut Ctx) -> Built {
  match t.next() {
    // every public constructor of a leaf is used (chosen by the length of the text), and every
    // other leaf is a concrete-type clone of the constructed value: both are the identity in the model
    "raws" => {
      let v = t.text();
      let a = match v.len() % 3 {
        0 => RawSource::from(v),
        1 => RawSource::from(v.as_str()),
        _ => RawSource::from_static(Box::leak(v.into_boxed_str())),
      };
      Built::Other(if a.size() % 2 == 0 { a.clone().boxed() } else { a.boxed() })
    }
    "rawb" => {
      let v = t.bytes();
      let a = if v.len() % 2 == 0 { RawSource::from(v) } else { RawSource::from(v.as_slice()) };
      Built::Other(if a.size() % 3 == 0 { a.clone().boxed() } else { a.boxed() })
    }
    "rstr" => {
      let v = t.text();
      let a = match v.len() % 3 {
        0 => RawStringSource::from(v),
        1 => RawStringSource::from(v.as_str()),
        _ => RawStringSource::from_static(Box::leak(v.into_boxed_str())),
      };
      Built::Other(if a.size() % 2 == 0 { a.clone().boxed() } else { a.boxed() })
    }
    "rbuf" => {
      let v = t.bytes();
      let a = if v.len() % 2 == 0 { RawBufferSource::from(v) } else { RawBufferSource::from(v.as_slice()) };
      Built::Other(if a.size() % 3 == 0 { a.clone().boxed() } else { a.boxed() })
    }
    "orig" => {
      let v = t.text();
      let n = t.text();
      let a = OriginalSource::new(v, n);
      Built::Other(if a.size() % 2 == 0 { a.clone().boxed() } else { a.boxed() })
    }
    k @ ("sms" | "usr") => {
      let value = t.text();
      let name = t.text();
      let source_map = parse_smap(t);
      let original_source = t.opt_text();
      let inner_source_map = if t.peek() == Some("-") {
        t.next();
        None
      } else {
        Some(parse_smap(t))
      };
      let remove_original_source = t.num() == 1;
      if k == "usr" {
        Built::Other(UserSource { value, map: source_map }.boxed())
      } else {
        let a = SourceMapSource::new(SourceMapSourceOptions {
          value,
          name,
          source_map,
          original_source,
          inner_source_map,
          remove_original_source,
        });
        Built::Other(if a.size() % 2 == 0 { a.clone().boxed() } else { a.boxed() })
      }
    }
    k @ ("concat" | "concata") => {
      let n = t.num();
      let mut items = Vec::new();
      for _ in 0..n {
        let typed = t.next() == "t";
        let b = build(t, ctx);
        items.push(match (typed, b) {
          (true, Built::Concat(c)) => Built::Concat(c),
          (true, _) => panic!("typed item must be a concat"),
          (false, b) => Built::Other(b.boxed()),
        });
      }
      let all_typed = !items.is_empty() && items.iter().all(|i| matches!(i, Built::Concat(_)));
      let all_boxed = items.iter().all(|i| matches!(i, Built::Other(_)));
      if k == "concat" && all_typed {
        Built::Concat(ConcatSource::new(items.into_iter().map(|i| match i {
          Built::Concat(c) => c,
          _ => unreachable!(),
        })))
      } else if k == "concat" && all_boxed {
        Built::Concat(ConcatSource::new(items.into_iter().map(|i| i.boxed())))
      } else {
        let mut c = ConcatSource::default();
        for i in items {
          match i {
            Built::Concat(x) => c.add(x),
            Built::Other(b) => c.add(b),
          }
        }
        Built::Concat(c)
      }
    }
    "repl" => {
      let inner = build(t, ctx).boxed();
      let mut r = ReplaceSource::new(inner);
      let n = t.num();
      for _ in 0..n {
        let start = t.num() as u32;
        let end = t.num() as u32;
        let content = t.text();
        let name = t.opt_text();
        let enforce = match t.num() {
          0 => ReplacementEnforce::Pre,
          1 => ReplacementEnforce::Normal,
          _ => ReplacementEnforce::Post,
        };
        r.replace_with_enforce(start, end, &content, name.as_deref(), enforce);
      }
      Built::Other(r.boxed())
    }
    "cached" => {
      let id = t.num();
      let inner = build(t, ctx).boxed();
      if let Some(c) = ctx.cached.get(&id) {
        Built::Other(c.clone().boxed())
      } else {
        let c = CachedSource::new(inner);
        ctx.cached.insert(id, c.clone());
        Built::Other(c.boxed())
      }
    }
    k => panic!("unknown source kind {}", k),
  }
}

pub fn fmt_mapping_ev(m: &Mapping) -> String {
  crate::fmt_mapping(m)
}

/// Streams `s` and records the callbacks in order.
pub fn record_stream(s: &dyn Source, columns: bool, final_source: bool) -> (String, String) {
  let opts = MapOptions::verif_with_final_source(columns, final_source);
  let evs = std::cell::RefCell::new(Vec::<String>::new());
  let gi = s.stream_chunks(
    &opts,
    &mut |chunk, mapping| {
      evs.borrow_mut().push(format!(
        "C:{}:{}",
        chunk.map_or("-".to_string(), |c| hex(c.to_string().as_bytes())),
        crate::fmt_mapping(&mapping)
      ));
    },
    &mut |i, name, content| {
      evs.borrow_mut().push(format!(
        "S:{}:{}:{}",
        i,
        hex(name.as_bytes()),
        content.map_or("-".to_string(), |c| hex(c.to_string().as_bytes()))
      ));
    },
    &mut |i, name| {
      evs.borrow_mut().push(format!("N:{}:{}", i, hex(name.as_bytes())));
    },
  );
  let evs = evs.into_inner();
  (
    if evs.is_empty() { "_".to_string() } else { evs.join("|") },
    format!("{}:{}", gi.generated_line, gi.generated_column),
  )
}

fn hexlist(v: &[String]) -> String {
  if v.is_empty() {
    "_".into()
  } else {
    v.iter().map(|s| hex(s.as_bytes())).collect::<Vec<_>>().join(",")
  }
}

pub fn fmt_map(m: &Option<SourceMap>) -> String {
  match m {
    None => "-".to_string(),
    Some(m) => format!(
      "{};{};{};{};{};{};{}",
      hex(m.mappings().as_bytes()),
      hexlist(m.sources()),
      hexlist(m.sources_content()),
      hexlist(m.names()),
      opt_hex(m.file().map(|s| s.as_bytes())),
      opt_hex(m.source_root().map(|s| s.as_bytes())),
      opt_hex(m.get_debug_id().map(|s| s.as_bytes()))
    ),
  }
}

/// A writer that records the payload of every `write` call.
#[derive(Default)]
pub struct RecWriter {
  pub calls: Vec<Vec<u8>>,
}
impl std::io::Write for RecWriter {
  fn write(&mut self, buf: &[u8]) -> std::io::Result<usize> {
    self.calls.push(buf.to_vec());
    Ok(buf.len())
  }
  fn flush(&mut self) -> std::io::Result<()> {
    Ok(())
  }
}

pub fn run_wop(node: &dyn Source, op: &str) {
  match op {
    "m1" => {
      node.map(&MapOptions::new(true));
    }
    "m0" => {
      node.map(&MapOptions::new(false));
    }
    "s10" | "s00" | "s11" | "s01" => {
      let c = &op[1..2] == "1";
      let f = &op[2..3] == "1";
      record_stream(node, c, f);
    }
    k => panic!("unknown warm op {}", k),
  }
}

/// Builds the tree of a `tree` case and executes its warm-ups.
pub fn fresh(line: &str) -> (BoxSource, Ctx) {
  let mut t = Toks::new(line);
  t.next();
  t.next();
  let mut ctx = Ctx::default();
  let s = build(&mut t, &mut ctx).boxed();
  if t.peek().is_some() {
    let n = t.num();
    for _ in 0..n {
      let id = t.num();
      let op = t.next();
      if let Some(c) = ctx.cached.get(&id) {
        run_wop(c, op);
      }
    }
  }
  (s, ctx)
}

fn guard_key<F: FnOnce() -> String + std::panic::UnwindSafe>(f: F) -> String {
  match std::panic::catch_unwind(f) {
    Ok(s) => s,
    Err(e) => {
      let msg = if let Some(s) = e.downcast_ref::<&str>() {
        s.to_string()
      } else if let Some(s) = e.downcast_ref::<String>() {
        s.clone()
      } else {
        "panic".to_string()
      };
      format!("PANIC:{}", hex(format!("{} @ {}", msg, crate::last_panic_location()).as_bytes()))
    }
  }
}

pub fn tree_case(line: &str) -> String {
  let l = line.to_string();
  let mut out = Vec::new();
  let l1 = l.clone();
  out.push(format!("src={}", guard_key(move || hex(fresh(&l1).0.source().as_bytes()))));
  let l1 = l.clone();
  out.push(format!("buf={}", guard_key(move || hex(&fresh(&l1).0.buffer()))));
  let l1 = l.clone();
  out.push(format!("size={}", guard_key(move || fresh(&l1).0.size().to_string())));
  let l1 = l.clone();
  out.push(format!("rope={}", guard_key(move || hex(fresh(&l1).0.rope().to_string().as_bytes()))));
  let l1 = l.clone();
  out.push(format!(
    "wr={}",
    guard_key(move || {
      let s = fresh(&l1).0;
      let mut w = RecWriter::default();
      s.to_writer(&mut w).unwrap();
      let calls: Vec<String> = w.calls.iter().filter(|c| !c.is_empty()).map(|c| hex(c)).collect();
      if calls.is_empty() {
        "_".to_string()
      } else {
        calls.join(",")
      }
    })
  ));
  for (c, f) in [(true, false), (false, false), (true, true), (false, true)] {
    let l1 = l.clone();
    let r = std::panic::catch_unwind(move || record_stream(&fresh(&l1).0, c, f));
    let tag = format!("{}{}", c as u8, f as u8);
    match r {
      Ok((e, g)) => {
        out.push(format!("e{}={}", tag, e));
        out.push(format!("g{}={}", tag, g));
      }
      Err(_) => {
        out.push(format!("e{}=PANIC:{}", tag, hex(crate::last_panic_location().as_bytes())));
        out.push(format!("g{}=PANIC", tag));
      }
    }
  }
  for c in [true, false] {
    let l1 = l.clone();
    out.push(format!(
      "m{}={}",
      c as u8,
      guard_key(move || fmt_map(&fresh(&l1).0.map(&MapOptions::new(c))))
    ));
  }
  out.join(" ")
}

/// A writer that runs out after `cap` bytes.
pub struct FailingWriter {
  pub cap: usize,
  pub short: bool,
  pub written: Vec<u8>,
}
impl std::io::Write for FailingWriter {
  fn write(&mut self, buf: &[u8]) -> std::io::Result<usize> {
    if buf.is_empty() {
      return Ok(0);
    }
    let room = self.cap - self.written.len();
    if self.short {
      if room == 0 {
        return Err(std::io::Error::new(std::io::ErrorKind::Other, "full"));
      }
      let n = room.min(buf.len());
      self.written.extend_from_slice(&buf[..n]);
      Ok(n)
    } else {
      if buf.len() > room {
        return Err(std::io::Error::new(std::io::ErrorKind::Other, "full"));
      }
      self.written.extend_from_slice(buf);
      Ok(buf.len())
    }
  }
  fn flush(&mut self) -> std::io::Result<()> {
    Ok(())
  }
}

pub fn writer_case(t: &mut Toks) -> String {
  let mut ctx = Ctx::default();
  let s = build(t, &mut ctx).boxed();
  let cap = t.num() as usize;
  let short = t.num() == 1;
  let mut w = FailingWriter { cap, short, written: Vec::new() };
  let r = s.to_writer(&mut w);
  format!("buf={} written={} ok={}", hex(&s.buffer()), hex(&w.written), r.is_ok() as u8)
}

/// `comp`: a composite (ConcatSource of boxed items, or ReplaceSource) and its children standalone.
pub fn comp_case(line: &str) -> String {
  // locate the warm-up calls that follow the composite
  let mut t = Toks::new(line);
  t.next();
  t.next();
  let start = t.pos;
  let mut ctx0 = Ctx::default();
  let _ = build(&mut t, &mut ctx0);
  let mut warm: Vec<(u64, String)> = Vec::new();
  if t.peek().is_some() {
    let n = t.num();
    for _ in 0..n {
      let id = t.num();
      let op = t.next().to_string();
      warm.push((id, op));
    }
  }
  let apply = |ctx: &Ctx| {
    for (id, op) in &warm {
      if let Some(c) = ctx.cached.get(id) {
        run_wop(c, op);
      }
    }
  };
  // every observation is made on a freshly built and warmed instance
  let comp = || -> BoxSource {
    let mut t = Toks::new(line);
    t.pos = start;
    let mut ctx = Ctx::default();
    let s = build(&mut t, &mut ctx).boxed();
    apply(&ctx);
    s
  };
  // children, each built standalone from its own tokens
  let kids = || -> Vec<BoxSource> {
    let mut t2 = Toks::new(line);
    t2.pos = start;
    let mut kids: Vec<BoxSource> = Vec::new();
    match t2.next() {
      "concat" | "concata" => {
        let n = t2.num();
        for _ in 0..n {
          assert_eq!(t2.next(), "b");
          let mut c = Ctx::default();
          let k = build(&mut t2, &mut c).boxed();
          apply(&c);
          kids.push(k);
        }
      }
      "repl" => {
        let mut c = Ctx::default();
        let k = build(&mut t2, &mut c).boxed();
        apply(&c);
        kids.push(k);
      }
      k => panic!("comp over {}", k),
    }
    kids
  };
  let mut out = vec![format!("src={}", hex(comp().source().as_bytes()))];
  out.push(format!("e10={}", record_stream(&comp(), true, false).0));
  out.push(format!("e00={}", record_stream(&comp(), false, false).0));
  let nk = kids().len();
  out.push(format!("nk={}", nk));
  for i in 0..nk {
    out.push(format!("k{}.e10={}", i, record_stream(&kids()[i], true, false).0));
  }
  for i in 0..nk {
    out.push(format!("k{}.e00={}", i, record_stream(&kids()[i], false, false).0));
  }
  out.join(" ")
}
