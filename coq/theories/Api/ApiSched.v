(* Model-side execution of a schedule (C18) and the checkers on the
   implementation's observations. *)
From RS Require Import Base.Prelude Base.Text Rope.RopeModel Stream.Types Stream.Replace Stream.Tree
  Stream.Leaves Sem.ReplaceObj Sem.Conc Sem.ConcLock Api.ApiTree Api.ApiHist Checkers.ChkTree Checkers.ChkHist.

Definition empty_insert : repl := mkRepl 0 0 [] None 1.

Definition sched_repls (rs : list repl) (presort : N) : list repl :=
  rs ++ repeat empty_insert (N.to_nat presort - 1).

Definition view_text (inner : text) (rs : list repl) (view : list N) : text :=
  text_of_sorted inner (flat_map (fun i => match nth_opt rs i with Some r => [r] | None => [] end) view).

(* result of one op: text; for a clone also (flag, index) at clone time *)
Definition api_sched_replace (inner : src) (rs : list repl) (presort : N) (progs : list (list rop)) (sched : list N)
  : list (list (text * option (bool * list N)) * list N) * (bool * list N) :=
  let all := sched_repls rs presort in
  let init_index := if presort =? 0 then [] else sort_index rs in
  let init_flag := if presort =? 0 then is_nil rs else presort =? 1 in
  let '(sh, ts) := replace_run true all init_index init_flag progs sched in
  (map (fun t => (map (fun r => (view_text (source inner) all (rr_view r),
                                 match rr_clone r with Some c => Some (sh_flag c, sh_index c) | None => None end))
                      (rt_results t), rt_trace t)) ts,
   (sh_flag sh, sh_index sh)).

(* every rendered text is the sequential one; every clone satisfies the object invariant *)
Definition chk_C18_replace (inner : src) (rs : list repl) (presort : N)
           (results : list (list (text * option (bool * list N)))) (final : bool * list N) : N :=
  if negb (tree_wf (SReplace inner (sched_repls rs presort))) then 100 else
  let all := sched_repls rs presort in
  let expected := replace_source_text (source inner) all in
  let sorted := sort_index all in
  let inv (st : bool * list N) := negb (fst st) || list_eqb N.eqb (snd st) sorted in
  if negb (forallb (fun rsl => forallb (fun r => text_eqb (fst r) expected) rsl) results) then 1
  else if negb (forallb (fun rsl => forallb (fun r => match snd r with Some c => inv c | None => true end) rsl) results) then 2
  else if negb (inv final) then 3
  else 0.

(* CachedSource: keys 0 (cols,!final) 1 (!cols,!final) 2 (cols,final) 3 (!cols,final) *)
Definition key_hop (o : cop) : hop :=
  match o with
  | CopMap k => OMap (k =? 0)
  | CopStream k => OStream ((k =? 0) || (k =? 2)) (2 <=? k)
  end.

Definition api_sched_cached (inner : src) (progs : list (list cop)) (sched : list N)
  : list (list answer * list N) * list (list (N * N)) :=
  let '(sh, ts, hist) := cached_run true progs sched in
  (* the value of a cache entry depends on which path stored it *)
  let opts_of (k : N) := mkOpts ((k =? 0) || (k =? 2)) (2 <=? k) in
  let entry_value (k id : N) : option smap :=
    if existsb (N.eqb id) (cs_by_stream sh)
    then map_of_events (columns (opts_of k)) (fst (fst (stream [] inner (opts_of k))))
    else fst (map_of [] inner (k =? 0)) in
  let answer (o : cop) (id : N) (fill : bool) : answer :=
    match o with
    | CopMap k => AMap (entry_value k id)
    | CopStream k =>
      if fill then let '(evs, gi, _) := stream [] inner (opts_of k) in AStream evs gi
      else match entry_value k id with
           | Some m => let '(evs, gi) := sm_stream (source inner) m (opts_of k) in AStream evs gi
           | None => let '(evs, gi) := raw_stream (source inner) (final_source (opts_of k)) in AStream evs gi
           end
    end in
  (map (fun (p : list cop * cthread) =>
          (map (fun x => answer (fst (fst x)) (snd (fst x)) (snd x))
               (combine (combine (fst p) (ct_served (snd p))) (ct_fill (snd p))),
           ct_trace (snd p)))
       (combine progs ts),
   hist).

Definition chk_C18_cached (inner : src) (progs : list (list cop)) (answers : list (list answer))
           (hist : list (list (N * N))) : N :=
  if negb (treeA inner) then 100 else
  let t := source inner in
  let ok_thread (p : list cop * list answer) :=
    (len (fst p) =? len (snd p)) &&
    forallb (fun oa => answer_equiv t (key_hop (fst oa)) (snd oa) (fst (run_hop [] inner (key_hop (fst oa)))))
            (combine (fst p) (snd p)) in
  if negb (forallb ok_thread (combine progs answers)) then (if k2_shape inner then 52 else 1)
  else if negb (write_once_from [] hist) then 2
  else 0.

(* the same programs with the critical section of the stream fill path visible (Sem/ConcLock.v) *)
Definition api_sched_locked (inner : src) (progs : list (list cop)) (sched : list N)
  : list (list answer * list N) * list (list (N * N)) :=
  let '(sh, ts, hist) := locked_run true progs sched in
  let opts_of (k : N) := mkOpts ((k =? 0) || (k =? 2)) (2 <=? k) in
  let entry_value (k id : N) : option smap :=
    if existsb (N.eqb id) (cs_by_stream (ls_c sh))
    then map_of_events (columns (opts_of k)) (fst (fst (stream [] inner (opts_of k))))
    else fst (map_of [] inner (k =? 0)) in
  let answer (o : cop) (id : N) (fill : bool) : answer :=
    match o with
    | CopMap k => AMap (entry_value k id)
    | CopStream k =>
      if fill then let '(evs, gi, _) := stream [] inner (opts_of k) in AStream evs gi
      else match entry_value k id with
           | Some m => let '(evs, gi) := sm_stream (source inner) m (opts_of k) in AStream evs gi
           | None => let '(evs, gi) := raw_stream (source inner) (final_source (opts_of k)) in AStream evs gi
           end
    end in
  (map (fun (p : list cop * lthread) =>
          (map (fun x => answer (fst (fst x)) (snd (fst x)) (snd x))
               (combine (combine (fst p) (lt_served (snd p))) (lt_fill (snd p))),
           lt_trace (snd p)))
       (combine progs ts),
   hist).
