(* Entry points of the extracted checkers for tree cases. *)
From RS Require Import Base.Prelude Base.Text Stream.Types Stream.Tree Api.ApiTree Checkers.ChkTree
  Sem.ReplaceObj Checkers.ChkReplace Api.ApiHist Checkers.ChkHist Sem.Prov Checkers.ChkProv Checkers.ChkCombined.

Definition api_check_tree (prop : N) (s : src) (ws : list (N * wop)) (o : tree_obs) : N :=
  if prop =? 1 then chk_C01 s o
  else if prop =? 2 then chk_C02 s o
  else if prop =? 3 then chk_C03 s o
  else if prop =? 4 then chk_C04 s o
  else if prop =? 7 then chk_C07 s o
  else if prop =? 8 then chk_C08_all s o
  else if prop =? 9 then chk_C09_all s o
  else if prop =? 11 then chk_C11 s o
  else if prop =? 17 then chk_C17 s o
  else 100.

(* C05: history of calls on ReplaceSource(inner); inner is a source tree whose text is source(inner) *)
Definition api_rhist (inner : src) (h : list rcall) : list rout :=
  model_outs h (snd (rrun (source inner) robj_new h)).
Definition api_check_rhist (inner : src) (h : list rcall) (outs : list rout) : N :=
  if negb (tree_wf inner) then 100 else chk_C05 (source inner) h outs.

(* histories on one object: kind 0 = thist (reference: fresh object), 1 = chist (reference: wrapped source) *)
Definition api_check_hist (s : src) (ops : list hop) (ans ref : list answer) : N := chk_hist s ops ans ref.

Definition api_check_pair (prop : N) (a : src) (opsa : list hop) (b : src) (opsb : list hop)
           (relaxed : bool) (o : pair_obs) : N :=
  if prop =? 13 then
    (* domain: one content per OriginalSource name (found while proving that chk_C13 accepts the
       model: CompWarmLaws.cached_law_contents_counterexample) *)
    (if negb (names_determine_content (originals a ++ originals b)) then 100 else chk_C13 a b relaxed o)
  else if prop =? 14 then chk_C14_pair a b o
  else if prop =? 20 then chk_C20_pair a b o
  else 100.

(* classification of a panic observed on a tree: 100 = outside the domain, 53 = class K3, 1 = violation *)
Definition api_panic_class (s : src) : N :=
  if negb (tree_wf s) then 100 else if k3_shape s then 53 else 1.

From RS Require Import Sem.Writer.
Definition api_writer (s : src) (cap : N) (short : bool) : text * text * bool :=
  let '(w, ok) := to_writer_failing s cap short in (buffer s, w, ok).
Definition api_check_writer (s : src) (cap : N) (short : bool) (buf written : text) (ok : bool) : N :=
  chk_C07_writer s cap short buf written ok.

From RS Require Import Checkers.ChkComp.
(* C06: composite with its children observed standalone *)
(* `ws`: warm-up calls on CachedSource nodes (by cache id) made before each observation; every
   child is observed standalone, built afresh and warmed by the calls that concern it *)
Definition api_comp (s : src) (ws : list (N * wop)) : list event * list event * list (list event) * list (list event) :=
  let kids := match s with SConcat cs => cs | SReplace inner _ => [inner] | _ => [] end in
  let st := run_warm [] s ws in
  (fst (fst (stream st s (mkOpts true false))), fst (fst (stream st s (mkOpts false false))),
   map (fun k => fst (fst (stream (run_warm [] k ws) k (mkOpts true false)))) kids,
   map (fun k => fst (fst (stream (run_warm [] k ws) k (mkOpts false false)))) kids).
Definition api_check_comp (s : src) (src_text : text) (c10 c00 : list event) (k10 k00 : list (list event)) : N :=
  chk_C06 s src_text c10 c00 k10 k00.

From RS Require Import Sem.Json Checkers.ChkJson.
(* C15 *)
Definition api_json_value (m : smap) : text * option smap := (print (to_doc m), Some (norm_map m)).
Definition api_json_doc (d : text) : option smap :=
  match parse d with Some doc => of_doc doc | None => None end.
Definition api_check_json_value := chk_C15_value.
Definition api_check_json_doc := chk_C15_doc.
