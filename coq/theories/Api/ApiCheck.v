(* Entry points of the extracted checkers for tree cases. *)
From RS Require Import Base.Prelude Base.Text Stream.Types Stream.Tree Api.ApiTree Checkers.ChkTree
  Sem.ReplaceObj Checkers.ChkReplace.

Definition api_check_tree (prop : N) (s : src) (ws : list (N * wop)) (o : tree_obs) : N :=
  if prop =? 1 then chk_C01 s o
  else if prop =? 2 then chk_C02 s o
  else if prop =? 3 then chk_C03 s o
  else if prop =? 7 then chk_C07 s o
  else if prop =? 8 then chk_C08 s o
  else if prop =? 11 then chk_C11 s o
  else 100.

(* C05: history of calls on ReplaceSource(inner); inner is a source tree whose text is source(inner) *)
Definition api_rhist (inner : src) (h : list rcall) : list rout :=
  model_outs h (snd (rrun (source inner) robj_new h)).
Definition api_check_rhist (inner : src) (h : list rcall) (outs : list rout) : N :=
  if negb (tree_wf inner) then 100 else chk_C05 (source inner) h outs.
