(* Histories of observer calls on one object (C10, C14) and pairs of objects
   (C13, C14, C20): model-side answers. *)
From RS Require Import Base.Prelude Base.Text Rope.RopeModel Codec.Vlq
  Stream.Types Stream.Leaves Stream.Replace Stream.Tree Api.ApiTree Sem.HashEq.

Inductive hop :=
| OSrc | OBuf | OSize | ORope
| OMap (cols : bool)
| OStream (cols final : bool)
| OHash
| OClone.        (* continue on a clone of the handle *)

Inductive answer :=
| AText (t : text)
| ANum (n : N)
| AOptText (t : option text)
| AMap (m : option smap)
| AStream (evs : list event) (gi : N * N)
| AHash (h : list hev)
| ANone.

Definition run_hop (st : store) (s : src) (o : hop) : answer * store :=
  match o with
  | OSrc => (AText (source s), st)
  | OBuf => (AText (buffer s), st)
  | OSize => (ANum (size s), st)
  | ORope => (AOptText (match rope_of s with Some r => Some (flat r) | None => None end), st)
  | OMap cols => let '(m, st') := map_of st s cols in (AMap m, st')
  | OStream cols final => let '(evs, gi, st') := stream st s (mkOpts cols final) in (AStream evs gi, st')
  | OHash => (AHash (hash_events s), st)
  | OClone => (ANone, st)
  end.

Fixpoint run_hops (st : store) (s : src) (ops : list hop) : list answer * store :=
  match ops with
  | [] => ([], st)
  | o :: ops' =>
    let '(a, st1) := run_hop st s o in
    let '(as_, st2) := run_hops st1 s ops' in
    (a :: as_, st2)
  end.

(* every op on a fresh object (cold caches) *)
Definition fresh_answers (s : src) (ops : list hop) : list answer :=
  map (fun o => fst (run_hop [] s o)) ops.

(* thist: ops on the object itself; reference = a fresh object for each op.
   chist: top-level is a CachedSource; reference = the wrapped source, fresh for each op. *)
Definition api_thist (s : src) (ops : list hop) : list answer * list answer :=
  (fst (run_hops [] s ops), fresh_answers s ops).

Definition api_chist (s : src) (ops : list hop) : list answer * list answer :=
  match s with
  | SCached _ inner => (fst (run_hops [] s ops), fresh_answers inner ops)
  | _ => ([], [])
  end.

(* pair: observer histories on both sides, then equality and the final answers *)
Record pair_obs := mkPairObs {
  po_eq0 : bool;   (* a == b before any observer was called *)
  po_eq : bool; po_eqr : bool;
  po_a : list answer; po_b : list answer }.

(* the hash is taken first (the state the history left) and last (after every other observer) *)
Definition final_ops : list hop :=
  [OHash; OSrc; OBuf; OMap true; OMap false; OStream true false; OStream false false; OHash].

Definition api_pair (a : src) (opsa : list hop) (b : src) (opsb : list hop) : pair_obs :=
  let sta := snd (run_hops [] a opsa) in
  let stb := snd (run_hops [] b opsb) in
  mkPairObs (src_eqb a b) (src_eqb a b) (src_eqb b a) (fst (run_hops sta a final_ops)) (fst (run_hops stb b final_ops)).
