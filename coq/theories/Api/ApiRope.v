(* Model-side observations of a rope program (what harness/src/rope.rs observes
   on the implementation). *)
From RS Require Import Base.Prelude Base.Text Rope.RopeModel Rope.RopeProg Checkers.ChkRope.

Fixpoint upto_n (n : nat) (i : N) : list N :=
  match n with O => [] | S n' => i :: upto_n n' (i + 1) end.

Definition slice_obs (r : rope) (a b : N) : N * N * option text :=
  (a, b, match rope_slice r a b with SOk r' => Some (flat r') | _ => None end).

Definition ew_chars : list text := [[10]; [97]; [195; 169]; [240; 159; 152; 128]; [59]].

Definition api_rope_unary (r : rope) : rope_obs :=
  let n := rope_len r in
  let idx := upto_n (S (S (N.to_nat n))) 0 in
  mkRopeObs n (rope_is_empty r) (rope_to_string r) (flat r)
    (map (rope_get_byte r) idx)
    (rope_char_indices r)
    (map flat (rope_lines_impl r true))
    (map flat (rope_lines_impl r false))
    (flat_map (fun a => map (fun b => slice_obs r a b) idx) idx)
    (map (fun ch => (ch, rope_ends_with r ch)) ew_chars)
    (rope_hash_pieces r).

Definition api_rope (p q : rprog) : option (rope_obs * (bool * option bool * bool) * bool) :=
  match run p, run q with
  | Some r, Some r2 =>
    Some (api_rope_unary r, (rope_starts_with r r2, rope_eq r r2, rope_eq_str r (flat r2)), rope_wf r)
  | _, _ => None
  end.

Definition api_rope_check (p q : rprog) (o : rope_obs) (starts eq eq_str : bool) : N :=
  match run_string p, run_string q with
  | Some s1, Some s2 =>
    if negb (prog_valid p && prog_valid q) then 100
    else match chk_C16_unary s1 o with
         | 0 => chk_C16_binary s1 s2 starts eq eq_str
         | k => k
         end
  | _, _ => 100
  end.

(* does the string semantics accept the program? (the implementation must agree) *)
Definition api_rope_valid (p q : rprog) : bool :=
  match run_string p, run_string q with Some _, Some _ => true | _, _ => false end.
