(* Model-side observations of a source tree (what harness/src/tree.rs observes). *)
From RS Require Import Base.Prelude Base.Text Rope.RopeModel Codec.Vlq
  Stream.Types Stream.Leaves Stream.Concat Stream.Replace Stream.Combined Stream.Tree.

Inductive wop := WMap (cols : bool) | WStream (cols final : bool).

(* the CachedSource node with a given id (clones share id and inner) *)
Fixpoint find_cached (s : src) (id : N) : option src :=
  match s with
  | SCached i inner => if i =? id then Some s else find_cached inner id
  | SConcat cs =>
    (fix go (cs : list src) : option src :=
       match cs with
       | [] => None
       | c :: cs' => match find_cached c id with Some x => Some x | None => go cs' end
       end) cs
  | SReplace inner _ => find_cached inner id
  | _ => None
  end.

Definition run_wop (st : store) (node : src) (w : wop) : store :=
  match w with
  | WMap cols => snd (map_of st node cols)
  | WStream cols final => snd (stream st node (mkOpts cols final))
  end.

Fixpoint run_warm (st : store) (s : src) (ws : list (N * wop)) : store :=
  match ws with
  | [] => st
  | (id, w) :: ws' =>
    match find_cached s id with
    | Some node => run_warm (run_wop st node w) s ws'
    | None => run_warm st s ws'
    end
  end.

Record tree_obs := mkTreeObs {
  to_source : text;
  to_buffer : text;
  to_size : N;
  to_rope : option text;
  to_writer : list text;
  to_streams : list (list event * (N * N));   (* (cols,final) = (1,0) (0,0) (1,1) (0,1) *)
  to_maps : list (option smap) }.             (* cols = true, false *)

Definition all_opts : list opts := [mkOpts true false; mkOpts false false; mkOpts true true; mkOpts false true].

Definition api_tree (s : src) (ws : list (N * wop)) : tree_obs :=
  let st := run_warm [] s ws in
  mkTreeObs (source s) (buffer s) (size s)
    (match rope_of s with Some r => Some (flat r) | None => None end)
    (writer_calls s)
    (map (fun o => fst (stream st s o)) all_opts)
    [fst (map_of st s true); fst (map_of st s false)].
