(* Entry points called by the OCaml driver (model side of the correspondence). *)
From RS Require Import Base.Prelude Codec.Vlq Codec.CodecSpec Checkers.ChkCodec.

Definition api_codec_enc (ms : list mapping)
  : text * list mapping * text * text * list mapping :=
  let enc := encode_full ms in
  let dec := decode_mappings enc in
  let reenc := encode_full dec in
  let lenc := encode_lines ms in
  let ldec := decode_mappings lenc in
  (enc, dec, reenc, lenc, ldec).

Definition api_codec_dec (s : text) : list mapping := decode_mappings s.
Definition api_codec_vlq (a b : N) : text := encode_vlq a b.
