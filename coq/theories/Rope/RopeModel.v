(* Model of src/rope.rs at the level of its piece table.  Definitions only.
   `Full` keeps the (piece, start offset) pairs exactly as the Rust Vec does;
   the flat string is `flat`.  slice::binary_search_by is modelled by its
   contract on strictly increasing keys (DESIGN.md 3.7). *)
From RS Require Import Base.Prelude Base.Text.

Inductive rope :=
| Light (t : text)
| Full (ps : list (text * N)).

Definition rope_new : rope := Light [].
Definition rope_from (t : text) : rope := Light t.

Definition flat (r : rope) : text :=
  match r with
  | Light t => t
  | Full ps => concat (map fst ps)
  end.

Definition full_len (ps : list (text * N)) : N :=
  match rev ps with
  | [] => 0
  | (c, s) :: _ => s + len c
  end.

Definition rope_len (r : rope) : N :=
  match r with Light t => len t | Full ps => full_len ps end.

Definition is_nil {A} (l : list A) : bool := match l with [] => true | _ => false end.

Definition rope_is_empty (r : rope) : bool :=
  match r with
  | Light t => is_nil t
  | Full ps => forallb (fun p => is_nil (fst p)) ps
  end.

(* pieces with running offsets starting at `start` *)
Fixpoint with_offsets (ts : list text) (start : N) : list (text * N) :=
  match ts with
  | [] => []
  | t :: ts' => (t, start) :: with_offsets ts' (start + len t)
  end.

(* FromIterator<&str> (after fix F5a: no empty Full) *)
Definition rope_from_iter (ts : list text) : rope :=
  let ps := with_offsets (filter (fun t => negb (is_nil t)) ts) 0 in
  if is_nil ps then rope_new else Full ps.

Definition rope_add (r : rope) (v : text) : rope :=
  if is_nil v then r else
  match r with
  | Light s => if is_nil s then Light v else Full [(s, 0); (v, len s)]
  | Full ps => Full (ps ++ [(v, full_len ps)])
  end.

Definition rope_append (r o : rope) : rope :=
  match r, o with
  | Light s, Light t =>
    if is_nil t then r else if is_nil s then Light t else Full [(s, 0); (t, len s)]
  | Full ps, Full qs =>
    if is_nil qs then r else Full (ps ++ with_offsets (map fst qs) (full_len ps))
  | Full ps, Light t =>
    if is_nil t then r else Full (ps ++ [(t, full_len ps)])
  | Light s, Full qs =>
    if is_nil s then Full qs else Full ((s, 0) :: with_offsets (map fst qs) (len s))
  end.

(* ---------- binary search by contract ---------- *)
(* keys strictly increasing: Ok i if keys[i] = x, else Err (number of keys < x) *)
Inductive bsres := BOk (i : N) | BErr (i : N).
Fixpoint bsearch_from (keys : list N) (x : N) (i : N) : bsres :=
  match keys with
  | [] => BErr i
  | k :: keys' =>
    if k =? x then BOk i
    else if x <? k then BErr i
    else bsearch_from keys' x (i + 1)
  end.
Definition bsearch (keys : list N) (x : N) : bsres := bsearch_from keys x 0.

(* `.unwrap_or_else(|index| index.saturating_sub(1))` *)
Definition start_chunk_index (ps : list (text * N)) (x : N) : N :=
  match bsearch (map snd ps) x with BOk i => i | BErr i => i - 1 end.
(* `.unwrap_or_else(|insert_pos| insert_pos)` on end positions *)
Definition end_chunk_index (ps : list (text * N)) (x : N) : N :=
  match bsearch (map (fun p => snd p + len (fst p)) ps) x with BOk i => i | BErr i => i end.

(* ---------- byte access ---------- *)
Definition rope_get_byte (r : rope) (i : N) : option N :=
  if rope_len r <=? i then None else
  match r with
  | Light s => nth_opt s i
  | Full ps =>
    match nth_opt ps (start_chunk_index ps i) with
    | Some (s, start) => nth_opt s (i - start)
    | None => None
    end
  end.

(* ---------- slicing ---------- *)
(* str::get(a..b): None unless a <= b <= len and both are char boundaries *)
Definition str_get (s : text) (a b : N) : option text :=
  if (a <=? b) && (b <=? len s) && is_boundary s a && is_boundary s b
  then Some (slice a b s) else None.

Inductive slice_res := SOk (r : rope) | SErr (why : N) | SUB (site : N).
(* why: 1 = start > end, 2 = end out of bounds, 3 = invalid char boundary;
   SUB = get_unchecked reached with an index outside the chunk vector *)

Fixpoint slice_pieces (ps : list (text * N)) (i si ei a b : N) (acc_len : N)
  : option (list (text * N)) :=
  match ps with
  | [] => Some []
  | (c, start) :: ps' =>
    if i <? si then slice_pieces ps' (i + 1) si ei a b acc_len
    else if ei <? i then Some []
    else
      let piece :=
        if i =? si then str_get c (a - start) (len c)
        else if i =? ei then str_get c 0 (b - start)
        else Some c in
      match piece with
      | None => None
      | Some p =>
        match slice_pieces ps' (i + 1) si ei a b (acc_len + len p) with
        | None => None
        | Some rest => Some ((p, acc_len) :: rest)
        end
      end
  end.

(* get_byte_slice_impl for an explicit range a..b *)
Definition rope_slice (r : rope) (a b : N) : slice_res :=
  if b <? a then SErr 1
  else if rope_len r <? b then SErr 2
  else
  match r with
  | Light s =>
    match str_get s a b with Some t => SOk (Light t) | None => SErr 3 end
  | Full ps =>
    let si := start_chunk_index ps a in
    let ei := end_chunk_index ps b in
    if si =? ei then
      match nth_opt ps si with
      | None => SUB 1
      | Some (c, start) =>
        match str_get c (a - start) (b - start) with Some t => SOk (Light t) | None => SErr 3 end
      end
    else if ei <? si then SOk rope_new
    else if len ps <=? ei then SUB 2
    else
      match slice_pieces ps 0 si ei a b 0 with
      | Some qs => SOk (Full qs)
      | None => SErr 3
      end
  end.

(* ---------- prefix / suffix ---------- *)
Definition ends_with_bytes (s suffix : text) : bool :=
  is_prefix (rev suffix) (rev s).

(* ends_with(char) with the char given by its UTF-8 bytes *)
Definition rope_ends_with (r : rope) (ch : text) : bool :=
  match r with
  | Light s => ends_with_bytes s ch
  | Full ps =>
    match rev ps with
    | (c, _) :: _ => ends_with_bytes c ch
    | [] => false
    end
  end.

(* Light s vs Full data (after fix F5c) *)
Fixpoint sw_light_full (remaining : text) (chunks : list text) : bool :=
  match chunks with
  | [] => true
  | c :: cs => if is_prefix c remaining then sw_light_full (drop (len c) remaining) cs else false
  end.

(* Full data vs Light other *)
Fixpoint sw_full_light (chunks : list text) (other : text) : bool :=
  match chunks with
  | [] => is_nil other
  | c :: cs =>
    if is_nil other then true
    else if is_prefix other c then true
    else if is_prefix c other then sw_full_light cs (drop (len c) other)
    else false
  end.

(* Full vs Full: two cursors, compare min-length byte prefixes (after fix F5d) *)
Fixpoint sw_full_full (fuel : nat) (self_it other_it : list text) (rs ro : text) : bool :=
  match fuel with
  | O => false
  | S f =>
    match (if is_nil ro then match other_it with [] => None | c :: cs => Some (c, cs) end
           else Some (ro, other_it)) with
    | None => true
    | Some (ro1, other_it1) =>
      match (if is_nil rs then match self_it with [] => None | c :: cs => Some (c, cs) end
             else Some (rs, self_it)) with
      | None => false
      | Some (rs1, self_it1) =>
        let m := N.min (len rs1) (len ro1) in
        if negb (text_eqb (take m rs1) (take m ro1)) then false
        else sw_full_full f self_it1 other_it1 (drop m rs1) (drop m ro1)
      end
    end
  end.

Definition pieces_of (r : rope) : list text :=
  match r with Light s => [s] | Full ps => map fst ps end.

Definition total_pieces_len (ts : list text) : nat := length (concat ts) + length ts.

Definition rope_starts_with (r v : rope) : bool :=
  match r, v with
  | Light s, Light o => is_prefix o s
  | Light s, Full qs => sw_light_full s (map fst qs)
  | Full ps, Light o => sw_full_light (map fst ps) o
  | Full ps, Full qs =>
    sw_full_full (S (S (total_pieces_len (map fst ps) + total_pieces_len (map fst qs))))
                 (map fst ps) (map fst qs) [] []
  end.

(* ---------- equality ---------- *)
(* PartialEq<Rope>: lengths first, then the two-cursor walk over chunk lists.
   State: remaining chunk lists with in-chunk offsets already applied. *)
Fixpoint eq_walk (fuel : nat) (cs os : list text) (remaining : N) : option bool :=
  match fuel with
  | O => None
  | S f =>
    if remaining =? 0 then Some true else
    match cs, os with
    | c :: cs', o :: os' =>
      let cr := len c in
      let or_ := len o in
      if cr <? or_ then
        if negb (text_eqb (take cr o) c) then Some false
        else eq_walk f cs' (drop cr o :: os') (remaining - cr)
      else if cr =? or_ then
        if negb (text_eqb c o) then Some false
        else eq_walk f cs' os' (remaining - cr)
      else
        if negb (text_eqb (take or_ c) o) then Some false
        else eq_walk f (drop or_ c :: cs') os' (remaining - or_)
    | _, _ => None     (* index out of bounds: panic *)
    end
  end.

(* None = the Rust would panic (index out of bounds) *)
Definition rope_eq (a b : rope) : option bool :=
  if negb (rope_len a =? rope_len b) then Some false else
  match a, b with
  | Light s, Light o => Some (text_eqb s o)
  | _, _ =>
    eq_walk (S (total_pieces_len (pieces_of a) + total_pieces_len (pieces_of b)))
            (pieces_of a) (pieces_of b) (rope_len a)
  end.

(* PartialEq<str> *)
Fixpoint eq_str_walk (cs : list text) (other : text) : bool :=
  match cs with
  | [] => true
  | c :: cs' => text_eqb c (take (len c) other) && eq_str_walk cs' (drop (len c) other)
  end.
Definition rope_eq_str (r : rope) (o : text) : bool :=
  if negb (rope_len r =? len o) then false else
  match r with
  | Light s => text_eqb s o
  | Full ps => eq_str_walk (map fst ps) o
  end.

(* ---------- char_indices ---------- *)
Fixpoint ci_full (ps : list (text * N)) : list (N * N) :=
  match ps with
  | [] => []
  | (c, start) :: ps' => map (fun ic => (start + fst ic, snd ic)) (char_indices c) ++ ci_full ps'
  end.
Definition rope_char_indices (r : rope) : list (N * N) :=
  match r with Light s => char_indices s | Full ps => ci_full ps end.

(* ---------- to_string / to_bytes ---------- *)
Definition rope_to_string (r : rope) : text := flat r.

(* ---------- lines ---------- *)
(* Light: memchr loop *)
Fixpoint lines_light (fuel : nat) (s : text) (trailing : bool) : list rope :=
  match fuel with
  | O => []
  | S f =>
    match s with
    | [] => if trailing then [Light []] else []
    | _ =>
      match find_nl s 0 with
      | Some idx => Light (take (idx + 1) s) :: lines_light f (drop (idx + 1) s) trailing
      | None => [Light s]
      end
    end
  end.

(* Complex: walk over chunks.  State: chunk index ci, in-chunk offset ic, byte index bi. *)
(* search for '\n' from (ci, ic): returns (end_ci, end_ic) *)
Fixpoint find_end (chunks : list text) (ci ic : N) (fuel : nat) : option (N * N) :=
  match fuel with
  | O => None
  | S f =>
    match nth_opt chunks ci with
    | None => None
    | Some c =>
      match find_nl (drop ic c) 0 with
      | Some idx => Some (ci, ic + idx + 1)
      | None => find_end chunks (ci + 1) 0 f
      end
    end
  end.

(* pieces of a line spanning chunks [sci .. eci] *)
Fixpoint span_pieces (chunks : list text) (i sci sic : N) (e : option (N * N)) (acc : N)
  : list (text * N) :=
  match chunks with
  | [] => []
  | c :: cs =>
    if i <? sci then span_pieces cs (i + 1) sci sic e acc
    else
      match e with
      | Some (eci, eic) =>
        if eci <? i then []
        else
          let p := if i =? sci then drop sic c else if i =? eci then take eic c else c in
          (p, acc) :: span_pieces cs (i + 1) sci sic e (acc + len p)
      | None =>
        let p := if i =? sci then drop sic c else c in
        (p, acc) :: span_pieces cs (i + 1) sci sic e (acc + len p)
      end
  end.

Fixpoint lines_complex (fuel : nat) (chunks : list text) (ci ic bi total : N) (trailing : bool)
  : list rope :=
  match fuel with
  | O => []
  | S f =>
    if bi =? total then (if trailing then [Light []] else [])
    else if is_nil chunks then []
    else
      match nth_opt chunks ci with
      | None => []       (* debug_assert!(chunk_idx < chunks.len()) *)
      | Some c =>
        if (ic =? len c) && (ci <? len chunks - 1) then
          lines_complex f chunks (ci + 1) 0 bi total trailing
        else
          match find_end chunks ci ic (S (length chunks)) with
          | Some (eci, eic) =>
            if ci =? eci then
              Light (slice ic eic c) :: lines_complex f chunks eci eic (bi + (eic - ic)) total trailing
            else
              let ps := span_pieces chunks 0 ci ic (Some (eci, eic)) 0 in
              Full ps :: lines_complex f chunks eci eic (bi + full_len ps) total trailing
          | None =>
            if len chunks - ci =? 1 then [Light (drop ic c)]
            else [Full (span_pieces chunks 0 ci ic None 0)]
          end
      end
  end.

Definition rope_lines_impl (r : rope) (trailing : bool) : list rope :=
  match r with
  | Light s => lines_light (S (length s)) s trailing
  | Full ps =>
    lines_complex (S (S (length (flat r) + length ps))) (map fst ps) 0 0 0 (rope_len r) trailing
  end.

Definition rope_lines (r : rope) : list rope := rope_lines_impl r true.

(* ---------- hash: pieces as separately hashed strs ---------- *)
Definition rope_hash_pieces (r : rope) : list text := pieces_of r.

(* ---------- well-formedness: what every constructor establishes ---------- *)
Fixpoint offsets_ok (ps : list (text * N)) (start : N) : bool :=
  match ps with
  | [] => true
  | (c, s) :: ps' => (s =? start) && negb (is_nil c) && offsets_ok ps' (start + len c)
  end.
Definition rope_wf (r : rope) : bool :=
  match r with
  | Light _ => true
  | Full ps => negb (is_nil ps) && offsets_ok ps 0
  end.
Definition rope_valid (r : rope) : bool := forallb valid_utf8 (pieces_of r).
