(* Rope construction programs and their two semantics: on the piece-table
   model, and on plain strings (the reference of property C16). *)
From RS Require Import Base.Prelude Base.Text Rope.RopeModel.

Inductive rprog :=
| PNew
| PFrom (t : text)
| PFromIter (ts : list text)
| PAdd (p : rprog) (t : text)
| PAppend (p q : rprog)
| PSlice (p : rprog) (a b : N)
| PLine (p : rprog) (trailing : bool) (k : N).

Fixpoint run (p : rprog) : option rope :=
  match p with
  | PNew => Some rope_new
  | PFrom t => Some (rope_from t)
  | PFromIter ts => Some (rope_from_iter ts)
  | PAdd p t => match run p with Some r => Some (rope_add r t) | None => None end
  | PAppend p q =>
    match run p, run q with Some r, Some o => Some (rope_append r o) | _, _ => None end
  | PSlice p a b =>
    match run p with
    | Some r => match rope_slice r a b with SOk r' => Some r' | _ => None end
    | None => None
    end
  | PLine p trailing k =>
    match run p with
    | Some r => nth_opt (rope_lines_impl r trailing) k
    | None => None
    end
  end.

(* ---- reference: plain strings ---- *)
Definition str_lines (s : text) (trailing : bool) : list text :=
  split_lines s ++ (if trailing && (is_nil s || ends_with_nl s) then [[]] else []).

Fixpoint run_string (p : rprog) : option text :=
  match p with
  | PNew => Some []
  | PFrom t => Some t
  | PFromIter ts => Some (concat ts)
  | PAdd p t => match run_string p with Some s => Some (s ++ t) | None => None end
  | PAppend p q =>
    match run_string p, run_string q with Some s, Some o => Some (s ++ o) | _, _ => None end
  | PSlice p a b =>
    match run_string p with
    | Some s => str_get s a b
    | None => None
    end
  | PLine p trailing k =>
    match run_string p with
    | Some s => nth_opt (str_lines s trailing) k
    | None => None
    end
  end.

(* every text literal of a program is valid UTF-8 (they are Rust `&str`) *)
Fixpoint prog_valid (p : rprog) : bool :=
  match p with
  | PNew => true
  | PFrom t => valid_utf8 t
  | PFromIter ts => forallb valid_utf8 ts
  | PAdd p t => prog_valid p && valid_utf8 t
  | PAppend p q => prog_valid p && prog_valid q
  | PSlice p _ _ => prog_valid p
  | PLine p _ _ => prog_valid p
  end.
