(* Property C10 - CachedSource is transparent for every call history.
   Statements only.  run_hops threads the store (the caches) through a history
   of observer calls on the wrapper and its clones (clones share the caches);
   fresh_answers are the answers of the freshly built wrapped source;
   answers_equiv ... = 0: text, size, end info equal, maps and streams
   attribute every position alike (file and line for columns = false). *)
From RS Require Import Base.Prelude Base.Text Stream.Types Stream.Tree Api.ApiHist Checkers.ChkHist
  Proofs.CacheStore Proofs.CacheReplay.
From RS Require Import Checkers.ChkTree Checkers.ChkCodec Codec.CodecSpec.
From RS Require Proofs.RStreamTree Proofs.FinalCache.

(* the cache is keyed by the whole option record and is write-once *)
Theorem C10_cache_keys : forall st id o v c f f',
  cache_get (store_get (store_put st id o v) id) o
  = Some (match cache_get (store_get st id) o with Some old => old | None => v end)
  /\ cache_get (store_get (store_put st id (mkOpts c f) v) id) (mkOpts (negb c) f')
     = cache_get (store_get st id) (mkOpts (negb c) f').
Proof.
  intros st id o v c f f'.
  exact (conj (store_put_get_same st id o v) (store_put_other_columns st id c f f' v)).
Qed.
Print Assumptions C10_cache_keys.

(* no computation anywhere in any tree ever changes or removes an existing cache entry *)
Theorem C10_entries_persist : forall s st o id k x,
  cache_get (store_get st id) k = Some x ->
  cache_get (store_get (snd (stream st s o)) id) k = Some x.
Proof. exact stream_store_mono. Qed.
Print Assumptions C10_entries_persist.

(* text views: identical answers, from any store, for every history *)
Theorem C10_text_views : forall id a ops st, forallb text_view ops = true ->
  run_hops st (SCached id a) ops = (fresh_answers a ops, st).
Proof. exact text_views_transparent. Qed.
Print Assumptions C10_text_views.

(* the general argument: whenever the wrapped source is Faithful (its streams are pure, end info
   exact, reassemble, the codec-and-tables lemma applies, map() attributes as the stream, and every
   map that can be cached is replayable) EVERY history on the wrapper is transparent *)
Theorem C10_transparent_if_faithful : forall id a ops, Faithful a ->
  answers_equiv (source a) ops (fst (run_hops [] (SCached id a) ops)) (fresh_answers a ops) 0 = 0.
Proof. exact cached_history_transparent. Qed.
Print Assumptions C10_transparent_if_faithful.

(* ... instantiated: a CachedSource over any raw leaf or ASCII OriginalSource, every history *)
Theorem C10_transparent_leaves_partial : forall id a ops, cache_leaf_ok a ->
  answers_equiv (source a) ops (fst (run_hops [] (SCached id a) ops)) (fresh_answers a ops) 0 = 0.
Proof. exact cached_leaf_transparent. Qed.
Print Assumptions C10_transparent_leaves_partial.

(* outside ASCII the statement is false even without a ReplaceSource (byte columns replayed as char
   columns): the K3 mechanism *)
Theorem C10_non_ascii_refuted :
  let a := SOriginal [195; 169; 59; 97] [102] in
  answers_equiv (source a) [OStream true false; OStream true false]
    (fst (run_hops [] (SCached 5 a) [OStream true false; OStream true false]))
    (fresh_answers a [OStream true false; OStream true false]) 0 = 2.
Proof. exact cached_original_utf8_counterexample. Qed.
Print Assumptions C10_non_ascii_refuted.

(* composites: a CachedSource over any tree over Raw* / Original / SourceMapSource / Concat /
   Replace whose map() is get_map (ConcatSource; ReplaceSource with replacements) is transparent
   for every history of observations with columns = true (source, buffer, size, hash, map,
   streams in both final-source modes); hypothesis: the encoder's domain (fields below 2^30) *)
Theorem C10_transparent_composites : forall id cs ops,
  RStreamTree.rshape (SConcat cs) = true -> treeA (SConcat cs) = true -> RStreamTree.rsmall (SConcat cs) = true ->
  forallb mapping_small (chunk_mappings (CacheReplay.evs_of (SConcat cs) true true)) = true ->
  forallb mapping_small (chunk_mappings (CacheReplay.evs_of (SConcat cs) true false)) = true ->
  Forall (FinalCache.hop_cols FinalCache.cols_true) ops ->
  answers_equiv (source (SConcat cs)) ops (fst (run_hops [] (SCached id (SConcat cs)) ops))
                (fresh_answers (SConcat cs) ops) 0 = 0.
Proof. exact FinalCache.cached_concat_transparent. Qed.
Print Assumptions C10_transparent_composites.

Theorem C10_transparent_composites_any_root : forall a id ops,
  RStreamTree.rshape a = true -> treeA a = true -> RStreamTree.rsmall a = true ->
  (forall st, map_of st a true = Tree.get_map st a true) ->
  forallb mapping_small (chunk_mappings (CacheReplay.evs_of a true true)) = true ->
  forallb mapping_small (chunk_mappings (CacheReplay.evs_of a true false)) = true ->
  Forall (FinalCache.hop_cols FinalCache.cols_true) ops ->
  answers_equiv (source a) ops (fst (run_hops [] (SCached id a) ops)) (fresh_answers a ops) 0 = 0.
Proof. intros a id ops H1 H2 H3 H4 H5 H6. exact (FinalCache.cached_composite_transparent a H1 H2 H3 H4 H5 H6 id ops). Qed.
Print Assumptions C10_transparent_composites_any_root.

(* ... and for EVERY history of observations (both column settings, both streaming modes, map,
   text views, hash, clones): a CachedSource over a ConcatSource, or over a ReplaceSource with
   replacements, of any trees over Raw* / Original / SourceMapSource (consistent map) / Concat /
   Replace is transparent.  Hypothesis: the encoder's domain in all four modes. *)
From RS Require Proofs.LinesCache.
Theorem C10_transparent_concat_all_histories : forall id cs ops,
  RStreamTree.rshape (SConcat cs) = true -> treeA (SConcat cs) = true -> RStreamTree.rsmall (SConcat cs) = true ->
  (forall c f, forallb mapping_small (chunk_mappings (CacheReplay.evs_of (SConcat cs) c f)) = true) ->
  answers_equiv (source (SConcat cs)) ops (fst (run_hops [] (SCached id (SConcat cs)) ops))
                (fresh_answers (SConcat cs) ops) 0 = 0.
Proof. exact LinesCache.cached_concat_transparent_all. Qed.
Print Assumptions C10_transparent_concat_all_histories.

Theorem C10_transparent_replace_all_histories : forall id i r rs ops,
  RStreamTree.rshape (SReplace i (r :: rs)) = true -> treeA (SReplace i (r :: rs)) = true ->
  RStreamTree.rsmall (SReplace i (r :: rs)) = true ->
  (forall c f, forallb mapping_small (chunk_mappings (CacheReplay.evs_of (SReplace i (r :: rs)) c f)) = true) ->
  answers_equiv (source (SReplace i (r :: rs))) ops (fst (run_hops [] (SCached id (SReplace i (r :: rs))) ops))
                (fresh_answers (SReplace i (r :: rs)) ops) 0 = 0.
Proof. exact LinesCache.cached_replace_transparent_all. Qed.
Print Assumptions C10_transparent_replace_all_histories.

(* a CachedSource over a tree that itself contains (cold) CachedSource nodes: transparent for every
   history whose map/stream calls use one option set (text views, hash, clones unrestricted); for
   histories mixing option sets the statement is FALSE of model and code - known finding K2
   (ColdCacheRoot.cached_root_two_keys_counterexample) *)
From RS Require Proofs.ColdCache Proofs.ColdCacheTree Proofs.ColdCacheRoot.
Theorem C10_transparent_nested_caches_one_key : forall id a k,
  ColdCache.ids_distinct (SCached id a) ->
  RStreamTree.rshape (ColdCache.uncache a) = true -> treeA a = true -> RStreamTree.rsmall (ColdCache.uncache a) = true ->
  ColdCacheTree.streams_map (ColdCache.uncache a) = true ->
  (forall c f, forallb mapping_small (chunk_mappings (CacheReplay.evs_of (ColdCache.uncache a) c f)) = true) ->
  forall ops, Forall (ColdCacheRoot.on_key k) ops ->
  answers_equiv (source a) ops (fst (run_hops [] (SCached id a) ops)) (fresh_answers a ops) 0 = 0.
Proof. exact ColdCacheRoot.cached_root_transparent_same_key. Qed.
Print Assumptions C10_transparent_nested_caches_one_key.

(* with hypotheses on the INPUT only (`tiny`: sizes and numbers of the tree below 2^28) *)
From RS Require Proofs.BoundsPos Proofs.BoundsAll.
Theorem C10_transparent_concat_input_bounds : forall id cs ops,
  RStreamTree.rshape (SConcat cs) = true -> treeA (SConcat cs) = true -> BoundsPos.tiny (SConcat cs) = true ->
  answers_equiv (source (SConcat cs)) ops (fst (run_hops [] (SCached id (SConcat cs)) ops))
                (fresh_answers (SConcat cs) ops) 0 = 0.
Proof. intros id cs ops. exact (BoundsAll.cached_concat_transparent_all_tiny id cs ops). Qed.
Print Assumptions C10_transparent_concat_input_bounds.

(* ---- caches NESTED inside trees, in ANY warm state, any mix of option sets: transparent as long as
   no ReplaceSource with replacements sits above a CachedSource (k2_shape = false: the bundler's
   shape Concat[Cached(..), Cached(Concat[Cached(..), ..]), ..]).  Every answer along every history
   - after any warm-up calls on inner cache nodes - attributes as the freshly built cache-free tree.
   Hypotheses on the input only. ---- *)
From RS Require Proofs.WarmTreeDefs Proofs.WarmTreeMain Proofs.WarmTreeHist.
Theorem C10_transparent_nested_warm_caches : forall s ws ops,
  ColdCache.ids_distinct s -> k2_shape s = false ->
  RStreamTree.rshape (ColdCache.uncache s) = true -> treeA s = true ->
  RStreamTree.rsmall (ColdCache.uncache s) = true -> BoundsPos.tiny (ColdCache.uncache s) = true ->
  answers_equiv (source s) ops (fst (run_hops (ApiTree.run_warm [] s ws) s ops))
                (fresh_answers (ColdCache.uncache s) ops) 0 = 0.
Proof. exact WarmTreeHist.warm_history_transparent. Qed.
Print Assumptions C10_transparent_nested_warm_caches.

(* the property in the checker's form: a CachedSource over a tree that may itself contain caches *)
Theorem C10_cached_over_caches : forall id a ops,
  ColdCache.ids_distinct (SCached id a) -> k2_shape a = false ->
  RStreamTree.rshape (ColdCache.uncache a) = true -> treeA a = true ->
  RStreamTree.rsmall (ColdCache.uncache a) = true -> BoundsPos.tiny (ColdCache.uncache a) = true ->
  let '(ans, ref) := api_chist (SCached id a) ops in
  answers_equiv (source (SCached id a)) ops ans ref 0 = 0.
Proof. exact WarmTreeHist.warm_chist_transparent. Qed.
Print Assumptions C10_cached_over_caches.

(* ---- the same for trees that ALSO contain combined-map leaves (SourceMapSource with an inner
   map): caches nested anywhere, any warm state, any mix of option sets ---- *)
From RS Require Proofs.CombLeafTree Proofs.WarmCombBounds Proofs.WarmCombHist.
Theorem C10_transparent_warm_caches_combined_leaves : forall s ws ops,
  ColdCache.ids_distinct s -> k2_shape s = false ->
  CombLeafTree.rshape2 (ColdCache.uncache s) = true -> treeA s = true ->
  RStreamTree.rsmall (ColdCache.uncache s) = true -> WarmCombBounds.tiny2 (ColdCache.uncache s) = true ->
  answers_equiv (source s) ops (fst (run_hops (ApiTree.run_warm [] s ws) s ops))
                (fresh_answers (ColdCache.uncache s) ops) 0 = 0.
Proof. exact WarmCombHist.warm_history_transparent2. Qed.
Print Assumptions C10_transparent_warm_caches_combined_leaves.

Theorem C10_cached_over_caches_combined_leaves : forall id a ops,
  ColdCache.ids_distinct (SCached id a) -> k2_shape a = false ->
  CombLeafTree.rshape2 (ColdCache.uncache a) = true -> treeA a = true ->
  RStreamTree.rsmall (ColdCache.uncache a) = true -> WarmCombBounds.tiny2 (ColdCache.uncache a) = true ->
  let '(ans, ref) := api_chist (SCached id a) ops in
  answers_equiv (source (SCached id a)) ops ans ref 0 = 0.
Proof. exact WarmCombHist.warm_chist_transparent2. Qed.
Print Assumptions C10_cached_over_caches_combined_leaves.

(* the hypotheses are satisfiable outside the old class: a combined leaf beneath a CachedSource
   beneath a ConcatSource; two cached combined leaves, a nested cache and a Replace over a cache *)
Example C10_combined_warm_nonvacuous : forall r,
  WarmCombHist.wc_hyps (WarmCombHist.wc_tree r) = (true, false, true, false, true, true, true) /\
  WarmCombHist.wc_hyps (WarmCombHist.wc_small r) = (true, false, true, false, true, true, true).
Proof. exact WarmCombHist.wc_tree_hyps. Qed.
Print Assumptions C10_combined_warm_nonvacuous.
