(* Property C08 - a SourceMapSource reproduces the attribution of the map it
   was given.  Statements only.  attr_of_map (Some m) t cols: looking every byte
   position of t up in m (greatest segment at or before it on its line; for
   columns = false the line's first mapped segment, names dropped), with
   sourceRoot applied; attr_of_stream: what the covering chunk says;
   attr_of_final_events: the text-less stream read as a segment list. *)
From RS Require Import Base.Prelude Base.Text Codec.Vlq Codec.CodecSpec Stream.Types Stream.Leaves
  Stream.Tree Api.ApiTree Sem.Attr Checkers.ChkCodec Checkers.ChkTree Proofs.AttrCodec Proofs.AttrSms.

(* columns x final-source in {true,false}^2, for every ASCII text and every map consistent with it
   (unmapped 1-field segments, several segments per line, empty lines, partial coverage,
   zero-width segments at the end of a line or of the text, every sourceRoot form) *)
Theorem C08_attribution : forall t m, ascii t = true -> map_consistent t m = true ->
  attr_of_stream (fst (sm_stream_full t m)) true = attr_of_map (Some m) t true
  /\ attr_of_stream (fst (sm_stream_lines_full t m)) false = attr_of_map (Some m) t false
  /\ attr_of_final_events (fst (sm_stream_final t m)) t true = attr_of_map (Some m) t true
  /\ attr_of_final_events (fst (sm_stream_lines_final t m)) t false = attr_of_map (Some m) t false.
Proof.
  intros t m Ha Hc.
  exact (conj (sm_full_attr t m Ha Hc) (conj (sm_lines_full_attr t m Hc)
        (conj (sm_final_attr t m Hc) (sm_lines_final_attr t m Hc)))).
Qed.
Print Assumptions C08_attribution.

(* declared sources, contents and names are exactly those of M (names only with columns) *)
Theorem C08_announcements : forall t m o, t <> [] ->
  contents_of_events (fst (sm_stream t m o)) = exp_sources m
  /\ names_of (fst (sm_stream t m o)) = if columns o then sm_names m else [].
Proof. exact sm_stream_announces. Qed.
Print Assumptions C08_announcements.

(* through map() of an enclosing source: what get_map encodes from any dense, sorted text-less
   event list attributes exactly as that event list (the codec-and-tables lemma) *)
Theorem C08_through_map : forall evs cols t, dense evs 0 0 = true -> enc_domain (chunk_mappings evs) = true ->
  attr_of_map (map_of_events cols evs) t cols = attr_of_final_events evs t cols.
Proof. intros evs cols t Hd He. apply attr_codec_dense; assumption. Qed.
Print Assumptions C08_through_map.

(* the extracted checker accepts the model's own observations of every in-domain leaf *)
Theorem C08_checker_accepts_model : forall v n m orig r,
  treeA (SMapped v n m orig None r) = true ->
  chk_C08 (SMapped v n m orig None r) (api_tree (SMapped v n m orig None r) []) = 0.
Proof. exact chk_C08_model. Qed.
Print Assumptions C08_checker_accepts_model.
