(* Property C04 - mappings point to where the text really came from.
   Statements only.  The ground truth is the independent provenance semantics
   Sem/Prov.v (no chunks, no tokens): original_prov tags every byte of an
   OriginalSource with its own (file, line, column), whether it begins a
   statement (from the documented regex) and whether it is the line break of an
   empty line. *)
From RS Require Import Base.Prelude Base.Text Stream.Types Stream.Leaves Stream.Tree Api.ApiTree
  Sem.Attr Sem.Prov Checkers.ChkTree Checkers.ChkProv Proofs.ProvTokens Proofs.ProvOriginal.

(* the tokenizer of the code and the documented statement-start rule agree on every byte string *)
Theorem C04_token_starts_are_statement_starts : forall v,
  token_starts (potential_tokens v) = stmt_starts v true false false.
Proof. exact token_starts_stmt_starts. Qed.
Print Assumptions C04_token_starts_are_statement_starts.

(* a single OriginalSource, columns = true: every mapped segment of map() starts on a byte whose
   true origin is exactly the segment's original location; every byte of line text resolves to its
   own file and line with a column not after its own, statement starts exactly *)
Theorem C04_original_columns : forall v n, len v < 1073741823 -> forall st,
  let m1 := fst (map_of st (SOriginal v n) true) in
  let tg := tagged v (original_prov v n) 1 0 in
  let segs := match m1 with Some m => rsegs_of_map m | None => [] end in
  forallb (seg_ok tg) segs = true /\ forallb (byte_ok segs) tg = true.
Proof. exact original_c04_cols. Qed.
Print Assumptions C04_original_columns.

(* columns = false: every output line is attributed to the file and line of its first original text *)
Theorem C04_original_lines : forall v n, len v < 1073741823 -> forall st,
  let m0 := fst (map_of st (SOriginal v n) false) in
  let tg := tagged v (original_prov v n) 1 0 in
  let segs0 := match m0 with Some m => rsegs_of_map m | None => [] end in
  forallb (line_ok tg segs0) tg = true.
Proof. exact original_c04_lines. Qed.
Print Assumptions C04_original_lines.

(* all clauses of the checker (incl. the sources / sourcesContent tables) on the model's own
   observations of an OriginalSource *)
Theorem C04_original_partial : forall v n, len v < 1073741823 -> ascii v = true -> ascii n = true ->
  chk_C04 (SOriginal v n) (api_tree (SOriginal v n) []) = 0.
Proof. exact original_chk_C04. Qed.
Print Assumptions C04_original_partial.

(* ---- trees: Raw* and OriginalSource leaves under ConcatSource nodes to any depth ---- *)
From RS Require Proofs.ProvConcatBytes Proofs.ProvConcatSegs Proofs.ProvConcatTables Proofs.ProvConcatLines.

(* columns = true: every mapped segment of map() starts exactly on a byte whose true origin
   (Sem/Prov.v) is the segment's original location; every original byte resolves to its own file and
   line with a column not after its own - exactly its own at statement starts -; raw text is unmapped.
   fields_small: the encoder's domain (every field of a streamed segment below 2^30) *)
Theorem C04_concat_columns : forall st s,
  ProvConcatBytes.cshape s = true -> treeA s = true -> ProvConcatBytes.fields_small st s ->
  let m1 := fst (map_of st s true) in
  let tg := tagged (source s) (prov s) 1 0 in
  let segs := match m1 with Some m => rsegs_of_map m | None => [] end in
  forallb (ChkProv.seg_ok tg) segs = true /\ forallb (byte_ok segs) tg = true.
Proof. exact ProvConcatSegs.concat_c04_cols. Qed.
Print Assumptions C04_concat_columns.

(* columns = false: every output line is attributed to the file and line of its first original text *)
Theorem C04_concat_lines : forall st s,
  ProvConcatBytes.cshape s = true -> treeA s = true -> ProvConcatLines.fields_small_lines st s ->
  let m0 := fst (map_of st s false) in
  let tg := tagged (source s) (prov s) 1 0 in
  let segs0 := match m0 with Some m => rsegs_of_map m | None => [] end in
  forallb (line_ok tg segs0) tg = true.
Proof. exact ProvConcatLines.concat_c04_lines. Qed.
Print Assumptions C04_concat_lines.

(* all clauses of the checker - including `sources` / `sourcesContent`: no duplicate, every file with
   surviving text listed with its content, None only when no original text survives - hold of the
   model's own observations of every such tree *)
Theorem C04_concat_trees : forall s,
  ProvConcatBytes.cshape s = true -> c04_domain s = true ->
  ProvConcatBytes.fields_small [] s -> ProvConcatLines.fields_small_lines [] s ->
  chk_C04 s (api_tree s []) = 0.
Proof. exact ProvConcatLines.concat_chk_C04. Qed.
Print Assumptions C04_concat_trees.

(* ---- trees that also contain ReplaceSource nodes (class pshape): Raw* / Original leaves under
   ConcatSource and ReplaceSource nodes to any depth - surviving bytes keep their origin, a cut starts a
   new piece at its own column, replacement content is free ---- *)
From RS Require Import Proofs.RStreamTree Proofs.ReplAttrTree.
From RS Require Proofs.ProvConcatBytes Proofs.ProvConcatLines Proofs.ProvReplaceBytes Proofs.ProvReplaceSegs Proofs.ProvReplaceTables.

(* columns = true, Raw* / OriginalSource leaves under ConcatSource and ReplaceSource nodes to any depth *)
Theorem C04_replace_columns : forall st s,
  ProvReplaceBytes.pshape s = true -> treeA s = true -> rsmall s = true -> csmall s = true ->
  names_determine_content (originals s) = true ->
  ProvConcatBytes.fields_small st (ProvReplaceBytes.peel s) ->
  let m1 := fst (map_of st s true) in
  let tg := tagged (source s) (prov s) 1 0 in
  let segs := match m1 with Some m => rsegs_of_map m | None => [] end in
  forallb (ChkProv.seg_ok tg) segs = true /\ forallb (byte_ok segs) tg = true.
Proof. exact ProvReplaceSegs.replace_c04_cols. Qed.
Print Assumptions C04_replace_columns.

Theorem C04_replace_trees : forall s,
  ProvReplaceBytes.pshape s = true -> c04_domain s = true -> rsmall s = true -> csmall s = true ->
  ProvConcatBytes.fields_small [] (ProvReplaceBytes.peel s) ->
  (has_replace s = false -> ProvConcatLines.fields_small_lines [] s) ->
  chk_C04 s (api_tree s []) = 0.
Proof. exact ProvReplaceTables.replace_chk_C04. Qed.
Print Assumptions C04_replace_trees.

(* trees with CachedSource nodes (none below a ReplaceSource: the checker's domain), after ANY
   warm-up calls: all clauses of the checker hold of the model; hypotheses on the input only *)
From RS Require Proofs.ColdCache Proofs.BoundsPos Proofs.ChkMoreProvWarmTables.
Theorem C04_trees_with_caches : forall s ws,
  ColdCache.ids_distinct s -> c04_domain s = true ->
  ProvReplaceBytes.pshape (ColdCache.uncache s) = true -> BoundsPos.tiny (ColdCache.uncache s) = true ->
  csmall (ColdCache.uncache s) = true -> chk_C04 s (api_tree s ws) = 0.
Proof. exact ChkMoreProvWarmTables.C04_warm_checker. Qed.
Print Assumptions C04_trees_with_caches.
