(* Property C14 - equality, hashing and cloning are coherent and
   history-independent.  Statements only.  In the model == (src_eqb) and the
   hasher stream (hash_events) are functions of the constructor data of a tree:
   caches (the store, lazily decoded strings, the sorted index) are not inputs
   of either, which is what "history-independent" means here; the
   correspondence check ties exactly that to the code by observing == and the
   recorded hasher stream after arbitrary observer histories. *)
From RS Require Import Base.Prelude Base.Text Stream.Types Stream.Replace Stream.Tree Sem.HashEq
  Sem.ReplaceObj Proofs.HashEqBasic Proofs.HashInjective Proofs.ReplaceHistory.

Theorem C14_eq_equivalence : forall a b c,
  src_eqb a a = true /\ src_eqb a b = src_eqb b a
  /\ (src_eqb a b = true -> src_eqb b c = true -> src_eqb a c = true).
Proof. intros a b c. exact (conj (src_eqb_refl a) (conj (src_eqb_sym a b) (src_eqb_trans a b c))). Qed.
Print Assumptions C14_eq_equivalence.

Theorem C14_eq_implies_hash : forall a b, src_eqb a b = true -> hash_events a = hash_events b.
Proof. exact eq_implies_hash. Qed.
Print Assumptions C14_eq_implies_hash.

Theorem C14_eq_implies_views : forall a b, src_eqb a b = true ->
  source a = source b /\ buffer a = buffer b /\ size a = size b.
Proof.
  intros a b H. destruct (eq_implies_views a b H) as [Hs Hb].
  exact (conj Hs (conj Hb (eq_implies_size a b H))).
Qed.
Print Assumptions C14_eq_implies_views.

(* sources built from the same constructor calls are equal; a clone (same constructor data,
   shared or copied caches) is equal to its original *)
Theorem C14_built_equal : forall a b, a = b -> src_eqb a b = true.
Proof. exact src_eqb_leibniz. Qed.
Print Assumptions C14_built_equal.

(* the one cache that IS read by an observer that feeds the hash: ReplaceSource hashes its sorted
   replacements through the lazily sorted index; in every reachable object state that index is
   the stable sort of the constructor data *)
Theorem C14_replace_index_history_independent : forall inner h,
  let o := fst (rrun inner robj_new h) in
  ob_sorted o = true -> ob_index o = sort_index (ob_repls o).
Proof. intros inner h. exact (InvIdx_rrun inner h robj_new InvIdx_new). Qed.
Print Assumptions C14_replace_index_history_independent.
