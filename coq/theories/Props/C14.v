(* Property C14 - equality, hashing and cloning are coherent and
   history-independent.  Statements only.  In the model == (src_eqb) and the
   hasher stream (hash_events) are functions of the constructor data of a tree:
   caches (the store, lazily decoded strings, the sorted index) are not inputs
   of either, which is what "history-independent" means here; the
   correspondence check ties exactly that to the code by observing == and the
   recorded hasher stream after arbitrary observer histories. *)
From RS Require Import Base.Prelude Base.Text Stream.Types Stream.Replace Stream.Tree Sem.HashEq
  Sem.ReplaceObj Proofs.HashEqBasic Proofs.HashInjective Proofs.ReplaceHistory.

Theorem C14_eq_equivalence : forall a b c,
  src_eqb a a = true /\ src_eqb a b = src_eqb b a
  /\ (src_eqb a b = true -> src_eqb b c = true -> src_eqb a c = true).
Proof. intros a b c. exact (conj (src_eqb_refl a) (conj (src_eqb_sym a b) (src_eqb_trans a b c))). Qed.
Print Assumptions C14_eq_equivalence.

Theorem C14_eq_implies_hash : forall a b, src_eqb a b = true -> hash_events a = hash_events b.
Proof. exact eq_implies_hash. Qed.
Print Assumptions C14_eq_implies_hash.

Theorem C14_eq_implies_views : forall a b, src_eqb a b = true ->
  source a = source b /\ buffer a = buffer b /\ size a = size b.
Proof.
  intros a b H. destruct (eq_implies_views a b H) as [Hs Hb].
  exact (conj Hs (conj Hb (eq_implies_size a b H))).
Qed.
Print Assumptions C14_eq_implies_views.

(* sources built from the same constructor calls are equal; a clone (same constructor data,
   shared or copied caches) is equal to its original *)
Theorem C14_built_equal : forall a b, a = b -> src_eqb a b = true.
Proof. exact src_eqb_leibniz. Qed.
Print Assumptions C14_built_equal.

(* the one cache that IS read by an observer that feeds the hash: ReplaceSource hashes its sorted
   replacements through the lazily sorted index; in every reachable object state that index is
   the stable sort of the constructor data *)
Theorem C14_replace_index_history_independent : forall inner h,
  let o := fst (rrun inner robj_new h) in
  ob_sorted o = true -> ob_index o = sort_index (ob_repls o).
Proof. intros inner h. exact (InvIdx_rrun inner h robj_new InvIdx_new). Qed.
Print Assumptions C14_replace_index_history_independent.

(* ---- == implies equal observations ---- *)
From RS Require Import Stream.Types Stream.Tree Api.ApiHist Checkers.ChkTree Checkers.ChkHist.
From RS Require Proofs.EqObsTree Proofs.EqObsHist.

(* what == ignores is exactly the identity of the caches *)
Theorem C14_eq_is_erasure : forall a b, src_eqb a b = true <-> EqObsTree.erase a = EqObsTree.erase b.
Proof. exact EqObsTree.E1_src_eqb_erase. Qed.
Print Assumptions C14_eq_is_erasure.

(* equal sources without caches answer every stream and map() call identically, from any store *)
Theorem C14_eq_implies_streams_and_maps : forall a b,
  has_cached a = false -> has_cached b = false -> src_eqb a b = true ->
  forall st o c, fst (stream st a o) = fst (stream st b o) /\ fst (map_of st a c) = fst (map_of st b c).
Proof. exact EqObsTree.E2_eq_no_cached_answers. Qed.
Print Assumptions C14_eq_implies_streams_and_maps.

(* with CachedSource nodes (each cache used once per tree): equal sources that have seen the same
   history of observer calls give identical answers - chunk streams, end info, maps, text views,
   hash - although their caches are different objects *)
Theorem C14_eq_implies_equal_histories : forall a b,
  src_eqb a b = true -> EqObsTree.ids_distinct a -> EqObsTree.ids_distinct b ->
  forall ops, fst (run_hops [] a ops) = fst (run_hops [] b ops).
Proof. exact EqObsHist.E4_eq_histories. Qed.
Print Assumptions C14_eq_implies_equal_histories.

(* == and the hash are functions of the constructor data alone: whatever observers ran on either
   side, == answers the same, symmetrically, before and after *)
Theorem C14_eq_observation_independent : forall a b opsa opsb,
  let o := api_pair a opsa b opsb in
  po_eq o = src_eqb a b /\ po_eq0 o = po_eq o /\ po_eqr o = po_eq o.
Proof. exact EqObsHist.E5_eq_history_independent. Qed.
Print Assumptions C14_eq_observation_independent.

(* the extracted checker accepts the model's observations of every equal pair with a common history *)
Theorem C14_checker_accepts_model : forall a b ops,
  src_eqb a b = true -> EqObsTree.same_sharing a b ->
  chk_C14_pair a b (api_pair a ops b ops) = if tree_wf a && tree_wf b then 0 else 100.
Proof. exact EqObsHist.E4_checker_accepts. Qed.
Print Assumptions C14_checker_accepts_model.

(* ---- DIFFERENT histories on the two sides ------------------------------------------------------
   Equal sources with caches nested anywhere (no ReplaceSource with replacements above a cache: K2)
   answer alike after ANY two histories, in everything the checker compares - text, bytes,
   attribution of both maps, the content carried for every referenced file, hash, == - except
   inside the class k7c_shape (known finding K7: a CachedSource whose wrapped stream announces files
   while attributing no text, or announces a content-less file before one with content), where only
   the content clauses can differ and the checker answers exactly 57.  The class was widened after
   the first attempt at this proof failed (EqDiffRefute.old_class_too_narrow). *)
From RS Require Proofs.ColdCache Proofs.WarmTreeDefs Proofs.CompWarmContInv Proofs.CompWarmLawsFull Proofs.EqDiffBase Proofs.EqDiffChk Proofs.EqDiffStrict Proofs.EqDiffRefute.
Theorem C14_eq_different_histories : forall a b opsa opsb,
  src_eqb a b = true -> ColdCache.ids_distinct a -> ColdCache.ids_distinct b ->
  WarmTreeDefs.cls a -> WarmTreeDefs.cls b ->
  let v := chk_C14_pair a b (api_pair a opsa b opsb) in
  v = 0 \/ (k7c_shape a = true /\ v = 57).
Proof. exact EqDiffStrict.D1_final. Qed.
Print Assumptions C14_eq_different_histories.

Theorem C14_eq_different_histories_outside_K7 : forall a b opsa opsb,
  src_eqb a b = true -> ColdCache.ids_distinct a -> ColdCache.ids_distinct b ->
  WarmTreeDefs.cls a -> WarmTreeDefs.cls b -> k7c_shape a = false ->
  chk_C14_pair a b (api_pair a opsa b opsb) = 0.
Proof. exact EqDiffStrict.D2_final. Qed.
Print Assumptions C14_eq_different_histories_outside_K7.

(* the class is needed (the finding), and it contains the class first registered *)
Theorem C14_K7_class_needed : ~ (forall a b opsa opsb,
  src_eqb a b = true -> ColdCache.ids_distinct a -> ColdCache.ids_distinct b ->
  WarmTreeDefs.cls a -> WarmTreeDefs.cls b ->
  CompWarmLawsFull.consistentb (CompWarmContInv.decl a) = true ->
  chk_C14_pair a b (api_pair a opsa b opsb) = 0).
Proof. exact EqDiffRefute.D2_needs_class. Qed.
Print Assumptions C14_K7_class_needed.

Theorem C14_K7_class_widened : forall s, k7_shape s = true -> k7c_shape s = true.
Proof. exact EqDiffStrict.k7_k7c. Qed.
Print Assumptions C14_K7_class_widened.
