(* Property C18 - concurrent readers get sequential answers; cached maps are
   never replaced.  Statements only, about the interleaving semantics Sem/Conc.v
   (one step = one shared-state access at a schedule point of hook H3; SeqCst
   atomics, the Mutex-protected index and DashMap get / entry / or_insert are
   atomic steps).  Any number of threads, any programs, any schedule. *)
From RS Require Import Base.Prelude Base.Text Stream.Types Stream.Replace Sem.ReplaceObj Sem.Conc Sem.ConcLock.
From RS Require Proofs.ConcReplace Proofs.ConcCached Proofs.ConcLockProofs.

(* ReplaceSource, lazily sorted index: every observer under every interleaving renders with the
   index a single thread would compute *)
Theorem C18_replace_sequential : forall rs init_index init_flag progs sched,
  (init_flag = true -> init_index = sort_index rs) ->
  let '(sh, ts) := replace_run true rs init_index init_flag progs sched in
  Forall (fun t => Forall (fun r => rr_view r = sort_index rs) (rt_results t)) ts.
Proof. exact ConcReplace.C18_replace_sequential. Qed.
Print Assumptions C18_replace_sequential.

(* a clone taken while other threads are reading satisfies the object invariant, and so does the
   shared object at the end *)
Theorem C18_clone_and_final_state : forall rs init_index init_flag progs sched,
  (init_flag = true -> init_index = sort_index rs) ->
  let '(sh, ts) := replace_run true rs init_index init_flag progs sched in
  Forall (fun t => Forall (fun r => forall c, rr_clone r = Some c ->
                                    sh_flag c = true -> sh_index c = sort_index rs) (rt_results t)) ts
  /\ (sh_flag sh = true -> sh_index sh = sort_index rs).
Proof.
  intros rs init_index init_flag progs sched H.
  pose proof (ConcReplace.C18_clone_invariant rs init_index init_flag progs sched H) as A.
  pose proof (ConcReplace.C18_final_shared rs init_index init_flag progs sched H) as B.
  destruct (replace_run true rs init_index init_flag progs sched) as [sh ts].
  exact (conj A (proj1 B)).
Qed.
Print Assumptions C18_clone_and_final_state.

(* no call gets stuck: every thread finishes every operation of its program *)
Theorem C18_replace_terminates : forall fixed_f9 rs init_index init_flag progs sched,
  let '(sh, ts) := replace_run fixed_f9 rs init_index init_flag progs sched in
  Forall2 (fun ops t => rt_pc t = RDone /\ rt_ops t = [] /\ length (rt_results t) = length ops) progs ts.
Proof. exact ConcReplace.C18_replace_terminates. Qed.
Print Assumptions C18_replace_terminates.

(* the pinned clone order (index, then flag) is refuted by a schedule: fixed by commit F9 *)
Theorem C18_clone_pinned_refuted :
  exists rs init_index progs sched,
    let '(sh, ts) := replace_run false rs init_index false progs sched in
    exists t r c, In t ts /\ In r (rt_results t) /\ rr_clone r = Some c /\
                  sh_flag c = true /\ sh_index c <> sort_index rs.
Proof. exact ConcReplace.C18_clone_pinned_refuted. Qed.
Print Assumptions C18_clone_pinned_refuted.

(* CachedSource: once a map is cached for an option set the entry (its storage identity) is never
   removed or replaced, under both fill paths and replay, in every interleaving *)
Theorem C18_write_once : forall progs sched,
  let '(sh, ts, hist) := cached_run true progs sched in
  write_once_from [] hist = true
  /\ (forall c, In c hist -> forall k id, cget c k = Some id -> cget (cs_cache sh) k = Some id).
Proof.
  intros progs sched.
  pose proof (ConcCached.C18_write_once progs sched) as A.
  pose proof (ConcCached.C18_write_once_all_keys progs sched) as B.
  destruct (cached_run true progs sched) as [[sh ts] hist].
  exact (conj A (proj2 B)).
Qed.
Print Assumptions C18_write_once.

(* every operation is served from the entry in force for its key, and every thread finishes *)
Theorem C18_served_in_force : forall progs sched,
  let '(sh, ts, hist) := cached_run true progs sched in
  Forall2 (fun ops t =>
             ct_pc t = CDone /\ ct_ops t = [] /\ length (ct_served t) = length ops /\
             Forall2 (fun o id => cget (cs_cache sh) (ckey o) = Some id) ops (ct_served t))
          progs ts.
Proof. exact ConcCached.C18_served_in_force. Qed.
Print Assumptions C18_served_in_force.

(* the pinned insert() in map() replaces an entry: fixed by commit F8 *)
Theorem C18_write_once_pinned_refuted : exists progs sched,
  let '(sh, ts, hist) := cached_run false progs sched in write_once_from [] hist = false.
Proof. exact ConcCached.C18_write_once_pinned_refuted. Qed.
Print Assumptions C18_write_once_pinned_refuted.

(* ---- the critical section of the stream fill path made visible (Sem/ConcLock.v): acquire at
   stream_entry, store-and-release at stream_insert, every other access blocks meanwhile ---- *)

(* write-once also holds at this finer granularity, for all programs and schedules *)
Theorem C18_locked_write_once : forall progs sched,
  let '(sh, ts, hist) := locked_run true progs sched in
  write_once_from [] hist = true
  /\ (forall c, In c hist -> forall k id, cget c k = Some id -> cget (cs_cache (ls_c sh)) k = Some id).
Proof. exact ConcLockProofs.locked_write_once. Qed.
Print Assumptions C18_locked_write_once.

(* no call gets stuck although threads block on the lock: every thread finishes its program and
   was served from the entry in force *)
Theorem C18_locked_served_in_force : forall progs sched,
  let '(sh, ts, hist) := locked_run true progs sched in
  Forall2 (fun ops t =>
             lt_pc t = LDone /\ lt_ops t = [] /\ length (lt_served t) = length ops /\
             Forall2 (fun o id => cget (cs_cache (ls_c sh)) (ckey o) = Some id) ops (lt_served t))
          progs ts.
Proof. exact ConcLockProofs.locked_served_in_force. Qed.
Print Assumptions C18_locked_served_in_force.

(* every outcome of the locking semantics is an outcome of the atomic semantics above: the
   critical section is linearisable *)
Theorem C18_locked_linearisable : forall progs sched, exists sched',
  let '(sh, ts, _) := locked_run true progs sched in
  let '(sh', ts', _) := cached_run true progs sched' in
  cs_cache (ls_c sh) = cs_cache sh' /\ map lt_served ts = map ct_served ts' /\ map lt_fill ts = map ct_fill ts'.
Proof. exact ConcLockProofs.locked_linearisable. Qed.
Print Assumptions C18_locked_linearisable.

(* a fill path that does not keep the shard locked and stores with insert() replaces an entry
   (the seeded change C18-stream-fill-unlocked-insert is this) *)
Theorem C18_unlocked_fill_refuted : exists progs sched,
  let '(sh, ts, hist) := locked_run false progs sched in write_once_from [] hist = false.
Proof. exact ConcLockProofs.unlocked_fill_refuted. Qed.
Print Assumptions C18_unlocked_fill_refuted.

(* ---- free-running observers (no scheduler): Sem/ConcFree.v ------------------------------------ *)
From RS Require Import Stream.Tree Api.ApiHist Sem.ConcFree Sem.HashEq Checkers.ChkHist Checkers.ChkTree.
From RS Require Proofs.ConcFreeProofs Proofs.ColdCache Proofs.RStreamTree Proofs.BoundsPos Proofs.WarmTreeHist.

(* on a tree without CachedSource nodes (RawSource / RawBufferSource with their lazy decode,
   OriginalSource, SourceMapSource, ConcatSource, ReplaceSource with its lazy sort) every thread,
   under EVERY interleaving of whole observer calls, gets the answers of fresh objects *)
Theorem C18_free_running_observers : forall s, has_cached s = false ->
  forall (l : list (nat * hop)) (tid : nat),
    thread_view tid (fst (run_tagged [] s l)) = fresh_answers s (thread_view tid l).
Proof. exact ConcFreeProofs.free_running. Qed.
Print Assumptions C18_free_running_observers.

Theorem C18_free_running_programs : forall s progs, has_cached s = false ->
  forall l, interleaving_of progs l ->
  forall tid, thread_view tid (fst (run_tagged [] s l)) = fresh_answers s (nth tid progs []).
Proof. exact ConcFreeProofs.free_running_programs. Qed.
Print Assumptions C18_free_running_programs.

(* not vacuous: running the threads one after the other is an interleaving of the programs *)
Theorem C18_thread_major_is_interleaving : forall progs, interleaving_of progs (thread_major 0 progs).
Proof. exact ConcFreeProofs.thread_major_interleaving. Qed.
Print Assumptions C18_thread_major_is_interleaving.

(* with CachedSource nodes anywhere (any warm state reached by the interleaving itself), outside the
   K2 shape: every call of every interleaving attributes as the freshly built cache-free tree *)
Theorem C18_free_running_with_caches : forall s l,
  ColdCache.ids_distinct s -> k2_shape s = false ->
  RStreamTree.rshape (ColdCache.uncache s) = true -> treeA s = true ->
  RStreamTree.rsmall (ColdCache.uncache s) = true -> BoundsPos.tiny (ColdCache.uncache s) = true ->
  answers_equiv (source s) (map snd l) (map snd (fst (run_tagged [] s l)))
                (fresh_answers (ColdCache.uncache s) (map snd l)) 0 = 0.
Proof.
  intros s l H1 H2 H3 H4 H5 H6.
  rewrite (proj1 (ConcFreeProofs.run_tagged_hops s l [])).
  exact (WarmTreeHist.warm_history_transparent s [] (map snd l) H1 H2 H3 H4 H5 H6).
Qed.
Print Assumptions C18_free_running_with_caches.
