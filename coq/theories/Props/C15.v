(* Property C15 - SourceMap JSON serialisation is valid and round-trips.
   Statements only, about Sem/Json.v: the independent JSON reader `parse`, the
   printer `print`, and the SourceMap schema `to_doc` / `of_doc`.  Escaping and
   parsing inside simd-json/serde is third-party code: it is tied to this model
   by the correspondence check only (the Coq reader must accept the bytes the
   crate writes and read the same fields; the crate must read what the model
   reads). *)
From RS Require Import Base.Prelude Base.Text Sem.Json Proofs.JsonParse Proofs.JsonSchema.

(* the reader inverts the printer on every value: arbitrary bytes in strings and keys - quotes,
   backslashes, control characters, U+2028/2029, astral characters *)
Theorem C15_parse_print : forall v, wf_json v -> parse (print v) = Some v.
Proof. exact parse_print. Qed.
Print Assumptions C15_parse_print.

(* SourceMap -> document -> SourceMap: all fields equal, sourcesContent dropped exactly when all
   its entries are empty *)
Theorem C15_schema_roundtrip : forall m,
  match parse (print (to_doc m)) with Some d => of_doc d | None => None end = Some (norm_map m).
Proof. exact json_roundtrip. Qed.
Print Assumptions C15_schema_roundtrip.

Theorem C15_sources_content_rule : forall m,
  (sm_contents (norm_map m) = [] <-> all_empty (sm_contents m) = true)
  /\ (all_empty (sm_contents m) = false -> norm_map m = m)
  /\ norm_map (norm_map m) = norm_map m.
Proof. intros m. exact (conj (norm_map_contents_nil m) (conj (norm_map_id m) (norm_map_idem m))). Qed.
Print Assumptions C15_sources_content_rule.

(* reading documents: insensitive to key order and unknown keys; null entries read as "" *)
Theorem C15_reading : forall m l', Permutation.Permutation (doc_fields m) l' ->
  of_doc (JObj l') = Some (norm_map m).
Proof. exact of_doc_reordered. Qed.
Print Assumptions C15_reading.

Theorem C15_nulls : forall xs : list (option text),
  strings_or_null (map (fun o => match o with Some s => JStr s | None => JNull end) xs)
  = Some (map (fun o => match o with Some s => s | None => [] end) xs).
Proof. exact strings_or_null_opts. Qed.
Print Assumptions C15_nulls.
