(* Property C13 - composition laws: nesting, neutral elements and wrappers
   change nothing.  Statements only.  dshape: trees over Raw* / Original /
   SourceMapSource (consistent map) / Concat / Replace-without-replacements. *)
From RS Require Import Base.Prelude Base.Text Stream.Types Stream.Tree Sem.Attr
  Proofs.LawConcatAttr Proofs.LawWrappers.

(* typed nesting (ConcatSource::new / add of ConcatSource values) is flattening: every observation
   is identical *)
Theorem C13_typed_nesting : forall st o cols xs ys cs,
  stream st (concat_new (xs ++ ITyped cs :: ys)) o = stream st (concat_new (xs ++ map IBoxed cs ++ ys)) o /\
  map_of st (concat_new (xs ++ ITyped cs :: ys)) cols = map_of st (concat_new (xs ++ map IBoxed cs ++ ys)) cols /\
  source (concat_new (xs ++ ITyped cs :: ys)) = source (concat_new (xs ++ map IBoxed cs ++ ys)).
Proof. intros st o cols xs ys cs. exact (concat_new_typed_flat_obs st o cols xs ys cs). Qed.
Print Assumptions C13_typed_nesting.

(* boxed nesting, left and right: same chunk texts and same attribution of every position *)
Theorem C13_boxed_nesting : forall st a b c cols cl,
  dshape a = true -> dshape b = true -> dshape c = true ->
  attr_of_stream (evs_of (stream st (SConcat [a; SConcat [b; c]]) (mkOpts cols false))) cl
  = attr_of_stream (evs_of (stream st (SConcat [a; b; c]) (mkOpts cols false))) cl /\
  attr_of_stream (evs_of (stream st (SConcat [SConcat [a; b]; c]) (mkOpts cols false))) cl
  = attr_of_stream (evs_of (stream st (SConcat [a; b; c]) (mkOpts cols false))) cl /\
  chunk_texts (evs_of (stream st (SConcat [a; SConcat [b; c]]) (mkOpts cols false)))
  = chunk_texts (evs_of (stream st (SConcat [a; b; c]) (mkOpts cols false))) /\
  chunk_texts (evs_of (stream st (SConcat [SConcat [a; b]; c]) (mkOpts cols false)))
  = chunk_texts (evs_of (stream st (SConcat [a; b; c]) (mkOpts cols false))).
Proof. exact concat_nest_tree. Qed.
Print Assumptions C13_boxed_nesting.

(* a single-child ConcatSource is its child *)
Theorem C13_single_child : forall st a o,
  stream st (SConcat [a]) o = stream st a o /\ source (SConcat [a]) = source a.
Proof. intros st a o. exact (conj (concat_single_stream st a o) (concat_single_source a)). Qed.
Print Assumptions C13_single_child.

(* concatenation with empty sources (five kinds of empty leaf) *)
Theorem C13_empty_neighbours : forall st e a e' cols cl,
  empty_leaf e = true -> empty_leaf e' = true -> dshape a = true ->
  attr_of_stream (evs_of (stream st (SConcat [e; a; e']) (mkOpts cols false))) cl
  = attr_of_stream (evs_of (stream st a (mkOpts cols false))) cl /\
  chunk_texts (evs_of (stream st (SConcat [e; a; e']) (mkOpts cols false)))
  = chunk_texts (evs_of (stream st a (mkOpts cols false))) /\
  source (SConcat [e; a; e']) = source a.
Proof. exact concat_empty_neighbours_tree. Qed.
Print Assumptions C13_empty_neighbours.

(* a ReplaceSource without replacements *)
Theorem C13_replace_none : forall st a cols c,
  map_of st (SReplace a []) cols = map_of st a cols /\ source (SReplace a []) = source a /\
  (dshape a = true ->
   attr_of_stream (evs_of (stream st (SReplace a []) (mkOpts cols false))) c
   = attr_of_stream (evs_of (stream st a (mkOpts cols false))) c).
Proof.
  intros st a cols c.
  exact (conj (replace_nil_map st a cols) (conj (replace_nil_source a) (replace_nil_stream_attr_tree st a cols c))).
Qed.
Print Assumptions C13_replace_none.

(* a CachedSource whose cache is cold is the wrapped source (later calls: property C10) *)
Theorem C13_cached_cold : forall st id a o cols,
  (cache_get (store_get st id) o = None -> fst (stream st (SCached id a) o) = fst (stream st a o)) /\
  (has_id id a = false -> cache_get (store_get st id) (mkOpts cols false) = None ->
   fst (map_of st (SCached id a) cols) = fst (map_of st a cols)).
Proof.
  intros st id a o cols.
  exact (conj (cached_cold_stream st id a o) (cached_cold_map_tree st id a cols)).
Qed.
Print Assumptions C13_cached_cold.

(* boxed nesting through map() (columns = true), ReplaceSource children with replacements included:
   the nested and the flat ConcatSource have the same source() and their maps attribute every byte
   alike and are None together.  `good`: a tree over Raw* / Original / SourceMapSource (consistent
   map) / Concat / Replace with positions below 2^32; `small_final`: encoder domain (fields < 2^30) *)
From RS Require Import Checkers.ChkTree.
From RS Require Proofs.RStreamTree Proofs.LawMaps.
Theorem C13_boxed_nesting_map : forall st a b c,
  let F := SConcat [a; b; c] in
  let R := SConcat [a; SConcat [b; c]] in
  let L := SConcat [SConcat [a; b]; c] in
  LawMaps.good F -> LawMaps.good R -> LawMaps.good L ->
  LawMaps.small_final st F -> LawMaps.small_final st R -> LawMaps.small_final st L ->
  attr_of_map (fst (get_map st R true)) (source R) true = attr_of_map (fst (get_map st F true)) (source F) true /\
  attr_of_map (fst (get_map st L true)) (source L) true = attr_of_map (fst (get_map st F true)) (source F) true /\
  is_none (fst (get_map st R true)) = is_none (fst (get_map st F true)) /\
  is_none (fst (get_map st L true)) = is_none (fst (get_map st F true)).
Proof. exact LawMaps.boxed_nesting_map. Qed.
Print Assumptions C13_boxed_nesting_map.

(* the stream-level nesting law for the same class (it was stated above for `dshape` trees only) *)
Theorem C13_boxed_nesting_any : forall st a b c cols cl,
  RStreamTree.rshape (SConcat [a; b; c]) = true -> treeA (SConcat [a; b; c]) = true ->
  attr_of_stream (evs_of (stream st (SConcat [a; SConcat [b; c]]) (mkOpts cols false))) cl
  = attr_of_stream (evs_of (stream st (SConcat [a; b; c]) (mkOpts cols false))) cl /\
  attr_of_stream (evs_of (stream st (SConcat [SConcat [a; b]; c]) (mkOpts cols false))) cl
  = attr_of_stream (evs_of (stream st (SConcat [a; b; c]) (mkOpts cols false))) cl.
Proof. exact LawMaps.concat_nest_any. Qed.
Print Assumptions C13_boxed_nesting_any.

(* ... and with columns = false *)
Theorem C13_boxed_nesting_map_lines : forall st a b c,
  let F := SConcat [a; b; c] in
  let R := SConcat [a; SConcat [b; c]] in
  let L := SConcat [SConcat [a; b]; c] in
  LawMaps.good F -> LawMaps.good R -> LawMaps.good L ->
  LawMaps.small_final_lines st F -> LawMaps.small_final_lines st R -> LawMaps.small_final_lines st L ->
  attr_of_map (fst (get_map st R false)) (source R) false = attr_of_map (fst (get_map st F false)) (source F) false /\
  attr_of_map (fst (get_map st L false)) (source L) false = attr_of_map (fst (get_map st F false)) (source F) false /\
  is_none (fst (get_map st R false)) = is_none (fst (get_map st F false)) /\
  is_none (fst (get_map st L false)) = is_none (fst (get_map st F false)).
Proof. exact LawMaps.boxed_nesting_map_lines. Qed.
Print Assumptions C13_boxed_nesting_map_lines.

(* empty neighbours and a single child through map(), both column settings *)
Theorem C13_empty_neighbours_map : forall st e a e' c,
  empty_leaf e = true -> empty_leaf e' = true ->
  LawMaps.good (SConcat [e; a; e']) -> LawMaps.good a ->
  LawMaps.small_final_c st (SConcat [e; a; e']) c -> LawMaps.small_final_c st a c ->
  source (SConcat [e; a; e']) = source a /\
  attr_of_map (fst (get_map st (SConcat [e; a; e']) c)) (source a) c = attr_of_map (fst (get_map st a c)) (source a) c /\
  is_none (fst (get_map st (SConcat [e; a; e']) c)) = is_none (fst (get_map st a c)).
Proof. exact LawMaps.empty_neighbours_map. Qed.
Print Assumptions C13_empty_neighbours_map.

Theorem C13_single_child_map : forall st a c, get_map st (SConcat [a]) c = get_map st a c.
Proof. exact LawMaps.single_child_map. Qed.
Print Assumptions C13_single_child_map.

(* boxed nesting through map() with hypotheses on the INPUT only *)
From RS Require Proofs.BoundsPos Proofs.BoundsAll.
Theorem C13_boxed_nesting_map_input_bounds : forall a b c st,
  RStreamTree.rshape (SConcat [a; b; c]) = true -> treeA (SConcat [a; b; c]) = true ->
  BoundsPos.tiny (SConcat [a; b; c]) = true ->
  attr_of_map (fst (get_map st (SConcat [a; SConcat [b; c]]) true)) (source (SConcat [a; SConcat [b; c]])) true
  = attr_of_map (fst (get_map st (SConcat [a; b; c]) true)) (source (SConcat [a; b; c])) true /\
  attr_of_map (fst (get_map st (SConcat [SConcat [a; b]; c]) true)) (source (SConcat [SConcat [a; b]; c])) true
  = attr_of_map (fst (get_map st (SConcat [a; b; c]) true)) (source (SConcat [a; b; c])) true /\
  is_none (fst (get_map st (SConcat [a; SConcat [b; c]]) true)) = is_none (fst (get_map st (SConcat [a; b; c]) true)) /\
  is_none (fst (get_map st (SConcat [SConcat [a; b]; c]) true)) = is_none (fst (get_map st (SConcat [a; b; c]) true)).
Proof. exact BoundsAll.boxed_nesting_map_tiny. Qed.
Print Assumptions C13_boxed_nesting_map_input_bounds.

(* the wrapper law in WARM states: a CachedSource around `a` (which may contain caches itself)
   answers as `a`, after arbitrary and independent observer histories on the two sides - the
   extracted checker's strict verdict is 0.  Hypothesis beyond the class: one content per declared
   file name (without it the statement is false: CompWarmLaws.cached_law_contents_counterexample,
   the K7 mechanism; the entry point answers "out of domain" for such inputs) *)
From RS Require Proofs.ColdCache Proofs.CompWarmContInv Proofs.CompWarmLawsFull.
From RS Require Import Checkers.ChkHist Api.ApiHist.
Theorem C13_cached_warm : forall id a opsa opsb,
  ColdCache.ids_distinct (SCached id a) -> k2_shape a = false ->
  RStreamTree.rshape (ColdCache.uncache a) = true -> treeA a = true ->
  BoundsPos.tiny (ColdCache.uncache a) = true ->
  CompWarmLawsFull.consistentb (CompWarmContInv.decl a) = true ->
  chk_C13 (SCached id a) a false (api_pair (SCached id a) opsa a opsb) = 0.
Proof. exact CompWarmLawsFull.C13_cached_warm_checker. Qed.
Print Assumptions C13_cached_warm.

(* a ReplaceSource whose replacements are all EMPTY insertions behaves as its inner source: same
   text; the stream and map() attribute every byte to the same file, line and name, with the
   column refined (a cut piece is re-based to its own column where the recorded content matches) -
   the extracted checker's relaxed verdict is 0 after arbitrary histories on both sides *)
From RS Require Proofs.EmptyReplText Proofs.EmptyReplTree.
Theorem C13_replace_only_empty_insertions : forall inner rs opsa opsb,
  RStreamTree.rshape inner = true -> treeA (SReplace inner rs) = true ->
  EmptyReplText.empties rs = true -> BoundsPos.tiny (SReplace inner rs) = true ->
  chk_C13 (SReplace inner rs) inner true (api_pair (SReplace inner rs) opsa inner opsb) = 0.
Proof. exact EmptyReplTree.C13_replace_empties. Qed.
Print Assumptions C13_replace_only_empty_insertions.

(* ---- the extracted checker accepts the model for every law, after ARBITRARY observer histories
   on the two sides (cache-free trees: Raw*/Original/SMS/Concat/Replace; ASCII; input bounds) ---- *)
From RS Require Proofs.LawChkBase Proofs.LawChkLaws Proofs.LawChkFirst Proofs.LawChkExample.
Theorem C13_checker_boxed_nesting : forall a b c opsa opsb,
  RStreamTree.rshape (SConcat [a; b; c]) = true -> treeA (SConcat [a; b; c]) = true ->
  BoundsPos.tiny (SConcat [a; b; c]) = true ->
  chk_C13 (SConcat [a; SConcat [b; c]]) (SConcat [a; b; c]) false
          (api_pair (SConcat [a; SConcat [b; c]]) opsa (SConcat [a; b; c]) opsb) = 0 /\
  chk_C13 (SConcat [SConcat [a; b]; c]) (SConcat [a; b; c]) false
          (api_pair (SConcat [SConcat [a; b]; c]) opsa (SConcat [a; b; c]) opsb) = 0.
Proof. exact LawChkFirst.C13_boxed_nesting_checker_any. Qed.
Print Assumptions C13_checker_boxed_nesting.

Theorem C13_checker_single_child : forall a opsa opsb,
  RStreamTree.rshape a = true -> treeA a = true -> BoundsPos.tiny a = true ->
  CompWarmLawsFull.consistentb (CompWarmContInv.decl a) = true ->
  chk_C13 (SConcat [a]) a false (api_pair (SConcat [a]) opsa a opsb) = 0.
Proof. exact LawChkLaws.C13_single_child_checker. Qed.
Print Assumptions C13_checker_single_child.

(* one content per file name is needed over the WHOLE left side: an empty OriginalSource announces
   its file with content "" (refuted otherwise: C13_checker_empty_neighbours_needs_domain; the
   extracted entry point guards with names_determine_content) *)
Theorem C13_checker_empty_neighbours : forall e a e' opsa opsb,
  empty_leaf e = true -> empty_leaf e' = true ->
  RStreamTree.rshape (SConcat [e; a; e']) = true -> treeA (SConcat [e; a; e']) = true ->
  BoundsPos.tiny (SConcat [e; a; e']) = true ->
  CompWarmLawsFull.consistentb (CompWarmContInv.decl (SConcat [e; a; e'])) = true ->
  chk_C13 (SConcat [e; a; e']) a false (api_pair (SConcat [e; a; e']) opsa a opsb) = 0.
Proof. exact LawChkLaws.C13_empty_neighbours_checker_full. Qed.
Print Assumptions C13_checker_empty_neighbours.

Theorem C13_checker_empty_neighbours_needs_domain :
  exists e a e' opsa opsb, empty_leaf e = true /\ empty_leaf e' = true /\
    RStreamTree.rshape (SConcat [e; a; e']) = true /\ treeA (SConcat [e; a; e']) = true /\
    BoundsPos.tiny (SConcat [e; a; e']) = true /\
    CompWarmLawsFull.consistentb (CompWarmContInv.decl a) = true /\
    chk_C13 (SConcat [e; a; e']) a false (api_pair (SConcat [e; a; e']) opsa a opsb) <> 0.
Proof. exact LawChkExample.empty_neighbours_law_refuted_without_neighbour_contents. Qed.
Print Assumptions C13_checker_empty_neighbours_needs_domain.

Theorem C13_checker_replace_none : forall a opsa opsb,
  has_cached a = false -> treeA a = true ->
  chk_C13 (SReplace a []) a false (api_pair (SReplace a []) opsa a opsb) = 0.
Proof. exact LawChkLaws.C13_replace_none_checker_free. Qed.
Print Assumptions C13_checker_replace_none.

Theorem C13_checker_typed_nesting : forall xs ys cs opsa opsb,
  let T := concat_new (xs ++ ITyped cs :: ys) in
  let B := concat_new (xs ++ map IBoxed cs ++ ys) in
  has_cached B = false -> treeA B = true ->
  chk_C13 T B false (api_pair T opsa B opsb) = 0.
Proof. exact LawChkLaws.C13_typed_nesting_checker_free. Qed.
Print Assumptions C13_checker_typed_nesting.
