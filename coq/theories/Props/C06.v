(* Property C06 - composites preserve what their children attribute.
   Statements only.  dense evs 0 0: announcements take the next free index and
   every chunk index was announced before (what every stream of the model does,
   LawWrappers.dense_tree / C11_stream). *)
From RS Require Import Base.Prelude Base.Text Stream.Types Stream.Concat Stream.Tree Sem.Attr
  Checkers.ChkComp Proofs.StreamConcat Proofs.AttrCodec Proofs.LawConcatAttr Proofs.LawWrappers.
From RS Require Import Stream.Replace Checkers.ChkTree Proofs.StreamText Proofs.RStreamTree.
From RS Require Proofs.ReplAttrStream Proofs.ReplAttrOrigin Proofs.ReplAttrCols Proofs.ReplAttrTree.

(* ConcatSource, columns = true: every position inside the text contributed by child k is attributed
   to the same file name, line, column and name as child k attributes it on its own *)
Theorem C06_concat : forall kids : list (list event * (N * N)),
  Forall (fun k => dense (fst k) 0 0 = true) kids ->
  attr_of_stream (snd (concat_fold false kids (concat_init, []))) true
  = flat_map (fun k => attr_of_stream (fst k) true) kids.
Proof. exact concat_attr_cols. Qed.
Print Assumptions C06_concat.

(* ... and every file keeps its content (a shared name carrying the same content everywhere),
   in both streaming modes *)
Theorem C06_concat_contents : forall final (kids : list (list event * (N * N))),
  Forall (fun k => dense (fst k) 0 0 = true) kids ->
  bindings_consistent (flat_map contents_of_events (map fst kids)) = true ->
  contents_preserved (snd (concat_fold final kids (concat_init, []))) (map fst kids) = true.
Proof. exact concat_contents_preserved. Qed.
Print Assumptions C06_concat_contents.

(* on source trees: the checker's ConcatSource clauses hold of the model, and the composite's own
   stream is dense again, so the statement nests to any depth *)
Theorem C06_concat_tree : forall st cs, length cs <> 1%nat ->
  let kids := fst (kid_streams st cs (mkOpts true false)) in
  let comp := fst (fst (stream st (SConcat cs) (mkOpts true false))) in
  Forall (fun k => dense (fst k) 0 0 = true) kids ->
  list_eqb_attr attr_eqb (attr_of_stream comp true) (concat_expected (map fst kids)) = true /\
  (bindings_consistent (flat_map contents_of_events (map fst kids)) = true ->
   contents_preserved comp (map fst kids) = true) /\
  dense comp 0 0 = true.
Proof. exact concat_tree_C06. Qed.
Print Assumptions C06_concat_tree.

(* ReplaceSource with no replacement preserves the inner attribution byte for byte *)
Theorem C06_replace_identity_partial : forall st a cols c, dshape a = true ->
  attr_of_stream (evs_of (stream st (SReplace a []) (mkOpts cols false))) c
  = attr_of_stream (evs_of (stream st a (mkOpts cols false))) c.
Proof. exact replace_nil_stream_attr_tree. Qed.
Print Assumptions C06_replace_identity_partial.

(* ---- ReplaceSource, the chunk state machine against the byte-level reference of Checkers/ChkComp.v
   (schedule of replacements with emission points, pieces whose column is re-based only where the
   recorded original content equals the text, the name rule) ---- *)

(* origin: every surviving inner byte keeps the (file, line) its inner chunk gave it, every byte of a
   replacement's content gets the (file, line) in force at its emission point - for ANY inner stream
   that reassembles a text, announces densely and carries no empty chunk, and any replacements with
   start <= end (overlapping, nested, beyond the end) *)
Theorem C06_replace_origin : forall rs ievs T gi,
  Forall (fun r => r_start r <= r_end r) rs ->
  reassembles ievs T = true -> ReplAttrStream.no_empty_chunks ievs = true -> dense ievs 0 0 = true ->
  map ReplAttrOrigin.fl (attr_of_stream (fst (replace_stream (sort_repls rs) ievs gi)) true)
  = map ReplAttrOrigin.fl (replace_reference ievs rs).
Proof. exact ReplAttrOrigin.replace_attr_origin. Qed.
Print Assumptions C06_replace_origin.

(* the full attribution (file, line, column, name), when in addition a file name carries the same
   content everywhere and every recorded content is shorter than 2^32 bytes (u32 columns); the
   ReplaceSource's own stream is again dense and free of empty chunks, so the statement nests *)
Theorem C06_replace_full : forall rs ievs T gi,
  Forall (fun r => r_start r <= r_end r) rs ->
  reassembles ievs T = true -> ReplAttrStream.no_empty_chunks ievs = true -> dense ievs 0 0 = true ->
  bindings_consistent (contents_of_events ievs) = true -> ReplAttrCols.contents_small ievs = true ->
  attr_of_stream (fst (replace_stream (sort_repls rs) ievs gi)) true = replace_reference ievs rs /\
  dense (fst (replace_stream (sort_repls rs) ievs gi)) 0 0 = true /\
  ReplAttrStream.no_empty_chunks (fst (replace_stream (sort_repls rs) ievs gi)) = true.
Proof. exact ReplAttrCols.replace_attr_full. Qed.
Print Assumptions C06_replace_full.

(* on source trees: a ReplaceSource over any tree over Raw* / Original / SourceMapSource / Concat /
   Replace attributes exactly as the reference computed from its child's own stream *)
Theorem C06_replace_tree : forall st inner rs,
  RStreamTree.rshape inner = true -> treeA (SReplace inner rs) = true -> RStreamTree.rsmall inner = true ->
  let comp10 := LawWrappers.evs_of (stream st (SReplace inner rs) ReplAttrTree.o10) in
  let k10 := LawWrappers.evs_of (stream st inner ReplAttrTree.o10) in
  bindings_consistent (contents_of_events k10) = true -> ReplAttrCols.contents_small k10 = true ->
  attr_of_stream comp10 true = replace_reference k10 rs.
Proof. exact ReplAttrTree.replace_tree_attr. Qed.
Print Assumptions C06_replace_tree.

(* without the "no empty chunk" hypothesis the origin statement is false (the state machine emits a
   pending replacement while handling an empty chunk): the witness stays visible *)
Theorem C06_replace_needs_nonempty_chunks :
  let ievs := [ESource 0 [102] None; ESource 1 [103] None; ESource 2 [104] None;
               EChunk (Some [97;98;99;100]) (mkMapping 1 0 (Some (mkOrig 0 1 0 None)));
               EChunk (Some []) (mkMapping 1 4 (Some (mkOrig 1 1 0 None)));
               EChunk (Some [101;102]) (mkMapping 1 4 (Some (mkOrig 2 1 0 None)))] in
  let rs := [mkRepl 1 4 [88] None 1; mkRepl 2 5 [89] None 1] in
  reassembles ievs [97;98;99;100;101;102] = true /\ dense ievs 0 0 = true /\
  map ReplAttrOrigin.fl (attr_of_stream (fst (replace_stream (sort_repls rs) ievs (1, 6))) true)
  <> map ReplAttrOrigin.fl (replace_reference ievs rs).
Proof.
  pose proof ReplAttrOrigin.replace_attr_origin_empty_chunk_counterexample as H. cbv zeta in H |- *.
  destruct H as (H1 & H2 & _ & _ & H5). exact (conj H1 (conj H2 H5)).
Qed.
Print Assumptions C06_replace_needs_nonempty_chunks.

(* ---- columns = false: the line rule ---- *)
From RS Require Import Api.ApiTree Api.ApiCheck Proofs.RStreamPos.
From RS Require Proofs.CompLinesBridge Proofs.CompLinesConcat Proofs.CompLinesReplace Proofs.CompLinesTree.

(* the chunk-level line rule of the streams (the first mapped non-empty chunk piece of an output
   line decides the line) IS the byte-level rule applied to the per-byte covering attribution *)
Theorem C06_line_rule_bridge : forall evs t,
  reassembles evs t = true -> chunks_nl_last evs = true ->
  attr_of_stream evs false = line_first_bytes t (attr_cover (rsegs_of_events evs [] [])) None 0 [].
Proof. exact CompLinesBridge.lines_bridge. Qed.
Print Assumptions C06_line_rule_bridge.

(* ConcatSource: each output line is attributed to the first mapped byte of the children's
   attributions laid back to back *)
Theorem C06_concat_lines : forall (kids : list (list event * (N * N))) (ts : list text),
  Forall (fun k => dense (fst k) 0 0 = true) kids ->
  Forall2 (fun k t => reassembles (fst k) t = true) kids ts ->
  Forall (fun k => chunks_nl_last (fst k) = true) kids ->
  let comp := snd (concat_fold false kids (concat_init, [])) in
  attr_of_stream comp false = line_first_bytes (concat ts) (concat_expected (map fst kids)) None 0 [].
Proof. exact CompLinesConcat.concat_lines_attr_kids. Qed.
Print Assumptions C06_concat_lines.

(* ReplaceSource: likewise against the byte-level reference; and every file keeps its content *)
Theorem C06_replace_lines : forall rs ievs T,
  Forall (fun r => r_start r <= r_end r) rs ->
  reassembles ievs T = true -> well_positioned (chunks_of ievs) 1 0 = true ->
  chunks_nl_last ievs = true -> ReplAttrStream.no_empty_chunks ievs = true -> dense ievs 0 0 = true ->
  len T + len (concat (map r_content rs)) + 1 < 4294967296 ->
  attr_of_stream (fst (replace_stream (sort_repls rs) ievs (advance 1 0 T))) false
  = line_first_bytes (replace_source_text T rs) (replace_reference ievs rs) None 0 [].
Proof. exact CompLinesReplace.replace_lines_attr. Qed.
Print Assumptions C06_replace_lines.

Theorem C06_replace_contents : forall sorted ievs gi,
  contents_preserved (fst (replace_stream sorted ievs gi)) [ievs] = true.
Proof. exact CompLinesReplace.replace_contents_preserved. Qed.
Print Assumptions C06_replace_contents.

(* the whole checker - all clauses, both column settings - accepts the model's own observations of
   every ConcatSource / ReplaceSource over trees over Raw* / Original / SourceMapSource / Concat /
   Replace, after any warm-up calls *)
Theorem C06_checker_accepts_model : forall s ws,
  CompLinesTree.composite s = true -> RStreamTree.rshape s = true -> treeA s = true ->
  RStreamTree.rsmall s = true -> ReplAttrTree.csmall s = true ->
  let '(c10, c00, k10, k00) := api_comp s ws in
  bindings_consistent (flat_map contents_of_events k10) = true ->
  chk_C06 s (source s) c10 c00 k10 k00 = 0.
Proof. exact CompLinesTree.C06_tree. Qed.
Print Assumptions C06_checker_accepts_model.

(* ---- composites over children that contain CachedSource nodes in ANY warm state: the checker
   compares the composite with a reference computed from the children's OWN observed streams, so
   even the K2 shape (a ReplaceSource above a warm cache) satisfies the property ---- *)
From RS Require Proofs.ColdCache Proofs.WarmTreeDefs Proofs.BoundsPos Proofs.CompWarmReplace Proofs.CompWarmConcat.
From RS Require Import Checkers.ChkHist.
Theorem C06_replace_over_warm_caches : forall inner rs ws,
  ColdCache.ids_distinct inner -> k2_shape inner = false ->
  RStreamTree.rshape (ColdCache.uncache inner) = true -> treeA (SReplace inner rs) = true ->
  BoundsPos.tiny (ColdCache.uncache (SReplace inner rs)) = true ->
  let '(c10, c00, k10, k00) := api_comp (SReplace inner rs) ws in
  bindings_consistent (flat_map contents_of_events k10) = true ->
  chk_C06 (SReplace inner rs) (source (SReplace inner rs)) c10 c00 k10 k00 = 0.
Proof. exact CompWarmReplace.C06_replace_warm_tiny. Qed.
Print Assumptions C06_replace_over_warm_caches.

Theorem C06_concat_over_warm_caches : forall cs ws,
  ColdCache.ids_distinct (SConcat cs) -> WarmTreeDefs.cls (SConcat cs) ->
  let '(c10, c00, k10, k00) := api_comp (SConcat cs) ws in
  bindings_consistent (flat_map contents_of_events k10) = true ->
  chk_C06 (SConcat cs) (source (SConcat cs)) c10 c00 k10 k00 = 0.
Proof. exact CompWarmConcat.C06_concat_warm_cls. Qed.
Print Assumptions C06_concat_over_warm_caches.

(* ---- the union class: children with combined-map leaves (SourceMapSource with an inner map),
   cold and with caches in any warm state ---- *)
From RS Require Proofs.CombLeafTree Proofs.WarmCombBounds Proofs.WarmCombDefs
  Proofs.CompCombTree Proofs.CompWarm2Replace Proofs.CompWarm2Concat Proofs.CompWarm2Example.
Theorem C06_checker_combined_leaves : forall s ws,
  CompLinesTree.composite s = true -> CombLeafTree.rshape2 s = true -> treeA s = true ->
  WarmCombBounds.tiny2 s = true ->
  let '(c10, c00, k10, k00) := api_comp s ws in
  bindings_consistent (flat_map contents_of_events k10) = true ->
  chk_C06 s (source s) c10 c00 k10 k00 = 0.
Proof. exact CompWarm2Example.C06_tree2_tiny. Qed.
Print Assumptions C06_checker_combined_leaves.

Theorem C06_replace_over_warm_caches_combined_leaves : forall inner rs ws,
  ColdCache.ids_distinct inner -> k2_shape inner = false ->
  CombLeafTree.rshape2 (ColdCache.uncache inner) = true -> treeA (SReplace inner rs) = true ->
  WarmCombBounds.tiny2 (ColdCache.uncache (SReplace inner rs)) = true ->
  let '(c10, c00, k10, k00) := api_comp (SReplace inner rs) ws in
  bindings_consistent (flat_map contents_of_events k10) = true ->
  chk_C06 (SReplace inner rs) (source (SReplace inner rs)) c10 c00 k10 k00 = 0.
Proof. exact CompWarm2Replace.C06_replace_warm2_tiny. Qed.
Print Assumptions C06_replace_over_warm_caches_combined_leaves.

Theorem C06_concat_over_warm_caches_combined_leaves : forall cs ws,
  ColdCache.ids_distinct (SConcat cs) -> WarmCombDefs.cls2 (SConcat cs) ->
  let '(c10, c00, k10, k00) := api_comp (SConcat cs) ws in
  bindings_consistent (flat_map contents_of_events k10) = true ->
  chk_C06 (SConcat cs) (source (SConcat cs)) c10 c00 k10 k00 = 0.
Proof. exact CompWarm2Concat.C06_concat_warm2_cls. Qed.
Print Assumptions C06_concat_over_warm_caches_combined_leaves.
