(* Property C06 - composites preserve what their children attribute.
   Statements only.  dense evs 0 0: announcements take the next free index and
   every chunk index was announced before (what every stream of the model does,
   LawWrappers.dense_tree / C11_stream). *)
From RS Require Import Base.Prelude Base.Text Stream.Types Stream.Concat Stream.Tree Sem.Attr
  Checkers.ChkComp Proofs.StreamConcat Proofs.AttrCodec Proofs.LawConcatAttr Proofs.LawWrappers.

(* ConcatSource, columns = true: every position inside the text contributed by child k is attributed
   to the same file name, line, column and name as child k attributes it on its own *)
Theorem C06_concat : forall kids : list (list event * (N * N)),
  Forall (fun k => dense (fst k) 0 0 = true) kids ->
  attr_of_stream (snd (concat_fold false kids (concat_init, []))) true
  = flat_map (fun k => attr_of_stream (fst k) true) kids.
Proof. exact concat_attr_cols. Qed.
Print Assumptions C06_concat.

(* ... and every file keeps its content (a shared name carrying the same content everywhere),
   in both streaming modes *)
Theorem C06_concat_contents : forall final (kids : list (list event * (N * N))),
  Forall (fun k => dense (fst k) 0 0 = true) kids ->
  bindings_consistent (flat_map contents_of_events (map fst kids)) = true ->
  contents_preserved (snd (concat_fold final kids (concat_init, []))) (map fst kids) = true.
Proof. exact concat_contents_preserved. Qed.
Print Assumptions C06_concat_contents.

(* on source trees: the checker's ConcatSource clauses hold of the model, and the composite's own
   stream is dense again, so the statement nests to any depth *)
Theorem C06_concat_tree : forall st cs, length cs <> 1%nat ->
  let kids := fst (kid_streams st cs (mkOpts true false)) in
  let comp := fst (fst (stream st (SConcat cs) (mkOpts true false))) in
  Forall (fun k => dense (fst k) 0 0 = true) kids ->
  list_eqb_attr attr_eqb (attr_of_stream comp true) (concat_expected (map fst kids)) = true /\
  (bindings_consistent (flat_map contents_of_events (map fst kids)) = true ->
   contents_preserved comp (map fst kids) = true) /\
  dense comp 0 0 = true.
Proof. exact concat_tree_C06. Qed.
Print Assumptions C06_concat_tree.

(* ReplaceSource with no replacement preserves the inner attribution byte for byte *)
Theorem C06_replace_identity_partial : forall st a cols c, dshape a = true ->
  attr_of_stream (evs_of (stream st (SReplace a []) (mkOpts cols false))) c
  = attr_of_stream (evs_of (stream st a (mkOpts cols false))) c.
Proof. exact replace_nil_stream_attr_tree. Qed.
Print Assumptions C06_replace_identity_partial.
