(* Property C02 - reported generated positions are the true positions.
   Statements only.  well_positioned chs l c: every chunk is reported at the
   (line, column) where its text really starts, starting from (l, c);
   advance 1 0 t: the position just after the last character of t. *)
From RS Require Import Base.Prelude Base.Text Codec.Vlq Codec.CodecSpec Stream.Types Stream.Leaves
  Stream.Concat Stream.Tree Checkers.ChkTree Proofs.StreamText Proofs.StreamLeaves Proofs.StreamMap
  Proofs.StreamConcat Proofs.StreamTree Stream.Replace Proofs.RStreamText Proofs.RStreamPos Proofs.RStreamTree.
From RS Require Import Sem.Attr.
From RS Require Proofs.AttrCodec Proofs.WfFinal Proofs.FinalTree.

Theorem C02_advance_compositional : forall l c a b,
  advance l c (a ++ b) = let '(l', c') := advance l c a in advance l' c' b.
Proof. exact advance_app. Qed.
Print Assumptions C02_advance_compositional.

(* end information of every leaf, all four option combinations (text-less mode included) *)
Theorem C02_leaf_end_info : forall t v name m b o,
  snd (raw_stream t b) = advance 1 0 t
  /\ snd (original_stream v name o) = advance 1 0 v
  /\ snd (sm_stream t m o) = advance 1 0 t.
Proof.
  intros t v name m b o.
  exact (conj (raw_stream_end t b) (conj (original_stream_end v name o) (sm_stream_end t m o))).
Qed.
Print Assumptions C02_leaf_end_info.

(* ConcatSource: children that are well-positioned yield a well-positioned concatenation *)
Theorem C02_concat : forall trs : list (list event * (N * N) * text),
  Forall (fun tr => reassembles (tr_events tr) (tr_text tr) = true /\
                    well_positioned (chunks_of (tr_events tr)) 1 0 = true /\
                    tr_info tr = advance 1 0 (tr_text tr)) trs ->
  let r := concat_fold false (map fst trs) (concat_init, []) in
  reassembles (snd r) (concat (map tr_text trs)) = true /\
  well_positioned (chunks_of (snd r)) 1 0 = true /\
  concat_result (fst r) = advance 1 0 (concat (map tr_text trs)).
Proof. exact concat_fold_good. Qed.
Print Assumptions C02_concat.

(* trees over Raw* / Original / SourceMapSource (consistent map) / Concat, ASCII texts,
   text-carrying mode, both column settings *)
Theorem C02_positions_partial : forall st s cols,
  simple_shape s = true -> treeA s = true ->
  let '(evs, gi, st') := stream st s (mkOpts cols false) in
  reassembles evs (source s) = true /\ well_positioned (chunks_of evs) 1 0 = true /\
  gi = advance 1 0 (source s) /\ st' = st.
Proof. exact treeA_stream_good. Qed.
Print Assumptions C02_positions_partial.

(* ReplaceSource: the line-offset / column-offset bookkeeping is exact - deleted and inserted line
   breaks, whole and partial skips, overlapping replacements, the remainder after the last chunk.
   chunks_nl_last: a chunk holds a line feed at most as its last byte (true of every stream here).
   The bound keeps every line and column inside u32. *)
Theorem C02_replace : forall sorted ievs T,
  Forall (fun r => r_start r <= r_end r) sorted ->
  reassembles ievs T = true -> well_positioned (chunks_of ievs) 1 0 = true ->
  chunks_nl_last ievs = true ->
  len T + len (concat (map r_content sorted)) + 1 < 4294967296 ->
  let r := replace_stream sorted ievs (advance 1 0 T) in
  reassembles (fst r) (splice T sorted 0) = true /\
  well_positioned (chunks_of (fst r)) 1 0 = true /\
  chunks_nl_last (fst r) = true /\ snd r = advance 1 0 (splice T sorted 0).
Proof. exact replace_stream_positioned. Qed.
Print Assumptions C02_replace.

(* all ASCII trees over Raw* / Original / SourceMapSource (consistent map) / Concat / Replace to any
   depth, text-carrying mode, both column settings, any store *)
Theorem C02_positions : forall st s cols,
  RStreamTree.rshape s = true -> treeA s = true -> rsmall s = true ->
  let '(evs, gi, st') := stream st s (mkOpts cols false) in
  reassembles evs (source s) = true /\ well_positioned (chunks_of evs) 1 0 = true /\
  gi = advance 1 0 (source s) /\ st' = st.
Proof. exact rshape_stream_good. Qed.
Print Assumptions C02_positions.

(* the text-less mode (final_source = true, columns = true) of the same class, ReplaceSource
   included: every segment lies on a position of source(), segments are sorted, the end info is
   the end of source(), the cache store is untouched *)
Theorem C02_positions_final : forall st s,
  RStreamTree.rshape s = true -> treeA s = true -> rsmall s = true ->
  let r := stream st s (mkOpts true true) in
  AttrCodec.dense (fst (fst r)) 0 0 = true /\
  positions_of_text (source s) (chunks_of (fst (fst r))) = true /\
  snd (fst r) = advance 1 0 (source s) /\
  sorted_by pos_le (chunk_mappings (fst (fst r))) = true /\
  snd r = st.
Proof. exact FinalTree.final_stream_facts. Qed.
Print Assumptions C02_positions_final.

(* ... and the text-less line mode (final_source = true, columns = false), ReplaceSource included:
   with this the property is a theorem in all four modes for every tree over Raw* / Original /
   SourceMapSource (consistent map) / Concat / Replace *)
From RS Require Proofs.LinesTree.
Theorem C02_positions_final_lines : forall st s,
  RStreamTree.rshape s = true -> treeA s = true -> rsmall s = true ->
  let r := stream st s (mkOpts false true) in
  positions_of_text (source s) (chunks_of (fst (fst r))) = true /\
  snd (fst r) = advance 1 0 (source s) /\
  sorted_by pos_le (chunk_mappings (fst (fst r))) = true /\
  snd r = st.
Proof.
  intros st s H1 H2 H3. destruct (LinesTree.final_stream_facts_lines st s H1 H2 H3) as (_ & A & B & C & D & _).
  exact (conj A (conj B (conj C D))).
Qed.
Print Assumptions C02_positions_final_lines.

(* trees WITH CachedSource nodes, first observation of a freshly built tree (caches cold) *)
From RS Require Proofs.ColdCache Proofs.ColdCacheTree.
Theorem C02_positions_cold_caches : forall s, ColdCache.ids_distinct s ->
  RStreamTree.rshape (ColdCache.uncache s) = true -> treeA s = true -> rsmall (ColdCache.uncache s) = true ->
  forall cols,
  let '(evs, gi, _) := stream [] s (mkOpts cols false) in
  reassembles evs (source s) = true /\ well_positioned (chunks_of evs) 1 0 = true /\
  gi = advance 1 0 (source s).
Proof. exact ColdCacheTree.fresh_stream_good. Qed.
Print Assumptions C02_positions_cold_caches.

(* the extracted checker - all eight clauses, four modes - accepts the model's own observations *)
From RS Require Import Api.ApiTree.
From RS Require Proofs.ChkModelC02.
Theorem C02_checker_accepts_model : forall s ws,
  RStreamTree.rshape s = true -> treeA s = true -> rsmall s = true -> chk_C02 s (api_tree s ws) = 0.
Proof. exact ChkModelC02.chk_C02_model. Qed.
Print Assumptions C02_checker_accepts_model.

Theorem C02_checker_accepts_model_cold_caches : forall s, ColdCache.ids_distinct s ->
  RStreamTree.rshape (ColdCache.uncache s) = true -> treeA s = true -> rsmall (ColdCache.uncache s) = true ->
  chk_C02 s (api_tree s []) = 0.
Proof. exact ChkModelC02.chk_C02_model_cold. Qed.
Print Assumptions C02_checker_accepts_model_cold_caches.

(* ... and with combined-map SourceMapSource leaves (inner source map, within the C09 domain) *)
From RS Require Proofs.CombLeafTree.
Theorem C02_positions_combined_leaves : forall st s cols,
  CombLeafTree.rshape2 s = true -> treeA s = true -> rsmall s = true ->
  let '(evs, gi, st') := stream st s (mkOpts cols false) in
  reassembles evs (source s) = true /\ well_positioned (chunks_of evs) 1 0 = true /\
  gi = advance 1 0 (source s) /\ st' = st.
Proof. exact CombLeafTree.rshape2_stream_good. Qed.
Print Assumptions C02_positions_combined_leaves.

(* the checker accepts the model also with combined-map leaves and with CachedSource nodes after
   ANY warm-up calls (no ReplaceSource with replacements above a cache) *)
From RS Require Proofs.WarmTreeDefs Proofs.ChkMoreComb Proofs.ChkMoreWarmC02.
Theorem C02_checker_combined_leaves : forall s ws,
  CombLeafTree.rshape2 s = true -> treeA s = true -> rsmall s = true -> chk_C02 s (api_tree s ws) = 0.
Proof. exact ChkMoreComb.chk_C02_tree2. Qed.
Print Assumptions C02_checker_combined_leaves.

Theorem C02_checker_warm_caches : forall s, ColdCache.ids_distinct s -> WarmTreeDefs.cls s ->
  forall ws, chk_C02 s (api_tree s ws) = 0.
Proof. exact ChkMoreWarmC02.chk_C02_warm. Qed.
Print Assumptions C02_checker_warm_caches.

(* ... and in the union class: combined-map leaves AND caches in any warm state in one tree *)
From RS Require Proofs.WarmCombBounds Proofs.WarmCombC02.
Theorem C02_checker_combined_leaves_and_warm_caches : forall s ws,
  ColdCache.ids_distinct s -> Checkers.ChkHist.k2_shape s = false ->
  CombLeafTree.rshape2 (ColdCache.uncache s) = true -> treeA s = true ->
  WarmCombBounds.tiny2 (ColdCache.uncache s) = true ->
  chk_C02 s (api_tree s ws) = 0.
Proof. exact WarmCombC02.C02_warm_comb_checker. Qed.
Print Assumptions C02_checker_combined_leaves_and_warm_caches.
