(* Property C02 - reported generated positions are the true positions.
   Statements only.  well_positioned chs l c: every chunk is reported at the
   (line, column) where its text really starts, starting from (l, c);
   advance 1 0 t: the position just after the last character of t. *)
From RS Require Import Base.Prelude Base.Text Codec.Vlq Codec.CodecSpec Stream.Types Stream.Leaves
  Stream.Concat Stream.Tree Checkers.ChkTree Proofs.StreamText Proofs.StreamLeaves Proofs.StreamMap
  Proofs.StreamConcat Proofs.StreamTree.

Theorem C02_advance_compositional : forall l c a b,
  advance l c (a ++ b) = let '(l', c') := advance l c a in advance l' c' b.
Proof. exact advance_app. Qed.
Print Assumptions C02_advance_compositional.

(* end information of every leaf, all four option combinations (text-less mode included) *)
Theorem C02_leaf_end_info : forall t v name m b o,
  snd (raw_stream t b) = advance 1 0 t
  /\ snd (original_stream v name o) = advance 1 0 v
  /\ snd (sm_stream t m o) = advance 1 0 t.
Proof.
  intros t v name m b o.
  exact (conj (raw_stream_end t b) (conj (original_stream_end v name o) (sm_stream_end t m o))).
Qed.
Print Assumptions C02_leaf_end_info.

(* ConcatSource: children that are well-positioned yield a well-positioned concatenation *)
Theorem C02_concat : forall trs : list (list event * (N * N) * text),
  Forall (fun tr => reassembles (tr_events tr) (tr_text tr) = true /\
                    well_positioned (chunks_of (tr_events tr)) 1 0 = true /\
                    tr_info tr = advance 1 0 (tr_text tr)) trs ->
  let r := concat_fold false (map fst trs) (concat_init, []) in
  reassembles (snd r) (concat (map tr_text trs)) = true /\
  well_positioned (chunks_of (snd r)) 1 0 = true /\
  concat_result (fst r) = advance 1 0 (concat (map tr_text trs)).
Proof. exact concat_fold_good. Qed.
Print Assumptions C02_concat.

(* trees over Raw* / Original / SourceMapSource (consistent map) / Concat, ASCII texts,
   text-carrying mode, both column settings *)
Theorem C02_positions_partial : forall st s cols,
  simple_shape s = true -> treeA s = true ->
  let '(evs, gi, st') := stream st s (mkOpts cols false) in
  reassembles evs (source s) = true /\ well_positioned (chunks_of evs) 1 0 = true /\
  gi = advance 1 0 (source s) /\ st' = st.
Proof. exact treeA_stream_good. Qed.
Print Assumptions C02_positions_partial.
