(* Property C16 - Rope behaves exactly like the string it represents.
   Only statements; each closed by a lemma proved elsewhere. *)
From RS Require Import Base.Prelude Base.Text Rope.RopeModel Proofs.RopeBasic.

Theorem C16_constructors_flat :
  (forall ts, flat (rope_from_iter ts) = concat ts) /\
  (forall r v, flat (rope_add r v) = flat r ++ v) /\
  (forall r o, flat (rope_append r o) = flat r ++ flat o).
Proof. exact (conj flat_from_iter (conj flat_add flat_append)). Qed.
Print Assumptions C16_constructors_flat.
