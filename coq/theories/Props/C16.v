(* Property C16 - Rope behaves exactly like the string it represents.
   Only statements (about the piece-table model Rope/RopeModel.v against plain
   string functions); each closed by a lemma proved in Proofs/Rope*.v.
   rope_wf r: non-empty piece list, no empty piece, offsets are prefix sums.
   rope_valid r: every piece is valid UTF-8 (pieces are Rust &str). *)
From RS Require Import Base.Prelude Base.Text Rope.RopeModel Rope.RopeProg
  Proofs.RopeBasic Proofs.RopeWf Proofs.RopeUtf8 Proofs.RopeOps Proofs.RopeSlice Proofs.RopeLines
  Proofs.RopeProgram.

Theorem C16_constructors_flat :
  (forall ts, flat (rope_from_iter ts) = concat ts) /\
  (forall r v, flat (rope_add r v) = flat r ++ v) /\
  (forall r o, flat (rope_append r o) = flat r ++ flat o).
Proof. exact (conj flat_from_iter (conj flat_add flat_append)). Qed.
Print Assumptions C16_constructors_flat.

(* every constructor establishes / preserves the representation invariant *)
Theorem C16_constructors_wf :
  rope_wf rope_new = true /\ (forall t, rope_wf (rope_from t) = true)
  /\ (forall ts, rope_wf (rope_from_iter ts) = true)
  /\ (forall r v, rope_wf r = true -> rope_wf (rope_add r v) = true)
  /\ (forall r o, rope_wf r = true -> rope_wf o = true -> rope_wf (rope_append r o) = true).
Proof.
  exact (conj rope_wf_new (conj rope_wf_from (conj rope_wf_from_iter (conj rope_wf_add rope_wf_append)))).
Qed.
Print Assumptions C16_constructors_wf.

(* every program over new/from/from_iter/add/append/byte_slice/lines denotes exactly the string
   the same program denotes on plain strings; a slice is rejected exactly when the string
   operation is (reversed, out of bounds, not on char boundaries) *)
Theorem C16_programs : forall p, prog_valid p = true ->
  match run_string p with
  | Some s => exists r, run p = Some r /\ flat r = s /\ rope_wf r = true /\ rope_valid r = true
  | None => run p = None
  end.
Proof. exact run_correct. Qed.
Print Assumptions C16_programs.

Theorem C16_len_is_empty : forall r, rope_wf r = true ->
  rope_len r = len (flat r) /\ rope_is_empty r = is_nil (flat r).
Proof. intros r H. exact (conj (rope_len_flat r H) (rope_is_empty_flat r)). Qed.
Print Assumptions C16_len_is_empty.

Theorem C16_get_byte : forall r i, rope_wf r = true -> rope_get_byte r i = nth_opt (flat r) i.
Proof. exact rope_get_byte_flat. Qed.
Print Assumptions C16_get_byte.

(* get_byte_slice: Some exactly for in-range char-boundary ranges, the result denotes the string
   slice and is again well-formed; the unchecked chunk access is never out of range *)
Theorem C16_slice : forall r a b, rope_wf r = true -> rope_valid r = true ->
  match str_get (flat r) a b with
  | Some t => exists r', rope_slice r a b = SOk r' /\ flat r' = t /\ rope_wf r' = true /\ rope_valid r' = true
  | None => exists w, rope_slice r a b = SErr w
  end.
Proof. exact rope_slice_flat. Qed.
Print Assumptions C16_slice.

Theorem C16_char_indices : forall r, rope_wf r = true -> rope_valid r = true ->
  rope_char_indices r = char_indices (flat r).
Proof. exact rope_char_indices_flat. Qed.
Print Assumptions C16_char_indices.

Theorem C16_lines : forall r tr, rope_wf r = true ->
  map flat (rope_lines_impl r tr) = str_lines (flat r) tr
  /\ Forall (fun l => rope_wf l = true) (rope_lines_impl r tr).
Proof. exact rope_lines_flat. Qed.
Print Assumptions C16_lines.

(* binary observers, for any two piece divisions *)
Theorem C16_starts_with : forall r v, rope_wf r = true -> rope_wf v = true ->
  rope_starts_with r v = is_prefix (flat v) (flat r).
Proof. exact rope_starts_with_flat. Qed.
Print Assumptions C16_starts_with.

Theorem C16_ends_with : forall r c, rope_wf r = true -> rope_valid r = true ->
  rope_ends_with r (utf8_encode_char c) = ends_with_bytes (flat r) (utf8_encode_char c).
Proof. exact rope_ends_with_flat. Qed.
Print Assumptions C16_ends_with.

(* equality never panics and is string equality *)
Theorem C16_eq : forall a b, rope_wf a = true -> rope_wf b = true ->
  rope_eq a b = Some (text_eqb (flat a) (flat b)).
Proof. exact rope_eq_flat. Qed.
Print Assumptions C16_eq.

Theorem C16_eq_str_hash : forall r o, rope_wf r = true ->
  rope_eq_str r o = text_eqb (flat r) o /\ concat (rope_hash_pieces r) = flat r.
Proof. intros r o H. exact (conj (rope_eq_str_flat r o H) (rope_hash_flat r)). Qed.
Print Assumptions C16_eq_str_hash.
