(* Property C17 - no input in the documented domain makes the library panic or
   hang.  Statements only.  Proved here: the mappings decoder (every arithmetic
   check of an overflow-checked build, Sem/Panic.v) and the slices ReplaceSource
   takes of its inner text.  Decided by execution only (both builds, every
   observer under catch_unwind, abort and hang detection): the third-party JSON
   parser behind from_json / from_slice / from_reader, and the tree-level
   arithmetic on wild maps. *)
From RS Require Import Base.Prelude Base.Text Rope.RopeModel Codec.Vlq Stream.Types Stream.Tree Sem.Panic
  Checkers.ChkTree Proofs.PanicDecoder Proofs.ViewsTree.

(* on every string shorter than 2^32 - 1 bytes - junk, separators, continuation runs of any length,
   huge deltas - no overflow check of the decoder can fail *)
Theorem C17_decoder_never_panics : forall s : text,
  N.of_nat (length s) < 4294967295 -> decode_mappings_chk s = Some (decode_mappings s).
Proof. exact decode_never_panics. Qed.
Print Assumptions C17_decoder_never_panics.

(* the decoder is one structural step per byte: it terminates and emits at most one segment per
   byte plus one *)
Theorem C17_decoder_terminates : forall s : text,
  exists l, decode_mappings s = l /\ (length l <= S (length s))%nat.
Proof. exact decode_total. Qed.
Print Assumptions C17_decoder_terminates.

(* replacement positions on char boundaries or beyond the end: every slice rope() takes succeeds,
   and source() is valid UTF-8 (no str slice off a boundary) *)
Theorem C17_replace_clamp : forall s, tree_wf s = true ->
  (exists r, rope_of s = Some r /\ flat r = source s) /\ valid_utf8 (source s) = true.
Proof.
  intros s H. split.
  - destruct (rope_renders_source s H) as [r [H1 [H2 _]]]. exists r. exact (conj H1 H2).
  - exact (source_valid s H).
Qed.
Print Assumptions C17_replace_clamp.

(* tree arithmetic: for every tree over Raw* / Original / SourceMapSource / Concat / Replace whose
   texts, tables and map numbers are below 2^28 (`tiny`, a condition on the input alone), every
   field of every segment streamed in any of the four modes - generated line and column, source
   and name index, original line and column - is below 2^30: the u32 results the implementation
   reports for such trees cannot have wrapped (intermediate i64 offsets are not modelled) *)
From RS Require Import Stream.Types Stream.Tree Checkers.ChkCodec Checkers.ChkTree.
From RS Require Proofs.RStreamTree Proofs.BoundsPos Proofs.BoundsAll.
Theorem C17_tree_fields_in_range : forall st s c f,
  RStreamTree.rshape s = true -> treeA s = true -> BoundsPos.tiny s = true ->
  forallb mapping_small (chunk_mappings (fst (fst (stream st s (mkOpts c f))))) = true.
Proof. exact BoundsAll.tiny_mapping_small. Qed.
Print Assumptions C17_tree_fields_in_range.
