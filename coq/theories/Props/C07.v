(* Property C07 - all content views of a source agree.  Statements only, about
   the model Stream/Tree.v (source, buffer, size, rope_of, writer_calls) and the
   failing-writer model Sem/Writer.v. *)
From RS Require Import Base.Prelude Base.Text Rope.RopeModel Stream.Types Stream.Tree Sem.Writer
  Checkers.ChkTree Proofs.ViewsUtf8 Proofs.ViewsTree Proofs.ViewsWriter.

(* rope() never hits a rejected slice and renders to source(); tree_wf: replacement bounds
   ordered and on char boundaries of the inner text or beyond it *)
Theorem C07_rope_renders_source : forall s, tree_wf s = true ->
  exists r, rope_of s = Some r /\ flat r = source s /\ rope_wf r = true /\ rope_valid r = true.
Proof. exact rope_renders_source. Qed.
Print Assumptions C07_rope_renders_source.

Theorem C07_size_writer : forall s,
  size s = len (buffer s) /\ concat (writer_calls s) = buffer s.
Proof. intros s. exact (conj (size_is_buffer_len s) (writer_calls_buffer s)). Qed.
Print Assumptions C07_size_writer.

Theorem C07_buffer_is_source : forall s, all_leaves_valid s = true -> buffer s = source s.
Proof. exact buffer_is_source. Qed.
Print Assumptions C07_buffer_is_source.

Theorem C07_binary_leaf : forall b,
  (buffer (SRawBuffer b) = b /\ source (SRawBuffer b) = utf8_lossy b)
  /\ (buffer (SRaw true b) = b /\ source (SRaw true b) = utf8_lossy b).
Proof. intros b. exact (conj (binary_leaf b) (binary_leaf_raw b)). Qed.
Print Assumptions C07_binary_leaf.

(* lossy decoding is the identity on valid UTF-8 and always yields valid UTF-8 *)
Theorem C07_lossy : forall t,
  (valid_utf8 t = true -> utf8_lossy t = t) /\ valid_utf8 (utf8_lossy t) = true.
Proof. intros t. exact (conj (utf8_lossy_valid t) (utf8_lossy_is_valid t)). Qed.
Print Assumptions C07_lossy.

Theorem C07_source_is_valid_utf8 : forall s, tree_wf s = true -> valid_utf8 (source s) = true.
Proof. exact source_valid. Qed.
Print Assumptions C07_source_is_valid_utf8.

Theorem C07_concat : forall cs,
  source (SConcat cs) = concat (map source cs) /\ buffer (SConcat cs) = concat (map buffer cs).
Proof. exact concat_views. Qed.
Print Assumptions C07_concat.

(* a writer that runs out after cap bytes (short writes or refusing writes): to_writer fails
   exactly when cap < len(buffer), and only a prefix of buffer() has been written *)
Theorem C07_failing_writer : forall s cap short,
  let '(written, ok) := to_writer_failing s cap short in
  (ok = true <-> len (buffer s) <= cap) /\
  (ok = false <-> cap < len (buffer s)) /\
  is_prefix written (buffer s) = true /\
  (ok = true -> written = buffer s) /\
  (short = true -> ok = false -> written = take cap (buffer s)).
Proof. exact to_writer_failing_spec. Qed.
Print Assumptions C07_failing_writer.
