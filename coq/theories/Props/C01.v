(* Property C01 - streamed chunks reassemble exactly to source().
   Statements only.  reassembles evs t: every chunk carries text and the
   concatenation of the chunk texts is t. *)
From RS Require Import Base.Prelude Base.Text Codec.Vlq Codec.CodecSpec Stream.Types Stream.Leaves
  Stream.Tree Checkers.ChkTree Proofs.StreamText Proofs.StreamLeaves Proofs.StreamMap Proofs.StreamMapAny
  Proofs.StreamConcat Proofs.StreamTree Stream.Replace Proofs.RStreamText Proofs.RStreamTree.

(* the two text splitters lose and duplicate nothing, for arbitrary bytes *)
Theorem C01_splitters : forall t,
  concat (split_lines t) = t /\ concat (potential_tokens t) = t.
Proof. intros t. exact (conj (concat_split_lines t) (concat_potential_tokens t)). Qed.
Print Assumptions C01_splitters.

(* the map-driven splitter (columns = true), for EVERY attached map - segments in any order,
   going backwards on a line, duplicated, beyond the end of a line, beyond the last line - and
   any valid UTF-8 text (multi-byte included): a mapping that lies before the current position
   is ignored (the guard of sm_full_step, the fix of known finding K4), the position only moves
   forward, and the emitted chunks concatenate to exactly the text *)
Theorem C01_source_map_any : forall t m,
  valid_utf8 t = true ->
  reassembles (fst (sm_stream_full t m)) t = true.
Proof. exact sm_stream_full_reassembles_any_utf8. Qed.
Print Assumptions C01_source_map_any.

(* both map-driven splitters; the sortedness hypothesis is no longer needed (kept: the statement
   is the one claimed before the fix, now a corollary of C01_source_map_any) *)
Theorem C01_source_map_leaf : forall t m,
  valid_utf8 t = true -> sorted_by pos_le (decode_mappings (sm_mappings m)) = true ->
  reassembles (fst (sm_stream_full t m)) t = true /\ reassembles (fst (sm_stream_lines_full t m)) t = true.
Proof.
  intros t m Hv _. split.
  - exact (C01_source_map_any t m Hv).
  - exact (sm_stream_lines_full_reassembles t m).
Qed.
Print Assumptions C01_source_map_leaf.

(* known finding K4, fixed: a map that goes backwards on a line used to duplicate text.
   "abcdefgh" with mappings "IAAA,HAAE" (segments (1,4) and (1,1), both mapped) was streamed as
   "abcd" "bcdefgh"; "abcdef" with "GAAA,F,G" (segments (1,3) mapped, (1,1), (1,4)) as
   "abc" "bcd" "ef".  The backward segment is now ignored. *)
Theorem C01_K4_fixed :
  (let t := [97; 98; 99; 100; 101; 102; 103; 104] in
   let m := mkSmap None [73; 65; 65; 65; 44; 72; 65; 65; 69] [] [] [] None None in
   sorted_by pos_le (decode_mappings (sm_mappings m)) = false /\
   chunk_texts (fst (sm_stream_full t m)) = [Some [97; 98; 99; 100]; Some [101; 102; 103; 104]] /\
   reassembles (fst (sm_stream_full t m)) t = true) /\
  (let t := [97; 98; 99; 100; 101; 102] in
   let m := mkSmap None [71; 65; 65; 65; 44; 70; 44; 71] [] [] [] None None in
   sorted_by pos_le (decode_mappings (sm_mappings m)) = false /\
   chunk_texts (fst (sm_stream_full t m)) = [Some [97; 98; 99]; Some [100]; Some [101; 102]] /\
   reassembles (fst (sm_stream_full t m)) t = true).
Proof. vm_compute. repeat split. Qed.
Print Assumptions C01_K4_fixed.

(* trees over Raw / RawString / RawBuffer / Original / SourceMapSource (no inner map, sorted
   segments) / Concat to any depth, both column settings, any store; tree_wf: texts valid UTF-8 *)
Theorem C01_reassemble_partial : forall st s cols,
  simple_shape s = true -> tree_wf s = true -> maps_sorted s = true ->
  let '(evs, gi, st') := stream st s (mkOpts cols false) in
  reassembles evs (source s) = true /\ gi = advance 1 0 (source s) /\ st' = st.
Proof. exact wf_stream_reassembles. Qed.
Print Assumptions C01_reassemble_partial.

(* ReplaceSource as a stream transformer: whatever the inner source streams (any chunking that
   reassembles to T), the output reassembles to the spliced text - overlapping, nested, touching
   replacements and positions beyond the end included; multi-byte text included *)
Theorem C01_replace : forall rs ievs T gi,
  Forall (fun r => r_start r <= r_end r) rs -> reassembles ievs T = true ->
  reassembles (fst (replace_stream (sort_repls rs) ievs gi)) (replace_source_text T rs) = true.
Proof. exact replace_source_stream_reassembles. Qed.
Print Assumptions C01_replace.

(* trees over Raw* / Original / SourceMapSource (sorted map) / Concat / Replace to any depth, any
   valid UTF-8 texts, both column settings; tree_wf: replacement bounds ordered and on char
   boundaries or beyond the end *)
Theorem C01_reassemble_replace_partial : forall st s cols,
  RStreamTree.rshape s = true -> tree_wf s = true -> rmaps_sorted s = true ->
  let '(evs, gi, st') := stream st s (mkOpts cols false) in
  reassembles evs (source s) = true /\ st' = st.
Proof. exact rshape_stream_reassembles. Qed.
Print Assumptions C01_reassemble_replace_partial.

(* ---- the property itself, for ALL source trees of the model: Raw*, Original, SourceMapSource
   with any map (with or without inner map: the combined-map streamer rewrites attributions, never
   texts), Concat, Replace, Cached - to any depth, for EVERY state of the caches (a cache entry may
   hold any map whatsoever), both column settings.  tree_wf: texts are valid UTF-8 (Rust strings),
   replacement bounds are ordered and lie on char boundaries or beyond the end. ---- *)
From RS Require Proofs.ReassAll Proofs.ReassAllText.
Theorem C01_all_trees : forall s, tree_wf s = true -> forall st cols,
  reassembles (fst (fst (stream st s (mkOpts cols false)))) (source s) = true.
Proof. exact ReassAll.all_stream_reassembles. Qed.
Print Assumptions C01_all_trees.

(* second sentence: every chunk delivered to a caller outside the crate carries its text -
   no hypothesis at all *)
Theorem C01_chunks_carry_text : forall s st cols t m,
  In (EChunk t m) (fst (fst (stream st s (mkOpts cols false)))) -> exists x, t = Some x.
Proof. exact ReassAllText.all_stream_chunks_carry_text. Qed.
Print Assumptions C01_chunks_carry_text.

(* the extracted checker accepts the model's own observations of every tree, after any warm-up calls *)
From RS Require Import Api.ApiTree.
From RS Require Proofs.ChkModelC01.
Theorem C01_checker_accepts_model : forall s ws, chk_C01 s (api_tree s ws) = if tree_wf s then 0 else 100.
Proof. exact ChkModelC01.chk_C01_model_total. Qed.
Print Assumptions C01_checker_accepts_model.
