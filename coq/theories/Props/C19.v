(* Property C19 - unsafe code never acts outside its preconditions.
   Statements only: for each unsafe operation of the crate, the model-level
   fact that its documented precondition holds wherever it is reached.
   What a proof about the model cannot exhibit - the memory accesses
   themselves, the allocator, Rust's lifetime checking - is covered by the
   precondition probes of hook H4 and by abort detection at run time. *)
From RS Require Import Base.Prelude Base.Text Rope.RopeModel Rope.RopeProg Codec.Vlq
  Stream.Types Stream.Tree Sem.Conc Checkers.ChkTree
  Proofs.RopeSlice Proofs.RopeProgram Proofs.CodecVlq Proofs.ViewsTree.
From RS Require Proofs.ConcCached.

(* rope.rs get_unchecked(chunk index): never reached with an index outside the chunk vector (SUB),
   on every rope any program over new/from/from_iter/add/append/byte_slice/lines can build *)
Theorem C19_rope_chunk_index : forall p r a b, prog_valid p = true -> RopeProg.run p = Some r ->
  match rope_slice r a b with SUB _ => False | _ => True end.
Proof.
  intros p r a b Hv Hr.
  pose proof (run_correct p Hv) as H.
  destruct (run_string p) as [s|]; [|rewrite Hr in H; discriminate].
  destruct H as [r' [H1 [_ [Hwf Hval]]]]. rewrite Hr in H1. inversion H1; subst r'.
  pose proof (rope_slice_flat r a b Hwf Hval) as H2.
  destruct (str_get (flat r) a b).
  - destruct H2 as [r'' [E _]]. rewrite E. exact I.
  - destruct H2 as [w E]. rewrite E. exact I.
Qed.
Print Assumptions C19_rope_chunk_index.

(* encoder.rs from_utf8_unchecked: the mappings buffer is ASCII *)
Theorem C19_encoder_ascii : forall ms c, In c (encode_full ms) \/ In c (encode_lines ms) -> c < 128.
Proof. intros ms c H. exact (proj1 (encode_alphabet ms c H)). Qed.
Print Assumptions C19_encoder_ascii.

(* rope() of every source tree: all str / rope slices are in range and on char boundaries *)
Theorem C19_tree_slices : forall s, tree_wf s = true ->
  exists r, rope_of s = Some r /\ rope_wf r = true /\ rope_valid r = true.
Proof.
  intros s H. destruct (rope_renders_source s H) as [r [H1 [_ [H2 H3]]]].
  exists r. exact (conj H1 (conj H2 H3)).
Qed.
Print Assumptions C19_tree_slices.

(* cached_source.rs transmute (&SourceMap to &'a SourceMap): the referent is never replaced or
   removed while the cache lives, under every interleaving *)
Theorem C19_cached_borrow : forall progs sched,
  let '(sh, ts, hist) := cached_run true progs sched in
  forall c, In c hist -> forall k id, cget c k = Some id -> cget (cs_cache sh) k = Some id.
Proof.
  intros progs sched.
  pose proof (ConcCached.C18_write_once_all_keys progs sched) as B.
  destruct (cached_run true progs sched) as [[sh ts] hist]. exact (proj2 B).
Qed.
Print Assumptions C19_cached_borrow.
