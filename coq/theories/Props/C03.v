(* Property C03 - map() attributes every position exactly as the chunk stream
   does.  Statements only. *)
From RS Require Import Base.Prelude Base.Text Codec.Vlq Codec.CodecSpec Stream.Types Stream.Leaves
  Stream.Tree Api.ApiTree Sem.Attr Checkers.ChkCodec Checkers.ChkTree
  Proofs.AttrCodec Proofs.AttrSms Proofs.AttrLeaves Stream.Concat Proofs.StreamConcat Proofs.RStreamPos Proofs.RStreamTree Proofs.FinalConcat Proofs.FinalTree.

(* (i) codec and tables, for EVERY source type at once: the map that get_map builds from a
   text-less stream (announcements dense and write-once, chunk mappings sorted, fields < 2^30)
   attributes every position of every text exactly as that stream's own segments do; and map() is
   None exactly when no chunk is mapped *)
Theorem C03_map_of_events : forall evs cols t,
  dense evs 0 0 = true -> enc_domain (chunk_mappings evs) = true ->
  attr_of_map (map_of_events cols evs) t cols = attr_of_final_events evs t cols
  /\ is_none (map_of_events cols evs) = negb (mapped_chunk_exists evs).
Proof.
  intros evs cols t Hd He.
  split; [apply attr_codec_dense; assumption | apply map_of_events_none; assumption].
Qed.
Print Assumptions C03_map_of_events.

(* (ii) leaves: map() agrees with the text-carrying stream an outside caller sees, both column
   settings, and returns None iff no chunk is mapped (OriginalSource below 2^30 bytes) *)
Theorem C03_leaves : forall st s cols, leaf_ok s ->
  attr_of_map (fst (map_of st s cols)) (source s) cols
  = attr_of_stream (fst (fst (stream st s (mkOpts cols false)))) cols
  /\ is_none (fst (map_of st s cols))
     = negb (mapped_chunk_exists (fst (fst (stream st s (mkOpts cols false))))).
Proof. intros st s cols H. exact (conj (leaf_attr st s cols H) (leaf_none st s cols H)). Qed.
Print Assumptions C03_leaves.

(* (iii) SourceMapSource: the text-carrying and the text-less streams attribute alike *)
Theorem C03_source_map_leaf : forall t m, ascii t = true -> map_consistent t m = true ->
  attr_of_stream (fst (sm_stream_full t m)) true = attr_of_final_events (fst (sm_stream_final t m)) t true
  /\ attr_of_stream (fst (sm_stream_lines_full t m)) false
     = attr_of_final_events (fst (sm_stream_lines_final t m)) t false.
Proof.
  intros t m Ha Hc. split.
  - rewrite (sm_full_attr t m Ha Hc), (sm_final_attr t m Hc). reflexivity.
  - rewrite (sm_lines_full_attr t m Hc), (sm_lines_final_attr t m Hc). reflexivity.
Qed.
Print Assumptions C03_source_map_leaf.

(* (iv) composites, columns = true: the text-less stream of any tree over Raw* / Original /
   SourceMapSource (consistent map) / Concat / Replace, to any depth, attributes every byte of
   source() exactly as the text-carrying stream does ... *)
Theorem C03_final_vs_text : forall st s,
  RStreamTree.rshape s = true -> treeA s = true -> rsmall s = true ->
  attr_of_final_events (fst (fst (stream st s (mkOpts true true)))) (source s) true =
  attr_of_stream (fst (fst (stream st s (mkOpts true false)))) true.
Proof. exact final_attr_tree. Qed.
Print Assumptions C03_final_vs_text.

(* ... hence the property itself for that class: get_map (the map() of ConcatSource,
   ReplaceSource, OriginalSource) attributes as the stream, and is None exactly when no chunk is
   mapped.  The remaining hypothesis is the encoder's domain: every field of a streamed segment
   is below 2^30. *)
Theorem C03_trees_columns : forall st s,
  RStreamTree.rshape s = true -> treeA s = true -> rsmall s = true ->
  forallb mapping_small (chunk_mappings (fst (fst (stream st s (mkOpts true true))))) = true ->
  attr_of_map (fst (get_map st s true)) (source s) true =
  attr_of_stream (fst (fst (stream st s (mkOpts true false)))) true /\
  is_none (fst (get_map st s true)) =
  negb (mapped_chunk_exists (fst (fst (stream st s (mkOpts true false))))).
Proof. exact C03_tree_cols. Qed.
Print Assumptions C03_trees_columns.

(* the closing segments of ConcatSource are exactly what is needed: for children whose text-less
   streams are dense, positioned on their text, sorted, with exact end info, the composite's
   text-less stream attributes the concatenated text as the children's streams back to back *)
Theorem C03_concat_final : forall trs, Forall kid_ok trs ->
  attr_of_final_events (snd (concat_fold true (map fst trs) (concat_init, []))) (concat (map tr_text trs)) true
  = flat_map (fun tr => attr_of_final_events (tr_events tr) (tr_text tr) true) trs.
Proof. exact concat_final_attr. Qed.
Print Assumptions C03_concat_final.

(* (v) composites, columns = false: the same for the (file, line)-per-output-line attribution *)
From RS Require Proofs.LinesTree.
Theorem C03_final_vs_text_lines : forall st s,
  RStreamTree.rshape s = true -> treeA s = true -> rsmall s = true ->
  attr_of_final_events (fst (fst (stream st s (mkOpts false true)))) (source s) false =
  attr_of_stream (fst (fst (stream st s (mkOpts false false)))) false.
Proof. exact LinesTree.final_attr_tree_lines. Qed.
Print Assumptions C03_final_vs_text_lines.

Theorem C03_trees_lines : forall st s,
  RStreamTree.rshape s = true -> treeA s = true -> rsmall s = true ->
  forallb mapping_small (chunk_mappings (fst (fst (stream st s (mkOpts false true))))) = true ->
  attr_of_map (fst (get_map st s false)) (source s) false =
  attr_of_stream (fst (fst (stream st s (mkOpts false false)))) false /\
  is_none (fst (get_map st s false)) =
  negb (mapped_chunk_exists (fst (fst (stream st s (mkOpts false false))))).
Proof. exact LinesTree.C03_tree_lines. Qed.
Print Assumptions C03_trees_lines.

(* (vi) trees WITH CachedSource nodes, first observation of a freshly built tree (all caches cold,
   every cache used once): the tree answers exactly as the same tree without the wrappers ... *)
From RS Require Proofs.ColdCache Proofs.ColdCacheTree.
Theorem C03_cold_caches_vanish : forall s o c, ColdCache.ids_distinct s ->
  fst (stream [] s o) = fst (stream [] (ColdCache.uncache s) o) /\
  fst (map_of [] s c) = fst (map_of [] (ColdCache.uncache s) c).
Proof. intros s o c H. exact (conj (ColdCache.fresh_stream_uncache s o H) (ColdCache.fresh_map_uncache s c H)). Qed.
Print Assumptions C03_cold_caches_vanish.

(* ... hence the property for them, both column settings (root below the wrappers: Concat, Original
   or Replace with replacements, whose map() streams) *)
Theorem C03_trees_with_cold_caches : forall s, ColdCache.ids_distinct s ->
  RStreamTree.rshape (ColdCache.uncache s) = true -> treeA s = true -> rsmall (ColdCache.uncache s) = true ->
  forall c, ColdCacheTree.streams_map (ColdCache.uncache s) = true ->
  forallb mapping_small (chunk_mappings (fst (fst (stream [] s (mkOpts c true))))) = true ->
  attr_of_map (fst (map_of [] s c)) (source s) c = attr_of_stream (fst (fst (stream [] s (mkOpts c false)))) c /\
  is_none (fst (map_of [] s c)) = negb (mapped_chunk_exists (fst (fst (stream [] s (mkOpts c false))))).
Proof. exact ColdCacheTree.fresh_C03_map. Qed.
Print Assumptions C03_trees_with_cold_caches.

(* the extracted checker accepts the model's own observations: verdict 0 outside the known-finding
   class K1, and inside it 0 or the K1 code - never anything else *)
From RS Require Import Api.ApiTree.
From RS Require Proofs.WfAllChk Proofs.ChkModelC03.
Theorem C03_checker_accepts_model : forall s ws,
  RStreamTree.rshape s = true -> treeA s = true -> rsmall s = true -> k1_shape s = false ->
  WfAllChk.enc_small [] s -> chk_C03 s (api_tree s ws) = 0.
Proof. exact ChkModelC03.chk_C03_tree. Qed.
Print Assumptions C03_checker_accepts_model.

Theorem C03_checker_k1_class : forall s ws,
  RStreamTree.rshape s = true -> treeA s = true -> k1_shape s = true ->
  chk_C03 s (api_tree s ws) = 0 \/ chk_C03 s (api_tree s ws) = 51.
Proof. exact ChkModelC03.chk_C03_tree_k1. Qed.
Print Assumptions C03_checker_k1_class.

(* ---- the property with hypotheses on the INPUT only: `tiny s` bounds the text sizes, table sizes
   and the numbers in the attached maps of the tree by 2^28 (Proofs/BoundsPos.v); the encoder-domain
   hypotheses above are consequences (Proofs/BoundsAll.v) ---- *)
From RS Require Proofs.BoundsPos Proofs.BoundsAll.
Theorem C03_trees_input_bounds : forall st s c,
  RStreamTree.rshape s = true -> treeA s = true -> BoundsPos.tiny s = true ->
  attr_of_map (fst (get_map st s c)) (source s) c = attr_of_stream (fst (fst (stream st s (mkOpts c false)))) c /\
  is_none (fst (get_map st s c)) = negb (mapped_chunk_exists (fst (fst (stream st s (mkOpts c false))))).
Proof.
  intros st s c H1 H2 H3. destruct c; [apply BoundsAll.C03_tree_cols_tiny|apply BoundsAll.C03_tree_lines_tiny]; assumption.
Qed.
Print Assumptions C03_trees_input_bounds.

(* (vii) trees whose leaves may also be SourceMapSources WITH an inner source map (class rshape2:
   the combined-map streamer, within the C09 domain), both column settings *)
From RS Require Proofs.CombLeafTree Proofs.CombLeafTreeCols Proofs.CombLeafTreeLines.
Theorem C03_trees_combined_leaves : forall st s c,
  CombLeafTree.rshape2 s = true -> treeA s = true -> rsmall s = true ->
  forallb mapping_small (chunk_mappings (fst (fst (stream st s (mkOpts c true))))) = true ->
  attr_of_map (fst (get_map st s c)) (source s) c = attr_of_stream (fst (fst (stream st s (mkOpts c false)))) c /\
  is_none (fst (get_map st s c)) = negb (mapped_chunk_exists (fst (fst (stream st s (mkOpts c false))))).
Proof.
  intros st s c H1 H2 H3 H4. destruct c;
    [apply CombLeafTreeCols.C03_tree_cols2|apply CombLeafTreeLines.C03_tree_lines2]; assumption.
Qed.
Print Assumptions C03_trees_combined_leaves.

(* (viii) trees with CachedSource nodes in ANY sound warm state (every state reachable by
   observations), no ReplaceSource with replacements above a cache: map() still attributes as the
   freshly built cache-free tree streams - both column settings *)
From RS Require Proofs.WarmTreeDefs Proofs.WarmTreeMain.
Theorem C03_trees_with_warm_caches : forall s,
  ColdCache.ids_distinct s -> Checkers.ChkHist.k2_shape s = false ->
  RStreamTree.rshape (ColdCache.uncache s) = true -> treeA s = true ->
  rsmall (ColdCache.uncache s) = true -> BoundsPos.tiny (ColdCache.uncache s) = true ->
  forall st c, WarmTreeDefs.Sound st s ->
  attr_of_map (fst (map_of st s c)) (source s) c = WarmTreeMain.reference s c /\
  WarmTreeDefs.Sound (snd (map_of st s c)) s.
Proof. exact WarmTreeMain.warm_map. Qed.
Print Assumptions C03_trees_with_warm_caches.

(* the checker accepts the model also with combined-map leaves and with warm caches *)
From RS Require Proofs.ChkMoreComb Proofs.ChkMoreWarmC03.
Theorem C03_checker_combined_leaves : forall s ws,
  CombLeafTree.rshape2 s = true -> treeA s = true -> rsmall s = true -> k1_shape s = false ->
  WfAllChk.enc_small [] s -> chk_C03 s (api_tree s ws) = 0.
Proof. exact ChkMoreComb.chk_C03_tree2. Qed.
Print Assumptions C03_checker_combined_leaves.

Theorem C03_checker_warm_caches : forall s ws,
  ColdCache.ids_distinct s -> Checkers.ChkHist.k2_shape s = false ->
  RStreamTree.rshape (ColdCache.uncache s) = true -> treeA s = true ->
  BoundsPos.tiny (ColdCache.uncache s) = true -> k1_shape s = false ->
  chk_C03 s (api_tree s ws) = 0.
Proof. exact ChkMoreWarmC03.C03_warm_checker. Qed.
Print Assumptions C03_checker_warm_caches.

(* (ix) BOTH combined-map leaves AND CachedSource nodes in any sound warm state (the union of the
   classes of C03_trees_combined_leaves and C03_trees_with_warm_caches): text-carrying stream,
   text-less stream and map() all attribute as the freshly built cache-free tree.  tiny2: the
   input-side bound that also covers the inner map's tables and numbers *)
From RS Require Proofs.WarmCombBounds Proofs.WarmCombDefs Proofs.WarmCombMain.
Theorem C03_trees_combined_leaves_and_warm_caches : forall s,
  ColdCache.ids_distinct s -> Checkers.ChkHist.k2_shape s = false ->
  CombLeafTree.rshape2 (ColdCache.uncache s) = true -> treeA s = true ->
  rsmall (ColdCache.uncache s) = true -> WarmCombBounds.tiny2 (ColdCache.uncache s) = true ->
  forall st c, WarmCombDefs.Sound2 st s ->
  attr_of_map (fst (map_of st s c)) (source s) c = WarmCombMain.reference2 s c /\
  WarmCombDefs.Sound2 (snd (map_of st s c)) s.
Proof. exact WarmCombMain.warm_map2. Qed.
Print Assumptions C03_trees_combined_leaves_and_warm_caches.

Theorem C03_final_vs_text_combined_and_warm : forall s,
  ColdCache.ids_distinct s -> Checkers.ChkHist.k2_shape s = false ->
  CombLeafTree.rshape2 (ColdCache.uncache s) = true -> treeA s = true ->
  rsmall (ColdCache.uncache s) = true -> WarmCombBounds.tiny2 (ColdCache.uncache s) = true ->
  forall st c, WarmCombDefs.Sound2 st s ->
  let '(evs, gi, st') := stream st s (mkOpts c true) in
  gi = advance 1 0 (source s) /\
  attr_of_final_events evs (source s) c = WarmCombMain.reference2 s c /\ WarmCombDefs.Sound2 st' s.
Proof. exact WarmCombMain.warm_final2. Qed.
Print Assumptions C03_final_vs_text_combined_and_warm.

From RS Require Proofs.WarmCombC03.
Theorem C03_checker_combined_leaves_and_warm_caches : forall s ws,
  ColdCache.ids_distinct s -> Checkers.ChkHist.k2_shape s = false ->
  CombLeafTree.rshape2 (ColdCache.uncache s) = true -> treeA s = true ->
  WarmCombBounds.tiny2 (ColdCache.uncache s) = true ->
  chk_C03 s (api_tree s ws) = 0 \/ (k1_shape s = true /\ chk_C03 s (api_tree s ws) = 51).
Proof. exact WarmCombC03.C03_warm_comb_checker_any. Qed.
Print Assumptions C03_checker_combined_leaves_and_warm_caches.
