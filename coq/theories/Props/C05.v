(* Property C05 - ReplaceSource text equals the reference replacement model,
   independent of the observers called in between.  Statements only. *)
From Coq Require Import Permutation Sorted.
From RS Require Import Base.Prelude Base.Text Rope.RopeModel Stream.Types Stream.Replace Sem.ReplaceObj
  Proofs.ReplaceSort Proofs.ReplaceText Proofs.ReplaceHistory.

(* the order used by the code is the order of the property text:
   (start, end, enforce, insertion order) *)
Theorem C05_order : forall rs,
  sort_repls rs = ref_order rs /\ Permutation (sort_repls rs) rs
  /\ StronglySorted (fun a b => repl_le a b = true) (sort_repls rs).
Proof. intros rs. exact (conj (sort_repls_ref rs) (conj (sort_repls_perm rs) (sort_repls_sorted rs))). Qed.
Print Assumptions C05_order.

(* source() = the reference model: copy the not-yet-consumed text up to the start, emit the
   content, consume up to the end, clamp positions beyond the end *)
Theorem C05_source_is_reference : forall inner rs,
  replace_source_text inner rs = ref_text inner rs.
Proof. exact replace_source_text_ref. Qed.
Print Assumptions C05_source_is_reference.

(* the lazily sorted index of the object is the stable sort whenever the flag is set, in every
   reachable state *)
Theorem C05_index_invariant : forall inner h,
  let o := fst (rrun inner robj_new h) in
  ob_sorted o = true -> ob_index o = sort_index (ob_repls o).
Proof. intros inner h. exact (InvIdx_rrun inner h robj_new InvIdx_new). Qed.
Print Assumptions C05_index_invariant.

(* every text rendered by an observer anywhere in a history is the reference text of the
   replacements pushed so far *)
Theorem C05_history_independent : forall inner h1 h2 k,
  nth_error (snd (rrun inner robj_new (h1 ++ RObserve k :: h2))) (length h1) =
  Some (if renders (pushed h1) k then Some (ref_text inner (pushed h1)) else None).
Proof. exact history_independent. Qed.
Print Assumptions C05_history_independent.

(* ... hence the result never depends on which observers (or clones) were interleaved *)
Theorem C05_observers_irrelevant : forall inner h1 h2,
  pushed h1 = pushed h2 -> final_text inner h1 = final_text inner h2.
Proof. exact observers_irrelevant. Qed.
Print Assumptions C05_observers_irrelevant.

Theorem C05_observers_erasable : forall inner h,
  final_text inner h = final_text inner (map RMutate (pushed h))
  /\ final_text inner h = Some (replace_source_text inner (pushed h)).
Proof. intros inner h. exact (conj (observers_erasable inner h) (final_text_replace_source inner h)). Qed.
Print Assumptions C05_observers_erasable.
