(* Property C11 - produced source maps and chunk streams are well-formed.
   Statements only.  stream_wf evs 0 0: announced source / name indices are dense
   from zero in order of first announcement and every index used by a chunk was
   announced earlier in the same stream. *)
From RS Require Import Base.Prelude Base.Text Codec.Vlq Codec.CodecSpec Stream.Types Stream.Leaves
  Stream.Concat Stream.Replace Stream.Tree Checkers.ChkCodec Checkers.ChkTree
  Proofs.StreamConcat Proofs.StreamTree Proofs.WfStream Proofs.WfFinal Proofs.WfMap.

(* every chunk stream, all four option combinations, any store, trees over
   Raw* / Original / SourceMapSource (consistent map) / Concat / Replace to any depth *)
Theorem C11_stream : forall s st o, rshape s = true -> treeA s = true ->
  stream_wf (fst (fst (stream st s o))) 0 0 = true.
Proof. exact stream_wf_tree. Qed.
Print Assumptions C11_stream.

(* the two composites preserve well-formedness of whatever their children stream *)
Theorem C11_concat : forall final (cs : list (list event * (N * N))),
  Forall (fun c => stream_wf (fst c) 0 0 = true) cs ->
  stream_wf (snd (concat_fold final cs (concat_init, []))) 0 0 = true.
Proof. exact concat_fold_wf. Qed.
Print Assumptions C11_concat.

Theorem C11_replace : forall sorted ievs gi, stream_wf ievs 0 0 = true ->
  stream_wf (fst (replace_stream sorted ievs gi)) 0 0 = true.
Proof. exact replace_stream_wf. Qed.
Print Assumptions C11_replace.

(* map(): mappings string over the base64 alphabet plus ',' ';', lines >= 1 - every tree *)
Theorem C11_map_alphabet : forall st s cols m st', get_map st s cols = (Some m, st') ->
  alphabet_clause m = true /\ lines_clause m = true.
Proof. intros st s cols m st'. exact (get_map_alphabet s st st' cols m). Qed.
Print Assumptions C11_map_alphabet.

(* map(): every source and name index inside the returned tables *)
Theorem C11_map_tables_partial : forall st s cols m st', rshape s = true -> treeA s = true ->
  enc_domain (chunk_mappings (fst (fst (stream st s (mkOpts cols true))))) = true ->
  get_map st s cols = (Some m, st') ->
  tables_clause m = true /\ alphabet_clause m = true /\ lines_clause m = true.
Proof. intros st s cols m st'. exact (get_map_tables_partial s st st' cols m). Qed.
Print Assumptions C11_map_tables_partial.

(* text-less mode: every reported position is a position of the text; end info exact *)
Theorem C11_final_positions_partial : forall s st cols, simple_shape s = true -> treeA s = true ->
  positions_of_text (source s) (chunks_of (fst (fst (stream st s (mkOpts cols true))))) = true
  /\ snd (fst (stream st s (mkOpts cols true))) = advance 1 0 (source s).
Proof. intros s st cols H1 H2. exact (conj (final_positions s st cols H1 H2) (final_end_partial s st cols H1)). Qed.
Print Assumptions C11_final_positions_partial.

(* text-less mode with columns, ReplaceSource included: every segment lies on a position of
   source(), the segments are sorted, the end info is exact (all trees over Raw* / Original /
   SourceMapSource with a consistent map / Concat / Replace) *)
From RS Require Proofs.RStreamTree Proofs.FinalTree.
Theorem C11_final_positions_columns : forall st s,
  RStreamTree.rshape s = true -> treeA s = true -> RStreamTree.rsmall s = true ->
  let r := stream st s (mkOpts true true) in
  positions_of_text (source s) (chunks_of (fst (fst r))) = true /\
  snd (fst r) = advance 1 0 (source s) /\
  sorted_by pos_le (chunk_mappings (fst (fst r))) = true.
Proof.
  intros st s H1 H2 H3. destruct (FinalTree.final_stream_facts st s H1 H2 H3) as (_ & A & B & C & _).
  exact (conj A (conj B C)).
Qed.
Print Assumptions C11_final_positions_columns.
