(* Property C11 - produced source maps and chunk streams are well-formed.
   Statements only.  stream_wf evs 0 0: announced source / name indices are dense
   from zero in order of first announcement and every index used by a chunk was
   announced earlier in the same stream. *)
From RS Require Import Base.Prelude Base.Text Codec.Vlq Codec.CodecSpec Stream.Types Stream.Leaves
  Stream.Concat Stream.Replace Stream.Tree Checkers.ChkCodec Checkers.ChkTree
  Proofs.StreamConcat Proofs.StreamTree Proofs.WfStream Proofs.WfFinal Proofs.WfMap.

(* every chunk stream, all four option combinations, any store, trees over
   Raw* / Original / SourceMapSource (consistent map) / Concat / Replace to any depth *)
Theorem C11_stream : forall s st o, rshape s = true -> treeA s = true ->
  stream_wf (fst (fst (stream st s o))) 0 0 = true.
Proof. exact stream_wf_tree. Qed.
Print Assumptions C11_stream.

(* the two composites preserve well-formedness of whatever their children stream *)
Theorem C11_concat : forall final (cs : list (list event * (N * N))),
  Forall (fun c => stream_wf (fst c) 0 0 = true) cs ->
  stream_wf (snd (concat_fold final cs (concat_init, []))) 0 0 = true.
Proof. exact concat_fold_wf. Qed.
Print Assumptions C11_concat.

Theorem C11_replace : forall sorted ievs gi, stream_wf ievs 0 0 = true ->
  stream_wf (fst (replace_stream sorted ievs gi)) 0 0 = true.
Proof. exact replace_stream_wf. Qed.
Print Assumptions C11_replace.

(* map(): mappings string over the base64 alphabet plus ',' ';', lines >= 1 - every tree *)
Theorem C11_map_alphabet : forall st s cols m st', get_map st s cols = (Some m, st') ->
  alphabet_clause m = true /\ lines_clause m = true.
Proof. intros st s cols m st'. exact (get_map_alphabet s st st' cols m). Qed.
Print Assumptions C11_map_alphabet.

(* map(): every source and name index inside the returned tables *)
Theorem C11_map_tables_partial : forall st s cols m st', rshape s = true -> treeA s = true ->
  enc_domain (chunk_mappings (fst (fst (stream st s (mkOpts cols true))))) = true ->
  get_map st s cols = (Some m, st') ->
  tables_clause m = true /\ alphabet_clause m = true /\ lines_clause m = true.
Proof. intros st s cols m st'. exact (get_map_tables_partial s st st' cols m). Qed.
Print Assumptions C11_map_tables_partial.

(* text-less mode: every reported position is a position of the text; end info exact *)
Theorem C11_final_positions_partial : forall s st cols, simple_shape s = true -> treeA s = true ->
  positions_of_text (source s) (chunks_of (fst (fst (stream st s (mkOpts cols true))))) = true
  /\ snd (fst (stream st s (mkOpts cols true))) = advance 1 0 (source s).
Proof. intros s st cols H1 H2. exact (conj (final_positions s st cols H1 H2) (final_end_partial s st cols H1)). Qed.
Print Assumptions C11_final_positions_partial.

(* text-less mode with columns, ReplaceSource included: every segment lies on a position of
   source(), the segments are sorted, the end info is exact (all trees over Raw* / Original /
   SourceMapSource with a consistent map / Concat / Replace) *)
From RS Require Proofs.RStreamTree Proofs.FinalTree.
Theorem C11_final_positions_columns : forall st s,
  RStreamTree.rshape s = true -> treeA s = true -> RStreamTree.rsmall s = true ->
  let r := stream st s (mkOpts true true) in
  positions_of_text (source s) (chunks_of (fst (fst r))) = true /\
  snd (fst r) = advance 1 0 (source s) /\
  sorted_by pos_le (chunk_mappings (fst (fst r))) = true.
Proof.
  intros st s H1 H2 H3. destruct (FinalTree.final_stream_facts st s H1 H2 H3) as (_ & A & B & C & _).
  exact (conj A (conj B C)).
Qed.
Print Assumptions C11_final_positions_columns.

(* ---- map(): the whole well-formedness clause, both column settings ---- *)
From RS Require Import Api.ApiTree.
From RS Require Proofs.WfAllStrict Proofs.WfAllMap Proofs.WfAllChk.

(* the decoded segments of the returned map are STRICTLY increasing, every one lies on a position of
   source() strictly before its end, on a line >= 1, all indices are inside the returned tables and
   the mappings string is over the alphabet (hypothesis: encoder domain, fields below 2^30) *)
Theorem C11_map_wf : forall st st' s cols m,
  RStreamTree.rshape s = true -> treeA s = true -> RStreamTree.rsmall s = true ->
  forallb mapping_small (chunk_mappings (fst (fst (stream st s (mkOpts cols true))))) = true ->
  get_map st s cols = (Some m, st') ->
  sorted_by pos_lt (decode_mappings (sm_mappings m)) = true /\
  Forall (WfAllMap.seg_inside (source s)) (decode_mappings (sm_mappings m)) /\
  tables_clause m = true /\ alphabet_clause m = true.
Proof. exact WfAllMap.get_map_wf. Qed.
Print Assumptions C11_map_wf.

(* the extracted checker accepts the model's own observations of every tree over Raw* / Original /
   SourceMapSource / Concat / Replace outside the known-finding class K1, and inside K1 it answers
   0 or the K1 code - never anything else *)
Theorem C11_checker_accepts_model : forall s ws,
  RStreamTree.rshape s = true -> treeA s = true -> RStreamTree.rsmall s = true -> k1_shape s = false ->
  WfAllChk.enc_small [] s -> chk_C11 s (api_tree s ws) = 0.
Proof. intros s ws. exact (WfAllChk.chk_C11_tree_warm s ws). Qed.
Print Assumptions C11_checker_accepts_model.

Theorem C11_checker_k1_class : forall s,
  RStreamTree.rshape s = true -> treeA s = true -> k1_shape s = true ->
  chk_C11 s (api_tree s []) = 0 \/ chk_C11 s (api_tree s []) = 51.
Proof. exact WfAllChk.chk_C11_tree_k1. Qed.
Print Assumptions C11_checker_k1_class.

(* with hypotheses on the INPUT only (`tiny`: sizes and numbers of the tree below 2^28) *)
From RS Require Proofs.BoundsPos Proofs.BoundsAll.
Theorem C11_map_wf_input_bounds : forall st st' s cols m,
  RStreamTree.rshape s = true -> treeA s = true -> BoundsPos.tiny s = true ->
  get_map st s cols = (Some m, st') ->
  sorted_by pos_lt (decode_mappings (sm_mappings m)) = true /\
  Forall (WfAllMap.seg_inside (source s)) (decode_mappings (sm_mappings m)) /\
  tables_clause m = true /\ alphabet_clause m = true.
Proof. exact BoundsAll.get_map_wf_tiny. Qed.
Print Assumptions C11_map_wf_input_bounds.

Theorem C11_checker_input_bounds : forall s,
  RStreamTree.rshape s = true -> treeA s = true -> BoundsPos.tiny s = true -> k1_shape s = false ->
  chk_C11 s (api_tree s []) = 0.
Proof. exact BoundsAll.chk_C11_tree_tiny. Qed.
Print Assumptions C11_checker_input_bounds.

(* ---- larger classes ---- *)
From RS Require Proofs.CombLeafTree Proofs.WfMoreComb Proofs.ColdCache Proofs.WfMoreWarm.
From RS Require Import Checkers.ChkHist.

(* trees whose leaves may also be SourceMapSources WITH an inner source map: the checker accepts
   the model (streams well-formed in all four modes, map() well-formed in both column settings) *)
Theorem C11_checker_combined_leaves : forall s ws,
  CombLeafTree.rshape2 s = true -> treeA s = true -> RStreamTree.rsmall s = true -> k1_shape s = false ->
  WfAllChk.enc_small [] s -> chk_C11 s (api_tree s ws) = 0.
Proof. exact WfMoreComb.chk_C11_tree2. Qed.
Print Assumptions C11_checker_combined_leaves.

(* trees with CachedSource nodes, after ANY warm-up calls, no ReplaceSource with replacements above
   a cache: the checker accepts the model; hypotheses on the input only *)
Theorem C11_checker_warm_caches : forall s ws,
  ColdCache.ids_distinct s -> k2_shape s = false ->
  RStreamTree.rshape (ColdCache.uncache s) = true -> treeA s = true ->
  BoundsPos.tiny (ColdCache.uncache s) = true -> k1_shape s = false ->
  chk_C11 s (api_tree s ws) = 0.
Proof. exact WfMoreWarm.C11_warm_checker. Qed.
Print Assumptions C11_checker_warm_caches.

(* the union class: combined-map leaves AND caches in any warm state in one tree; exactly the K1
   code inside the K1 class *)
From RS Require Proofs.CombLeafTree Proofs.WarmCombBounds Proofs.WarmCombWf.
Theorem C11_checker_combined_leaves_and_warm_caches : forall s ws,
  ColdCache.ids_distinct s -> k2_shape s = false ->
  CombLeafTree.rshape2 (ColdCache.uncache s) = true -> treeA s = true ->
  WarmCombBounds.tiny2 (ColdCache.uncache s) = true ->
  chk_C11 s (api_tree s ws) = 0 \/ (k1_shape s = true /\ chk_C11 s (api_tree s ws) = 51).
Proof. exact WarmCombWf.C11_warm_comb_checker_any. Qed.
Print Assumptions C11_checker_combined_leaves_and_warm_caches.
