(* Property C09 - combined source maps compose outer and inner attribution.
   Statements only, about Stream/Combined.v (the model of
   stream_chunks_of_combined_source_map). *)
From RS Require Import Base.Prelude Base.Text Stream.Types Stream.Leaves Stream.Combined Sem.Attr
  Checkers.ChkTree Proofs.CombSearch Proofs.CombPass Proofs.CombRows Proofs.CombReach.

(* the binary search over the rows of an inner line returns the LAST row at or before the column *)
Theorem C09_find_inner : forall st line column rw ch,
  (forall j rows chunks, nth_opt (b_lines st) j = Some (rows, chunks) ->
     cols_sorted rows /\ length chunks = length rows) ->
  find_inner st line column = Some (rw, ch) ->
  exists rows chunks k,
    nth_opt (b_lines st) (Z.to_N line - 1) = Some (rows, chunks) /\
    last_le rows column k rw /\ nth_opt chunks k = Some ch.
Proof. exact find_inner_sorted_state. Qed.
Print Assumptions C09_find_inner.

Theorem C09_binary_search_counts : forall rows column fuel, cols_sorted rows -> (length rows < fuel)%nat ->
  bs_loop fuel rows column 0 (len rows) = len (filter (le_col column) rows).
Proof. exact bs_loop_count. Qed.
Print Assumptions C09_binary_search_counts.

(* an outer segment into the inner source that the inner map covers is attributed to the inner row's
   file and line, with a column between the inner segment's start and that start plus the offset *)
Theorem C09_resolved : forall name remove st t mp igc isrc iline icol iname ich,
  in_src_ok st -> m_src mp = b_inner_index st ->
  find_inner st (m_oline mp) (m_ocol mp) = Some (igc, isrc, iline, icol, iname, ich) ->
  (0 <= isrc)%Z -> Z.to_N isrc < len (b_in_src_val st) ->
  exists st' pre g c fni,
    outer_chunk name remove st t mp = (st', pre ++ [mk_chunk t mp (Z.of_N g) iline c fni]) /\
    nth_opt (b_sources st') g = Some (inner_file st (Z.to_N isrc)) /\
    (icol <= c <= icol + (m_ocol mp - igc))%Z /\
    Forall is_ann pre /\ in_src_ok st'.
Proof. exact resolved_attr_file. Qed.
Print Assumptions C09_resolved.

(* where the inner map does not apply and removal is requested the chunk is left unmapped *)
Theorem C09_fallback_remove : forall name st t mp o,
  b_lines st = [] -> m_orig mp = Some o -> b_inner_index st = Z.of_N (o_src o) ->
  outer_chunk name true st t mp = (st, [EChunk t (unmapped (g_line mp) (g_col mp))]).
Proof. exact fallback_remove. Qed.
Print Assumptions C09_fallback_remove.

(* outer segments pointing to other sources pass through unchanged: when no outer source is the
   inner source the combined stream attributes exactly as the plain SourceMapSource; end info equal *)
Theorem C09_pass_through : forall v m name orig im remove o cols,
  map_consistent v m = true -> no_inner_source m name = true ->
  attr_of_stream (fst (combined_stream v m name orig im remove o)) cols
  = attr_of_stream (fst (sm_stream v m o)) cols
  /\ snd (combined_stream v m name orig im remove o) = snd (sm_stream v m o).
Proof.
  intros v m name orig im remove o cols H1 H2.
  exact (conj (combined_pass_attr v m name orig im remove o cols H1 H2) (combined_end_info v m name orig im remove o)).
Qed.
Print Assumptions C09_pass_through.

(* ---- the whole stream ---- *)
From RS Require Import Stream.Tree Api.ApiTree Checkers.ChkTree Checkers.ChkCombined.
From RS Require Proofs.AttrCodec Proofs.CombAllSpec Proofs.CombAllT12 Proofs.CombAllTop.

(* every chunk of the combined streamer has the text and generated position of the corresponding
   chunk of the outer splitter, and its resolved attribution is `resolve_combined` of the outer one
   (CombAllSpec.v: through the last inner segment at or before the position, the name rule, the
   fallback to the inner source itself, remove_original_source; other sources unchanged) - all
   four option sets *)
Theorem C09_whole_stream : forall v m name given im remove o,
  CombAllT12.c09_wf v m name given im ->
  rsegs_of_events (fst (combined_stream v m name given im remove o)) [] [] =
  map (CombAllSpec.rc_seg (columns o) m im name given remove) (rsegs_of_events (fst (sm_stream v m o)) [] []).
Proof. exact CombAllT12.combined_rsegs. Qed.
Print Assumptions C09_whole_stream.

(* announcements are dense, made before use, and a file is announced once *)
Theorem C09_announcements : forall v m name given im remove o,
  CombAllT12.c09_wf v m name given im ->
  AttrCodec.dense (fst (combined_stream v m name given im remove o)) 0 0 = true /\
  NoDup (map fst (contents_of_events (fst (combined_stream v m name given im remove o)))).
Proof.
  intros v m name given im remove o H.
  exact (conj (CombAllT12.combined_dense v m name given im remove o H)
              (CombAllT12.combined_sources_once v m name given im remove o H)).
Qed.
Print Assumptions C09_announcements.

(* the extracted checker - the relational reference over the two decoded maps, both column
   settings - accepts the model's own observations; c09_guards = the checker's own domain tests,
   c09_extra = size bounds, a file name determines its content, no empty outer name (without the
   last two the statement is false: CombAllTop.cex_a_in_domain_rejected, cex_b_in_domain_rejected;
   the entry point chk_C09_all answers "out of domain" for them) *)
Theorem C09_checker_accepts_model : forall v name m orig im remove,
  CombAllTop.c09_guards v name m orig im remove = true ->
  CombAllTop.c09_extra v name m orig im remove = true ->
  let s := SMapped v name m orig (Some im) remove in
  chk_C09 s (api_tree s []) = 0.
Proof. exact CombAllTop.chk_C09_model. Qed.
Print Assumptions C09_checker_accepts_model.
