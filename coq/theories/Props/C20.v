(* Property C20 - hashes separate observably different sources and are
   reproducible.  Statements only, about Sem/HashEq.v: hash_events is the typed
   sequence of writes each Hash impl feeds the hasher (a function of constructor
   data only: no address, cache or call order occurs in it); a CachedSource feeds
   one u64 digest of the inner stream, HU64 - "up to collisions of the 64-bit
   hasher" is the injectivity of that digest, built into HU64 carrying the stream. *)
From RS Require Import Base.Prelude Base.Text Stream.Types Stream.Replace Stream.Tree Sem.HashEq
  Checkers.ChkTree Proofs.HashEqBasic Proofs.HashInjective Proofs.HashViews.

(* norm erases exactly what the hash deliberately ignores: the String/Buffer flag of RawSource,
   the name of a SourceMapSource, the identity of a cache, the insertion order of replacements.
   delimited: children of a ConcatSource are not ConcatSources and a ReplaceSource does not sit
   between two ConcatSources (a CachedSource resets the condition). *)
Theorem C20_injective : forall a b, delimited a = true -> delimited b = true ->
  hash_events a = hash_events b -> norm a = norm b.
Proof. exact hash_injective. Qed.
Print Assumptions C20_injective.

Theorem C20_injective_iff : forall a b, delimited a = true -> delimited b = true ->
  (hash_events a = hash_events b <-> norm a = norm b).
Proof. exact hash_injective_iff. Qed.
Print Assumptions C20_injective_iff.

(* ... and equal normal forms render the same text and bytes: so different source() or buffer()
   implies different hasher streams *)
Theorem C20_separates_views : forall a b,
  delimited a = true -> delimited b = true ->
  all_leaves_valid a = true -> all_leaves_valid b = true ->
  (source a <> source b \/ buffer a <> buffer b) -> hash_events a <> hash_events b.
Proof.
  intros a b Da Db Va Vb Hd Hh.
  destruct (norm_views_valid a b Va Vb (hash_injective a b Da Db Hh)) as [Hs Hb].
  destruct Hd as [Hd|Hd]; [exact (Hd Hs) | exact (Hd Hb)].
Qed.
Print Assumptions C20_separates_views.

(* different hashes imply == is false (contrapositive of C14_eq_implies_hash) *)
Theorem C20_unequal : forall a b, hash_events a <> hash_events b -> src_eqb a b = false.
Proof.
  intros a b H. destruct (src_eqb a b) eqn:E; [|reflexivity].
  exfalso. exact (H (eq_implies_hash a b E)).
Qed.
Print Assumptions C20_unequal.

(* known finding K6: outside the delimited class the stream is NOT injective - a ConcatSource
   does not delimit its children *)
Theorem C20_K6_refuted : exists a b, hash_events a = hash_events b /\ source a <> source b.
Proof. exact hash_not_injective. Qed.
Print Assumptions C20_K6_refuted.

Theorem C20_cached_digest : forall i j a b,
  hash_events a = hash_events b <-> hash_events (SCached i a) = hash_events (SCached j b).
Proof. intros i j a b. exact (hash_cached_congruence i j a b). Qed.
Print Assumptions C20_cached_digest.
