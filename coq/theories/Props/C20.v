(* Property C20 - hashes separate observably different sources and are
   reproducible.  Statements only, about Sem/HashEq.v: hash_events is the typed
   sequence of writes each Hash impl feeds the hasher (a function of constructor
   data only: no address, cache or call order occurs in it); a CachedSource feeds
   one u64 digest of the inner stream, HU64 - "up to collisions of the 64-bit
   hasher" is the injectivity of that digest, built into HU64 carrying the stream. *)
From RS Require Import Base.Prelude Base.Text Stream.Types Stream.Replace Stream.Tree Sem.HashEq
  Checkers.ChkTree Proofs.HashEqBasic Proofs.HashInjective Proofs.HashViews.

(* norm erases exactly what the hash deliberately ignores: the String/Buffer flag of RawSource,
   the name of a SourceMapSource, the identity of a cache, the insertion order of replacements.
   delimited: children of a ConcatSource are not ConcatSources and a ReplaceSource does not sit
   between two ConcatSources (a CachedSource resets the condition). *)
Theorem C20_injective : forall a b, delimited a = true -> delimited b = true ->
  hash_events a = hash_events b -> norm a = norm b.
Proof. exact hash_injective. Qed.
Print Assumptions C20_injective.

Theorem C20_injective_iff : forall a b, delimited a = true -> delimited b = true ->
  (hash_events a = hash_events b <-> norm a = norm b).
Proof. exact hash_injective_iff. Qed.
Print Assumptions C20_injective_iff.

(* ... and equal normal forms render the same text and bytes: so different source() or buffer()
   implies different hasher streams *)
Theorem C20_separates_views : forall a b,
  delimited a = true -> delimited b = true ->
  all_leaves_valid a = true -> all_leaves_valid b = true ->
  (source a <> source b \/ buffer a <> buffer b) -> hash_events a <> hash_events b.
Proof.
  intros a b Da Db Va Vb Hd Hh.
  destruct (norm_views_valid a b Va Vb (hash_injective a b Da Db Hh)) as [Hs Hb].
  destruct Hd as [Hd|Hd]; [exact (Hd Hs) | exact (Hd Hb)].
Qed.
Print Assumptions C20_separates_views.

(* different hashes imply == is false (contrapositive of C14_eq_implies_hash) *)
Theorem C20_unequal : forall a b, hash_events a <> hash_events b -> src_eqb a b = false.
Proof.
  intros a b H. destruct (src_eqb a b) eqn:E; [|reflexivity].
  exfalso. exact (H (eq_implies_hash a b E)).
Qed.
Print Assumptions C20_unequal.

(* known finding K6: outside the delimited class the stream is NOT injective - a ConcatSource
   does not delimit its children *)
Theorem C20_K6_refuted : exists a b, hash_events a = hash_events b /\ source a <> source b.
Proof. exact hash_not_injective. Qed.
Print Assumptions C20_K6_refuted.

Theorem C20_cached_digest : forall i j a b,
  hash_events a = hash_events b <-> hash_events (SCached i a) = hash_events (SCached j b).
Proof. intros i j a b. exact (hash_cached_congruence i j a b). Qed.
Print Assumptions C20_cached_digest.

(* --- map() and the chunk stream ------------------------------------------------------------- *)
From RS Require Import Stream.Tree Proofs.ReassAll Proofs.EqObsTree
  Proofs.HashObsLeaf Proofs.HashObsTree Proofs.HashObsInner.

(* what the hash deliberately ignores is unobservable: equal normal forms give the same chunk
   stream (events and generated position) and the same map(), for trees without combined leaves *)
Theorem C20_ignored_is_unobservable : forall a b,
  noinner a = true -> noinner b = true ->
  all_leaves_valid a = true -> all_leaves_valid b = true ->
  ids_distinct a -> ids_distinct b -> norm a = norm b ->
  forall o c,
    fst (fst (stream [] a o)) = fst (fst (stream [] b o)) /\
    snd (fst (stream [] a o)) = snd (fst (stream [] b o)) /\
    fst (map_of [] a c) = fst (map_of [] b c).
Proof. exact N2_norm_cold_answers. Qed.
Print Assumptions C20_ignored_is_unobservable.

(* the property with map(): any difference in map(), source() or buffer() is a difference of the
   hasher streams (trees without combined leaves) *)
Theorem C20_separates_maps : forall a b,
  delimited a = true -> delimited b = true -> noinner a = true -> noinner b = true ->
  all_leaves_valid a = true -> all_leaves_valid b = true -> ids_distinct a -> ids_distinct b ->
  (exists c, fst (map_of [] a c) <> fst (map_of [] b c)) \/ source a <> source b \/ buffer a <> buffer b ->
  hash_events a <> hash_events b.
Proof. exact N3_observable_difference_hash. Qed.
Print Assumptions C20_separates_maps.

Theorem C20_separates_streams : forall a b,
  delimited a = true -> delimited b = true -> noinner a = true -> noinner b = true ->
  all_leaves_valid a = true -> all_leaves_valid b = true -> ids_distinct a -> ids_distinct b ->
  (exists o, fst (stream [] a o) <> fst (stream [] b o)) -> hash_events a <> hash_events b.
Proof. exact N3_stream_difference_hash. Qed.
Print Assumptions C20_separates_streams.

(* with combined leaves (SourceMapSource with an inner map) the name of the leaf enters map():
   the property excludes exactly that name ("deliberately not hashed").  Outside the exclusion -
   the names of the combined leaves agree - the statement holds on all delimited trees *)
Theorem C20_separates_maps_combined : forall a b,
  all_leaves_valid a = true -> all_leaves_valid b = true -> ids_distinct a -> ids_distinct b ->
  delimited a = true -> delimited b = true ->
  inner_names a = inner_names b ->
  (exists c, fst (map_of [] a c) <> fst (map_of [] b c)) \/
  (exists o, fst (stream [] a o) <> fst (stream [] b o)) \/
  source a <> source b \/ buffer a <> buffer b ->
  hash_events a <> hash_events b.
Proof. exact N4_hash_and_names_partial. Qed.
Print Assumptions C20_separates_maps_combined.

(* ... and the exclusion is needed: the name of a combined leaf IS observable through map() while
   the hasher stream ignores it (no defect: the property text excludes the name) *)
Theorem C20_excluded_name_is_observable :
  hash_events n4_a = hash_events n4_b /\ norm n4_a = norm n4_b /\
  source n4_a = source n4_b /\ buffer n4_a = buffer n4_b /\
  (forall c, fst (map_of [] n4_a c) <> fst (map_of [] n4_b c)) /\
  src_eqb n4_a n4_b = false.
Proof.
  destruct N4_name_observable as (_&_&_&_&_&_&_&_&_&H1&H2&H3&H4&H5&_&H6).
  repeat split; assumption.
Qed.
Print Assumptions C20_excluded_name_is_observable.

(* a collision of the hasher streams between observably different trees is a name of a
   combined leaf, nothing else *)
Theorem C20_collision_is_a_name : forall a b,
  all_leaves_valid a = true -> all_leaves_valid b = true -> ids_distinct a -> ids_distinct b ->
  delimited a = true -> delimited b = true ->
  hash_events a = hash_events b ->
  (exists c, fst (map_of [] a c) <> fst (map_of [] b c)) \/
  (exists o, fst (stream [] a o) <> fst (stream [] b o)) ->
  inner_names a <> inner_names b.
Proof. exact N4_collision_is_a_name. Qed.
Print Assumptions C20_collision_is_a_name.

(* "and compare unequal": on ALL trees, no class and no validity, any observable difference
   makes == false (== does compare the name) *)
Theorem C20_observable_difference_unequal : forall a b,
  ids_distinct a -> ids_distinct b ->
  (exists c, fst (map_of [] a c) <> fst (map_of [] b c)) \/
  (exists o, fst (stream [] a o) <> fst (stream [] b o)) \/
  source a <> source b \/ buffer a <> buffer b ->
  src_eqb a b = false.
Proof. exact N4_observable_difference_unequal. Qed.
Print Assumptions C20_observable_difference_unequal.

(* --- the extracted checker on the model's own observations -------------------------------------- *)
From RS Require Import Api.ApiHist Checkers.ChkHist.
From RS Require Proofs.HashChkBase Proofs.HashChkDelim.
(* for ALL trees and ALL histories the checker never reports a violation (codes 1, 2, 3) of the
   model; its only findings are K6 (56), and only outside the delimited class *)
Theorem C20_checker_accepts_model : forall a b opsa opsb,
  chk_C20_pair a b (api_pair a opsa b opsb) = 0 \/
  chk_C20_pair a b (api_pair a opsa b opsb) = 100 \/
  (hash_events a = hash_events b /\ (delimited a && delimited b) = false /\
   chk_C20_pair a b (api_pair a opsa b opsb) = 56).
Proof. exact HashChkBase.C20_checker_accepts_model. Qed.
Print Assumptions C20_checker_accepts_model.

Theorem C20_K6_only_outside_delimited : forall a b opsa opsb,
  chk_C20_pair a b (api_pair a opsa b opsb) = 56 -> delimited a = false \/ delimited b = false.
Proof. exact HashChkBase.C20_56_only_outside_delimited. Qed.
Print Assumptions C20_K6_only_outside_delimited.
