(* Property C12 - mappings codec round-trips and matches source-map v3.
   This file only states the property theorems (about the model Codec/Vlq.v,
   against the independent reading Codec/CodecSpec.v) and closes each with a
   lemma proved in Proofs/Codec*.v. *)
From RS Require Import Base.Prelude Codec.Vlq Codec.CodecSpec Checkers.ChkCodec
  Proofs.CodecAlphabet Proofs.CodecVlq Proofs.CodecKept Proofs.CodecSplit Proofs.CodecEnc
  Proofs.CodecLines Proofs.CodecDec Proofs.CodecMain.

(* enc_domain ms: sorted by generated position (non-strictly), every field < 2^30, lines >= 1 *)

Theorem C12_alphabet_inverse : forall d, d < 64 -> b64_val (b64_char d) = d /\ b64_digit (b64_char d) = Some d.
Proof. intros d Hd. split; [exact (b64_val_char d Hd) | exact (b64_digit_char d Hd)]. Qed.
Print Assumptions C12_alphabet_inverse.

(* one VLQ number, read by the independent v3 reader *)
Theorem C12_vlq_roundtrip : forall a b, a < two32 -> b < two32 ->
  (Z.abs (Z.of_N a - Z.of_N b) < 2^31)%Z ->
  vlq_ints (encode_vlq a b) = Some [(Z.of_N a - Z.of_N b)%Z].
Proof. exact vlq_roundtrip. Qed.
Print Assumptions C12_vlq_roundtrip.

(* decode . encode = the non-redundant segments, and those attribute every position as the input *)
Theorem C12_decode_encode : forall ms, enc_domain ms = true ->
  decode_mappings (encode_full ms) = kept ms.
Proof. exact decode_encode. Qed.
Print Assumptions C12_decode_encode.

Theorem C12_kept_attribution : forall ms l c, sorted_by pos_le ms = true ->
  lookup (kept ms) l c = lookup ms l c.
Proof. exact kept_attr. Qed.
Print Assumptions C12_kept_attribution.

Theorem C12_roundtrip_attribution : forall ms l c, enc_domain ms = true ->
  lookup (decode_mappings (encode_full ms)) l c = lookup ms l c.
Proof. exact decode_encode_attr. Qed.
Print Assumptions C12_roundtrip_attribution.

(* the encoder's output read by the independent implementation of the format
   (original lines are 1-based in the crate; the v3 format cannot express line 0:
   encode_spec_counterexample) *)
Theorem C12_encode_matches_spec : forall ms, enc_domain ms = true ->
  Forall (fun m => match m_orig m with Some o => 1 <= o_line o | None => True end) ms ->
  spec_decode (encode_full ms) = Some (kept ms).
Proof. exact encode_spec_partial. Qed.
Print Assumptions C12_encode_matches_spec.

Theorem C12_reencode : forall ms, enc_domain ms = true ->
  encode_full (decode_mappings (encode_full ms)) = encode_full ms.
Proof. exact reencode. Qed.
Print Assumptions C12_reencode.

(* on every string of the v3 grammar whose running values fit u32 - redundant continuation
   digits, empty segments, backward columns, several ';' included - the decoder returns
   exactly the segments the format defines *)
Theorem C12_decode_matches_spec : forall s l, spec_decode s = Some l ->
  forallb mapping_u32 l = true -> Forall (fun c => c < 256) s ->
  decode_mappings s = l.
Proof. exact decode_matches_spec. Qed.
Print Assumptions C12_decode_matches_spec.

(* the line-only encoder keeps exactly the first mapped segment of each line, column 0, no name *)
Theorem C12_lines_only : forall ms, enc_domain ms = true ->
  decode_mappings (encode_lines ms) = line_firsts ms.
Proof. exact lines_only_decode. Qed.
Print Assumptions C12_lines_only.

Theorem C12_lines_only_spec : forall ms, enc_domain ms = true ->
  Forall (fun m => match m_orig m with Some o => 1 <= o_line o | None => True end) ms ->
  spec_decode (encode_lines ms) = Some (line_firsts ms) /\ decode_mappings (encode_lines ms) = line_firsts ms.
Proof. exact lines_only_partial. Qed.
Print Assumptions C12_lines_only_spec.

(* only base64 digits, ',' and ';' are ever emitted, all ASCII (precondition of from_utf8_unchecked) *)
Theorem C12_alphabet : forall ms c, In c (encode_full ms) \/ In c (encode_lines ms) ->
  c < 128 /\ (b64_digit c <> None \/ c = 44 \/ c = 59).
Proof. exact encode_alphabet. Qed.
Print Assumptions C12_alphabet.
