(* Property C12 - mappings codec round-trips and matches source-map v3.
   This file only states the property theorems and closes each with a lemma
   proved elsewhere. *)
From RS Require Import Base.Prelude Codec.Vlq Codec.CodecSpec Proofs.CodecAlphabet.

Theorem C12_alphabet_inverse : forall d, d < 64 -> b64_val (b64_char d) = d /\ b64_digit (b64_char d) = Some d.
Proof. intros d Hd. split; [exact (b64_val_char d Hd) | exact (b64_digit_char d Hd)]. Qed.
Print Assumptions C12_alphabet_inverse.
