(* Text-level helpers: line splitting, UTF-8 structure.  Definitions only. *)
From RS Require Import Base.Prelude.

(* ---------- memchr / line splitting (helpers.rs `split`, rope `lines_impl(false)`) ---------- *)
Fixpoint find_nl (t : text) (i : N) : option N :=
  match t with
  | [] => None
  | c :: t' => if c =? NL then Some i else find_nl t' (i + 1)
  end.

(* /[^\n]+\n?|\n/g : every line keeps its line break; no empty last line *)
Fixpoint split_lines_aux (t : text) (cur : text) : list text :=
  match t with
  | [] => match cur with [] => [] | _ => [rev cur] end
  | c :: t' => if c =? NL then rev (c :: cur) :: split_lines_aux t' [] else split_lines_aux t' (c :: cur)
  end.
Definition split_lines (t : text) : list text := split_lines_aux t [].

(* ---------- UTF-8 ---------- *)
Definition is_cont (b : N) : bool := (128 <=? b) && (b <? 192).
(* byte offset i of t is a char boundary (str::is_char_boundary) *)
Definition is_boundary (t : text) (i : N) : bool :=
  if i =? 0 then true
  else match nth_opt t i with
       | Some b => negb (is_cont b)
       | None => i =? len t
       end.

Definition utf8_len_of_lead (b : N) : N :=
  if b <? 128 then 1 else if b <? 224 then 2 else if b <? 240 then 3 else 4.

(* code point of the char starting with lead byte b followed by t (valid UTF-8 assumed) *)
Definition decode_char (b : N) (t : text) : N :=
  let c i := match nth_opt t i with Some x => x mod 64 | None => 0 end in
  if b <? 128 then b
  else if b <? 224 then (b mod 32) * 64 + c 0
  else if b <? 240 then (b mod 16) * 4096 + c 0 * 64 + c 1
  else (b mod 8) * 262144 + c 0 * 4096 + c 1 * 64 + c 2.

(* str::char_indices : (byte offset, code point) *)
Fixpoint char_indices_from (t : text) (i : N) : list (N * N) :=
  match t with
  | [] => []
  | b :: t' =>
    if is_cont b then char_indices_from t' (i + 1)
    else (i, decode_char b t') :: char_indices_from t' (i + 1)
  end.
Definition char_indices (t : text) : list (N * N) := char_indices_from t 0.

Definition utf8_encode_char (c : N) : text :=
  if c <? 128 then [c]
  else if c <? 2048 then [192 + c / 64; 128 + c mod 64]
  else if c <? 65536 then [224 + c / 4096; 128 + (c / 64) mod 64; 128 + c mod 64]
  else [240 + c / 262144; 128 + (c / 4096) mod 64; 128 + (c / 64) mod 64; 128 + c mod 64].

(* validity of UTF-8 (the invariant of Rust's `str`), after the Unicode standard's table 3-7 *)
Definition in_range (lo hi b : N) : bool := (lo <=? b) && (b <=? hi).
Fixpoint valid_utf8_fuel (fuel : nat) (t : text) : bool :=
  match fuel with
  | O => match t with [] => true | _ => false end
  | S f =>
    match t with
    | [] => true
    | b0 :: t1 =>
      if b0 <? 128 then valid_utf8_fuel f t1
      else if in_range 194 223 b0 then
        match t1 with b1 :: t2 => in_range 128 191 b1 && valid_utf8_fuel f t2 | _ => false end
      else if b0 =? 224 then
        match t1 with b1 :: b2 :: t3 => in_range 160 191 b1 && in_range 128 191 b2 && valid_utf8_fuel f t3 | _ => false end
      else if in_range 225 236 b0 || in_range 238 239 b0 then
        match t1 with b1 :: b2 :: t3 => in_range 128 191 b1 && in_range 128 191 b2 && valid_utf8_fuel f t3 | _ => false end
      else if b0 =? 237 then
        match t1 with b1 :: b2 :: t3 => in_range 128 159 b1 && in_range 128 191 b2 && valid_utf8_fuel f t3 | _ => false end
      else if b0 =? 240 then
        match t1 with b1 :: b2 :: b3 :: t4 => in_range 144 191 b1 && in_range 128 191 b2 && in_range 128 191 b3 && valid_utf8_fuel f t4 | _ => false end
      else if in_range 241 243 b0 then
        match t1 with b1 :: b2 :: b3 :: t4 => in_range 128 191 b1 && in_range 128 191 b2 && in_range 128 191 b3 && valid_utf8_fuel f t4 | _ => false end
      else if b0 =? 244 then
        match t1 with b1 :: b2 :: b3 :: t4 => in_range 128 143 b1 && in_range 128 191 b2 && in_range 128 191 b3 && valid_utf8_fuel f t4 | _ => false end
      else false
    end
  end.
Definition valid_utf8 (t : text) : bool := valid_utf8_fuel (length t) t.

(* String::from_utf8_lossy : maximal-subpart replacement with U+FFFD (EF BF BD) *)
Definition REPL : text := [239; 191; 189].
Fixpoint utf8_lossy_fuel (fuel : nat) (t : text) : text :=
  match fuel with
  | O => []
  | S f =>
    match t with
    | [] => []
    | b0 :: t1 =>
      if b0 <? 128 then b0 :: utf8_lossy_fuel f t1
      else
        (* second-byte range by lead byte; 0 length = invalid lead *)
        let '(n, lo, hi) :=
          if in_range 194 223 b0 then (2, 128, 191)
          else if b0 =? 224 then (3, 160, 191)
          else if in_range 225 236 b0 || in_range 238 239 b0 then (3, 128, 191)
          else if b0 =? 237 then (3, 128, 159)
          else if b0 =? 240 then (4, 144, 191)
          else if in_range 241 243 b0 then (4, 128, 191)
          else if b0 =? 244 then (4, 128, 143)
          else (0, 0, 0) in
        if n =? 0 then REPL ++ utf8_lossy_fuel f t1
        else
          match t1 with
          | b1 :: t2 =>
            if negb (in_range lo hi b1) then REPL ++ utf8_lossy_fuel f t1
            else if n =? 2 then b0 :: b1 :: utf8_lossy_fuel f t2
            else
              match t2 with
              | b2 :: t3 =>
                if negb (in_range 128 191 b2) then REPL ++ utf8_lossy_fuel f t2
                else if n =? 3 then b0 :: b1 :: b2 :: utf8_lossy_fuel f t3
                else
                  match t3 with
                  | b3 :: t4 =>
                    if negb (in_range 128 191 b3) then REPL ++ utf8_lossy_fuel f t3
                    else b0 :: b1 :: b2 :: b3 :: utf8_lossy_fuel f t4
                  | [] => REPL
                  end
              | [] => REPL
              end
          | [] => REPL
          end
    end
  end.
Definition utf8_lossy (t : text) : text := utf8_lossy_fuel (length t) t.

(* ---------- positions ---------- *)
(* (line, column) after emitting t starting from (line, col); columns count bytes *)
Fixpoint advance (l c : N) (t : text) : N * N :=
  match t with
  | [] => (l, c)
  | b :: t' => if b =? NL then advance (l + 1) 0 t' else advance l (c + 1) t'
  end.

(* helpers.rs get_generated_source_info *)
Definition gen_info (t : text) : N * N :=
  let ls := split_lines t in
  if ends_with_nl t then (len ls + 1, 0)
  else (N.max (len ls) 1, match rev ls with [] => 0 | l :: _ => len l end).
