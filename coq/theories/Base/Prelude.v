(* Base types shared by the whole model.  Definitions only. *)
From Coq Require Export List NArith ZArith Bool Lia.
Export ListNotations.
Open Scope N_scope.

(* Text is a list of bytes (N < 256) holding UTF-8; a byte offset is a list
   index, exactly as in the Rust (`str::len`, byte ranges). *)
Definition byte := N.
Definition text := list N.

Definition NL : N := 10.

(* ---- generic list helpers (N-indexed) ---- *)
Definition len {A} (l : list A) : N := N.of_nat (length l).
Definition take {A} (n : N) (l : list A) : list A := firstn (N.to_nat n) l.
Definition drop {A} (n : N) (l : list A) : list A := skipn (N.to_nat n) l.
Definition slice {A} (a b : N) (l : list A) : list A := take (b - a) (drop a l).
Definition nth_opt {A} (l : list A) (n : N) : option A := nth_error l (N.to_nat n).

Fixpoint text_eqb (a b : text) : bool :=
  match a, b with
  | [], [] => true
  | x :: a', y :: b' => (x =? y) && text_eqb a' b'
  | _, _ => false
  end.

Fixpoint is_prefix (p t : text) : bool :=
  match p, t with
  | [], _ => true
  | x :: p', y :: t' => (x =? y) && is_prefix p' t'
  | _ :: _, [] => false
  end.

Definition last_byte (t : text) : option N :=
  match rev t with [] => None | x :: _ => Some x end.

Definition ends_with_nl (t : text) : bool :=
  match last_byte t with Some c => c =? NL | None => false end.

Definition opt_eqb {A} (eqb : A -> A -> bool) (a b : option A) : bool :=
  match a, b with
  | None, None => true
  | Some x, Some y => eqb x y
  | _, _ => false
  end.

Fixpoint list_eqb {A} (eqb : A -> A -> bool) (a b : list A) : bool :=
  match a, b with
  | [], [] => true
  | x :: a', y :: b' => eqb x y && list_eqb eqb a' b'
  | _, _ => false
  end.

(* ---- source-map data ---- *)
Record orig := mkOrig { o_src : N; o_line : N; o_col : N; o_name : option N }.
Record mapping := mkMapping { g_line : N; g_col : N; m_orig : option orig }.

Definition orig_eqb (a b : orig) : bool :=
  (o_src a =? o_src b) && (o_line a =? o_line b) && (o_col a =? o_col b)
  && opt_eqb N.eqb (o_name a) (o_name b).
Definition mapping_eqb (a b : mapping) : bool :=
  (g_line a =? g_line b) && (g_col a =? g_col b) && opt_eqb orig_eqb (m_orig a) (m_orig b).

Record smap := mkSmap {
  sm_file : option text;
  sm_mappings : text;
  sm_sources : list text;
  sm_contents : list text;
  sm_names : list text;
  sm_root : option text;
  sm_debug : option text }.

Definition smap_eqb (a b : smap) : bool :=
  opt_eqb text_eqb (sm_file a) (sm_file b) && text_eqb (sm_mappings a) (sm_mappings b)
  && list_eqb text_eqb (sm_sources a) (sm_sources b)
  && list_eqb text_eqb (sm_contents a) (sm_contents b)
  && list_eqb text_eqb (sm_names a) (sm_names b)
  && opt_eqb text_eqb (sm_root a) (sm_root b) && opt_eqb text_eqb (sm_debug a) (sm_debug b).

(* `u32` wrap-around, written where the Rust casts or shifts. *)
Definition two32 : N := 4294967296.
Definition wrap32 (n : N) : N := n mod two32.
Definition wrap32z (z : Z) : N := Z.to_N (z mod 4294967296)%Z.
