(* Model of src/encoder.rs and src/decoder.rs.  Definitions only. *)
From RS Require Import Base.Prelude.

(* ---------- base64 alphabet ---------- *)
(* B64_CHARS[d] of encoder.rs *)
Definition b64_char (d : N) : N :=
  if d <? 26 then 65 + d
  else if d <? 52 then 97 + (d - 26)
  else if d <? 62 then 48 + (d - 52)
  else if d =? 62 then 43 else 47.

Definition COM : N := 64.
Definition SEM : N := 65.
Definition ERR : N := 66.

(* B64[c] of decoder.rs (256-entry table) *)
Definition b64_val (c : N) : N :=
  if (65 <=? c) && (c <=? 90) then c - 65
  else if (97 <=? c) && (c <=? 122) then c - 97 + 26
  else if (48 <=? c) && (c <=? 57) then c - 48 + 52
  else if c =? 43 then 62
  else if c =? 47 then 63
  else if c =? 44 then COM
  else if c =? 59 then SEM
  else ERR.

(* ---------- encode_vlq ---------- *)
Fixpoint vlq_digits (fuel : nat) (num : N) : text :=
  match fuel with
  | O => []
  | S f =>
    let digit := N.land num 31 in
    let num' := N.shiftr num 5 in
    if 0 <? num' then b64_char (N.lor digit 32) :: vlq_digits f num'
    else [b64_char digit]
  end.

(* num is a u32, so at most 7 digits *)
Definition vlq_num (a b : N) : N :=
  if b <=? a then wrap32 (N.shiftl (a - b) 1) else wrap32 (N.shiftl (b - a) 1) + 1.
Definition encode_vlq (a b : N) : text := vlq_digits 7 (vlq_num a b).

(* ---------- FullMappingsEncoder ---------- *)
Record enc := mkEnc {
  e_line : N; e_col : N; e_oline : N; e_ocol : N; e_src : N; e_name : N;
  e_active : bool; e_active_name : bool; e_initial : bool }.

Definition enc_init : enc := mkEnc 1 0 1 0 0 0 false false true.

Definition semi : N := 59.
Definition comma : N := 44.
Definition chA : N := 65.

Definition enc_skip (e : enc) (m : mapping) : bool :=
  if e_active e && (e_line e =? g_line m) then
    match m_orig m with
    | Some o => (o_src o =? e_src e) && (o_line o =? e_oline e) && (o_col o =? e_ocol e)
                && negb (e_active_name e)
                && match o_name o with None => true | Some _ => false end
    | None => false
    end
  else match m_orig m with None => true | Some _ => false end.

(* one `encode` call: new state and the bytes pushed *)
Definition enc_step (e : enc) (m : mapping) : enc * text :=
  if enc_skip e m then (e, []) else
  let '(line, col, initial, sep) :=
    if e_line e <? g_line m then
      (g_line m, 0, false, repeat semi (N.to_nat (g_line m - e_line e)))
    else if e_initial e then (e_line e, e_col e, false, [])
    else (e_line e, e_col e, e_initial e, [comma]) in
  let out1 := sep ++ encode_vlq (g_col m) col in
  match m_orig m with
  | Some o =>
    let out2 := if o_src o =? e_src e then [chA] else encode_vlq (o_src o) (e_src e) in
    let out3 := encode_vlq (o_line o) (e_oline e) in
    let out4 := if o_col o =? e_ocol e then [chA] else encode_vlq (o_col o) (e_ocol e) in
    match o_name o with
    | Some n =>
      (mkEnc line (g_col m) (o_line o) (o_col o) (o_src o) n true true initial,
       out1 ++ out2 ++ out3 ++ out4 ++ encode_vlq n (e_name e))
    | None =>
      (mkEnc line (g_col m) (o_line o) (o_col o) (o_src o) (e_name e) true false initial,
       out1 ++ out2 ++ out3 ++ out4)
    end
  | None =>
    (mkEnc line (g_col m) (e_oline e) (e_ocol e) (e_src e) (e_name e) false (e_active_name e) initial,
     out1)
  end.

Fixpoint enc_run (e : enc) (ms : list mapping) : enc * text :=
  match ms with
  | [] => (e, [])
  | m :: ms' =>
    let '(e1, o1) := enc_step e m in
    let '(e2, o2) := enc_run e1 ms' in (e2, o1 ++ o2)
  end.

Definition encode_full (ms : list mapping) : text := snd (enc_run enc_init ms).

(* ---------- LinesOnlyMappingsEncoder ---------- *)
Record lenc := mkLenc { le_last : N; le_line : N; le_src : N; le_oline : N }.
Definition lenc_init : lenc := mkLenc 0 1 0 1.

Definition lenc_step (e : lenc) (m : mapping) : lenc * text :=
  match m_orig m with
  | None => (e, [])
  | Some o =>
    if le_last e =? g_line m then (e, []) else
    (* line_delta = generated_line - current_line : u32 (sorted input: no underflow) *)
    let semis := repeat semi (N.to_nat (g_line m - le_line e)) in
    if o_src o =? le_src e then
      if o_line o =? le_oline e + 1 then
        (mkLenc (g_line m) (g_line m) (le_src e) (o_line o), semis ++ [chA; chA; 67; chA])
      else
        (mkLenc (g_line m) (g_line m) (le_src e) (o_line o),
         semis ++ [chA; chA] ++ encode_vlq (o_line o) (le_oline e) ++ [chA])
    else
      (mkLenc (g_line m) (g_line m) (o_src o) (o_line o),
       semis ++ [chA] ++ encode_vlq (o_src o) (le_src e) ++ encode_vlq (o_line o) (le_oline e) ++ [chA])
  end.

Fixpoint lenc_run (e : lenc) (ms : list mapping) : lenc * text :=
  match ms with
  | [] => (e, [])
  | m :: ms' =>
    let '(e1, o1) := lenc_step e m in
    let '(e2, o2) := lenc_run e1 ms' in (e2, o1 ++ o2)
  end.

Definition encode_lines (ms : list mapping) : text := snd (lenc_run lenc_init ms).

Definition encode_mappings (columns : bool) (ms : list mapping) : text :=
  if columns then encode_full ms else encode_lines ms.

(* ---------- MappingsDecoder ---------- *)
Definition two64 : N := 18446744073709551616.
Definition two63 : N := 9223372036854775808.

Record dec := mkDec {
  d0 : N; d1 : N; d2 : N; d3 : N; d4 : N;   (* current_data : [u32; 5] *)
  d_pos : N;                                (* current_data_pos *)
  d_val : N;                                (* current_value : i64, as its bit pattern *)
  d_vpos : N;                               (* current_value_pos *)
  d_gline : N }.

Definition dec_init : dec := mkDec 0 0 1 0 0 0 0 0 1.

Definition dec_get (d : dec) (i : N) : N :=
  if i =? 0 then d0 d else if i =? 1 then d1 d else if i =? 2 then d2 d
  else if i =? 3 then d3 d else d4 d.

Definition dec_set (d : dec) (i : N) (v : N) : dec :=
  if i =? 0 then mkDec v (d1 d) (d2 d) (d3 d) (d4 d) (d_pos d) (d_val d) (d_vpos d) (d_gline d)
  else if i =? 1 then mkDec (d0 d) v (d2 d) (d3 d) (d4 d) (d_pos d) (d_val d) (d_vpos d) (d_gline d)
  else if i =? 2 then mkDec (d0 d) (d1 d) v (d3 d) (d4 d) (d_pos d) (d_val d) (d_vpos d) (d_gline d)
  else if i =? 3 then mkDec (d0 d) (d1 d) (d2 d) v (d4 d) (d_pos d) (d_val d) (d_vpos d) (d_gline d)
  else mkDec (d0 d) (d1 d) (d2 d) (d3 d) v (d_pos d) (d_val d) (d_vpos d) (d_gline d).

(* signed reading of an i64 bit pattern *)
Definition signed64 (bits : N) : Z :=
  if bits <? two63 then Z.of_N bits else (Z.of_N bits - Z.of_N two64)%Z.

(* `current_value |= (x as i64) << pos`, guarded by `pos < 64` (after fix F6) *)
Definition acc_or (bits x pos : N) : N :=
  if pos <? 64 then N.lor bits ((N.shiftl x pos) mod two64) else bits.

Definition final_value (bits : N) : Z :=
  let sv := signed64 bits in
  if N.testbit bits 0 then (- (Z.shiftr sv 1))%Z else Z.shiftr sv 1.

Definition emit (d : dec) (pos : N) : option mapping :=
  if pos =? 1 then Some (mkMapping (d_gline d) (d0 d) None)
  else if pos =? 4 then Some (mkMapping (d_gline d) (d0 d) (Some (mkOrig (d1 d) (d2 d) (d3 d) None)))
  else if pos =? 5 then Some (mkMapping (d_gline d) (d0 d) (Some (mkOrig (d1 d) (d2 d) (d3 d) (Some (d4 d)))))
  else None.

(* one byte *)
Definition dec_byte (d : dec) (c : N) : dec * option mapping :=
  let v := b64_val c in
  if v =? ERR then (d, None)
  else if negb (N.land v COM =? 0) then
    let out := emit d (d_pos d) in
    let d' := if v =? SEM
      then mkDec 0 (d1 d) (d2 d) (d3 d) (d4 d) 0 (d_val d) (d_vpos d) (d_gline d + 1)
      else mkDec (d0 d) (d1 d) (d2 d) (d3 d) (d4 d) 0 (d_val d) (d_vpos d) (d_gline d) in
    (d', out)
  else if N.land v 32 =? 0 then
    let bits := acc_or (d_val d) v (d_vpos d) in
    let fv := final_value bits in
    let d1' := if d_pos d <? 5
      then dec_set d (d_pos d) (wrap32z (Z.of_N (dec_get d (d_pos d)) + fv))
      else d in
    (mkDec (d0 d1') (d1 d1') (d2 d1') (d3 d1') (d4 d1') (d_pos d + 1) 0 0 (d_gline d), None)
  else
    (mkDec (d0 d) (d1 d) (d2 d) (d3 d) (d4 d) (d_pos d)
           (acc_or (d_val d) (N.land v 31) (d_vpos d)) (d_vpos d + 5) (d_gline d), None).

Fixpoint dec_run (d : dec) (s : text) : list mapping :=
  match s with
  | [] => match emit d (d_pos d) with Some m => [m] | None => [] end
  | c :: s' =>
    let '(d', out) := dec_byte d c in
    match out with
    | Some m => m :: dec_run d' s'
    | None => dec_run d' s'
    end
  end.

Definition decode_mappings (s : text) : list mapping := dec_run dec_init s.
