(* Independent, declarative reading of the source-map v3 "mappings" format,
   and the position-attribution semantics used to compare segment lists.
   Definitions only; nothing here mentions the crate's encoder/decoder. *)
From RS Require Import Base.Prelude.

(* ---------- base64 digit of a character (RFC 4648 alphabet) ---------- *)
Definition b64_alphabet : text :=
  [65;66;67;68;69;70;71;72;73;74;75;76;77;78;79;80;81;82;83;84;85;86;87;88;89;90;
   97;98;99;100;101;102;103;104;105;106;107;108;109;110;111;112;113;114;115;116;
   117;118;119;120;121;122;48;49;50;51;52;53;54;55;56;57;43;47].

Fixpoint index_of (c : N) (l : text) (i : N) : option N :=
  match l with
  | [] => None
  | x :: l' => if x =? c then Some i else index_of c l' (i + 1)
  end.

Definition b64_digit (c : N) : option N := index_of c b64_alphabet 0.

(* ---------- a run of VLQ integers ---------- *)
(* acc: value so far, k: weight 32^i of the next digit *)
Fixpoint vlq_ints_aux (s : text) (acc : N) (k : N) (pending : bool) : option (list Z) :=
  match s with
  | [] => if pending then None else Some []
  | c :: s' =>
    match b64_digit c with
    | None => None
    | Some d =>
      let acc' := acc + (d mod 32) * k in
      if 32 <=? d then vlq_ints_aux s' acc' (k * 32) true
      else
        let mag := Z.of_N (acc' / 2) in
        let v := if N.odd acc' then (- mag)%Z else mag in
        match vlq_ints_aux s' 0 1 false with
        | Some r => Some (v :: r)
        | None => None
        end
    end
  end.

Definition vlq_ints (s : text) : option (list Z) := vlq_ints_aux s 0 1 false.

(* ---------- splitting ---------- *)
Fixpoint split_on_aux (sep : N) (s : text) (cur : text) : list text :=
  match s with
  | [] => [rev cur]
  | c :: s' => if c =? sep then rev cur :: split_on_aux sep s' [] else split_on_aux sep s' (c :: cur)
  end.
Definition split_on (sep : N) (s : text) : list text := split_on_aux sep s [].

(* ---------- segments ---------- *)
(* running values: source index, original line (0-based in the format), original
   column, name index.  Generated column restarts on every line. *)
Record run := mkRun { r_src : Z; r_line : Z; r_col : Z; r_name : Z }.
Definition run0 : run := mkRun 0 0 0 0.

Definition nonneg (z : Z) : bool := (0 <=? z)%Z.

(* one segment: returns new generated column, new running values, and the
   segment if the field list describes one *)
Definition seg_of (gline : N) (gcol : Z) (r : run) (fs : list Z)
  : option (Z * run * option mapping) :=
  match fs with
  | [] => Some (gcol, r, None)
  | [dc] =>
    let c := (gcol + dc)%Z in
    if nonneg c then Some (c, r, Some (mkMapping gline (Z.to_N c) None)) else None
  | [dc; ds; dl; dcol] =>
    let c := (gcol + dc)%Z in
    let r' := mkRun (r_src r + ds) (r_line r + dl) (r_col r + dcol) (r_name r) in
    if nonneg c && nonneg (r_src r') && nonneg (r_line r') && nonneg (r_col r') then
      Some (c, r', Some (mkMapping gline (Z.to_N c)
             (Some (mkOrig (Z.to_N (r_src r')) (Z.to_N (r_line r') + 1) (Z.to_N (r_col r')) None))))
    else None
  | [dc; ds; dl; dcol; dn] =>
    let c := (gcol + dc)%Z in
    let r' := mkRun (r_src r + ds) (r_line r + dl) (r_col r + dcol) (r_name r + dn) in
    if nonneg c && nonneg (r_src r') && nonneg (r_line r') && nonneg (r_col r') && nonneg (r_name r') then
      Some (c, r', Some (mkMapping gline (Z.to_N c)
             (Some (mkOrig (Z.to_N (r_src r')) (Z.to_N (r_line r') + 1) (Z.to_N (r_col r'))
                           (Some (Z.to_N (r_name r')))))))
    else None
  | _ => None
  end.

Fixpoint spec_line (gline : N) (gcol : Z) (r : run) (segs : list text)
  : option (run * list mapping) :=
  match segs with
  | [] => Some (r, [])
  | s :: segs' =>
    match vlq_ints s with
    | None => None
    | Some fs =>
      match seg_of gline gcol r fs with
      | None => None
      | Some (c, r', om) =>
        match spec_line gline c r' segs' with
        | None => None
        | Some (r'', ms) => Some (r'', match om with Some m => m :: ms | None => ms end)
        end
      end
    end
  end.

Fixpoint spec_lines (gline : N) (r : run) (lines : list text) : option (list mapping) :=
  match lines with
  | [] => Some []
  | l :: lines' =>
    match spec_line gline 0 r (split_on 44 l) with
    | None => None
    | Some (r', ms) =>
      match spec_lines (gline + 1) r' lines' with
      | None => None
      | Some ms' => Some (ms ++ ms')
      end
    end
  end.

(* The segments a v3 mappings string defines; None when the string is not in the
   grammar (1-, 4- or 5-field segments, non-negative running values). *)
Definition spec_decode (s : text) : option (list mapping) := spec_lines 1 run0 (split_on 59 s).

(* ---------- attribution of positions by a segment list ---------- *)
(* greatest segment at or before (l, c) on line l; list order breaks ties (last wins) *)
Fixpoint lookup_from (ms : list mapping) (l c : N) (best : option mapping) : option mapping :=
  match ms with
  | [] => best
  | m :: ms' =>
    if (g_line m =? l) && (g_col m <=? c) then lookup_from ms' l c (Some m)
    else lookup_from ms' l c best
  end.

Definition lookup (ms : list mapping) (l c : N) : option orig :=
  match lookup_from ms l c None with
  | Some m => m_orig m
  | None => None
  end.

(* lines-only reading: first mapped segment of the line, as (source, original line) *)
Fixpoint first_mapped (ms : list mapping) (l : N) : option (N * N) :=
  match ms with
  | [] => None
  | m :: ms' =>
    if g_line m =? l then
      match m_orig m with
      | Some o => Some (o_src o, o_line o)
      | None => first_mapped ms' l
      end
    else first_mapped ms' l
  end.

(* sortedness by generated position (non-strict) *)
Definition pos_le (a b : mapping) : bool :=
  (g_line a <? g_line b) || ((g_line a =? g_line b) && (g_col a <=? g_col b)).
Definition pos_lt (a b : mapping) : bool :=
  (g_line a <? g_line b) || ((g_line a =? g_line b) && (g_col a <? g_col b)).

Fixpoint sorted_by (le : mapping -> mapping -> bool) (ms : list mapping) : bool :=
  match ms with
  | [] => true
  | a :: ms' =>
    match ms' with
    | [] => true
    | b :: _ => le a b && sorted_by le ms'
    end
  end.

(* ---------- which segments an encoder may drop ---------- *)
(* state: the last kept segment if it was mapped (with its line) *)
Definition redundant (act : option (N * orig)) (m : mapping) : bool :=
  match act with
  | Some (l, o) =>
    if l =? g_line m then
      match m_orig m with
      | Some o' => (o_src o' =? o_src o) && (o_line o' =? o_line o) && (o_col o' =? o_col o)
                   && match o_name o, o_name o' with None, None => true | _, _ => false end
      | None => false
      end
    else match m_orig m with None => true | Some _ => false end
  | None => match m_orig m with None => true | Some _ => false end
  end.

Fixpoint kept_from (act : option (N * orig)) (ms : list mapping) : list mapping :=
  match ms with
  | [] => []
  | m :: ms' =>
    if redundant act m then kept_from act ms'
    else m :: kept_from (match m_orig m with Some o => Some (g_line m, o) | None => None end) ms'
  end.
Definition kept (ms : list mapping) : list mapping := kept_from None ms.

(* first mapped segment of each line, at column 0 and without name *)
Fixpoint line_firsts_from (last : N) (ms : list mapping) : list mapping :=
  match ms with
  | [] => []
  | m :: ms' =>
    match m_orig m with
    | Some o =>
      if last =? g_line m then line_firsts_from last ms'
      else mkMapping (g_line m) 0 (Some (mkOrig (o_src o) (o_line o) 0 None))
           :: line_firsts_from (g_line m) ms'
    | None => line_firsts_from last ms'
    end
  end.
Definition line_firsts (ms : list mapping) : list mapping := line_firsts_from 0 ms.
