(* Boolean checkers of the stream-level properties on observations of a source
   tree.  0 = holds, 100 = outside the property's domain, else failing clause. *)
From RS Require Import Base.Prelude Base.Text Rope.RopeModel Codec.Vlq Codec.CodecSpec
  Stream.Types Stream.Leaves Stream.Replace Stream.Tree Api.ApiTree.

(* ---------- domains ---------- *)
Definition ascii (t : text) : bool := forallb (fun c => c <? 128) t.

Definition bound_ok (inner : text) (p : N) : bool := (len inner <=? p) || is_boundary inner p.
Definition repl_ok (inner : text) (r : repl) : bool :=
  (r_start r <=? r_end r) && bound_ok inner (r_start r) && bound_ok inner (r_end r)
  && valid_utf8 (r_content r).

(* WFtree: replacement bounds ordered, on char boundaries of the inner text or beyond it;
   all texts valid UTF-8 (they are Rust Strings) *)
Fixpoint tree_wf (s : src) : bool :=
  match s with
  | SRaw false v | SRawString v => valid_utf8 v
  | SRaw true _ | SRawBuffer _ => true
  | SOriginal v n => valid_utf8 v && valid_utf8 n
  | SMapped v n _ _ _ _ => valid_utf8 v && valid_utf8 n
  | SConcat cs => forallb tree_wf cs
  | SReplace inner rs => tree_wf inner && forallb (repl_ok (source inner)) rs
  | SCached _ inner => tree_wf inner
  end.

(* K3: a ReplaceSource with >= 1 replacement whose inner subtree contains a map-driven node
   (SourceMapSource, CachedSource) with non-ASCII output text: byte columns vs char cuts *)
Fixpoint has_mapdriven_nonascii (s : src) : bool :=
  match s with
  | SMapped v _ _ _ _ _ => negb (ascii v)
  | SCached _ inner => negb (ascii (source inner)) || has_mapdriven_nonascii inner
  | SConcat cs => existsb has_mapdriven_nonascii cs
  | SReplace inner _ => has_mapdriven_nonascii inner
  | _ => false
  end.
Fixpoint k3_shape (s : src) : bool :=
  match s with
  | SReplace inner rs => (negb (is_nil rs) && has_mapdriven_nonascii inner) || k3_shape inner
  | SConcat cs => existsb k3_shape cs
  | SCached _ inner => k3_shape inner
  | _ => false
  end.

(* K4: some SourceMapSource map decodes to segments that go backwards *)
Fixpoint k4_shape (s : src) : bool :=
  match s with
  | SMapped _ _ m _ inner _ =>
    negb (sorted_by pos_le (decode_mappings (sm_mappings m)))
    || match inner with Some im => negb (sorted_by pos_le (decode_mappings (sm_mappings im))) | None => false end
  | SConcat cs => existsb k4_shape cs
  | SReplace inner _ => k4_shape inner
  | SCached _ inner => k4_shape inner
  | _ => false
  end.

(* ---------- C01 ---------- *)
Fixpoint all_some (l : list (option text)) : option (list text) :=
  match l with
  | [] => Some []
  | Some t :: l' => match all_some l' with Some r => Some (t :: r) | None => None end
  | None :: _ => None
  end.

Definition reassembles (evs : list event) (src_text : text) : bool :=
  match all_some (chunk_texts evs) with
  | Some ts => text_eqb (concat ts) src_text
  | None => false
  end.

(* streams: (cols,final) = (1,0) (0,0) (1,1) (0,1) *)
Definition chk_C01 (s : src) (o : tree_obs) : N :=
  if negb (tree_wf s) then 100 else
  let r := match to_streams o with
           | [s10; s00; _; _] =>
             if negb (reassembles (fst s10) (to_source o)) then 1
             else if negb (reassembles (fst s00) (to_source o)) then 2
             else 0
           | _ => 3
           end in
  match r with
  | 0 => 0
  | k => if k3_shape s then 53 else k     (* unsorted maps (former class K4) reassemble since fix F15 *)
  end.

(* ====================================================================== *)
From RS Require Import Sem.Attr.

Definition smap_ascii (m : smap) : bool :=
  ascii (sm_mappings m) && forallb ascii (sm_sources m) && forallb ascii (sm_contents m)
  && forallb ascii (sm_names m).

(* M consistent with T: segments strictly increasing, inside T, indices inside the tables,
   original lines >= 1 *)
Fixpoint segs_inside (t : text) (m : smap) (ms : list mapping) : bool :=
  match ms with
  | [] => true
  | mp :: ms' =>
    is_position t (g_line mp) (g_col mp)
    && match m_orig mp with
       | Some o => (o_src o <? len (sm_sources m)) && (1 <=? o_line o)
                   && match o_name o with Some n => n <? len (sm_names m) | None => true end
       | None => true
       end
    && segs_inside t m ms'
  end.

Definition map_consistent (t : text) (m : smap) : bool :=
  let ms := decode_mappings (sm_mappings m) in
  sorted_by pos_lt ms && segs_inside t m ms
  && match spec_decode (sm_mappings m) with Some l => list_eqb mapping_eqb l ms | None => false end.

(* WFtreeA: ASCII texts, consistent maps on SourceMapSource leaves *)
Fixpoint tree_ascii (s : src) : bool :=
  match s with
  | SRaw _ v | SRawString v | SRawBuffer v => ascii v
  | SOriginal v n => ascii v && ascii n
  | SMapped v n m orig inner _ =>
    ascii v && ascii n && smap_ascii m && map_consistent v m
    && match orig with Some t => ascii t | None => true end
    && match inner with
       | Some im => smap_ascii im
       | None => true
       end
  | SConcat cs => forallb tree_ascii cs
  | SReplace inner rs =>
    tree_ascii inner && forallb (fun r => ascii (r_content r) && match r_name r with Some n => ascii n | None => true end) rs
  | SCached _ inner => tree_ascii inner
  end.

Fixpoint has_combined (s : src) : bool :=
  match s with
  | SMapped _ _ _ _ (Some _) _ => true
  | SConcat cs => existsb has_combined cs
  | SReplace inner _ => has_combined inner
  | SCached _ inner => has_combined inner
  | _ => false
  end.

Definition treeA (s : src) : bool := tree_wf s && tree_ascii s.

(* ---------- C02 ---------- *)
(* every text-carrying chunk is reported where its text really starts *)
Fixpoint well_positioned (chs : list (option text * mapping)) (l c : N) : bool :=
  match chs with
  | [] => true
  | (Some t, m) :: chs' =>
    (g_line m =? l) && (g_col m =? c) && (let '(l', c') := advance l c t in well_positioned chs' l' c')
  | (None, _) :: chs' => false
  end.

Definition positions_of_text (t : text) (chs : list (option text * mapping)) : bool :=
  forallb (fun x => is_position t (g_line (snd x)) (g_col (snd x))) chs.

Definition gi_eqb (a b : N * N) : bool := (fst a =? fst b) && (snd a =? snd b).

Definition chk_C02 (s : src) (o : tree_obs) : N :=
  if negb (treeA s) then 100 else
  let src_t := to_source o in
  let endp := advance 1 0 src_t in
  match to_streams o with
  | [s10; s00; s11; s01] =>
    if negb (well_positioned (chunks_of (fst s10)) 1 0) then 1
    else if negb (well_positioned (chunks_of (fst s00)) 1 0) then 2
    else if negb (gi_eqb (snd s10) endp) then 3
    else if negb (gi_eqb (snd s00) endp) then 4
    else if negb (gi_eqb (snd s11) endp) then 5
    else if negb (gi_eqb (snd s01) endp) then 6
    else if negb (positions_of_text src_t (chunks_of (fst s11))) then 7
    else if negb (positions_of_text src_t (chunks_of (fst s01))) then 8
    else 0
  | _ => 9
  end.

(* ---------- C03 ---------- *)
Definition is_none {A} (o : option A) : bool := match o with None => true | Some _ => false end.

(* K1: map() reaches a SourceMapSource without inner map directly or through the delegating
   wrappers (Cached, Replace without replacements); it then returns the given map verbatim *)
Fixpoint k1_shape (s : src) : bool :=
  match s with
  | SMapped _ _ _ _ None _ => true
  | SCached _ inner => k1_shape inner
  | SReplace inner rs => is_nil rs && k1_shape inner
  | _ => false
  end.

Definition chk_C03 (s : src) (o : tree_obs) : N :=
  if negb (treeA s) then 100 else
  let t := to_source o in
  match to_streams o, to_maps o with
  | [s10; s00; _; _], [m1; m0] =>
    if negb (list_eqb_attr attr_eqb (attr_of_map m1 t true) (attr_of_stream (fst s10) true)) then 1
    else if negb (list_eqb_attr attr_eqb_fl (attr_of_map m0 t false) (attr_of_stream (fst s00) false)) then 2
    else if negb (Bool.eqb (is_none m1) (negb (mapped_chunk_exists (fst s10)))) then (if k1_shape s then 51 else 3)
    else if negb (Bool.eqb (is_none m0) (negb (mapped_chunk_exists (fst s00)))) then (if k1_shape s then 51 else 4)
    else 0
  | _, _ => 9
  end.

(* ---------- C07 ---------- *)
Fixpoint all_leaves_valid (s : src) : bool :=
  match s with
  | SRaw true v | SRawBuffer v => valid_utf8 v
  | SConcat cs => forallb all_leaves_valid cs
  | SReplace inner _ => all_leaves_valid inner
  | SCached _ inner => all_leaves_valid inner
  | _ => true
  end.

Definition chk_C07 (s : src) (o : tree_obs) : N :=
  if negb (tree_wf s) then 100 else
  if negb (opt_eqb text_eqb (to_rope o) (Some (to_source o))) then 1
  else if negb (to_size o =? len (to_buffer o)) then 2
  else if negb (text_eqb (concat (to_writer o)) (to_buffer o)) then 3
  else if all_leaves_valid s && negb (text_eqb (to_buffer o) (to_source o)) then 4
  else match s with
       | SRawBuffer b | SRaw true b =>
         if negb (text_eqb (to_buffer o) b) then 5
         else if negb (text_eqb (to_source o) (utf8_lossy b)) then 6 else 0
       | _ => 0
       end.

(* ---------- C08 ---------- *)
(* top-level SourceMapSource (or user-defined source) without inner map *)
Definition chk_C08 (s : src) (o : tree_obs) : N :=
  match s with
  | SMapped v n m _ None _ =>
    if negb (treeA s) then 100 else
    match to_streams o with
    | [s10; s00; s11; s01] =>
      let ref1 := attr_of_map (Some m) v true in
      let ref0 := attr_of_map (Some m) v false in
      if negb (list_eqb_attr attr_eqb ref1 (attr_of_stream (fst s10) true)) then 1
      else if negb (list_eqb_attr attr_eqb_fl ref0 (attr_of_stream (fst s00) false)) then 2
      else if negb (list_eqb_attr attr_eqb ref1 (attr_of_final_events (fst s11) v true)) then 3
      else if negb (list_eqb_attr attr_eqb_fl ref0 (attr_of_final_events (fst s01) v false)) then 4
      (* names are dropped with columns = false *)
      else if negb (forallb (fun a => match a with Some l => is_none (l_name l) | None => true end)
                            (attr_of_stream (fst s00) false ++ attr_of_final_events (fst s01) v false)) then 5
      (* declared sources, contents, names are exactly those of M (when anything is streamed) *)
      else if is_nil v then 0
      else
        let exp_sources := map (fun i => (get_source m (nth (N.to_nat i) (sm_sources m) []), nth_opt (sm_contents m) i))
                               (map N.of_nat (seq 0 (length (sm_sources m)))) in
        let got (evs : list event) := contents_of_events evs in
        let names_of (evs : list event) := flat_map (fun e => match e with EName _ n => [n] | _ => [] end) evs in
        let pair_eqb (a b : text * option text) := text_eqb (fst a) (fst b) && opt_eqb text_eqb (snd a) (snd b) in
        if negb (list_eqb pair_eqb (got (fst s10)) exp_sources && list_eqb pair_eqb (got (fst s00)) exp_sources
                 && list_eqb pair_eqb (got (fst s11)) exp_sources && list_eqb pair_eqb (got (fst s01)) exp_sources) then 6
        else if negb (list_eqb text_eqb (names_of (fst s10)) (sm_names m)
                      && list_eqb text_eqb (names_of (fst s11)) (sm_names m)) then 7
        else 0
    | _ => 9
    end
  | _ => 100
  end.

(* C08, "... or through map() of an enclosing source": the map an outside caller gets - from the
   source itself (a user-defined source: the default streaming helper and the encoder) or from a
   ConcatSource around it - attributes every character as looking it up in M.  Kept apart from
   chk_C08 (whose acceptance of the model is a theorem). *)
Definition chk_C08_maps (s : src) (o : tree_obs) : N :=
  if negb (treeA s) then 100 else
  match s, to_maps o with
  | SMapped v _ m _ None _, [m1; m0] =>
    if negb (list_eqb_attr attr_eqb (attr_of_map (Some m) v true) (attr_of_map m1 v true)) then 8
    else if negb (list_eqb_attr attr_eqb_fl (attr_of_map (Some m) v false) (attr_of_map m0 v false)) then 9
    else 0
  | SConcat [SRaw false pre; SMapped v _ m _ None _], [m1; _] =>
    if negb (list_eqb_attr attr_eqb (map (fun _ => None) pre ++ attr_of_map (Some m) v true)
                           (attr_of_map m1 (pre ++ v) true)) then 10
    else 0
  | _, _ => 100
  end.

Definition chk_C08_all (s : src) (o : tree_obs) : N :=
  let a := chk_C08 s o in
  if (a =? 0) || (a =? 100) then
    let b := chk_C08_maps s o in if b =? 100 then a else b
  else a.

(* ---------- C11 ---------- *)
(* announced indices dense from zero in order of first announcement; indices used by a chunk
   announced earlier *)
Fixpoint stream_wf (evs : list event) (nsrc nname : N) : bool :=
  match evs with
  | [] => true
  | ESource i _ _ :: evs' => (i <=? nsrc) && stream_wf evs' (if i =? nsrc then nsrc + 1 else nsrc) nname
  | EName i _ :: evs' => (i <=? nname) && stream_wf evs' nsrc (if i =? nname then nname + 1 else nname)
  | EChunk _ m :: evs' =>
    match m_orig m with
    | Some o => (o_src o <? nsrc) && match o_name o with Some n => n <? nname | None => true end
    | None => true
    end && stream_wf evs' nsrc nname
  end.

Definition map_wf (t : text) (m : option smap) : bool :=
  match m with
  | None => true
  | Some m =>
    let ms := decode_mappings (sm_mappings m) in
    let endp := advance 1 0 t in
    sorted_by pos_lt ms
    && forallb (fun mp => (1 <=? g_line mp) && pos_ltb (g_line mp, g_col mp) endp
                          && match m_orig mp with
                             | Some o => (o_src o <? len (sm_sources m))
                                         && match o_name o with Some n => n <? len (sm_names m) | None => true end
                             | None => true end) ms
    && forallb (fun c => match b64_digit c with Some _ => true | None => (c =? 44) || (c =? 59) end) (sm_mappings m)
  end.

Definition chk_C11 (s : src) (o : tree_obs) : N :=
  if negb (treeA s) then 100 else
  match to_streams o, to_maps o with
  | [s10; s00; s11; s01], [m1; m0] =>
    if negb (stream_wf (fst s10) 0 0) then 1
    else if negb (stream_wf (fst s00) 0 0) then 2
    else if negb (stream_wf (fst s11) 0 0) then 3
    else if negb (stream_wf (fst s01) 0 0) then 4
    else if negb (map_wf (to_source o) m1) then (if k1_shape s then 51 else 5)
    else if negb (map_wf (to_source o) m0) then (if k1_shape s then 51 else 6)
    else 0
  | _, _ => 9
  end.

(* ---------- C07, failing writers ---------- *)
From RS Require Import Sem.Writer.
(* observed: buffer(), bytes written and ok-flag for a writer of capacity cap *)
Definition chk_C07_writer (s : src) (cap : N) (short : bool) (buf written : text) (ok : bool) : N :=
  if negb (tree_wf s) then 100
  else if negb (Bool.eqb ok (len buf <=? cap)) then 1          (* Err exactly when the writer runs out *)
  else if negb (is_prefix written buf) then 2                  (* only a prefix of buffer() was written *)
  else if ok && negb (text_eqb written buf) then 3
  else if short && negb ok && negb (text_eqb written (take cap buf)) then 4
  else 0.

(* ---------- C17 (tree part): the domain in which no observer may panic ---------- *)
Definition chk_C17 (s : src) (o : tree_obs) : N :=
  if negb (tree_wf s) then 100 else if k4_shape s then 100 else 0.
