(* Checker of property C15. *)
From RS Require Import Base.Prelude Base.Text Rope.RopeModel Sem.Json.

Definition is_version3 (v : json) : bool :=
  match v with
  | JObj l => match field k_version l with Some (JNum [51]) => true | _ => false end
  | _ => false
  end.

Definition smap_valid (m : smap) : bool :=
  valid_utf8 (sm_mappings m) && forallb valid_utf8 (sm_sources m) && forallb valid_utf8 (sm_contents m)
  && forallb valid_utf8 (sm_names m)
  && match sm_file m with Some t => valid_utf8 t | None => true end
  && match sm_root m with Some t => valid_utf8 t | None => true end
  && match sm_debug m with Some t => valid_utf8 t | None => true end.

(* tj: to_json bytes; tw: to_writer bytes; rt/rs/rr: from_json / from_slice / from_reader of tj *)
Definition chk_C15_value (m : smap) (tj tw : text) (rt rs rr : option smap) : N :=
  if negb (smap_valid m) then 100
  else if negb (text_eqb tj tw) then 1
  else match parse tj with
       | None => 2                                          (* an independent parser must accept it *)
       | Some doc =>
         if negb (is_version3 doc) then 3
         else if negb (opt_eqb smap_eqb (of_doc doc) (Some (norm_map m))) then 4      (* same fields *)
         else if negb (opt_eqb smap_eqb rt (Some (norm_map m))) then 5
         else if negb (opt_eqb smap_eqb rs (Some (norm_map m))) then 6
         else if negb (opt_eqb smap_eqb rr (Some (norm_map m))) then 7
         else 0
       end.

(* a document the independent reader accepts as a source map: the three entry points agree with it *)
Definition chk_C15_doc (d : text) (fj fs fr : option smap) : N :=
  if negb (valid_utf8 d) then 100 else
  match parse d with
  | None => 100
  | Some doc =>
    match of_doc doc with
    | None => 100
    | Some m =>
      if negb (opt_eqb smap_eqb fj (Some m)) then 1
      else if negb (opt_eqb smap_eqb fs (Some m)) then 2
      else if negb (opt_eqb smap_eqb fr (Some m)) then 3
      else 0
    end
  end.
