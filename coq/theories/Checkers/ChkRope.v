(* Boolean checker of property C16 on observations of a rope built by a
   program, judged against the plain string the program denotes. *)
From RS Require Import Base.Prelude Base.Text Rope.RopeModel Rope.RopeProg.

Record rope_obs := mkRopeObs {
  ro_len : N;
  ro_is_empty : bool;
  ro_string : text;
  ro_bytes : text;
  ro_get_byte : list (option N);          (* get_byte i for i = 0 .. len+1 *)
  ro_char_indices : list (N * N);
  ro_lines : list text;                   (* lines() *)
  ro_lines_nt : list text;                (* lines_impl(false), seen through stream_chunks_default *)
  ro_slices : list (N * N * option text); (* get_byte_slice(a..b) *)
  ro_ends_with : list (text * bool);      (* (char as UTF-8, answer) *)
  ro_hash : list text;                    (* the strs fed to the hasher, in order *)
}.

Definition pair_eqb (a b : N * N) : bool := (fst a =? fst b) && (snd a =? snd b).

Definition chk_slice (s : text) (x : N * N * option text) : bool :=
  let '(a, b, got) := x in opt_eqb text_eqb got (str_get s a b).

Fixpoint get_bytes_ref (s : text) (i : N) (n : nat) : list (option N) :=
  match n with
  | O => []
  | S n' => nth_opt s i :: get_bytes_ref s (i + 1) n'
  end.

(* 0 = ok, otherwise the failing clause *)
Definition chk_C16_unary (s : text) (o : rope_obs) : N :=
  if negb (ro_len o =? len s) then 1
  else if negb (Bool.eqb (ro_is_empty o) (is_nil s)) then 2
  else if negb (text_eqb (ro_string o) s) then 3
  else if negb (text_eqb (ro_bytes o) s) then 4
  else if negb (list_eqb (opt_eqb N.eqb) (ro_get_byte o) (get_bytes_ref s 0 (length (ro_get_byte o)))) then 5
  else if negb (list_eqb pair_eqb (ro_char_indices o) (char_indices s)) then 6
  else if negb (list_eqb text_eqb (ro_lines o) (str_lines s true)) then 7
  else if negb (list_eqb text_eqb (ro_lines_nt o) (str_lines s false)) then 8
  else if negb (forallb (chk_slice s) (ro_slices o)) then 9
  else if negb (forallb (fun x => Bool.eqb (snd x) (ends_with_bytes s (fst x))) (ro_ends_with o)) then 10
  else if negb (text_eqb (concat (ro_hash o)) s) then 11
  else 0.

(* binary observers of two ropes denoting s1, s2 *)
Definition chk_C16_binary (s1 s2 : text) (starts eq eq_str : bool) : N :=
  if negb (Bool.eqb starts (is_prefix s2 s1)) then 12
  else if negb (Bool.eqb eq (text_eqb s1 s2)) then 13
  else if negb (Bool.eqb eq_str (text_eqb s1 s2)) then 14
  else 0.
