(* Checker of property C04: the source map of a tree over {Raw*, Original, Concat,
   Replace, Cached} against the independent provenance semantics Sem/Prov.v. *)
From RS Require Import Base.Prelude Base.Text Rope.RopeModel Codec.Vlq Codec.CodecSpec
  Stream.Types Stream.Leaves Stream.Replace Stream.Tree Api.ApiTree Sem.Attr Sem.Prov Checkers.ChkTree.

Fixpoint c04_kinds (s : src) (under_replace : bool) : bool :=
  match s with
  | SMapped _ _ _ _ _ _ => false
  | SConcat cs => forallb (fun c => c04_kinds c under_replace) cs
  | SReplace inner _ => c04_kinds inner true
  | SCached _ inner => negb under_replace && c04_kinds inner under_replace
  | _ => true
  end.

Fixpoint originals (s : src) : list (text * text) :=
  match s with
  | SOriginal v n => [(n, v)]
  | SConcat cs => flat_map originals cs
  | SReplace inner _ => originals inner
  | SCached _ inner => originals inner
  | _ => []
  end.

Fixpoint names_determine_content (l : list (text * text)) : bool :=
  match l with
  | [] => true
  | (n, v) :: l' =>
    forallb (fun p => negb (text_eqb (fst p) n) || text_eqb (snd p) v) l' && names_determine_content l'
  end.

Fixpoint has_replace (s : src) : bool :=
  match s with
  | SReplace _ _ => true
  | SConcat cs => existsb has_replace cs
  | SCached _ inner => has_replace inner
  | _ => false
  end.

Definition c04_domain (s : src) : bool :=
  treeA s && c04_kinds s false && names_determine_content (originals s).

(* output bytes with their position and tag *)
Fixpoint tagged (t : text) (tags : list ptag) (l c : N) : list (N * N * ptag) :=
  match t, tags with
  | b :: t', g :: tags' =>
    (l, c, g) :: (if b =? NL then tagged t' tags' (l + 1) 0 else tagged t' tags' l (c + 1))
  | _, _ => []
  end.

Fixpoint tag_at (tg : list (N * N * ptag)) (l c : N) : option ptag :=
  match tg with
  | [] => None
  | (l', c', g) :: tg' => if (l' =? l) && (c' =? c) then Some g else tag_at tg' l c
  end.

(* (a) *)
Definition seg_ok (tg : list (N * N * ptag)) (sg : rseg) : bool :=
  let '(l, c, a) := sg in
  match a with
  | None => true
  | Some loc =>
    match tag_at tg l c with
    | Some (POrig f ol oc _ _) => text_eqb f (l_file loc) && (ol =? l_line loc) && (oc =? l_col loc)
    | Some PRepl => true
    | Some PRaw => false
    | None => false
    end
  end.

(* (b) (c) (d) *)
Definition byte_ok (segs : list rseg) (x : N * N * ptag) : bool :=
  let '(l, c, g) := x in
  let a := seg_lookup segs l c None in
  match g with
  | PRaw => match a with None => true | Some _ => false end
  | PRepl => true
  | POrig f ol oc stmt empty_break =>
    if empty_break then true
    else match a with
         | Some loc =>
           text_eqb f (l_file loc) && (ol =? l_line loc)
           && (if stmt then oc =? l_col loc else l_col loc <=? oc)
         | None => false
         end
  end.

(* (e) *)
Fixpoint nodup_texts (l : list text) : bool :=
  match l with
  | [] => true
  | x :: l' => negb (existsb (text_eqb x) l') && nodup_texts l'
  end.

Definition file_listed (m : smap) (origs : list (text * text)) (f : text) : bool :=
  match find_text (sm_sources m) f 0 with
  | None => false
  | Some i =>
    match find_text (map fst origs) f 0 with
    | Some k =>
      match nth_opt (sm_contents m) i, nth_opt (map snd origs) k with
      | Some c, Some v => text_eqb c v
      | _, _ => false
      end
    | None => false
    end
  end.

Definition surviving_files (tags : list ptag) : list text :=
  (* files with surviving text (the line break of an empty line is emitted as generated code) *)
  flat_map (fun g => match g with POrig f _ _ _ false => [f] | _ => [] end) tags.

(* (f) *)
Fixpoint first_orig_of_line (tg : list (N * N * ptag)) (l : N) : option (text * N) :=
  match tg with
  | [] => None
  | (l', _, g) :: tg' =>
    if l' =? l then
      match g with
      | POrig f ol _ _ _ => Some (f, ol)
      | _ => first_orig_of_line tg' l
      end
    else first_orig_of_line tg' l
  end.

Definition line_ok (tg : list (N * N * ptag)) (segs : list rseg) (x : N * N * ptag) : bool :=
  let '(l, _, _) := x in
  match first_orig_of_line tg l, seg_first_mapped segs l with
  | Some (f, ol), Some loc => text_eqb f (l_file loc) && (ol =? l_line loc)
  | None, None => true
  | _, _ => false
  end.

Definition chk_C04 (s : src) (o : tree_obs) : N :=
  if negb (c04_domain s) then 100 else
  let t := to_source o in
  let tags := prov s in
  if negb (len tags =? len t) then 9 else
  let tg := tagged t tags 1 0 in
  match to_maps o with
  | [m1; m0] =>
    let segs1 := match m1 with Some m => rsegs_of_map m | None => [] end in
    let segs0 := match m0 with Some m => rsegs_of_map m | None => [] end in
    if negb (forallb (seg_ok tg) segs1) then 1
    else if negb (forallb (byte_ok segs1) tg) then 2
    else if negb (match m1 with
                  | Some m => nodup_texts (sm_sources m) && forallb (file_listed m (originals s)) (surviving_files tags)
                  | None => is_nil (surviving_files tags) end) then 5
    else if negb (has_replace s) && negb (forallb (line_ok tg segs0) tg) then 6
    else 0
  | _ => 9
  end.
