(* Checkers for histories (C10, C14) and pairs (C13, C14, C20). *)
From RS Require Import Base.Prelude Base.Text Rope.RopeModel Codec.Vlq Codec.CodecSpec
  Stream.Types Stream.Leaves Stream.Replace Stream.Tree Api.ApiTree Sem.Attr Sem.HashEq
  Api.ApiHist Checkers.ChkTree.

Fixpoint has_cached (s : src) : bool :=
  match s with
  | SCached _ _ => true
  | SConcat cs => existsb has_cached cs
  | SReplace inner _ => has_cached inner
  | _ => false
  end.

(* K2: a Cached node strictly beneath a Replace node that has at least one replacement *)
Fixpoint k2_shape (s : src) : bool :=
  match s with
  | SReplace inner rs => (negb (is_nil rs) && has_cached inner) || k2_shape inner
  | SConcat cs => existsb k2_shape cs
  | SCached _ inner => k2_shape inner
  | _ => false
  end.

(* K7: a CachedSource whose wrapped source announces a file but maps no chunk (e.g. an empty
   OriginalSource, or only such leaves next to unmapped text).  Cold, it forwards the wrapped
   stream with its announcements; its cached map is None, so warm it replays a raw stream and
   announces nothing: the enclosing map() lists that (unreferenced) file - and pads the
   sourcesContent of the files before it with "" - on the first call only. *)
Definition announces_unmapped (inner : src) : bool :=
  let evs := fst (fst (stream [] inner (mkOpts true false))) in
  negb (is_nil (contents_of_events evs)) && negb (mapped_chunk_exists evs).
Fixpoint k7_shape (s : src) : bool :=
  match s with
  | SCached _ inner => announces_unmapped inner || k7_shape inner
  | SConcat cs => existsb k7_shape cs
  | SReplace inner _ => k7_shape inner
  | _ => false
  end.

(* K7, as wide as it is (Proofs/EqDiffStrict.v: outside k7c_shape the strict content clauses of
   C14 hold after any two histories; k7_k7c: it contains k7_shape).  A CachedSource whose wrapped
   source
     - announces a file but attributes no text to any file, with or without columns (the class
       above, read off the attribution instead of the chunks), or
     - announces a file without content in front of a file with content: the map the cache
       stores holds the positional table sourcesContent, where the missing content is "", so
       warm the cache announces that file with content "" - cold with none - and the enclosing
       map() carries "" or nothing for it depending on whether a content follows it there. *)
Fixpoint content_gap (l : list (text * option text)) : bool :=
  match l with
  | [] => false
  | (_, None) :: r => existsb (fun p => match snd p with Some _ => true | None => false end) r || content_gap r
  | _ :: r => content_gap r
  end.

(* the cold text-carrying stream of the wrapped source *)
Definition cold_events (inner : src) (c : bool) : list event := fst (fst (stream [] inner (mkOpts c false))).

Definition attributes_nothing (evs : list event) (c : bool) : bool :=
  forallb (fun a => match a with None => true | Some _ => false end) (attr_of_stream evs c).

Definition announces_history_dependent (inner : src) : bool :=
  let evs1 := cold_events inner true in
  let anns := contents_of_events evs1 in
  if is_nil anns then false
  else if content_gap anns then true
  else if attributes_nothing evs1 true then true
  else attributes_nothing (cold_events inner false) false.

Fixpoint k7c_shape (s : src) : bool :=
  match s with
  | SCached _ inner => announces_history_dependent inner || k7c_shape inner
  | SConcat cs => existsb k7c_shape cs
  | SReplace inner _ => k7c_shape inner
  | _ => false
  end.


Fixpoint hev_eqb (a b : hev) : bool :=
  match a, b with
  | HB x, HB y => text_eqb x y
  | HU8 x, HU8 y | HUs x, HUs y | HIs x, HIs y | HU32 x, HU32 y => x =? y
  | HU64 x, HU64 y =>
    (fix go (p q : list hev) : bool :=
       match p, q with
       | [], [] => true
       | u :: p', v :: q' => hev_eqb u v && go p' q'
       | _, _ => false
       end) x y
  | _, _ => false
  end.

(* is answer `a` what the reference `r` answers?  t = the text both denote *)
Definition answer_equiv (t : text) (o : hop) (a r : answer) : bool :=
  match o, a, r with
  | _, AText x, AText y => text_eqb x y
  | _, ANum x, ANum y => x =? y
  | _, AOptText x, AOptText y => opt_eqb text_eqb x y
  | OMap cols, AMap x, AMap y =>
    list_eqb_attr (if cols then attr_eqb else attr_eqb_fl) (attr_of_map x t cols) (attr_of_map y t cols)
  | OStream cols false, AStream ex gx, AStream ey gy =>
    gi_eqb gx gy && reassembles ex t && reassembles ey t
    && list_eqb_attr (if cols then attr_eqb else attr_eqb_fl) (attr_of_stream ex cols) (attr_of_stream ey cols)
  | OStream cols true, AStream ex gx, AStream ey gy =>
    gi_eqb gx gy
    && list_eqb_attr (if cols then attr_eqb else attr_eqb_fl)
         (attr_of_final_events ex t cols) (attr_of_final_events ey t cols)
  | OHash, AHash _, AHash _ => true
  | OClone, ANone, ANone => true
  | _, _, _ => false
  end.

Fixpoint answers_equiv (t : text) (ops : list hop) (ans ref : list answer) (i : N) : N :=
  match ops, ans, ref with
  | [], [], [] => 0
  | o :: ops', a :: ans', r :: ref' =>
    if answer_equiv t o a r then answers_equiv t ops' ans' ref' (i + 1) else i + 1
  | _, _, _ => 40
  end.

(* hash answers along a history are all equal (the hash of an unchanged value never changes) *)
Fixpoint hashes_of (ans : list answer) : list (list hev) :=
  match ans with
  | [] => []
  | AHash h :: ans' => h :: hashes_of ans'
  | _ :: ans' => hashes_of ans'
  end.
Definition hevs_eqb := list_eqb hev_eqb.
Definition all_equal_hashes (hs : list (list hev)) : bool :=
  match hs with [] => true | h :: hs' => forallb (hevs_eqb h) hs' end.

(* C10 (s = SCached _ inner, reference = inner) and the repeatability clause of C14
   (reference = the object itself, fresh).  Result: 0 ok, 52 = K2 class, 100 skip,
   k = 1-based index of the first deviating call, 41 = hash changed *)
Definition chk_hist (s : src) (ops : list hop) (ans ref : list answer) : N :=
  if negb (treeA s) then 100 else
  match answers_equiv (source s) ops ans ref 0 with
  | 0 => if all_equal_hashes (hashes_of ans) then 0 else 41
  | k => if k2_shape s then 52 else k
  end.

(* ---------- pairs ---------- *)
Definition get_text (a : answer) : text := match a with AText t => t | _ => [] end.
Definition get_map (a : answer) : option smap := match a with AMap m => m | _ => None end.
Definition get_hash (a : answer) : list hev := match a with AHash h => h | _ => [] end.
Definition get_events (a : answer) : list event := match a with AStream e _ => e | _ => [] end.

(* final_ops = [OHash; OSrc; OBuf; OMap true; OMap false; OStream true false; OStream false false; OHash] *)
Definition nth_ans (l : list answer) (i : nat) : answer := nth i l ANone.

(* the content a map carries for a file it attributes text to (None: no sourcesContent entry) *)
Fixpoint file_index (m : smap) (srcs : list text) (f : text) (i : N) : option N :=
  match srcs with
  | [] => None
  | x :: srcs' => if text_eqb (get_source m x) f then Some i else file_index m srcs' f (i + 1)
  end.
Definition content_of_file (m : option smap) (f : text) : option text :=
  match m with
  | Some m => match file_index m (sm_sources m) f 0 with Some i => nth_opt (sm_contents m) i | None => None end
  | None => None
  end.
Definition referenced_contents_agree (x y : option smap) (t : text) (cols : bool) : bool :=
  forallb (fun a => match a with
                    | Some l => opt_eqb text_eqb (content_of_file x (l_file l)) (content_of_file y (l_file l))
                    | None => true end)
          (attr_of_map x t cols).

(* for DIFFERENT trees related by a composition law: an absent sourcesContent entry and an empty
   one are the same thing (the tables are positional: a missing content in front of a present one
   is stored as "") *)
Definition content_same (a b : option text) : bool :=
  match a, b with
  | None, Some [] | Some [], None => true
  | _, _ => opt_eqb text_eqb a b
  end.
Definition referenced_contents_same (x y : option smap) (t : text) (cols : bool) : bool :=
  forallb (fun a => match a with
                    | Some l => content_same (content_of_file x (l_file l)) (content_of_file y (l_file l))
                    | None => true end)
          (attr_of_map x t cols).
Definition obs_equiv_laws (a b : list answer) : N :=
  let t := get_text (nth_ans a 1) in
  if negb (text_eqb t (get_text (nth_ans b 1))) then 1
  else if negb (text_eqb (get_text (nth_ans a 2)) (get_text (nth_ans b 2))) then 2
  else if negb (list_eqb_attr attr_eqb (attr_of_map (get_map (nth_ans a 3)) t true)
                                        (attr_of_map (get_map (nth_ans b 3)) t true)) then 3
  else if negb (list_eqb_attr attr_eqb_fl (attr_of_map (get_map (nth_ans a 4)) t false)
                                           (attr_of_map (get_map (nth_ans b 4)) t false)) then 4
  else if negb (referenced_contents_same (get_map (nth_ans a 3)) (get_map (nth_ans b 3)) t true) then 5
  else if negb (referenced_contents_same (get_map (nth_ans a 4)) (get_map (nth_ans b 4)) t false) then 6
  else 0.

(* observational equality: text, buffer, attribution of map() (both column settings) and the
   content carried for every file text is attributed to *)
Definition obs_equiv (a b : list answer) : N :=
  let t := get_text (nth_ans a 1) in
  if negb (text_eqb t (get_text (nth_ans b 1))) then 1
  else if negb (text_eqb (get_text (nth_ans a 2)) (get_text (nth_ans b 2))) then 2
  else if negb (list_eqb_attr attr_eqb (attr_of_map (get_map (nth_ans a 3)) t true)
                                        (attr_of_map (get_map (nth_ans b 3)) t true)) then 3
  else if negb (list_eqb_attr attr_eqb_fl (attr_of_map (get_map (nth_ans a 4)) t false)
                                           (attr_of_map (get_map (nth_ans b 4)) t false)) then 4
  else if negb (referenced_contents_agree (get_map (nth_ans a 3)) (get_map (nth_ans b 3)) t true) then 5
  else if negb (referenced_contents_agree (get_map (nth_ans a 4)) (get_map (nth_ans b 4)) t false) then 6
  else 0.

(* C13: both sides of a composition law behave alike.  relaxed = the law compares columns only up
   to the identity refinement (empty insertions into a ReplaceSource, C06) *)
Definition loc_ref (a b : loc) : bool :=   (* a refines b *)
  text_eqb (l_file a) (l_file b) && (l_line a =? l_line b) && (l_col b <=? l_col a)
  && opt_eqb text_eqb (l_name a) (l_name b).

Definition chk_C13 (a b : src) (relaxed : bool) (o : pair_obs) : N :=
  if negb (treeA a && treeA b) then 100 else
  let t := get_text (nth_ans (po_a o) 1) in
  let r :=
    if relaxed then
      if negb (text_eqb t (get_text (nth_ans (po_b o) 1))) then 1
      else if negb (list_eqb_attr (opt_eqb loc_ref) (attr_of_map (get_map (nth_ans (po_a o) 3)) t true)
                                                    (attr_of_map (get_map (nth_ans (po_b o) 3)) t true)) then 3
      else if negb (list_eqb_attr attr_eqb_fl (attr_of_map (get_map (nth_ans (po_a o) 4)) t false)
                                               (attr_of_map (get_map (nth_ans (po_b o) 4)) t false)) then 4
      else 0
    else obs_equiv_laws (po_a o) (po_b o) in
  match r with
  | 0 => 0
  | k => if k2_shape a || k2_shape b then 52 else k
  end.

(* C14: == is symmetric; equal values hash alike and answer alike *)
Definition chk_C14_pair (a b : src) (o : pair_obs) : N :=
  if negb (tree_wf a && tree_wf b) then 100
  else if negb (Bool.eqb (po_eq o) (po_eqr o)) then 1
  (* equality does not change because observers were called or caches were filled *)
  else if negb (Bool.eqb (po_eq0 o) (po_eq o)) then 5
  (* the hash of an unchanged value does not change because observers were called on it *)
  else if negb (hevs_eqb (get_hash (nth_ans (po_a o) 0)) (get_hash (nth_ans (po_a o) 7))
                && hevs_eqb (get_hash (nth_ans (po_b o) 0)) (get_hash (nth_ans (po_b o) 7))) then 4
  else if po_eq o then
    if negb (hevs_eqb (get_hash (nth_ans (po_a o) 0)) (get_hash (nth_ans (po_b o) 0))) then 2
    else if negb (treeA a && treeA b) then
      (* non-ASCII: text views only *)
      (if text_eqb (get_text (nth_ans (po_a o) 1)) (get_text (nth_ans (po_b o) 1))
          && text_eqb (get_text (nth_ans (po_a o) 2)) (get_text (nth_ans (po_b o) 2)) then 0 else 3)
    else match obs_equiv (po_a o) (po_b o) with
         | 0 => 0
         | k => if k2_shape a || k2_shape b then 52
                else if ((k =? 5) || (k =? 6)) && (k7c_shape a || k7c_shape b) then 57
                else 10 + k
         end
  else 0.

(* C20: observably different trees have different hashes and compare unequal.
   "differ in map()": the returned SourceMap values differ. *)
Fixpoint erase_sms_names (s : src) : src :=
  match s with
  | SMapped v _ m o i r => SMapped v [] m o i r
  | SConcat cs => SConcat (map erase_sms_names cs)
  | SReplace inner rs => SReplace (erase_sms_names inner) rs
  | SCached id inner => SCached id (erase_sms_names inner)
  | _ => s
  end.

Definition maps_differ (x y : option smap) : bool := negb (opt_eqb smap_eqb x y).

Definition chk_C20_pair (a b : src) (o : pair_obs) : N :=
  if negb (tree_wf a && tree_wf b) then 100
  else if src_eqb (erase_sms_names a) (erase_sms_names b) then
    (if src_eqb a b then
       (* the same tree: the same hash in every object, whatever observers ran before *)
       (if hevs_eqb (get_hash (nth_ans (po_a o) 0)) (get_hash (nth_ans (po_b o) 0))
           && hevs_eqb (get_hash (nth_ans (po_a o) 0)) (get_hash (nth_ans (po_a o) 7))
           && hevs_eqb (get_hash (nth_ans (po_b o) 0)) (get_hash (nth_ans (po_b o) 7)) then 0 else 3)
     else 100)
  else
    let differ :=
      negb (text_eqb (get_text (nth_ans (po_a o) 1)) (get_text (nth_ans (po_b o) 1)))
      || negb (text_eqb (get_text (nth_ans (po_a o) 2)) (get_text (nth_ans (po_b o) 2)))
      || maps_differ (get_map (nth_ans (po_a o) 3)) (get_map (nth_ans (po_b o) 3))
      || maps_differ (get_map (nth_ans (po_a o) 4)) (get_map (nth_ans (po_b o) 4)) in
    if differ then
      if hevs_eqb (get_hash (nth_ans (po_a o) 0)) (get_hash (nth_ans (po_b o) 0)) then
        (* the ingredient sequences fed to the hasher coincide by design.
           K6 (56): a ConcatSource does not delimit its children - possible only when one of the
           trees is not `delimited` (Sem/HashEq.v).  When both are, the hasher stream is
           injective up to what the hash deliberately ignores (Props/C20.v C20_injective:
           norm a = norm b): the pair is outside the quantifier of the property ("trees that
           differ in something observable") and what differs in the recorded observations comes
           from the excluded SourceMapSource name, from cache sharing or from the two histories
           (K2 / K7 / re-encoded cached maps; Proofs/HashChkDelim.v), none of which is K6: 100 *)
        (if hevs_eqb (hash_events a) (hash_events b) then
           (if delimited a && delimited b then 100 else 56)
         else 1)
      else if po_eq o then 2
      else 0
    else 0.
