(* Boolean checker of property C12, applied to observations of the
   implementation (and of the model).  Result 0 = holds; otherwise the number
   of the clause that failed.  Definitions only. *)
From RS Require Import Base.Prelude Codec.CodecSpec.

Definition mlist_eqb := list_eqb mapping_eqb.

Definition is_map_char (c : N) : bool :=
  match b64_digit c with Some _ => true | None => (c =? 44) || (c =? 59) end.

(* attribution agreement at every breakpoint of either list *)
Definition attr_agree_at (a b : list mapping) (m : mapping) : bool :=
  opt_eqb orig_eqb (lookup a (g_line m) (g_col m)) (lookup b (g_line m) (g_col m))
  && opt_eqb orig_eqb (lookup a (g_line m) 0) (lookup b (g_line m) 0).
Definition attr_agree (a b : list mapping) : bool :=
  forallb (attr_agree_at a b) a && forallb (attr_agree_at a b) b.

Definition opt_mlist_eqb (a : option (list mapping)) (b : list mapping) : bool :=
  match a with Some l => mlist_eqb l b | None => false end.

(* domain of the encoder clauses: sorted input, all fields < 2^30 *)
Definition small (n : N) : bool := n <? 1073741824.
Definition mapping_small (m : mapping) : bool :=
  small (g_line m) && small (g_col m) && (1 <=? g_line m) &&
  match m_orig m with
  | Some o => small (o_src o) && small (o_line o) && small (o_col o)
              && match o_name o with Some n => small n | None => true end
  | None => true
  end.
Definition enc_domain (ms : list mapping) : bool :=
  sorted_by pos_le ms && forallb mapping_small ms.

(* original lines are 1-based in this crate; the v3 format cannot express line 0 *)
Definition olines_ok (ms : list mapping) : bool :=
  forallb (fun m => match m_orig m with Some o => 1 <=? o_line o | None => true end) ms.

(* observations: enc = encode_mappings(ms); dec = decode(enc); reenc = encode(dec);
   lenc = line-only encoding of ms; ldec = decode(lenc) *)
Definition chk_C12_enc (ms : list mapping) (enc : text) (dec : list mapping) (reenc : text)
                       (lenc : text) (ldec : list mapping) : N :=
  if negb (enc_domain ms) then 0
  else if negb (mlist_eqb dec (kept ms)) then 1
  else if olines_ok ms && negb (opt_mlist_eqb (spec_decode enc) (kept ms)) then 2
  else if negb (attr_agree ms dec) then 3
  else if negb (text_eqb reenc enc) then 4
  else if negb (forallb is_map_char enc && forallb is_map_char lenc) then 5
  else if negb (mlist_eqb ldec (line_firsts ms)) then 6
  else if olines_ok ms && negb (opt_mlist_eqb (spec_decode lenc) (line_firsts ms)) then 7
  else 0.

(* decoder domain: every VLQ has at most 12 digits and every running value < 2^32 *)
Fixpoint max_run_digits (s : text) (cur best : N) : N :=
  match s with
  | [] => N.max cur best
  | c :: s' =>
    match b64_digit c with
    | Some _ => max_run_digits s' (cur + 1) best
    | None => max_run_digits s' 0 (N.max cur best)
    end
  end.
Definition u32 (n : N) : bool := n <? two32.
Definition mapping_u32 (m : mapping) : bool :=
  u32 (g_line m) && u32 (g_col m) &&
  match m_orig m with
  | Some o => u32 (o_src o) && u32 (o_line o) && u32 (o_col o)
              && match o_name o with Some n => u32 n | None => true end
  | None => true
  end.

(* result: 0 ok, 1 mismatch, 100 = string outside the stated grammar/domain *)
Definition chk_C12_dec (s : text) (dec : list mapping) : N :=
  match spec_decode s with
  | None => 100
  | Some l =>
    (* the format puts no bound on digit runs; the crate's accumulator is an i64 *)
    if negb (forallb mapping_u32 l) then 100
    else if mlist_eqb dec l then 0 else 1
  end.
