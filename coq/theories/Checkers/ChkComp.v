(* Checker of property C06: a composite attributes every position as its
   children do.  The reference for ReplaceSource is written over byte positions
   (cuts, pieces, emission points), not as the chunk state machine of the code. *)
From RS Require Import Base.Prelude Base.Text Rope.RopeModel Codec.Vlq Codec.CodecSpec
  Stream.Types Stream.Leaves Stream.Replace Stream.Tree Api.ApiTree Sem.Attr Checkers.ChkTree.

(* a child's chunk: text, attribution *)
Definition cchunk := (text * attr)%type.

Definition chunks_with_attr (evs : list event) : list cchunk :=
  flat_map (fun x => match x with (Some t, (_, _, a)) => [(t, a)] | _ => [] end)
           (rsegs_of_events evs [] []).

Definition content_of (evs : list event) (file : text) : option text :=
  match find (fun p => text_eqb (fst p) file) (contents_of_events evs) with
  | Some (_, c) => c
  | None => None
  end.

(* per output line: the first mapped byte's (file, line), broadcast to the whole line *)
Fixpoint line_first_bytes (t : text) (attrs : list attr) (cur : attr) (n : nat) (acc : list attr) : list attr :=
  match t, attrs with
  | b :: t', a :: attrs' =>
    let cur' := match cur, a with
                | None, Some x => Some (mkLoc (l_file x) (l_line x) 0 None)
                | _, _ => cur end in
    if b =? NL then line_first_bytes t' attrs' None 0 (repeat cur' (S n) ++ acc)
    else line_first_bytes t' attrs' cur' (S n) acc
  | _, _ => rev (repeat cur n ++ acc)
  end.

(* ---------------- ConcatSource ---------------- *)
Definition concat_expected (children : list (list event)) : list attr :=
  flat_map (fun evs => attr_cover (rsegs_of_events evs [] [])) children.

(* every file a child references keeps its content in the composite *)
Definition contents_preserved (comp : list event) (children : list (list event)) : bool :=
  forallb (fun evs =>
    forallb (fun a => match a with
                      | Some l => opt_eqb text_eqb (content_of comp (l_file l)) (content_of evs (l_file l))
                      | None => true end)
            (attr_cover (rsegs_of_events evs [] []))) children.

(* ---------------- ReplaceSource ---------------- *)
(* replacements in order with emission point and consumed interval *)
Fixpoint schedule (rs : list repl) (n : N) (consumed : N) : list (repl * N * N * N) :=
  match rs with
  | [] => []
  | r :: rs' =>
    let s := N.min (r_start r) n in
    let e := N.min (r_end r) n in
    let em := N.max consumed s in
    let c' := N.max consumed e in
    (r, em, consumed, c') :: schedule rs' n c'
  end.

Definition cuts_of (sch : list (repl * N * N * N)) : list N :=
  flat_map (fun x => let '(_, em, _, c') := x in [em; c']) sch.

(* piece columns of one chunk: cut offsets (relative, ascending, starting with 0) -> column at each cut *)
Definition piece_match (content : option text) (line col : N) (piece : text) : bool :=
  match content with
  | Some c =>
    if line =? 0 then false else
    match nth_opt (split_lines c) (line - 1) with
    | Some l => is_prefix piece (substring l col None)
    | None => false
    end
  | None => false
  end.

Fixpoint piece_cols (content : option text) (line : N) (chunk : text) (cuts : list N) (prev col : N)
  : list (N * N) :=   (* (cut offset, column) *)
  match cuts with
  | [] => []
  | k :: cuts' =>
    let piece := slice prev k chunk in
    let col' := if piece_match content line col piece then col + len piece else col in
    (k, col') :: piece_cols content line chunk cuts' k col'
  end.

Fixpoint insert_uniq (x : N) (l : list N) : list N :=
  match l with
  | [] => [x]
  | y :: l' => if x <? y then x :: l else if x =? y then l else y :: insert_uniq x l'
  end.

(* column in force at relative offset k: the last cut <= k *)
Fixpoint col_at (pcs : list (N * N)) (k : N) (best : N) : N :=
  match pcs with
  | [] => best
  | (c, col) :: pcs' => if c <=? k then col_at pcs' k col else best
  end.

(* expected attribution of every inner byte (as if it survived), and of a replacement emitted at em *)
Fixpoint inner_expected (inner_evs : list event) (chs : list cchunk) (start : N) (cuts : list N)
  : list (N * N * text * attr * list (N * N)) :=      (* chunk start, length, text, attr, piece columns *)
  match chs with
  | [] => []
  | (t, a) :: chs' =>
    let rel := fold_right (fun x acc => if (start <? x) && (x <? start + len t) then insert_uniq (x - start) acc else acc) [] cuts in
    let pcs :=
      match a with
      | Some l => (0, l_col l) :: piece_cols (content_of inner_evs (l_file l)) (l_line l) t rel 0 (l_col l)
      | None => []
      end in
    (start, len t, t, a, pcs) :: inner_expected inner_evs chs' (start + len t) cuts
  end.

Definition attr_with_col (a : attr) (col : N) : attr :=
  match a with Some l => Some (mkLoc (l_file l) (l_line l) col (l_name l)) | None => None end.

Fixpoint byte_attr (table : list (N * N * text * attr * list (N * N))) (p : N) : option attr :=
  match table with
  | [] => None
  | (s, n, _, a, pcs) :: table' =>
    if (s <=? p) && (p <? s + n)
    then Some (match a with Some l => attr_with_col a (col_at pcs (p - s) (l_col l)) | None => None end)
    else byte_attr table' p
  end.

Fixpoint range_attrs (table : list (N * N * text * attr * list (N * N))) (p : N) (n : nat) : list attr :=
  match n with
  | O => []
  | S n' => (match byte_attr table p with Some a => a | None => None end) :: range_attrs table (p + 1) n'
  end.

(* content of a replacement: location active at the emission point; the replacement's name (if the
   chunk is mapped) else the chunk's name, on the first content line only *)
Fixpoint content_attrs (content : text) (a : attr) (name : option text) (first_line : bool) : list attr :=
  match content with
  | [] => []
  | b :: content' =>
    (match a with
     | Some l => Some (mkLoc (l_file l) (l_line l) (l_col l) (if first_line then name else None))
     | None => None end)
    :: content_attrs content' a name (if b =? NL then false else first_line)
  end.

Fixpoint replace_expected (table : list (N * N * text * attr * list (N * N))) (n : N)
         (sch : list (repl * N * N * N)) : list attr :=
  match sch with
  | [] => []
  | (r, em, c, c') :: sch' =>
    let s := N.min (r_start r) n in
    (if c <? s then range_attrs table c (N.to_nat (s - c)) else [])
    ++ (let a := match byte_attr table em with Some a => a | None => None end in
        let name := match a with
                    | Some l => match r_name r with Some nm => Some nm | None => l_name l end
                    | None => None end in
        content_attrs (r_content r) a name true)
    ++ replace_expected table n sch'
  end.

Definition final_consumed (sch : list (repl * N * N * N)) : N :=
  match rev sch with (_, _, _, c') :: _ => c' | [] => 0 end.

Definition replace_reference (inner_evs : list event) (rs : list repl) : list attr :=
  let chs := chunks_with_attr inner_evs in
  let n := len (concat (map fst chs)) in
  let sch := schedule (sort_repls rs) n 0 in
  let table := inner_expected inner_evs chs 0 (cuts_of sch) in
  let fc := final_consumed sch in
  replace_expected table n sch ++ range_attrs table fc (N.to_nat (n - fc)).

(* domain: a file name announced by several children carries the same content everywhere *)
Fixpoint bindings_consistent (l : list (text * option text)) : bool :=
  match l with
  | [] => true
  | (n, c) :: l' =>
    forallb (fun p => negb (text_eqb (fst p) n) || opt_eqb text_eqb (snd p) c) l' && bindings_consistent l'
  end.

(* ---------------- the checker ---------------- *)
(* comp10/comp00: the composite's streams; kids10/kids00: each child's own streams *)
Definition chk_C06 (s : src) (src_text : text) (comp10 comp00 : list event)
           (kids10 kids00 : list (list event)) : N :=
  if negb (treeA s) then 100
  else if negb (bindings_consistent (flat_map contents_of_events kids10)) then 100 else
  match s with
  | SConcat cs =>
    if negb (len cs =? len kids10) then 9
    else if negb (list_eqb_attr attr_eqb (attr_of_stream comp10 true) (concat_expected kids10)) then 1
    else if negb (contents_preserved comp10 kids10) then 2
    else if negb (list_eqb_attr attr_eqb_fl (attr_of_stream comp00 false)
                    (line_first_bytes src_text (concat_expected kids00) None 0 [])) then 3
    else 0
  | SReplace inner rs =>
    match kids10, kids00 with
    | [k10], [k00] =>
      if negb (list_eqb_attr attr_eqb (attr_of_stream comp10 true) (replace_reference k10 rs)) then 4
      else if negb (contents_preserved comp10 [k10]) then 5
      else if negb (list_eqb_attr attr_eqb_fl (attr_of_stream comp00 false)
                      (line_first_bytes src_text (replace_reference k00 rs) None 0 [])) then 6
      else 0
    | _, _ => 9
    end
  | _ => 100
  end.
