(* Checker of property C09: a SourceMapSource with an inner map composes outer
   and inner attribution.  The reference works on the two decoded maps. *)
From RS Require Import Base.Prelude Base.Text Rope.RopeModel Codec.Vlq Codec.CodecSpec
  Stream.Types Stream.Leaves Stream.Tree Api.ApiTree Sem.Attr Checkers.ChkTree.

Definition name_of (m : smap) (o : orig) : option text :=
  match o_name o with
  | Some n => Some (match nth_opt (sm_names m) n with Some x => x | None => BAD end)
  | None => None
  end.
Definition file_of (m : smap) (o : orig) : text :=
  match nth_opt (sm_sources m) (o_src o) with Some s => get_source m s | None => BAD end.
Definition content_in (m : smap) (i : N) : option text := nth_opt (sm_contents m) i.

(* content the outer map carries for the inner source *)
Fixpoint outer_content_of (m : smap) (srcs : list text) (i : N) (name : text) : option text :=
  match srcs with
  | [] => None
  | s :: srcs' => if text_eqb (get_source m s) name then content_in m i else outer_content_of m srcs' (i + 1) name
  end.

(* original text at (line, col) of a content starts with `name`? *)
Definition text_at (content : option text) (line col : N) (name : text) : bool :=
  match content with
  | Some c =>
    if line =? 0 then false else
    match nth_opt (split_lines c) (line - 1) with
    | Some l => text_eqb (substring l col (Some (col + len name))) name
    | None => false
    end
  | None => false
  end.

(* normalise "no content": get_map pads missing contents with "" *)
Definition content_eqv (a b : option text) : bool :=
  let n x := match x with Some [] => None | y => y end in
  opt_eqb text_eqb (n a) (n b).

Definition map_content (m : smap) (file : text) : option text :=
  match find_text (sm_sources m) file 0 with
  | Some i => content_in m i
  | None => None
  end.

(* is the actual attribution `a` (with the result map `res`) admissible for an output byte
   whose outer lookup is `out`? *)
Definition admissible (cols : bool) (outer inner : smap) (inner_name : text) (original : option text)
           (remove : bool) (res : smap) (out : option mapping) (a : attr) : bool :=
  match out with
  | None => match a with None => true | Some _ => false end
  | Some mp =>
    match m_orig mp with
    | None => match a with None => true | Some _ => false end
    | Some o =>
      let fname := file_of outer o in
      if negb (text_eqb fname inner_name) then
        (* other sources pass through unchanged, with their content *)
        match a with
        | Some l =>
          text_eqb (l_file l) fname && (l_line l =? o_line o)
          && (if cols then (l_col l =? o_col o) && opt_eqb text_eqb (l_name l) (name_of outer o) else true)
          && content_eqv (map_content res fname) (content_in outer (o_src o))
        | None => false
        end
      else if negb (match original with
                    | Some ot => match (if o_line o =? 0 then None else nth_opt (split_lines ot) (o_line o - 1)) with
                                 | Some l => o_col o <? len l
                                 | None => false end
                    | None => true end) then true     (* the outer segment does not point at a character of the inner source *)
      else
        let isegs := decode_mappings (sm_mappings inner) in
        let found :=
          match original with
          | None => None             (* nothing the inner map could be applied to *)
          | Some _ =>
            if cols then lookup_from isegs (o_line o) (o_col o) None
            else
              (* line granularity: the inner line's first mapped segment *)
              match first_mapped isegs (o_line o) with
              | Some (si, ol) => Some (mkMapping (o_line o) 0 (Some (mkOrig si ol 0 None)))
              | None => None
              end
          end in
        let fallback :=
          if remove then match a with None => true | Some _ => false end
          else match a with
               | Some l =>
                 text_eqb (l_file l) inner_name && (l_line l =? o_line o)
                 && (if cols then (l_col l =? o_col o)
                                  && (is_none (l_name l) || opt_eqb text_eqb (l_name l) (name_of outer o))
                     else true)
                 && content_eqv (map_content res inner_name) original
               | None => false
               end in
        match found with
        | Some im =>
          match m_orig im with
          | Some io =>
            match a with
            | Some l =>
              let ifile := file_of inner io in
              let icontent := content_in inner (o_src io) in
              text_eqb (l_file l) ifile && (l_line l =? o_line io)
              && (if cols then
                    (o_col io <=? l_col l) && (l_col l <=? o_col io + (o_col o - g_col im))
                    && (is_none (l_name l)
                        || opt_eqb text_eqb (l_name l) (name_of inner io)
                        || (opt_eqb text_eqb (l_name l) (name_of outer o)
                            && match l_name l with Some nm => text_at icontent (o_line io) (l_col l) nm | None => false end))
                  else true)
              && content_eqv (map_content res ifile) icontent
            | None => false
            end
          | None => fallback
          end
        | None => fallback
        end
    end
  end.

Fixpoint check_bytes (cols : bool) (outer inner : smap) (inner_name : text) (original : option text)
         (remove : bool) (res : smap) (osegs : list mapping) (t : text) (attrs : list attr) (l c : N) : bool :=
  match t, attrs with
  | b :: t', a :: attrs' =>
    let out := if cols then lookup_from osegs l c None
               else match first_mapped osegs l with
                    | Some _ =>
                      (* the line's first mapped segment *)
                      find (fun mp => (g_line mp =? l) && match m_orig mp with Some _ => true | None => false end) osegs
                    | None => None end in
    admissible cols outer inner inner_name original remove res out a
    && (if b =? NL then check_bytes cols outer inner inner_name original remove res osegs t' attrs' (l + 1) 0
        else check_bytes cols outer inner inner_name original remove res osegs t' attrs' l (c + 1))
  | [], [] => true
  | _, _ => false
  end.

Fixpoint nodup_texts_c (l : list text) : bool :=
  match l with
  | [] => true
  | x :: l' => negb (existsb (text_eqb x) l') && nodup_texts_c l'
  end.

Definition empty_map : smap := mkSmap None [] [] [] [] None None.

Definition chk_C09 (s : src) (o : tree_obs) : N :=
  match s with
  | SMapped v n m orig (Some im) remove =>
    let original := match orig with Some t => Some t | None => outer_content_of m (sm_sources m) 0 n end in
    if negb (treeA s) then 100
    (* "1-3 sources, one of them the inner source name": exactly one *)
    else if negb (len (filter (fun x => text_eqb (get_source m x) n) (sm_sources m)) =? 1) then 100
    else if negb (match original with Some ot => map_consistent ot im | None => true end) then 100
    (* a shared name carries the same content everywhere: if the inner map names the inner file too *)
    else if negb (match find_text (sm_sources im) n 0 with
                  | Some i => content_eqv (content_in im i) original
                  | None => true end) then 100
    else
    match to_maps o with
    | [m1; m0] =>
      let osegs := decode_mappings (sm_mappings m) in
      let r1 := match m1 with Some r => r | None => empty_map end in
      let r0 := match m0 with Some r => r | None => empty_map end in
      if negb (check_bytes true m im n original remove r1 osegs v (attr_of_map m1 v true) 1 0) then 1
      else if negb (check_bytes false m im n original remove r0 osegs v (attr_of_map m0 v false) 1 0) then 2
      (* a reported file is listed once: otherwise "its content" is not well defined *)
      else if negb (nodup_texts_c (sm_sources r1) && nodup_texts_c (sm_sources r0)) then 3
      else 0
    | _ => 9
    end
  | _ => 100
  end.

(* Domain refinements found while proving that chk_C09 accepts the model (Proofs/CombAllTop.v:
   cex_a_in_domain_rejected, cex_b_in_domain_rejected): a file name listed twice with different
   contents has no well-defined content, and an empty outer name is no identifier - such inputs are
   outside the property's domain, the entry point answers 100 for them. *)
Fixpoint files_of (m : smap) (srcs : list text) (i : N) : list (text * option text) :=
  match srcs with
  | [] => []
  | x :: srcs' => (get_source m x, content_in m i) :: files_of m srcs' (i + 1)
  end.

Definition files_agree (F : list (text * option text)) : bool :=
  forallb (fun p => forallb (fun q => implb (text_eqb (fst p) (fst q)) (content_eqv (snd p) (snd q))) F) F.

Definition chk_C09_all (s : src) (o : tree_obs) : N :=
  match s with
  | SMapped v n m orig (Some im) remove =>
    if negb (forallb (fun x : text => negb (is_nil x)) (sm_names m)) then 100
    else if negb (files_agree (filter (fun p => negb (text_eqb (fst p) n)) (files_of m (sm_sources m) 0)
                               ++ files_of im (sm_sources im) 0)) then 100
    else chk_C09 s o
  | _ => 100
  end.
