(* Checker of property C05 on the texts rendered along a history of calls on a
   ReplaceSource. *)
From RS Require Import Base.Prelude Base.Text Rope.RopeModel Stream.Types Stream.Replace
  Sem.ReplaceObj Checkers.ChkTree.

(* what the harness prints for call c: None = nothing rendered ("-") *)
Inductive rout := ONone | OText (t : text) | OSize (n : N).

Definition rout_eqb (a b : rout) : bool :=
  match a, b with
  | ONone, ONone => true
  | OText x, OText y => text_eqb x y
  | OSize x, OSize y => x =? y
  | _, _ => false
  end.

(* expected outputs from the reference model *)
Fixpoint expected_outs (inner : text) (h : list rcall) (acc : list repl) : list rout :=
  match h with
  | [] => []
  | RMutate r :: h' => ONone :: expected_outs inner h' (acc ++ [r])
  | RClone :: h' => ONone :: expected_outs inner h' acc
  | RObserve k :: h' =>
    (if (k =? 5) || (k =? 7) then ONone
     else if k =? 2 then OSize (len (ref_text inner acc))
     else OText (ref_text inner acc)) :: expected_outs inner h' acc
  end.

(* the model's own outputs in the same shape *)
Fixpoint model_outs (h : list rcall) (outs : list (option text)) : list rout :=
  match h, outs with
  | RObserve k :: h', Some t :: outs' =>
    (if (k =? 5) || (k =? 7) then ONone else if k =? 2 then OSize (len t) else OText t) :: model_outs h' outs'
  | _ :: h', _ :: outs' => ONone :: model_outs h' outs'
  | _, _ => []
  end.

Definition history_ok (inner : text) (h : list rcall) : bool :=
  valid_utf8 inner &&
  forallb (fun c => match c with RMutate r => repl_ok inner r | _ => true end) h.

Definition chk_C05 (inner : text) (h : list rcall) (outs : list rout) : N :=
  if negb (history_ok inner h) then 100
  else if list_eqb rout_eqb outs (expected_outs inner h []) then 0 else 1.
