(* Source trees, events, options, caches.  Definitions only. *)
From RS Require Import Base.Prelude Base.Text.

Record repl := mkRepl {
  r_start : N; r_end : N; r_content : text; r_name : option text;
  r_enforce : N (* 0 = Pre, 1 = Normal, 2 = Post *) }.

Inductive src :=
| SRaw (is_buffer : bool) (v : text)     (* RawSource from a String / from bytes *)
| SRawString (v : text)                  (* RawStringSource *)
| SRawBuffer (v : text)                  (* RawBufferSource *)
| SOriginal (v name : text)
| SMapped (v name : text) (m : smap) (orig : option text) (inner : option smap) (remove : bool)
| SConcat (children : list src)          (* as stored: typed ConcatSource items already flattened *)
| SReplace (inner : src) (repls : list repl)   (* insertion order *)
| SCached (id : N) (inner : src).        (* clones share the id, i.e. the caches *)

Inductive event :=
| EChunk (t : option text) (m : mapping)
| ESource (i : N) (name : text) (content : option text)
| EName (i : N) (name : text).

Record opts := mkOpts { columns : bool; final_source : bool }.
Definition opts_eqb (a b : opts) : bool :=
  Bool.eqb (columns a) (columns b) && Bool.eqb (final_source a) (final_source b).

(* cached_maps of every CachedSource: id -> (options -> cached map) as association lists;
   the first entry for a key is the one in force (entries are never replaced) *)
Definition cache := list (opts * option smap).
Definition store := list (N * cache).

Fixpoint cache_get (c : cache) (o : opts) : option (option smap) :=
  match c with
  | [] => None
  | (k, v) :: c' => if opts_eqb k o then Some v else cache_get c' o
  end.

Fixpoint store_get (st : store) (id : N) : cache :=
  match st with
  | [] => []
  | (k, c) :: st' => if k =? id then c else store_get st' id
  end.

Fixpoint store_put (st : store) (id : N) (o : opts) (v : option smap) : store :=
  match st with
  | [] => [(id, [(o, v)])]
  | (k, c) :: st' =>
    if k =? id then
      (* or_insert: an existing entry is kept *)
      (k, match cache_get c o with Some _ => c | None => c ++ [(o, v)] end) :: st'
    else (k, c) :: store_put st' id o v
  end.

(* ---------- LinearMap<V> with Default ---------- *)
Fixpoint lm_set {A} (d : A) (l : list A) (k : nat) (v : A) : list A :=
  match k, l with
  | O, [] => [v]
  | O, _ :: l' => v :: l'
  | S k', [] => d :: lm_set d [] k' v
  | S k', x :: l' => x :: lm_set d l' k' v
  end.
Definition lm_insert {A} (d : A) (l : list A) (k : N) (v : A) : list A := lm_set d l (N.to_nat k) v.
Definition lm_get {A} (l : list A) (k : N) : option A := nth_opt l k.

(* index of a string in a de-duplication table (HashMap<Cow<str>, u32> filled with len()) *)
Fixpoint find_text (tbl : list text) (t : text) (i : N) : option N :=
  match tbl with
  | [] => None
  | x :: tbl' => if text_eqb x t then Some i else find_text tbl' t (i + 1)
  end.

(* chunk projections *)
Fixpoint chunk_texts (evs : list event) : list (option text) :=
  match evs with
  | [] => []
  | EChunk t _ :: evs' => t :: chunk_texts evs'
  | _ :: evs' => chunk_texts evs'
  end.
Fixpoint chunk_mappings (evs : list event) : list mapping :=
  match evs with
  | [] => []
  | EChunk _ m :: evs' => m :: chunk_mappings evs'
  | _ :: evs' => chunk_mappings evs'
  end.
Fixpoint chunks_of (evs : list event) : list (option text * mapping) :=
  match evs with
  | [] => []
  | EChunk t m :: evs' => (t, m) :: chunks_of evs'
  | _ :: evs' => chunks_of evs'
  end.

Definition unmapped (l c : N) : mapping := mkMapping l c None.
