(* Streams of the leaf sources: raw text, OriginalSource, and the four
   source-map driven splitters of helpers.rs.  Definitions only. *)
From RS Require Import Base.Prelude Base.Text Rope.RopeModel Codec.Vlq Stream.Types.

(* ---------- potential tokens  /[^\n;{}]+[;{} \r\t]*\n?|[;{} \r\t]+\n?|\n/g ---------- *)
Definition is_brace (c : N) : bool := (c =? 59) || (c =? 123) || (c =? 125).
Definition is_sep (c : N) : bool := is_brace c || (c =? 32) || (c =? 13) || (c =? 9).

(* ph = false: in the body of a token; ph = true: in its trailing separator run *)
Fixpoint tokens_aux (t : text) (ph : bool) (cur : text) : list text :=
  match t with
  | [] => if is_nil cur then [] else [rev cur]
  | c :: t' =>
    if c =? NL then rev (c :: cur) :: tokens_aux t' false []
    else if ph then
      if is_sep c then tokens_aux t' true (c :: cur) else rev cur :: tokens_aux t' false [c]
    else
      if is_brace c then tokens_aux t' true (c :: cur) else tokens_aux t' false (c :: cur)
  end.
Definition potential_tokens (t : text) : list text := tokens_aux t false [].

(* ---------- stream_chunks_of_raw_source ---------- *)
Fixpoint raw_chunks (ls : list text) (line : N) : list event :=
  match ls with
  | [] => []
  | l :: ls' => EChunk (Some l) (unmapped line 0) :: raw_chunks ls' (line + 1)
  end.

Definition lines_end_info (ls : list text) : N * N :=
  match rev ls with
  | l :: _ => if ends_with_nl l then (len ls + 1, 0) else (len ls, len l)
  | [] => (1, 0)
  end.

Definition raw_stream (t : text) (final : bool) : list event * (N * N) :=
  if final then ([], gen_info t)
  else let ls := split_lines t in (raw_chunks ls 1, lines_end_info ls).

(* ---------- OriginalSource ---------- *)
Definition orig_at (l c : N) : mapping := mkMapping l c (Some (mkOrig 0 l c None)).

Fixpoint original_tokens (toks : list text) (final : bool) (line col : N) : list event * (N * N) :=
  match toks with
  | [] => ([], (line, col))
  | tk :: toks' =>
    let eol := ends_with_nl tk in
    let ev :=
      if eol && (len tk =? 1) then
        if final then [] else [EChunk (Some tk) (unmapped line col)]
      else [EChunk (if final then None else Some tk) (orig_at line col)] in
    let '(line', col') := if eol then (line + 1, 0) else (line, col + len tk) in
    let '(evs, gi) := original_tokens toks' final line' col' in
    (ev ++ evs, gi)
  end.

Fixpoint original_line_marks (n : nat) (line : N) : list event :=
  match n with
  | O => []
  | S n' => EChunk None (orig_at line 0) :: original_line_marks n' (line + 1)
  end.

Fixpoint original_line_chunks (ls : list text) (line : N) : list event :=
  match ls with
  | [] => []
  | l :: ls' => EChunk (Some l) (orig_at line 0) :: original_line_chunks ls' (line + 1)
  end.

Definition original_stream (v name : text) (o : opts) : list event * (N * N) :=
  let announce := ESource 0 name (Some v) in
  if columns o then
    let '(evs, gi) := original_tokens (potential_tokens v) (final_source o) 1 0 in
    (announce :: evs, gi)
  else if final_source o then
    let '(gl, gc) := gen_info v in
    let n := if gc =? 0 then gl - 1 else gl in
    (announce :: original_line_marks (N.to_nat n) 1, (gl, gc))
  else
    let ls := split_lines v in
    (announce :: original_line_chunks ls 1, lines_end_info ls).

(* ---------- source-map driven streams ---------- *)
(* WithIndices::substring : char indices -> byte slice *)
Fixpoint char_starts (t : text) (i : N) : list N :=
  match t with
  | [] => []
  | b :: t' => if is_cont b then char_starts t' (i + 1) else i :: char_starts t' (i + 1)
  end.
Definition char_offset (t : text) (k : N) : N :=
  match nth_opt (char_starts t 0) k with Some o => o | None => len t end.
(* end index None = usize::MAX *)
Definition substring (t : text) (s : N) (e : option N) : text :=
  let e' := match e with Some e => e | None => len t + 1 end in
  if e' <=? s then [] else slice (char_offset t s) (char_offset t e') t.

Definition ends_with_slash (t : text) : bool :=
  match last_byte t with Some c => c =? 47 | None => false end.

Definition get_source (m : smap) (s : text) : text :=
  match sm_root m with
  | None => s
  | Some root =>
    if is_nil root then s
    else if ends_with_slash root then root ++ s
    else root ++ [47] ++ s
  end.

Fixpoint announce_sources (m : smap) (srcs : list text) (i : N) : list event :=
  match srcs with
  | [] => []
  | s :: srcs' => ESource i (get_source m s) (nth_opt (sm_contents m) i) :: announce_sources m srcs' (i + 1)
  end.
Fixpoint announce_names (names : list text) (i : N) : list event :=
  match names with
  | [] => []
  | n :: names' => EName i n :: announce_names names' (i + 1)
  end.

(* --- columns = true, final_source = true --- *)
Fixpoint sm_final_loop (ms : list mapping) (rl rc : N) (active_line : N) : list event :=
  match ms with
  | [] => []
  | m :: ms' =>
    if (rl <=? g_line m) && ((rc <=? g_col m) || (rl <? g_line m)) then sm_final_loop ms' rl rc active_line
    else
      match m_orig m with
      | Some _ => EChunk None m :: sm_final_loop ms' rl rc (g_line m)
      | None =>
        if active_line =? g_line m then EChunk None (unmapped (g_line m) (g_col m)) :: sm_final_loop ms' rl rc active_line
        else sm_final_loop ms' rl rc active_line
      end
  end.

Definition sm_stream_final (t : text) (m : smap) : list event * (N * N) :=
  let '(rl, rc) := gen_info t in
  if (rl =? 1) && (rc =? 0) then ([], (rl, rc))
  else (announce_sources m (sm_sources m) 0 ++ announce_names (sm_names m) 0
        ++ sm_final_loop (decode_mappings (sm_mappings m)) rl rc 0, (rl, rc)).

(* --- columns = true, final_source = false --- *)
Record fstate := mkF { f_line : N; f_col : N; f_active : bool; f_orig : option orig }.

Definition line_at (ls : list text) (l : N) : option text :=
  if l =? 0 then None else nth_opt ls (l - 1).

(* whole unmapped lines cur .. target-1 (those that exist) *)
Fixpoint whole_lines (ls : list text) (i : N) (cur target : N) : list event :=
  match ls with
  | [] => []
  | l :: ls' =>
    if (cur <=? i) && (i <? target) then EChunk (Some l) (unmapped i 0) :: whole_lines ls' (i + 1) cur target
    else whole_lines ls' (i + 1) cur target
  end.

Definition sm_full_step_body (ls : list text) (fl fc : N) (st : fstate) (m : mapping) : fstate * list event :=
  let n := len ls in
  (* 1: close the active mapping *)
  let '(st1, ev1) :=
    if f_active st && (f_line st <=? n) then
      match line_at ls (f_line st) with
      | None => (st, [])
      | Some line =>
        let '(chunk, l', c') :=
          if negb (g_line m =? f_line st) then (substring line (f_col st) None, f_line st + 1, 0)
          else (substring line (f_col st) (Some (g_col m)), f_line st, g_col m) in
        (mkF l' c' false (f_orig st),
         if is_nil chunk then []
         else [EChunk (Some chunk) (mkMapping (f_line st) (f_col st) (f_orig st))])
      end
    else (st, []) in
  (* 2: rest of a partially emitted line *)
  let '(st2, ev2) :=
    if (f_line st1 <? g_line m) && (0 <? f_col st1) then
      (mkF (f_line st1 + 1) 0 (f_active st1) (f_orig st1),
       if f_line st1 <=? n then
         match line_at ls (f_line st1) with
         | Some line => let chunk := substring line (f_col st1) None in
                        if is_nil chunk then [] else [EChunk (Some chunk) (unmapped (f_line st1) (f_col st1))]
         | None => []
         end
       else [])
    else (st1, []) in
  (* 3: whole lines *)
  let '(st3, ev3) :=
    if f_line st2 <? g_line m then
      (mkF (g_line m) (f_col st2) (f_active st2) (f_orig st2), whole_lines ls 1 (f_line st2) (g_line m))
    else (st2, []) in
  (* 4: unmapped text before the segment *)
  let '(st4, ev4) :=
    if f_col st3 <? g_col m then
      (mkF (f_line st3) (g_col m) (f_active st3) (f_orig st3),
       if f_line st3 <=? n then
         match line_at ls (f_line st3) with
         | Some line => let chunk := substring line (f_col st3) (Some (g_col m)) in
                        if is_nil chunk then [] else [EChunk (Some chunk) (unmapped (f_line st3) (f_col st3))]
         | None => []
         end
       else [])
    else (st3, []) in
  (* 5: activate *)
  let st5 :=
    match m_orig m with
    | Some o =>
      if (g_line m <? fl) || ((g_line m =? fl) && (g_col m <? fc))
      then mkF (f_line st4) (f_col st4) true (Some o) else st4
    | None => st4
    end in
  (st5, ev1 ++ ev2 ++ ev3 ++ ev4).

(* a mapping that lies before the current position is ignored (it would re-emit text) *)
Definition sm_full_step (ls : list text) (fl fc : N) (st : fstate) (m : mapping) : fstate * list event :=
  if (g_line m <? f_line st) || ((g_line m =? f_line st) && (g_col m <? f_col st)) then (st, [])
  else sm_full_step_body ls fl fc st m.

Fixpoint sm_full_loop (ls : list text) (fl fc : N) (st : fstate) (ms : list mapping) : fstate * list event :=
  match ms with
  | [] => (st, [])
  | m :: ms' =>
    let '(st1, e1) := sm_full_step ls fl fc st m in
    let '(st2, e2) := sm_full_loop ls fl fc st1 ms' in
    (st2, e1 ++ e2)
  end.

Definition sm_stream_full (t : text) (m : smap) : list event * (N * N) :=
  let ls := split_lines t in
  if is_nil ls then ([], (1, 0))
  else
    let '(fl, fc) := lines_end_info ls in
    let '(st, evs) := sm_full_loop ls fl fc (mkF 1 0 false None) (decode_mappings (sm_mappings m)) in
    let '(_, evs') := sm_full_step ls fl fc st (unmapped fl fc) in
    (announce_sources m (sm_sources m) 0 ++ announce_names (sm_names m) 0 ++ evs ++ evs', (fl, fc)).

(* --- columns = false, final_source = true --- *)
Definition strip_name (o : orig) : orig := mkOrig (o_src o) (o_line o) (o_col o) None.

Fixpoint sm_lines_final_loop (ms : list mapping) (cur final_line : N) : list event :=
  match ms with
  | [] => []
  | m :: ms' =>
    match m_orig m with
    | Some o =>
      if (cur <=? g_line m) && (g_line m <=? final_line) then
        EChunk None (mkMapping (g_line m) 0 (Some (strip_name o))) :: sm_lines_final_loop ms' (g_line m + 1) final_line
      else sm_lines_final_loop ms' cur final_line
    | None => sm_lines_final_loop ms' cur final_line
    end
  end.

Definition sm_stream_lines_final (t : text) (m : smap) : list event * (N * N) :=
  let '(rl, rc) := gen_info t in
  if (rl =? 1) && (rc =? 0) then ([], (1, 0))
  else
    let final_line := if rc =? 0 then rl - 1 else rl in
    (announce_sources m (sm_sources m) 0 ++ sm_lines_final_loop (decode_mappings (sm_mappings m)) 1 final_line, (rl, rc)).

(* --- columns = false, final_source = false --- *)
Fixpoint sm_lines_full_loop (ls : list text) (ms : list mapping) (cur : N) : N * list event :=
  match ms with
  | [] => (cur, [])
  | m :: ms' =>
    match m_orig m with
    | None => sm_lines_full_loop ls ms' cur
    | Some o =>
      if (g_line m <? cur) || (len ls <? g_line m) then sm_lines_full_loop ls ms' cur
      else
        let before := whole_lines ls 1 cur (g_line m) in
        let here :=
          match line_at ls (g_line m) with
          | Some line => [EChunk (Some line) (mkMapping (g_line m) 0 (Some (strip_name o)))]
          | None => []
          end in
        let '(cur', evs) := sm_lines_full_loop ls ms' (g_line m + 1) in
        (cur', before ++ here ++ evs)
    end
  end.

Definition sm_stream_lines_full (t : text) (m : smap) : list event * (N * N) :=
  let ls := split_lines t in
  if is_nil ls then ([], (1, 0))
  else
    let '(cur, evs) := sm_lines_full_loop ls (decode_mappings (sm_mappings m)) 1 in
    (announce_sources m (sm_sources m) 0 ++ evs ++ whole_lines ls 1 cur (len ls + 1), lines_end_info ls).

Definition sm_stream (t : text) (m : smap) (o : opts) : list event * (N * N) :=
  match columns o, final_source o with
  | true, true => sm_stream_final t m
  | true, false => sm_stream_full t m
  | false, true => sm_stream_lines_final t m
  | false, false => sm_stream_lines_full t m
  end.
