(* The Source API on source trees: text views, stream_chunks, map().
   Definitions only.  (SourceMapSource with an inner map is in Combined.v and
   plugged in through `combined`.) *)
From RS Require Import Base.Prelude Base.Text Rope.RopeModel Codec.Vlq
  Stream.Types Stream.Leaves Stream.Concat Stream.Replace Stream.Combined.

(* ---------- text views ---------- *)
Fixpoint source (s : src) : text :=
  match s with
  | SRaw true v => utf8_lossy v
  | SRaw false v => v
  | SRawString v => v
  | SRawBuffer v => utf8_lossy v
  | SOriginal v _ => v
  | SMapped v _ _ _ _ _ => v
  | SConcat cs => concat (map source cs)
  | SReplace inner rs => replace_source_text (source inner) rs
  | SCached _ inner => source inner
  end.

Fixpoint buffer (s : src) : text :=
  match s with
  | SRaw _ v => v
  | SRawString v => v
  | SRawBuffer v => v
  | SOriginal v _ => v
  | SMapped v _ _ _ _ _ => v
  | SConcat cs => concat (map buffer cs)
  | SReplace inner rs => replace_source_text (source inner) rs
  | SCached _ inner => buffer inner
  end.

Fixpoint size (s : src) : N :=
  match s with
  | SRaw _ v => len v
  | SRawString v => len v
  | SRawBuffer v => len v
  | SOriginal v _ => len v
  | SMapped v _ _ _ _ _ => len v
  | SConcat cs => fold_right (fun c acc => size c + acc) 0 cs
  | SReplace inner rs => len (replace_source_text (source inner) rs)
  | SCached _ inner => size inner
  end.

(* rope(): None when a slice would be rejected (byte_slice panics) *)
Fixpoint rope_of (s : src) : option rope :=
  match s with
  | SConcat cs =>
    match cs with
    | [c] => rope_of c
    | _ =>
      fold_left (fun acc c =>
                   match acc, rope_of c with
                   | Some a, Some r => Some (rope_append a r)
                   | _, _ => None
                   end) cs (Some rope_new)
    end
  | SReplace inner rs =>
    match rope_of inner with
    | Some r => replace_rope r rs
    | None => None
    end
  | SCached _ inner => rope_of inner
  | _ => Some (Light (source s))
  end.

(* to_writer: the payloads of the write_all calls, in order *)
Fixpoint writer_calls (s : src) : list text :=
  match s with
  | SConcat cs => flat_map writer_calls cs
  | SCached _ inner => writer_calls inner
  | SReplace inner rs => [replace_source_text (source inner) rs]
  | _ => [buffer s]
  end.

(* ---------- get_map / stream_and_get_source_and_map tables ---------- *)
Record tables := mkT { t_sources : list text; t_contents : list text; t_names : list text }.

Definition tables_event (t : tables) (e : event) : tables :=
  match e with
  | ESource i name content =>
    mkT (lm_insert [] (t_sources t) i name)
        (match content with Some c => lm_insert [] (t_contents t) i c | None => t_contents t end)
        (t_names t)
  | EName i name => mkT (t_sources t) (t_contents t) (lm_insert [] (t_names t) i name)
  | EChunk _ _ => t
  end.

Definition map_of_events (cols : bool) (evs : list event) : option smap :=
  let mappings := encode_mappings cols (chunk_mappings evs) in
  if is_nil mappings then None
  else
    let t := fold_left tables_event evs (mkT [] [] []) in
    Some (mkSmap None mappings (t_sources t) (t_contents t) (t_names t) None None).

(* ---------- stream_chunks ---------- *)
Definition leaf_stream_result := (list event * (N * N))%type.

Fixpoint stream (st : store) (s : src) (o : opts) : list event * (N * N) * store :=
  match s with
  | SRaw _ _ | SRawString _ | SRawBuffer _ =>
    (raw_stream (source s) (final_source o), st)
  | SOriginal v name => (original_stream v name o, st)
  | SMapped v name m orig inner remove =>
    match inner with
    | None => (sm_stream v m o, st)
    | Some im => (combined_stream v m name orig im remove o, st)
    end
  | SConcat cs =>
    match cs with
    | [c] => stream st c o
    | _ =>
      let '(cst, evs, st') :=
        fold_left (fun (acc : cstate * list event * store) c =>
                     let '(cst, evs, st0) := acc in
                     let '(cevs, gi, st1) := stream st0 c o in
                     let '(cst', out) := concat_child (final_source o) cst cevs gi in
                     (cst', evs ++ out, st1))
                  cs (concat_init, [], st) in
      (evs, concat_result cst, st')
    end
  | SReplace inner rs =>
    let '(ievs, gi, st') := stream st inner (mkOpts (columns o) false) in
    (replace_stream (sort_repls rs) ievs gi, st')
  | SCached id inner =>
    match cache_get (store_get st id) o with
    | Some (Some m) => (sm_stream (source inner) m o, st)
    | Some None => (raw_stream (source inner) (final_source o), st)
    | None =>
      let '(evs, gi, st') := stream st inner o in
      (evs, gi, store_put st' id o (map_of_events (columns o) evs))
    end
  end.

(* ---------- map() ---------- *)
Definition get_map (st : store) (s : src) (cols : bool) : option smap * store :=
  let '(evs, _, st') := stream st s (mkOpts cols true) in
  (map_of_events cols evs, st').

Fixpoint map_of (st : store) (s : src) (cols : bool) : option smap * store :=
  match s with
  | SRaw _ _ | SRawString _ | SRawBuffer _ => (None, st)
  | SMapped _ _ m _ None _ => (Some m, st)
  | SReplace inner rs =>
    if is_nil rs then map_of st inner cols else get_map st s cols
  | SCached id inner =>
    let o := mkOpts cols false in
    match cache_get (store_get st id) o with
    | Some m => (m, st)
    | None =>
      let '(m, st') := map_of st inner cols in
      (* entry().or_insert(map): keep and return what is stored (after fix F8) *)
      let st'' := store_put st' id o m in
      (match cache_get (store_get st'' id) o with Some m' => m' | None => m end, st'')
    end
  | _ => get_map st s cols
  end.

(* ---------- ConcatSource::new / add : flattening of typed ConcatSource items ---------- *)
Inductive citem := ITyped (children : list src) | IBoxed (s : src).
Definition concat_new (items : list citem) : src :=
  SConcat (flat_map (fun it => match it with ITyped cs => cs | IBoxed s => [s] end) items).
