(* ReplaceSource: sorting, text splice, and stream_chunks as a fold over the
   inner source's event list.  Definitions only. *)
From RS Require Import Base.Prelude Base.Text Rope.RopeModel Stream.Types Stream.Leaves.

(* ---------- stable sort by (start, end, enforce) ---------- *)
Definition repl_le (a b : repl) : bool :=
  (r_start a <? r_start b) ||
  ((r_start a =? r_start b) &&
   ((r_end a <? r_end b) || ((r_end a =? r_end b) && (r_enforce a <=? r_enforce b)))).

(* insert after all elements that are <= x: keeps insertion order among equal keys *)
Fixpoint insert_sorted (x : repl) (l : list repl) : list repl :=
  match l with
  | [] => [x]
  | y :: l' => if repl_le y x then y :: insert_sorted x l' else x :: l
  end.
Definition sort_repls (l : list repl) : list repl :=
  fold_left (fun acc x => insert_sorted x acc) l [].

(* ---------- source(): string splice ---------- *)
Fixpoint splice (inner : text) (rs : list repl) (pos : N) : text :=
  match rs with
  | [] => drop pos inner
  | r :: rs' =>
    let before :=
      if pos <? r_start r then slice pos (N.min (r_start r) (len inner)) inner else [] in
    before ++ r_content r ++ splice inner rs' (N.min (N.max pos (r_end r)) (len inner))
  end.

Definition replace_source_text (inner : text) (rs : list repl) : text :=
  let sorted := sort_repls rs in
  if is_nil sorted then inner else splice inner sorted 0.

(* rope(): same walk building a Rope from slices and additions *)
Fixpoint splice_rope (inner : rope) (rs : list repl) (pos : N) (acc : rope) : option rope :=
  match rs with
  | [] =>
    match rope_slice inner pos (rope_len inner) with
    | SOk s => Some (rope_append acc s)
    | _ => None
    end
  | r :: rs' =>
    let acc1 :=
      if pos <? r_start r then
        match rope_slice inner pos (N.min (r_start r) (rope_len inner)) with
        | SOk s => Some (rope_append acc s)
        | _ => None
        end
      else Some acc in
    match acc1 with
    | None => None
    | Some a => splice_rope inner rs' (N.min (N.max pos (r_end r)) (rope_len inner)) (rope_add a (r_content r))
    end
  end.

Definition replace_rope (inner : rope) (rs : list repl) : option rope :=
  let sorted := sort_repls rs in
  if is_nil sorted then Some inner else splice_rope inner sorted 0 rope_new.

(* ---------- stream_chunks ---------- *)
Record rstate := mkR {
  rs_pos : N;
  rs_rest : list repl;             (* repls[i..] *)
  rs_rend : option N;              (* replacement_end *)
  rs_loff : Z;                     (* generated_line_offset *)
  rs_coff : Z;                     (* generated_column_offset *)
  rs_cline : Z;                    (* generated_column_offset_line *)
  rs_contents : list (option text);(* source_content_lines (LinearMap, default None) *)
  rs_names : list text;            (* name_mapping *)
  rs_name_idx : list N }.          (* name_index_mapping (LinearMap<u32>, default 0) *)

Definition replace_init (sorted : list repl) : rstate := mkR 0 sorted None 0 0 0 [] [] [].

Definition set_pos (st : rstate) (p : N) : rstate :=
  mkR p (rs_rest st) (rs_rend st) (rs_loff st) (rs_coff st) (rs_cline st) (rs_contents st) (rs_names st) (rs_name_idx st).
Definition set_offs (st : rstate) (loff coff cline : Z) : rstate :=
  mkR (rs_pos st) (rs_rest st) (rs_rend st) loff coff cline (rs_contents st) (rs_names st) (rs_name_idx st).

(* check_original_content: does content(source)[line][column ..] start with `expected`? *)
Definition check_content (st : rstate) (o : orig) (expected : text) : bool :=
  match lm_get (rs_contents st) (o_src o) with
  | Some (Some content) =>
    if o_line o =? 0 then false else
    match nth_opt (split_lines content) (o_line o - 1) with
    | Some line => is_prefix expected (substring line (o_col o) None)
    | None => false
    end
  | _ => false
  end.

Definition adv_col (st : rstate) (mo : option orig) (piece : text) : option orig :=
  match mo with
  | Some o => if check_content st o piece
              then Some (mkOrig (o_src o) (o_line o) (wrap32 (o_col o + len piece)) (o_name o))
              else Some o
  | None => None
  end.

(* reported column: (generated_column as i64 + offset-if-on-that-line) as u32 *)
Definition out_col (st : rstate) (line : Z) (gc : N) : N :=
  wrap32z (Z.of_N gc + (if (line =? rs_cline st)%Z then rs_coff st else 0))%Z.

Definition map_name (st : rstate) (o : orig) : orig :=
  mkOrig (o_src o) (o_line o) (o_col o)
         (match o_name o with Some n => lm_get (rs_name_idx st) n | None => None end).

(* offset bookkeeping when `k` bytes are dropped on output line `line` *)
Definition drop_cols (st : rstate) (line : Z) (k : N) : rstate :=
  if (rs_cline st =? line)%Z then set_offs st (rs_loff st) (rs_coff st - Z.of_N k)%Z (rs_cline st)
  else set_offs st (rs_loff st) (- Z.of_N k)%Z line.

(* skipping the whole (rest of the) chunk: `k` remaining bytes, chunk ends in '\n' or not;
   gc = mapping.generated_column at that point (after fix F1) *)
Definition skip_whole (st : rstate) (line : Z) (nl : bool) (gc k : N) : rstate :=
  if nl then
    if (rs_cline st =? line)%Z
    then set_offs st (rs_loff st - 1)%Z (rs_coff st + Z.of_N gc)%Z (rs_cline st)
    else set_offs st (rs_loff st - 1)%Z (Z.of_N gc) line
  else drop_cols st line k.

(* the replacement content lines *)
Fixpoint emit_content (st : rstate) (ls : list text) (line : Z) (gc : N) (mo : option orig)
         (name : option N) : rstate * Z * list event :=
  match ls with
  | [] => (st, line, [])
  | cl :: ls' =>
    let ev := EChunk (Some cl)
                (mkMapping (wrap32z line) (out_col st line gc)
                   (match mo with
                    | Some o => Some (mkOrig (o_src o) (o_line o) (o_col o) name)
                    | None => None end)) in
    let '(st1, line1) :=
      if is_nil ls' && negb (ends_with_nl cl) then
        (if (rs_cline st =? line)%Z
         then set_offs st (rs_loff st) (rs_coff st + Z.of_N (len cl))%Z (rs_cline st)
         else set_offs st (rs_loff st) (Z.of_N (len cl)) line, line)
      else
        (set_offs st (rs_loff st + 1)%Z (- Z.of_N gc)%Z (line + 1)%Z, (line + 1)%Z) in
    let '(st2, line2, evs) := emit_content st1 ls' line1 gc mo None in
    (st2, line2, ev :: evs)
  end.

(* in-chunk variables *)
Record cvars := mkV { v_cpos : N; v_gc : N; v_orig : option orig }.

(* the `while let Some(next_replacement_pos) ...` loop; structural on the remaining
   replacements.  Returns (state, vars, events, returned_early). *)
Fixpoint repl_loop (rest : list repl) (st : rstate) (v : cvars) (chunk : text) (gl : N)
         (end_pos : N) : rstate * cvars * list event * bool :=
  match rest with
  | [] => (st, v, [], false)
  | r :: rest' =>
    if negb (r_start r <? end_pos) then (st, v, [], false) else
    let line := (Z.of_N gl + rs_loff st)%Z in
    (* emit chunk until replacement *)
    let '(st1, v1, ev1) :=
      if rs_pos st <? r_start r then
        let offset := r_start r - rs_pos st in
        let piece := slice (v_cpos v) (v_cpos v + offset) chunk in
        let ev := EChunk (Some piece)
                    (mkMapping (wrap32z line) (out_col st line (v_gc v))
                       (match v_orig v with Some o => Some (map_name st o) | None => None end)) in
        (set_pos st (r_start r),
         mkV (v_cpos v + offset) (wrap32 (v_gc v + offset)) (adv_col st (v_orig v) piece), [ev])
      else (st, v, []) in
    (* replacement content *)
    let inherited :=
      match v_orig v1 with
      | Some o => match o_name o with Some n => lm_get (rs_name_idx st1) n | None => None end
      | None => None end in
    let '(st2, name_idx, ev_name) :=
      match r_name r, v_orig v1 with
      | Some nm, Some _ =>
        match find_text (rs_names st1) nm 0 with
        | Some g => (st1, Some g, [])
        | None =>
          let g := len (rs_names st1) in
          (mkR (rs_pos st1) (rs_rest st1) (rs_rend st1) (rs_loff st1) (rs_coff st1) (rs_cline st1)
               (rs_contents st1) (rs_names st1 ++ [nm]) (rs_name_idx st1), Some g, [EName g nm])
        end
      | _, _ => (st1, inherited, [])
      end in
    let '(st3, _, ev2) := emit_content st2 (split_lines (r_content r)) line (v_gc v1) (v_orig v1) name_idx in
    (* replacement_end, next replacement *)
    let rend := match rs_rend st3 with Some e => N.max e (r_end r) | None => r_end r end in
    let st4 := mkR (rs_pos st3) rest' (Some rend) (rs_loff st3) (rs_coff st3) (rs_cline st3)
                   (rs_contents st3) (rs_names st3) (rs_name_idx st3) in
    (* skip over what has been replaced *)
    let offset := (Z.of_N (len chunk) - Z.of_N end_pos + Z.of_N rend - Z.of_N (v_cpos v1))%Z in
    if (0 <? offset)%Z then
      if end_pos <=? rend then
        let line' := (Z.of_N gl + rs_loff st4)%Z in
        let st5 := skip_whole st4 line' (ends_with_nl chunk) (v_gc v1) (len chunk - v_cpos v1) in
        (set_pos st5 end_pos, v1, ev1 ++ ev_name ++ ev2, true)
      else
        let line' := (Z.of_N gl + rs_loff st4)%Z in
        let k := Z.to_N offset in
        let piece := slice (v_cpos v1) (v_cpos v1 + k) chunk in
        let o' := adv_col st4 (v_orig v1) piece in
        let st5 := drop_cols (set_pos st4 (rs_pos st4 + k)) line' k in
        let v2 := mkV (v_cpos v1 + k) (wrap32 (v_gc v1 + k)) o' in
        let '(st6, v3, ev3, early) := repl_loop rest' st5 v2 chunk gl end_pos in
        (st6, v3, ev1 ++ ev_name ++ ev2 ++ ev3, early)
    else
      let '(st6, v3, ev3, early) := repl_loop rest' st4 v1 chunk gl end_pos in
      (st6, v3, ev1 ++ ev_name ++ ev2 ++ ev3, early)
  end.

(* one inner chunk *)
Definition replace_chunk (st : rstate) (chunk : text) (m : mapping) : rstate * list event :=
  let end_pos := rs_pos st + len chunk in
  let gl := g_line m in
  (* skip over when it has been replaced *)
  let skip :=
    match rs_rend st with
    | Some re => if rs_pos st <? re then Some re else None
    | None => None
    end in
  let '(st1, v1, early) :=
    match skip with
    | Some re =>
      let line := (Z.of_N gl + rs_loff st)%Z in
      if end_pos <=? re then
        (set_pos (skip_whole st line (ends_with_nl chunk) (g_col m) (len chunk)) end_pos,
         mkV 0 (g_col m) (m_orig m), true)
      else
        let cpos := re - rs_pos st in
        let o' := adv_col st (m_orig m) (take cpos chunk) in
        (drop_cols (set_pos st (rs_pos st + cpos)) line cpos,
         mkV cpos (wrap32 (g_col m + cpos)) o', false)
    | None => (st, mkV 0 (g_col m) (m_orig m), false)
    end in
  if early then (st1, []) else
  let '(st2, v2, ev2, early2) := repl_loop (rs_rest st1) st1 v1 chunk gl end_pos in
  if early2 then (st2, ev2) else
  (* emit remaining chunk *)
  let ev3 :=
    if v_cpos v2 <? len chunk then
      let line := (Z.of_N gl + rs_loff st2)%Z in
      [EChunk (Some (drop (v_cpos v2) chunk))
         (mkMapping (wrap32z line) (out_col st2 line (v_gc v2))
            (match v_orig v2 with Some o => Some (map_name st2 o) | None => None end))]
    else [] in
  (set_pos st2 end_pos, ev2 ++ ev3).

Definition replace_event (st : rstate) (e : event) : rstate * list event :=
  match e with
  | EChunk (Some chunk) m => replace_chunk st chunk m
  | EChunk None m => (st, [])     (* unreachable: the inner source is streamed with final_source = false *)
  | ESource i name content =>
    (mkR (rs_pos st) (rs_rest st) (rs_rend st) (rs_loff st) (rs_coff st) (rs_cline st)
         (lm_insert None (rs_contents st) i content) (rs_names st) (rs_name_idx st),
     [ESource i name content])
  | EName i name =>
    match find_text (rs_names st) name 0 with
    | Some g =>
      (mkR (rs_pos st) (rs_rest st) (rs_rend st) (rs_loff st) (rs_coff st) (rs_cline st)
           (rs_contents st) (rs_names st) (lm_insert 0 (rs_name_idx st) i g), [])
    | None =>
      let g := len (rs_names st) in
      (mkR (rs_pos st) (rs_rest st) (rs_rend st) (rs_loff st) (rs_coff st) (rs_cline st)
           (rs_contents st) (rs_names st ++ [name]) (lm_insert 0 (rs_name_idx st) i g), [EName g name])
    end
  end.

Fixpoint replace_events (st : rstate) (evs : list event) : rstate * list event :=
  match evs with
  | [] => (st, [])
  | e :: evs' =>
    let '(st1, o1) := replace_event st e in
    let '(st2, o2) := replace_events st1 evs' in
    (st2, o1 ++ o2)
  end.

(* remaining replacements after the inner stream ended at (gl, gc) *)
Fixpoint emit_remainder (st : rstate) (ls : list text) (line : Z) (gc : N) : rstate * Z * list event :=
  match ls with
  | [] => (st, line, [])
  | cl :: ls' =>
    let ev := EChunk (Some cl) (mkMapping (wrap32z line) (out_col st line gc) None) in
    let '(st1, line1) :=
      if is_nil ls' && negb (ends_with_nl cl) then
        (if (rs_cline st =? line)%Z
         then set_offs st (rs_loff st) (rs_coff st + Z.of_N (len cl))%Z (rs_cline st)
         else set_offs st (rs_loff st) (Z.of_N (len cl)) line, line)
      else
        (set_offs st (rs_loff st + 1)%Z (- Z.of_N gc)%Z (line + 1)%Z, (line + 1)%Z) in
    let '(st2, line2, evs) := emit_remainder st1 ls' line1 gc in
    (st2, line2, ev :: evs)
  end.

Definition replace_stream (sorted : list repl) (inner_evs : list event) (gi : N * N)
  : list event * (N * N) :=
  let '(st, evs) := replace_events (replace_init sorted) inner_evs in
  let remainder := concat (map r_content (rs_rest st)) in
  let line := (Z.of_N (fst gi) + rs_loff st)%Z in
  let '(st', line', evs') := emit_remainder st (split_lines remainder) line (snd gi) in
  (evs ++ evs', (wrap32z line', out_col st' line' (snd gi))).
