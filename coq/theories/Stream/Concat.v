(* ConcatSource::stream_chunks as a fold over the children's event lists.
   Definitions only. *)
From RS Require Import Base.Prelude Base.Text Rope.RopeModel Stream.Types.

Record cstate := mkC {
  c_loff : N;                 (* current_line_offset *)
  c_coff : N;                 (* current_column_offset *)
  c_sources : list text;      (* source_mapping: string -> index = position *)
  c_names : list text;        (* name_mapping *)
  c_close : bool;             (* need_to_close_mapping *)
  c_src_idx : list N;         (* source_index_mapping (LinearMap<u32>, default 0), per child *)
  c_name_idx : list N;        (* name_index_mapping, per child *)
  c_last_line : N }.          (* last_mapping_line, per child *)

Definition concat_init : cstate := mkC 0 0 [] [] false [] [] 0.

(* the closing segment emitted when a child starts away from (1,0) *)
Definition closer (st : cstate) : event := EChunk None (unmapped (c_loff st + 1) (c_coff st)).

Definition concat_event (final : bool) (st : cstate) (e : event) : cstate * list event :=
  match e with
  | ESource i name content =>
    match find_text (c_sources st) name 0 with
    | Some g =>
      (mkC (c_loff st) (c_coff st) (c_sources st) (c_names st) (c_close st)
           (lm_insert 0 (c_src_idx st) i g) (c_name_idx st) (c_last_line st), [])
    | None =>
      let g := len (c_sources st) in
      (mkC (c_loff st) (c_coff st) (c_sources st ++ [name]) (c_names st) (c_close st)
           (lm_insert 0 (c_src_idx st) i g) (c_name_idx st) (c_last_line st),
       [ESource g name content])
    end
  | EName i name =>
    match find_text (c_names st) name 0 with
    | Some g =>
      (mkC (c_loff st) (c_coff st) (c_sources st) (c_names st) (c_close st)
           (c_src_idx st) (lm_insert 0 (c_name_idx st) i g) (c_last_line st), [])
    | None =>
      let g := len (c_names st) in
      (mkC (c_loff st) (c_coff st) (c_sources st) (c_names st ++ [name]) (c_close st)
           (c_src_idx st) (lm_insert 0 (c_name_idx st) i g) (c_last_line st),
       [EName g name])
    end
  | EChunk chunk m =>
    let line := g_line m + c_loff st in
    let column := if g_line m =? 1 then g_col m + c_coff st else g_col m in
    let ev_close :=
      if c_close st && negb ((g_line m =? 1) && (g_col m =? 0)) then [closer st] else [] in
    let rsi := match m_orig m with Some o => lm_get (c_src_idx st) (o_src o) | None => None end in
    let rni := match m_orig m with
               | Some o => match o_name o with Some n => lm_get (c_name_idx st) n | None => None end
               | None => None end in
    let last := match rsi with None => 0 | Some _ => g_line m end in
    let out :=
      match rsi, m_orig m with
      | Some si, Some o =>
        EChunk (if final then None else chunk)
               (mkMapping line column (Some (mkOrig si (o_line o) (o_col o) rni)))
      | _, _ =>
        (* final-source mode forwards the unmapped chunk too (after fix F2) *)
        EChunk (if final then None else chunk) (unmapped line column)
      end in
    (mkC (c_loff st) (c_coff st) (c_sources st) (c_names st) false
         (c_src_idx st) (c_name_idx st) last,
     ev_close ++ [out])
  end.

Fixpoint concat_events (final : bool) (st : cstate) (evs : list event) : cstate * list event :=
  match evs with
  | [] => (st, [])
  | e :: evs' =>
    let '(st1, o1) := concat_event final st e in
    let '(st2, o2) := concat_events final st1 evs' in
    (st2, o1 ++ o2)
  end.

(* before a child: per-child tables cleared *)
Definition concat_child_start (st : cstate) : cstate :=
  mkC (c_loff st) (c_coff st) (c_sources st) (c_names st) (c_close st) [] [] 0.

(* after a child returned (gl, gc) *)
Definition concat_child_end (final : bool) (st : cstate) (gl gc : N) : cstate * list event :=
  let must := c_close st && negb ((gl =? 1) && (gc =? 0)) in
  let ev := if must then [closer st] else [] in
  let close1 := if must then false else c_close st in
  let coff := if 1 <? gl then gc else c_coff st + gc in
  let close2 := close1 || (final && (c_last_line st =? gl)) in
  (mkC (c_loff st + (gl - 1)) coff (c_sources st) (c_names st) close2
       (c_src_idx st) (c_name_idx st) (c_last_line st), ev).

(* one child, given its event list and end info *)
Definition concat_child (final : bool) (st : cstate) (evs : list event) (gi : N * N) : cstate * list event :=
  let '(st1, o1) := concat_events final (concat_child_start st) evs in
  let '(st2, o2) := concat_child_end final st1 (fst gi) (snd gi) in
  (st2, o1 ++ o2).

Definition concat_result (st : cstate) : N * N := (c_loff st + 1, c_coff st).
