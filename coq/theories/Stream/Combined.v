(* stream_chunks_of_combined_source_map (helpers.rs) as a fold over the outer
   map's event list.  Definitions only.  LinearMap<i64> has default 0. *)
From RS Require Import Base.Prelude Base.Text Rope.RopeModel Stream.Types Stream.Leaves.

Definition row := (Z * Z * Z * Z * Z)%type.   (* gen col, source, line, col, name; -1 = none *)
Definition line_data := (list row * list text)%type.

Record bstate := mkB {
  b_sources : list text;                 (* source_mapping *)
  b_names : list text;                   (* name_mapping *)
  b_src_idx : list Z;                    (* source_index_mapping *)
  b_name_idx : list Z;                   (* name_index_mapping *)
  b_name_val : list text;                (* name_index_value_mapping *)
  b_inner_index : Z;                     (* inner_source_index *)
  b_inner_source : option text;          (* inner_source *)
  b_in_src_idx : list Z;                 (* inner_source_index_mapping *)
  b_in_src_val : list (text * option text);
  b_in_contents : list (option text);    (* inner_source_contents / inner_source_content_lines *)
  b_in_name_idx : list Z;
  b_in_name_val : list text;
  b_lines : list line_data }.            (* inner_source_map_line_data *)

Definition b_init (inner_source : option text) : bstate :=
  mkB [] [] [] [] [] (-2) inner_source [] [] [] [] [] [].

(* ---- updates (one field each) ---- *)
Definition upd_sources st v := mkB v (b_names st) (b_src_idx st) (b_name_idx st) (b_name_val st) (b_inner_index st) (b_inner_source st) (b_in_src_idx st) (b_in_src_val st) (b_in_contents st) (b_in_name_idx st) (b_in_name_val st) (b_lines st).
Definition upd_names st v := mkB (b_sources st) v (b_src_idx st) (b_name_idx st) (b_name_val st) (b_inner_index st) (b_inner_source st) (b_in_src_idx st) (b_in_src_val st) (b_in_contents st) (b_in_name_idx st) (b_in_name_val st) (b_lines st).
Definition upd_src_idx st v := mkB (b_sources st) (b_names st) v (b_name_idx st) (b_name_val st) (b_inner_index st) (b_inner_source st) (b_in_src_idx st) (b_in_src_val st) (b_in_contents st) (b_in_name_idx st) (b_in_name_val st) (b_lines st).
Definition upd_name_idx st v := mkB (b_sources st) (b_names st) (b_src_idx st) v (b_name_val st) (b_inner_index st) (b_inner_source st) (b_in_src_idx st) (b_in_src_val st) (b_in_contents st) (b_in_name_idx st) (b_in_name_val st) (b_lines st).
Definition upd_name_val st v := mkB (b_sources st) (b_names st) (b_src_idx st) (b_name_idx st) v (b_inner_index st) (b_inner_source st) (b_in_src_idx st) (b_in_src_val st) (b_in_contents st) (b_in_name_idx st) (b_in_name_val st) (b_lines st).
Definition upd_inner st idx isrc := mkB (b_sources st) (b_names st) (b_src_idx st) (b_name_idx st) (b_name_val st) idx isrc (b_in_src_idx st) (b_in_src_val st) (b_in_contents st) (b_in_name_idx st) (b_in_name_val st) (b_lines st).
Definition upd_in_src_idx st v := mkB (b_sources st) (b_names st) (b_src_idx st) (b_name_idx st) (b_name_val st) (b_inner_index st) (b_inner_source st) v (b_in_src_val st) (b_in_contents st) (b_in_name_idx st) (b_in_name_val st) (b_lines st).
Definition upd_in_name_idx st v := mkB (b_sources st) (b_names st) (b_src_idx st) (b_name_idx st) (b_name_val st) (b_inner_index st) (b_inner_source st) (b_in_src_idx st) (b_in_src_val st) (b_in_contents st) v (b_in_name_val st) (b_lines st).

(* ---- the inner map, streamed with final_source = false ---- *)
Definition zopt (o : option N) : Z := match o with Some n => Z.of_N n | None => (-1)%Z end.

Definition push_row (ls : list line_data) (gl : N) (r : row) (chunk : text) : list line_data :=
  (* ensure len > gl, then push onto entry gl - 1 *)
  let padded := ls ++ repeat ([], []) (N.to_nat (gl + 1) - length ls) in
  match nth_opt padded (gl - 1) with
  | Some (rows, chunks) => lm_insert ([], []) padded (gl - 1) (rows ++ [r], chunks ++ [chunk])
  | None => padded
  end.

Definition inner_event (st : bstate) (e : event) : bstate :=
  match e with
  | EChunk (Some chunk) m =>
    let r : row :=
      match m_orig m with
      | Some o => (Z.of_N (g_col m), Z.of_N (o_src o), Z.of_N (o_line o), Z.of_N (o_col o), zopt (o_name o))
      | None => (Z.of_N (g_col m), -1, -1, -1, -1)%Z
      end in
    mkB (b_sources st) (b_names st) (b_src_idx st) (b_name_idx st) (b_name_val st) (b_inner_index st)
        (b_inner_source st) (b_in_src_idx st) (b_in_src_val st) (b_in_contents st) (b_in_name_idx st)
        (b_in_name_val st) (push_row (b_lines st) (g_line m) r chunk)
  | EChunk None _ => st
  | ESource i source content =>
    mkB (b_sources st) (b_names st) (b_src_idx st) (b_name_idx st) (b_name_val st) (b_inner_index st)
        (b_inner_source st) (lm_insert 0%Z (b_in_src_idx st) i (-2)%Z)
        (lm_insert ([], None) (b_in_src_val st) i (source, content))
        (lm_insert None (b_in_contents st) i content) (b_in_name_idx st) (b_in_name_val st) (b_lines st)
  | EName i name =>
    mkB (b_sources st) (b_names st) (b_src_idx st) (b_name_idx st) (b_name_val st) (b_inner_index st)
        (b_inner_source st) (b_in_src_idx st) (b_in_src_val st) (b_in_contents st)
        (lm_insert 0%Z (b_in_name_idx st) i (-2)%Z) (lm_insert [] (b_in_name_val st) i name) (b_lines st)
  end.

(* ---- find_inner_mapping: the binary search loop, with fuel ---- *)
Definition row_col (r : row) : Z := let '(c, _, _, _, _) := r in c.
Fixpoint bs_loop (fuel : nat) (rows : list row) (column : Z) (l r : N) : N :=
  match fuel with
  | O => l
  | S f =>
    if l <? r then
      let m := (l + r) / 2 in
      match nth_opt rows m with
      | Some rw => if (row_col rw <=? column)%Z then bs_loop f rows column (m + 1) r else bs_loop f rows column l m
      | None => l
      end
    else l
  end.

Definition find_inner (st : bstate) (line column : Z) : option (row * text) :=
  if (line <? 1)%Z then None          (* after fix: line 0 has no data *)
  else
    match nth_opt (b_lines st) (Z.to_N line - 1) with
    | None => None
    | Some (rows, chunks) =>
      let l := bs_loop (S (length rows)) rows column 0 (len rows) in
      if l =? 0 then None
      else match nth_opt rows (l - 1), nth_opt chunks (l - 1) with
           | Some rw, Some ch => Some (rw, ch)
           | _, _ => None
           end
    end.

Definition content_lines (st : bstate) (isrc : Z) : option (list text) :=
  match lm_get (b_in_contents st) (Z.to_N isrc) with
  | Some (Some c) => Some (split_lines c)
  | _ => None
  end.

Definition line_of (ls : list text) (l : Z) : option text :=
  if (l <? 1)%Z then None else nth_opt ls (Z.to_N l - 1).

(* global index of a string in a table, announcing it when new *)
Definition intern (tbl : list text) (s : text) : list text * N * bool :=
  match find_text tbl s 0 with
  | Some g => (tbl, g, false)
  | None => (tbl ++ [s], len tbl, true)
  end.

Definition mk_chunk (chunk : option text) (m : mapping) (src : Z) (line col : Z) (name : Z) : event :=
  EChunk chunk
    (mkMapping (g_line m) (g_col m)
       (if (0 <=? src)%Z
        then Some (mkOrig (wrap32z src) (wrap32z line) (wrap32z col)
                          (if (0 <=? name)%Z then Some (wrap32z name) else None))
        else None)).

(* name announced by the outer map, translated lazily *)
Definition outer_name (st : bstate) (name_index : Z) : bstate * Z * list event :=
  let fin := match lm_get (b_name_idx st) (Z.to_N name_index) with Some v => v | None => (-2)%Z end in
  if (fin =? -2)%Z then
    match lm_get (b_name_val st) (Z.to_N name_index) with
    | Some name =>
      let '(tbl, g, fresh) := intern (b_names st) name in
      let st1 := upd_name_idx (upd_names st tbl) (lm_insert 0%Z (b_name_idx st) (Z.to_N name_index) (Z.of_N g)) in
      (st1, Z.of_N g, if fresh then [EName g name] else [])
    | None =>
      (upd_name_idx st (lm_insert 0%Z (b_name_idx st) (Z.to_N name_index) (-1)%Z), (-1)%Z, [])
    end
  else (st, fin, []).

Definition outer_chunk (inner_name : text) (remove : bool) (st : bstate) (chunk : option text) (m : mapping)
  : bstate * list event :=
  let source_index := match m_orig m with Some o => Z.of_N (o_src o) | None => (-1)%Z end in
  let original_line := match m_orig m with Some o => Z.of_N (o_line o) | None => (-1)%Z end in
  let original_column := match m_orig m with Some o => Z.of_N (o_col o) | None => (-1)%Z end in
  let name_index := match m_orig m with Some o => zopt (o_name o) | None => (-1)%Z end in
  (* pass-through of a chunk that does not resolve through the inner map *)
  let pass (st : bstate) : bstate * list event :=
    let fsi := if (source_index <? 0)%Z then (-1)%Z
               else match lm_get (b_src_idx st) (Z.to_N source_index) with Some v => v | None => (-1)%Z end in
    if (fsi <? 0)%Z then (st, [EChunk chunk (unmapped (g_line m) (g_col m))])
    else
      let fni0 := if (0 <=? name_index)%Z
                  then match lm_get (b_name_idx st) (Z.to_N name_index) with Some v => v | None => (-1)%Z end
                  else (-1)%Z in
      let '(st1, fni, evn) :=
        if (fni0 =? -2)%Z then outer_name st name_index else (st, fni0, []) in
      (st1, evn ++ [mk_chunk chunk m fsi original_line original_column fni]) in
  if (source_index =? b_inner_index st)%Z then
    let resolved :=
      match find_inner st original_line original_column with
      | Some ((igc, isrc, iline, icol, iname), inner_chunk) =>
        if (0 <=? isrc)%Z then Some (igc, isrc, iline, icol, iname, inner_chunk) else None
      | None => None
      end in
    match resolved with
    | Some (igc, isrc, iline, icol, iname, inner_chunk) =>
      (* identity mapping: the original column may be advanced *)
      let loc := (original_column - igc)%Z in
      let '(icol1, iname1) :=
        if (0 <? loc)%Z then
          match content_lines st isrc with
          | Some ls =>
            match line_of ls iline with
            | Some l =>
              let oc := substring l (Z.to_N icol) (Some (Z.to_N (icol + loc))) in
              if opt_eqb text_eqb (str_get inner_chunk 0 (len oc)) (Some oc)
              then ((icol + loc)%Z, (-1)%Z) else (icol, iname)
            | None => (icol, iname)
            end
          | None => (icol, iname)
          end
        else (icol, iname) in
      (* global source index *)
      let si0 := match lm_get (b_in_src_idx st) (Z.to_N isrc) with Some v => v | None => (-2)%Z end in
      let '(st1, si, evs) :=
        if (si0 =? -2)%Z then
          let '(source, content) :=
            match lm_get (b_in_src_val st) (Z.to_N isrc) with Some v => v | None => ([], None) end in
          let '(tbl, g, fresh) := intern (b_sources st) source in
          (upd_in_src_idx (upd_sources st tbl) (lm_insert 0%Z (b_in_src_idx st) (Z.to_N isrc) (Z.of_N g)),
           Z.of_N g, if fresh then [ESource g source content] else [])
        else (st, si0, []) in
      (* name *)
      let '(st2, fni, evn) :=
        if (0 <=? iname1)%Z then
          let f0 := match lm_get (b_in_name_idx st1) (Z.to_N iname1) with Some v => v | None => (-2)%Z end in
          if (f0 =? -2)%Z then
            match lm_get (b_in_name_val st1) (Z.to_N iname1) with
            | Some name =>
              let '(tbl, g, fresh) := intern (b_names st1) name in
              (upd_in_name_idx (upd_names st1 tbl) (lm_insert 0%Z (b_in_name_idx st1) (Z.to_N iname1) (Z.of_N g)),
               Z.of_N g, if fresh then [EName g name] else [])
            | None =>
              (upd_in_name_idx st1 (lm_insert 0%Z (b_in_name_idx st1) (Z.to_N iname1) (-1)%Z), (-1)%Z, [])
            end
          else (st1, f0, [])
        else if (0 <=? name_index)%Z then
          match content_lines st1 isrc, lm_get (b_name_val st1) (Z.to_N name_index) with
          | Some ls, Some name =>
            let original_name :=
              match line_of ls iline with
              | Some l => substring l (Z.to_N icol1) (Some (Z.to_N icol1 + len name))
              | None => []
              end in
            if text_eqb name original_name then outer_name st1 name_index else (st1, (-1)%Z, [])
          | _, _ => (st1, (-1)%Z, [])
          end
        else (st1, (-1)%Z, []) in
      (st2, evs ++ evn ++ [mk_chunk chunk m si iline icol1 fni])
    | None =>
      if remove then (st, [EChunk chunk (unmapped (g_line m) (g_col m))])
      else
        match lm_get (b_src_idx st) (Z.to_N source_index) with
        | Some (-2)%Z =>
          let '(tbl, g, fresh) := intern (b_sources st) inner_name in
          let st1 := upd_src_idx (upd_sources st tbl)
                       (lm_insert 0%Z (b_src_idx st) (Z.to_N source_index) (Z.of_N g)) in
          let '(st2, evs) := pass st1 in
          (st2, (if fresh then [ESource g inner_name (b_inner_source st)] else []) ++ evs)
        | _ => pass st
        end
    end
  else pass st.

Definition outer_event (sm_inner : text -> list event) (inner_name : text) (remove : bool)
           (st : bstate) (e : event) : bstate * list event :=
  match e with
  | EChunk chunk m => outer_chunk inner_name remove st chunk m
  | ESource i source content =>
    if text_eqb source inner_name then
      let content' := match b_inner_source st with Some s => Some s | None => content end in
      let isrc := match b_inner_source st with Some s => Some s | None => content end in
      let st1 := upd_src_idx (upd_inner st (Z.of_N i) isrc) (lm_insert 0%Z (b_src_idx st) i (-2)%Z) in
      match content' with
      | None => (st1, [])           (* after fix F10b *)
      | Some c => (fold_left inner_event (sm_inner c) st1, [])
      end
    else
      let '(tbl, g, fresh) := intern (b_sources st) source in
      (upd_src_idx (upd_sources st tbl) (lm_insert 0%Z (b_src_idx st) i (Z.of_N g)),
       if fresh then [ESource g source content] else [])
  | EName i name =>
    (upd_name_val (upd_name_idx st (lm_insert 0%Z (b_name_idx st) i (-2)%Z))
                  (lm_insert [] (b_name_val st) i name), [])
  end.

Fixpoint outer_events (sm_inner : text -> list event) (inner_name : text) (remove : bool)
         (st : bstate) (evs : list event) : bstate * list event :=
  match evs with
  | [] => (st, [])
  | e :: evs' =>
    let '(st1, o1) := outer_event sm_inner inner_name remove st e in
    let '(st2, o2) := outer_events sm_inner inner_name remove st1 evs' in
    (st2, o1 ++ o2)
  end.

Definition combined_stream (v : text) (m : smap) (name : text) (orig : option text) (im : smap)
           (remove : bool) (o : opts) : list event * (N * N) :=
  let '(oevs, gi) := sm_stream v m o in
  let sm_inner := fun c => fst (sm_stream c im (mkOpts (columns o) false)) in
  let '(_, evs) := outer_events sm_inner name remove (b_init orig) oevs in
  (evs, gi).
