(* Independent provenance semantics for property C04: where every output byte
   of a tree over {Raw*, Original, Concat, Replace, Cached} really comes from.
   Defined by structural recursion with no reference to chunks or tokens. *)
From RS Require Import Base.Prelude Base.Text Rope.RopeModel Stream.Types Stream.Leaves Stream.Replace.

Inductive ptag :=
| PRaw                                   (* text of a raw leaf *)
| POrig (file : text) (line col : N) (stmt : bool) (empty_line_break : bool)
                                         (* byte of an OriginalSource at (line, col); starts a statement? ;
                                            is it the line break of an empty line? *)
| PRepl.                                 (* replacement content: don't care *)

(* statement starts, from the documented regex: the start of a line's text, or the first
   character after a run of ';' '{' '}' and the blanks mixed into or following that run *)
Fixpoint stmt_starts (t : text) (at_line_start : bool) (in_run : bool) (run_has_brace : bool) : list bool :=
  match t with
  | [] => []
  | c :: t' =>
    if c =? NL then false :: stmt_starts t' true false false
    else
      let here := at_line_start || (negb (is_sep c) && in_run && run_has_brace) in
      if is_sep c then
        (* a separator char extends (or begins) a run; a run only counts once it holds a brace *)
        here :: stmt_starts t' false true (run_has_brace && in_run || is_brace c)
      else here :: stmt_starts t' false false false
  end.

Fixpoint orig_tags (file : text) (t : text) (marks : list bool) (line col : N) (line_start : bool) : list ptag :=
  match t, marks with
  | c :: t', m :: marks' =>
    if c =? NL then POrig file line col false line_start :: orig_tags file t' marks' (line + 1) 0 true
    else POrig file line col m false :: orig_tags file t' marks' line (col + 1) false
  | _, _ => []
  end.

Definition original_prov (v name : text) : list ptag :=
  orig_tags name v (stmt_starts v true false false) 1 0 true.

(* the splice of ReplaceSource::source() on an arbitrary list *)
Fixpoint splice_tags (inner : list ptag) (rs : list repl) (pos : N) : list ptag :=
  match rs with
  | [] => drop pos inner
  | r :: rs' =>
    let before := if pos <? r_start r then slice pos (N.min (r_start r) (len inner)) inner else [] in
    before ++ map (fun _ => PRepl) (r_content r)
    ++ splice_tags inner rs' (N.min (N.max pos (r_end r)) (len inner))
  end.

Definition source_leaf (s : src) : text :=
  match s with
  | SRaw true v | SRawBuffer v => utf8_lossy v
  | SRaw false v | SRawString v => v
  | SMapped v _ _ _ _ _ => v
  | _ => []
  end.

Fixpoint prov (s : src) : list ptag :=
  match s with
  | SOriginal v name => original_prov v name
  | SConcat cs => flat_map prov cs
  | SReplace inner rs =>
    let sorted := sort_repls rs in
    if is_nil sorted then prov inner else splice_tags (prov inner) sorted 0
  | SCached _ inner => prov inner
  | _ => map (fun _ => PRaw) (source_leaf s)
  end.
