(* ReplaceSource as an object with its lazily sorted index (is_sorted flag),
   histories of mutator / observer calls, and the reference replacement model
   of property C05.  Definitions only. *)
From RS Require Import Base.Prelude Base.Text Rope.RopeModel Stream.Types Stream.Replace.

(* ---------- object state ---------- *)
Record robj := mkRobj {
  ob_repls : list repl;        (* replacements, insertion order *)
  ob_index : list N;           (* sorted_index *)
  ob_sorted : bool }.          (* is_sorted *)

Definition robj_new : robj := mkRobj [] [] true.

(* replace / insert / *_with_enforce: push and reset the flag *)
Definition robj_push (o : robj) (r : repl) : robj := mkRobj (ob_repls o ++ [r]) (ob_index o) false.

(* stable sort of the indices 0..n-1 by the key of the replacement they denote *)
Definition key_le (rs : list repl) (i j : N) : bool :=
  match nth_opt rs i, nth_opt rs j with
  | Some a, Some b => repl_le a b
  | _, _ => true
  end.
Fixpoint insert_idx (rs : list repl) (x : N) (l : list N) : list N :=
  match l with
  | [] => [x]
  | y :: l' => if key_le rs y x then y :: insert_idx rs x l' else x :: l
  end.
Definition sort_index (rs : list repl) : list N :=
  fold_left (fun acc i => insert_idx rs i acc) (map N.of_nat (seq 0 (length rs))) [].

(* sort_replacement *)
Definition robj_sort (o : robj) : robj :=
  if ob_sorted o then o else mkRobj (ob_repls o) (sort_index (ob_repls o)) true.

(* sorted_replacement: sort, then read the index *)
Definition robj_sorted (o : robj) : robj * list repl :=
  let o' := robj_sort o in
  (o', flat_map (fun i => match nth_opt (ob_repls o') i with Some r => [r] | None => [] end) (ob_index o')).

(* text as every observer computes it from the sorted replacements *)
Definition text_of_sorted (inner : text) (sorted : list repl) : text :=
  if is_nil sorted then inner else splice inner sorted 0.

(* ---------- histories ---------- *)
Inductive rcall :=
| RMutate (r : repl)           (* replace / insert / replace_with_enforce / insert_with_enforce *)
| RObserve (k : N)             (* 0 source, 1 buffer, 2 size, 3 rope, 4 to_writer, 5 hash, 6 stream, 7 map *)
| RClone.                      (* continue on a clone (copies replacements, index and flag) *)

(* map() with no replacements delegates to the inner source and does not sort *)
Definition observer_sorts (o : robj) (k : N) : bool :=
  if k =? 7 then negb (is_nil (ob_repls o)) else true.

(* one call: new object state and, for an observer, the text it rendered (if it renders text) *)
Definition rstep (inner : text) (o : robj) (c : rcall) : robj * option text :=
  match c with
  | RMutate r => (robj_push o r, None)
  | RClone => (mkRobj (ob_repls o) (ob_index o) (ob_sorted o), None)
  | RObserve k =>
    if observer_sorts o k then
      let '(o', sorted) := robj_sorted o in (o', Some (text_of_sorted inner sorted))
    else (o, None)
  end.

Fixpoint rrun (inner : text) (o : robj) (h : list rcall) : robj * list (option text) :=
  match h with
  | [] => (o, [])
  | c :: h' =>
    let '(o1, out) := rstep inner o c in
    let '(o2, outs) := rrun inner o1 h' in
    (o2, out :: outs)
  end.

(* the replacements pushed by a history prefix *)
Fixpoint pushed (h : list rcall) : list repl :=
  match h with
  | [] => []
  | RMutate r :: h' => r :: pushed h'
  | _ :: h' => pushed h'
  end.

(* ---------- the reference model of the property text ---------- *)
(* order: (start, end, enforce, insertion order), declaratively *)
Definition key_lt (a b : repl) : bool :=
  (r_start a <? r_start b) ||
  ((r_start a =? r_start b) &&
   ((r_end a <? r_end b) || ((r_end a =? r_end b) && (r_enforce a <? r_enforce b)))).

(* rank of element i: how many elements must come before it *)
Definition comes_before (rs : list repl) (j i : nat) : bool :=
  match nth_error rs j, nth_error rs i with
  | Some a, Some b => key_lt a b || (negb (key_lt b a) && Nat.ltb j i)
  | _, _ => false
  end.
Definition rank (rs : list repl) (i : nat) : nat :=
  length (filter (fun j => comes_before rs j i) (seq 0 (length rs))).
(* the element of rank k *)
Definition select (rs : list repl) (k : nat) : list repl :=
  flat_map (fun i => if Nat.eqb (rank rs i) k then match nth_error rs i with Some r => [r] | None => [] end else [])
           (seq 0 (length rs)).
Definition ref_order (rs : list repl) : list repl := flat_map (select rs) (seq 0 (length rs)).

(* apply in order: copy the not-yet-consumed text up to the start, emit the content, consume up to the end *)
Fixpoint ref_apply (inner : text) (rs : list repl) (consumed : N) : text :=
  match rs with
  | [] => drop consumed inner
  | r :: rs' =>
    let s := N.min (r_start r) (len inner) in
    let e := N.min (r_end r) (len inner) in
    (if consumed <? s then slice consumed s inner else [])
      ++ r_content r ++ ref_apply inner rs' (N.max consumed e)
  end.

Definition ref_text (inner : text) (rs : list repl) : text := ref_apply inner (ref_order rs) 0.
