(* Interleaving semantics of the shared state of ReplaceSource (lazily sorted
   index behind an atomic flag) and CachedSource (map cache), at the granularity
   of the schedule points of hook H3.  One step = one shared-state access.
   Definitions only; the executable `run_schedule` is what the harness'
   deterministic scheduler is compared with. *)
From RS Require Import Base.Prelude Base.Text Rope.RopeModel Stream.Types Stream.Replace Sem.ReplaceObj.

(* ================= ReplaceSource ================= *)
(* shared: the index and the flag; the replacements are immutable while shared *)
Record rshared := mkRS { sh_index : list N; sh_flag : bool }.

Inductive rop := RopSorted | RopClone.     (* an observer that sorts (source/hash/size/...) ; clone() *)

(* program counter of a thread inside one operation *)
Inductive rpc :=
| RFlagLoad                      (* before is_sorted.load *)
| RIndexStore                    (* local sort done; before *sorted_index.lock() = .. *)
| RFlagStore                     (* before is_sorted.store(true) *)
| RIndexRead                     (* before sorted_index.lock() read *)
| RCloneFirst                    (* clone: before the first read *)
| RCloneSecond (f : bool)        (* clone: flag read; before the index read *)
| RPrivate (init obj : rshared) (pc : nat)   (* clone taken (state `init`): observer pass on the private clone; pc 0..3 *)
| RDone.

(* result of a finished operation: the index it rendered with; for clone also the clone's state *)
Record rresult := mkRR { rr_view : list N; rr_clone : option rshared }.

Record rthread := mkRT { rt_ops : list rop; rt_pc : rpc; rt_results : list rresult; rt_trace : list N }.
(* trace: site numbers 0 flag_load 1 index_store 2 flag_store 3 index_read 4 clone_first 5 clone_second *)

Definition start_pc (o : rop) : rpc := match o with RopSorted => RFlagLoad | RopClone => RCloneFirst end.

Definition next_op (t : rthread) (res : rresult) (site : N) : rthread :=
  match rt_ops t with
  | _ :: (o :: _) as rest => mkRT rest (start_pc o) (rt_results t ++ [res]) (rt_trace t ++ [site])
  | _ => mkRT [] RDone (rt_results t ++ [res]) (rt_trace t ++ [site])
  end.

Definition at_pc (t : rthread) (pc : rpc) (site : N) : rthread :=
  mkRT (rt_ops t) pc (rt_results t) (rt_trace t ++ [site]).

(* `fixed_f9` = true: clone reads the flag first (after fix F9); false: the pinned order *)
Definition rstep1 (fixed_f9 : bool) (sorted : list N) (sh : rshared) (t : rthread) : rshared * rthread :=
  match rt_pc t with
  | RFlagLoad => if sh_flag sh then (sh, at_pc t RIndexRead 0) else (sh, at_pc t RIndexStore 0)
  | RIndexStore => (mkRS sorted (sh_flag sh), at_pc t RFlagStore 1)
  | RFlagStore => (mkRS (sh_index sh) true, at_pc t RIndexRead 2)
  | RIndexRead => (sh, next_op t (mkRR (sh_index sh) None) 3)
  | RCloneFirst =>
    if fixed_f9 then (sh, at_pc t (RCloneSecond (sh_flag sh)) 4)
    else (sh, at_pc t (RPrivate (mkRS (sh_index sh) false) (mkRS (sh_index sh) false) 100) 4)   (* index read first; flag pending *)
  | RCloneSecond f => (sh, at_pc t (RPrivate (mkRS (sh_index sh) f) (mkRS (sh_index sh) f) 0) 5)
  | RPrivate init obj pc =>
    if Nat.eqb pc 100 then
      (* pinned order: now read the flag *)
      (sh, at_pc t (RPrivate (mkRS (sh_index obj) (sh_flag sh)) (mkRS (sh_index obj) (sh_flag sh)) 0) 5)
    else
    (* observer pass on the private clone *)
    match pc with
    | O => if sh_flag obj then (sh, at_pc t (RPrivate init obj 3) 0) else (sh, at_pc t (RPrivate init obj 1) 0)
    | 1%nat => (sh, at_pc t (RPrivate init (mkRS sorted (sh_flag obj)) 2) 1)
    | 2%nat => (sh, at_pc t (RPrivate init (mkRS (sh_index obj) true) 3) 2)
    | _ => (sh, next_op t (mkRR (sh_index obj) (Some init)) 3)
    end
  | RDone => (sh, t)
  end.

Fixpoint update_nth {A} (l : list A) (n : nat) (x : A) : list A :=
  match l, n with
  | [], _ => []
  | _ :: l', O => x :: l'
  | y :: l', S n' => y :: update_nth l' n' x
  end.

Fixpoint rrun_schedule (fixed_f9 : bool) (sorted : list N) (sh : rshared) (ts : list rthread) (sched : list N)
  : rshared * list rthread :=
  match sched with
  | [] => (sh, ts)
  | tid :: sched' =>
    match nth_error ts (N.to_nat tid) with
    | Some t =>
      let '(sh', t') := rstep1 fixed_f9 sorted sh t in
      rrun_schedule fixed_f9 sorted sh' (update_nth ts (N.to_nat tid) t') sched'
    | None => rrun_schedule fixed_f9 sorted sh ts sched'
    end
  end.

(* run every thread to completion after the schedule, thread by thread *)
Fixpoint rfinish_thread (fuel : nat) (fixed_f9 : bool) (sorted : list N) (sh : rshared) (t : rthread)
  : rshared * rthread :=
  match fuel with
  | O => (sh, t)
  | S f =>
    match rt_pc t with
    | RDone => (sh, t)
    | _ => let '(sh', t') := rstep1 fixed_f9 sorted sh t in rfinish_thread f fixed_f9 sorted sh' t'
    end
  end.

Fixpoint rfinish (fixed_f9 : bool) (sorted : list N) (sh : rshared) (ts : list rthread) (done : list rthread)
  : rshared * list rthread :=
  match ts with
  | [] => (sh, rev done)
  | t :: ts' =>
    let '(sh', t') := rfinish_thread (20 * S (length (rt_ops t))) fixed_f9 sorted sh t in
    rfinish fixed_f9 sorted sh' ts' (t' :: done)
  end.

Definition rthread_init (ops : list rop) : rthread :=
  mkRT ops (match ops with o :: _ => start_pc o | [] => RDone end) [] [].

Definition replace_run (fixed_f9 : bool) (rs : list repl) (init_index : list N) (init_flag : bool)
           (progs : list (list rop)) (sched : list N) : rshared * list rthread :=
  let sorted := sort_index rs in
  let '(sh, ts) := rrun_schedule fixed_f9 sorted (mkRS init_index init_flag) (map rthread_init progs) sched in
  rfinish fixed_f9 sorted sh ts [].

(* ================= CachedSource ================= *)
(* cache: key (0..3) -> stored value id; ids are allocated at insertion (storage identity) *)
Record cshared := mkCS { cs_cache : list (N * N); cs_next : N;
                          cs_by_stream : list N (* ids of entries stored by stream_chunks *) }.

Inductive cop := CopMap (key : N) | CopStream (key : N).
Inductive cpc := CMapGet | CMapInsert | CStreamEntry | CDone.

Record cthread := mkCT { ct_ops : list cop; ct_pc : cpc; ct_served : list N (* id of the entry each op was served from *);
                         ct_trace : list N; ct_fill : list bool (* did the op itself store the entry? *) }.
(* trace sites: 0 map_get 1 map_insert 2 stream_entry *)

Fixpoint cget (c : list (N * N)) (k : N) : option N :=
  match c with
  | [] => None
  | (k', id) :: c' => if k' =? k then Some id else cget c' k
  end.

Definition cstart (o : cop) : cpc := match o with CopMap _ => CMapGet | CopStream _ => CStreamEntry end.
Definition ckey (o : cop) : N := match o with CopMap k => k | CopStream k => k end.

Definition cnext_op (t : cthread) (id : N) (site : N) (fill : bool) : cthread :=
  match ct_ops t with
  | _ :: (o :: _) as rest => mkCT rest (cstart o) (ct_served t ++ [id]) (ct_trace t ++ [site]) (ct_fill t ++ [fill])
  | _ => mkCT [] CDone (ct_served t ++ [id]) (ct_trace t ++ [site]) (ct_fill t ++ [fill])
  end.

(* `fixed_f8` = true: map() keeps an existing entry (entry().or_insert); false: insert() replaces *)
Definition cstep1 (fixed_f8 : bool) (sh : cshared) (t : cthread) : cshared * cthread :=
  match ct_ops t with
  | [] => (sh, t)
  | o :: _ =>
    let k := ckey o in
    match ct_pc t with
    | CMapGet =>
      match cget (cs_cache sh) k with
      | Some id => (sh, cnext_op t id 0 false)
      | None => (sh, mkCT (ct_ops t) CMapInsert (ct_served t) (ct_trace t ++ [0]) (ct_fill t))
      end
    | CMapInsert =>
      match cget (cs_cache sh) k with
      | Some id =>
        if fixed_f8 then (sh, cnext_op t id 1 false)
        else (* replaced: a new storage identity *)
          (mkCS ((k, cs_next sh) :: cs_cache sh) (cs_next sh + 1) (cs_by_stream sh), cnext_op t (cs_next sh) 1 true)
      | None => (mkCS ((k, cs_next sh) :: cs_cache sh) (cs_next sh + 1) (cs_by_stream sh), cnext_op t (cs_next sh) 1 true)
      end
    | CStreamEntry =>
      match cget (cs_cache sh) k with
      | Some id => (sh, cnext_op t id 2 false)
      | None => (mkCS ((k, cs_next sh) :: cs_cache sh) (cs_next sh + 1) (cs_next sh :: cs_by_stream sh),
                 cnext_op t (cs_next sh) 2 true)
      end
    | CDone => (sh, t)
    end
  end.

(* history of the cache after every step, to state write-once *)
Fixpoint crun_schedule (fixed_f8 : bool) (sh : cshared) (ts : list cthread) (sched : list N)
         (hist : list (list (N * N))) : cshared * list cthread * list (list (N * N)) :=
  match sched with
  | [] => (sh, ts, rev hist)
  | tid :: sched' =>
    match nth_error ts (N.to_nat tid) with
    | Some t =>
      let '(sh', t') := cstep1 fixed_f8 sh t in
      crun_schedule fixed_f8 sh' (update_nth ts (N.to_nat tid) t') sched' (cs_cache sh' :: hist)
    | None => crun_schedule fixed_f8 sh ts sched' hist
    end
  end.

Fixpoint cfinish_thread (fuel : nat) (fixed_f8 : bool) (sh : cshared) (t : cthread) (hist : list (list (N * N)))
  : cshared * cthread * list (list (N * N)) :=
  match fuel with
  | O => (sh, t, hist)
  | S f =>
    match ct_pc t with
    | CDone => (sh, t, hist)
    | _ => let '(sh', t') := cstep1 fixed_f8 sh t in cfinish_thread f fixed_f8 sh' t' (cs_cache sh' :: hist)
    end
  end.

Fixpoint cfinish (fixed_f8 : bool) (sh : cshared) (ts : list cthread) (done : list cthread)
         (hist : list (list (N * N))) : cshared * list cthread * list (list (N * N)) :=
  match ts with
  | [] => (sh, rev done, rev hist)
  | t :: ts' =>
    let '(sh', t', hist') := cfinish_thread (4 * S (length (ct_ops t))) fixed_f8 sh t hist in
    cfinish fixed_f8 sh' ts' (t' :: done) hist'
  end.

Definition cthread_init (ops : list cop) : cthread :=
  mkCT ops (match ops with o :: _ => cstart o | [] => CDone end) [] [] [].

Definition cached_run (fixed_f8 : bool) (progs : list (list cop)) (sched : list N)
  : cshared * list cthread * list (list (N * N)) :=
  let '(sh, ts, hist) := crun_schedule fixed_f8 (mkCS [] 0 []) (map cthread_init progs) sched [] in
  cfinish fixed_f8 sh ts [] (rev hist).

(* the entry in force for key k in a cache snapshot *)
Definition entry_of (c : list (N * N)) (k : N) : option N := cget c k.

(* write-once along a history: once a key has an entry, every later snapshot has the same one *)
Fixpoint write_once_from (prev : list (N * N)) (hist : list (list (N * N))) : bool :=
  match hist with
  | [] => true
  | c :: hist' =>
    forallb (fun kv => match entry_of c (fst kv) with Some id => id =? snd kv | None => false end)
            (map (fun k => (k, match entry_of prev k with Some id => id | None => 0 end))
                 (filter (fun k => match entry_of prev k with Some _ => true | None => false end) [0; 1; 2; 3]))
    && write_once_from c hist'
  end.
