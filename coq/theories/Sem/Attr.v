(* Attribution semantics: what original location a source map / a chunk stream
   assigns to every output byte (ASCII texts: byte = char = UTF-16 column).
   Definitions only. *)
From RS Require Import Base.Prelude Base.Text Rope.RopeModel Codec.Vlq Codec.CodecSpec
  Stream.Types Stream.Leaves.

(* file (sourceRoot applied), original line, original column, name *)
Record loc := mkLoc { l_file : text; l_line : N; l_col : N; l_name : option text }.
Definition attr := option loc.

Definition loc_eqb (a b : loc) : bool :=
  text_eqb (l_file a) (l_file b) && (l_line a =? l_line b) && (l_col a =? l_col b)
  && opt_eqb text_eqb (l_name a) (l_name b).
Definition attr_eqb := opt_eqb loc_eqb.
(* (file, line) granularity for columns = false *)
Definition loc_eqb_fl (a b : loc) : bool := text_eqb (l_file a) (l_file b) && (l_line a =? l_line b).
Definition attr_eqb_fl := opt_eqb loc_eqb_fl.

(* a resolved segment: generated position and attribution *)
Definition rseg := (N * N * attr)%type.

Definition BAD : text := [0].     (* an index outside its table resolves to this marker *)

(* ---- segments of a SourceMap ---- *)
Definition resolve_map (m : smap) (o : orig) : loc :=
  mkLoc (match nth_opt (sm_sources m) (o_src o) with Some s => get_source m s | None => BAD end)
        (o_line o) (o_col o)
        (match o_name o with
         | Some n => Some (match nth_opt (sm_names m) n with Some x => x | None => BAD end)
         | None => None end).

Definition rsegs_of_map (m : smap) : list rseg :=
  map (fun mp => (g_line mp, g_col mp, match m_orig mp with Some o => Some (resolve_map m o) | None => None end))
      (decode_mappings (sm_mappings m)).

(* ---- segments of an event list: indices resolved by the announcements made so far ---- *)
Fixpoint rsegs_of_events (evs : list event) (srcs names : list text) : list (option text * rseg) :=
  match evs with
  | [] => []
  | ESource i n _ :: evs' => rsegs_of_events evs' (lm_insert BAD srcs i n) names
  | EName i n :: evs' => rsegs_of_events evs' srcs (lm_insert BAD names i n)
  | EChunk t mp :: evs' =>
    (t, (g_line mp, g_col mp,
         match m_orig mp with
         | Some o =>
           Some (mkLoc (match nth_opt srcs (o_src o) with Some s => s | None => BAD end)
                       (o_line o) (o_col o)
                       (match o_name o with
                        | Some n => Some (match nth_opt names n with Some x => x | None => BAD end)
                        | None => None end))
         | None => None
         end)) :: rsegs_of_events evs' srcs names
  end.

(* ---- attribution of every byte of a text by a segment list (looked up by position) ---- *)
Fixpoint seg_lookup (segs : list rseg) (l c : N) (best : attr) : attr :=
  match segs with
  | [] => best
  | (sl, sc, a) :: segs' =>
    if (sl =? l) && (sc <=? c) then seg_lookup segs' l c a else seg_lookup segs' l c best
  end.

Fixpoint seg_first_mapped (segs : list rseg) (l : N) : attr :=
  match segs with
  | [] => None
  | (sl, _, a) :: segs' =>
    if sl =? l then match a with Some x => Some (mkLoc (l_file x) (l_line x) 0 None) | None => seg_first_mapped segs' l end
    else seg_first_mapped segs' l
  end.

Fixpoint attr_by_pos (segs : list rseg) (cols : bool) (t : text) (l c : N) : list attr :=
  match t with
  | [] => []
  | b :: t' =>
    (if cols then seg_lookup segs l c None else seg_first_mapped segs l)
      :: (if b =? NL then attr_by_pos segs cols t' (l + 1) 0 else attr_by_pos segs cols t' l (c + 1))
  end.

Definition attr_of_map (m : option smap) (t : text) (cols : bool) : list attr :=
  match m with
  | Some m => attr_by_pos (rsegs_of_map m) cols t 1 0
  | None => map (fun _ => None) t
  end.

(* final-source events carry no text: they are a segment list for the given text *)
Definition attr_of_final_events (evs : list event) (t : text) (cols : bool) : list attr :=
  attr_by_pos (map snd (rsegs_of_events evs [] [])) cols t 1 0.

(* ---- attribution of every byte by the chunks that cover it (text-carrying stream) ---- *)
Fixpoint attr_cover (chs : list (option text * rseg)) : list attr :=
  match chs with
  | [] => []
  | (Some t, (_, _, a)) :: chs' => map (fun _ => a) t ++ attr_cover chs'
  | (None, _) :: chs' => attr_cover chs'
  end.

(* columns = false: every byte of an output line carries (file, line, 0, no name) of the first
   mapped non-empty chunk piece on that line *)
Fixpoint line_firsts_cover (chs : list (option text * rseg)) (cur : attr) (acc : list attr) (n : nat)
  : list attr :=
  (* n = number of bytes already seen on the current output line; acc = reversed result *)
  match chs with
  | [] => rev (repeat cur n ++ acc)
  | (None, _) :: chs' => line_firsts_cover chs' cur acc n
  | (Some t, (_, _, a)) :: chs' =>
    let cur' := match cur, a with
                | None, Some x => if is_nil t then None else Some (mkLoc (l_file x) (l_line x) 0 None)
                | _, _ => cur end in
    if ends_with_nl t then line_firsts_cover chs' None (repeat cur' (n + length t) ++ acc) 0
    else line_firsts_cover chs' cur' acc (n + length t)
  end.

Definition attr_of_stream (evs : list event) (cols : bool) : list attr :=
  let chs := rsegs_of_events evs [] [] in
  if cols then attr_cover chs else line_firsts_cover chs None [] 0.

(* referenced file -> content, from announcements (first announcement of a name wins) *)
Fixpoint contents_of_events (evs : list event) : list (text * option text) :=
  match evs with
  | [] => []
  | ESource _ n c :: evs' => (n, c) :: contents_of_events evs'
  | _ :: evs' => contents_of_events evs'
  end.

Definition mapped_chunk_exists (evs : list event) : bool :=
  existsb (fun m => match m_orig m with Some _ => true | None => false end) (chunk_mappings evs).

Fixpoint list_eqb_attr (eqb : attr -> attr -> bool) (a b : list attr) : bool :=
  match a, b with
  | [], [] => true
  | x :: a', y :: b' => eqb x y && list_eqb_attr eqb a' b'
  | _, _ => false
  end.

(* ---- positions of a text ---- *)
(* is (l, c) the position of some offset 0..len of t? *)
Definition line_contents (t : text) : list text :=
  (* lines without their line break, including a last empty line after a final '\n' *)
  map (fun l => if ends_with_nl l then removelast l else l) (split_lines t)
  ++ (if is_nil t || ends_with_nl t then [[]] else []).

Definition is_position (t : text) (l c : N) : bool :=
  if l =? 0 then false else
  match nth_opt (line_contents t) (l - 1) with
  | Some line => c <=? len line
  | None => false
  end.

Definition pos_ltb (a b : N * N) : bool :=
  (fst a <? fst b) || ((fst a =? fst b) && (snd a <? snd b)).
