(* A small JSON value type with a compact printer and an independent
   recursive-descent parser, and the SourceMap <-> JSON schema of source.rs
   (serde field names, skip rules, RawSourceMap defaults).  Definitions only. *)
From RS Require Import Base.Prelude Base.Text Rope.RopeModel.

Inductive json :=
| JNull
| JBool (b : bool)
| JNum (raw : text)              (* number, kept as its spelling *)
| JStr (s : text)                (* UTF-8 bytes *)
| JArr (l : list json)
| JObj (l : list (text * json)).

(* ---------- printer ---------- *)
Definition hex_digit (n : N) : N := if n <? 10 then 48 + n else 87 + n.

Definition escape_byte (b : N) : text :=
  if b =? 34 then [92; 34]
  else if b =? 92 then [92; 92]
  else if b <? 32 then [92; 117; 48; 48; hex_digit (b / 16); hex_digit (b mod 16)]
  else [b].

Definition print_string (s : text) : text := [34] ++ flat_map escape_byte s ++ [34].

Fixpoint sep_by (sep : text) (l : list text) : text :=
  match l with
  | [] => []
  | [x] => x
  | x :: l' => x ++ sep ++ sep_by sep l'
  end.

Fixpoint print (v : json) : text :=
  match v with
  | JNull => [110; 117; 108; 108]
  | JBool true => [116; 114; 117; 101]
  | JBool false => [102; 97; 108; 115; 101]
  | JNum raw => raw
  | JStr s => print_string s
  | JArr l => [91] ++ sep_by [44] (map print l) ++ [93]
  | JObj l =>
    [123] ++ sep_by [44] (map (fun kv => print_string (fst kv) ++ [58] ++ print (snd kv)) l) ++ [125]
  end.

(* ---------- parser ---------- *)
Definition is_ws (c : N) : bool := (c =? 32) || (c =? 9) || (c =? 10) || (c =? 13).
Fixpoint skip_ws (s : text) : text :=
  match s with
  | c :: s' => if is_ws c then skip_ws s' else s
  | [] => []
  end.

Definition hex_val (c : N) : option N :=
  if (48 <=? c) && (c <=? 57) then Some (c - 48)
  else if (97 <=? c) && (c <=? 102) then Some (c - 87)
  else if (65 <=? c) && (c <=? 70) then Some (c - 55)
  else None.

Definition hex4 (s : text) : option (N * text) :=
  match s with
  | a :: b :: c :: d :: rest =>
    match hex_val a, hex_val b, hex_val c, hex_val d with
    | Some x, Some y, Some z, Some w => Some (x * 4096 + y * 256 + z * 16 + w, rest)
    | _, _, _, _ => None
    end
  | _ => None
  end.

(* body of a string, after the opening quote; acc reversed *)
Fixpoint parse_str (fuel : nat) (s : text) (acc : text) : option (text * text) :=
  match fuel with
  | O => None
  | S f =>
    match s with
    | [] => None
    | c :: s' =>
      if c =? 34 then Some (rev acc, s')
      else if c =? 92 then
        match s' with
        | e :: s'' =>
          if e =? 34 then parse_str f s'' (34 :: acc)
          else if e =? 92 then parse_str f s'' (92 :: acc)
          else if e =? 47 then parse_str f s'' (47 :: acc)
          else if e =? 98 then parse_str f s'' (8 :: acc)
          else if e =? 102 then parse_str f s'' (12 :: acc)
          else if e =? 110 then parse_str f s'' (10 :: acc)
          else if e =? 114 then parse_str f s'' (13 :: acc)
          else if e =? 116 then parse_str f s'' (9 :: acc)
          else if e =? 117 then
            match hex4 s'' with
            | Some (u, r) =>
              if (55296 <=? u) && (u <? 56320) then
                (* high surrogate: must be followed by \uDC00..\uDFFF *)
                match r with
                | 92 :: 117 :: r' =>
                  match hex4 r' with
                  | Some (lo, r'') =>
                    if (56320 <=? lo) && (lo <? 57344) then
                      parse_str f r'' (rev (utf8_encode_char (65536 + (u - 55296) * 1024 + (lo - 56320))) ++ acc)
                    else None
                  | None => None
                  end
                | _ => None
                end
              else if (56320 <=? u) && (u <? 57344) then None
              else parse_str f r (rev (utf8_encode_char u) ++ acc)
            | None => None
            end
          else None
        | [] => None
        end
      else if c <? 32 then None
      else parse_str f s' (c :: acc)
    end
  end.

Definition is_num_char (c : N) : bool :=
  ((48 <=? c) && (c <=? 57)) || (c =? 45) || (c =? 43) || (c =? 46) || (c =? 101) || (c =? 69).
Fixpoint span_num (s : text) (acc : text) : text * text :=
  match s with
  | c :: s' => if is_num_char c then span_num s' (c :: acc) else (rev acc, s)
  | [] => (rev acc, [])
  end.

Definition lit (w : text) (s : text) : option text :=
  if is_prefix w s then Some (drop (len w) s) else None.

Fixpoint parse_value (fuel : nat) (s : text) : option (json * text) :=
  match fuel with
  | O => None
  | S f =>
    match skip_ws s with
    | [] => None
    | c :: s' =>
      if c =? 34 then
        match parse_str (S (length s')) s' [] with
        | Some (str, r) => Some (JStr str, r)
        | None => None
        end
      else if c =? 91 then
        match skip_ws s' with
        | 93 :: r => Some (JArr [], r)
        | _ =>
          (fix elems (n : nat) (s : text) (acc : list json) : option (json * text) :=
             match n with
             | O => None
             | S n' =>
               match parse_value f s with
               | Some (v, r) =>
                 match skip_ws r with
                 | 44 :: r' => elems n' r' (v :: acc)
                 | 93 :: r' => Some (JArr (rev (v :: acc)), r')
                 | _ => None
                 end
               | None => None
               end
             end) (S (length s')) s' []
        end
      else if c =? 123 then
        match skip_ws s' with
        | 125 :: r => Some (JObj [], r)
        | _ =>
          (fix members (n : nat) (s : text) (acc : list (text * json)) : option (json * text) :=
             match n with
             | O => None
             | S n' =>
               match skip_ws s with
               | 34 :: s1 =>
                 match parse_str (S (length s1)) s1 [] with
                 | Some (k, r) =>
                   match skip_ws r with
                   | 58 :: r1 =>
                     match parse_value f r1 with
                     | Some (v, r2) =>
                       match skip_ws r2 with
                       | 44 :: r3 => members n' r3 ((k, v) :: acc)
                       | 125 :: r3 => Some (JObj (rev ((k, v) :: acc)), r3)
                       | _ => None
                       end
                     | None => None
                     end
                   | _ => None
                   end
                 | None => None
                 end
               | _ => None
               end
             end) (S (length s')) s' []
        end
      else if c =? 110 then match lit [117; 108; 108] s' with Some r => Some (JNull, r) | None => None end
      else if c =? 116 then match lit [114; 117; 101] s' with Some r => Some (JBool true, r) | None => None end
      else if c =? 102 then match lit [97; 108; 115; 101] s' with Some r => Some (JBool false, r) | None => None end
      else if is_num_char c then
        let '(raw, r) := span_num (c :: s') [] in Some (JNum raw, r)
      else None
    end
  end.

Definition parse (s : text) : option json :=
  match parse_value (S (length s)) s with
  | Some (v, r) => if is_nil (skip_ws r) then Some v else None
  | None => None
  end.

(* ---------- the SourceMap schema ---------- *)
Definition k_version : text := [118;101;114;115;105;111;110].
Definition k_file : text := [102;105;108;101].
Definition k_sources : text := [115;111;117;114;99;101;115].
Definition k_sources_content : text := [115;111;117;114;99;101;115;67;111;110;116;101;110;116].
Definition k_names : text := [110;97;109;101;115].
Definition k_mappings : text := [109;97;112;112;105;110;103;115].
Definition k_source_root : text := [115;111;117;114;99;101;82;111;111;116].
Definition k_debug_id : text := [100;101;98;117;103;73;100].

Definition all_empty (l : list text) : bool := forallb is_nil l.
Definition opt_field (k : text) (o : option text) : list (text * json) :=
  match o with Some v => [(k, JStr v)] | None => [] end.

(* Serialize: struct order, skip_serializing_if rules *)
Definition to_doc (m : smap) : json :=
  JObj ([(k_version, JNum [51])]
        ++ opt_field k_file (sm_file m)
        ++ [(k_sources, JArr (map JStr (sm_sources m)))]
        ++ (if all_empty (sm_contents m) then [] else [(k_sources_content, JArr (map JStr (sm_contents m)))])
        ++ [(k_names, JArr (map JStr (sm_names m))); (k_mappings, JStr (sm_mappings m))]
        ++ opt_field k_source_root (sm_root m)
        ++ opt_field k_debug_id (sm_debug m)).

(* what a round trip preserves *)
Definition norm_map (m : smap) : smap :=
  mkSmap (sm_file m) (sm_mappings m) (sm_sources m)
         (if all_empty (sm_contents m) then [] else sm_contents m)
         (sm_names m) (sm_root m) (sm_debug m).

(* Deserialize (RawSourceMap + TryFrom): last occurrence of a key wins is NOT assumed:
   serde rejects duplicate fields; we take the first and documents here have none *)
Fixpoint field (k : text) (l : list (text * json)) : option json :=
  match l with
  | [] => None
  | (k', v) :: l' => if text_eqb k k' then Some v else field k l'
  end.

Definition opt_string (v : option json) : option (option text) :=
  match v with
  | None | Some JNull => Some None
  | Some (JStr s) => Some (Some s)
  | _ => None
  end.

Fixpoint strings_or_null (l : list json) : option (list text) :=
  match l with
  | [] => Some []
  | JStr s :: l' => match strings_or_null l' with Some r => Some (s :: r) | None => None end
  | JNull :: l' => match strings_or_null l' with Some r => Some ([] :: r) | None => None end
  | _ => None
  end.

Definition opt_strings (v : option json) : option (list text) :=
  match v with
  | None | Some JNull => Some []
  | Some (JArr l) => strings_or_null l
  | _ => None
  end.

Definition of_doc (v : json) : option smap :=
  match v with
  | JObj l =>
    match field k_mappings l with
    | Some (JStr mp) =>
      match opt_string (field k_file l), opt_strings (field k_sources l), opt_strings (field k_sources_content l),
            opt_strings (field k_names l), opt_string (field k_source_root l), opt_string (field k_debug_id l) with
      | Some file, Some srcs, Some cts, Some nms, Some root, Some dbg => Some (mkSmap file mp srcs cts nms root dbg)
      | _, _, _, _, _, _ => None
      end
    | _ => None
    end
  | _ => None
  end.
