(* Hash and PartialEq of every source type.  The hash is the typed sequence of
   writes each `Hash` impl feeds to the `Hasher`.  Definitions only. *)
From RS Require Import Base.Prelude Base.Text Rope.RopeModel Stream.Types Stream.Replace.

Inductive hev :=
| HB (t : text)            (* Hasher::write *)
| HU8 (n : N)
| HUs (n : N)              (* write_usize (length prefix) *)
| HIs (n : N)              (* write_isize (enum discriminant) *)
| HU32 (n : N)
| HU64 (inner : list hev). (* CachedSource: FxHasher digest of the inner stream *)

Definition str_of (l : list N) : text := l.
(* type tags *)
Definition tag_raw : text := str_of [82;97;119;83;111;117;114;99;101].                         (* "RawSource" *)
Definition tag_rawstring : text := str_of [82;97;119;83;116;114;105;110;103;83;111;117;114;99;101]. (* "RawStringSource" *)
Definition tag_rawbuffer : text := str_of [82;97;119;66;117;102;102;101;114;83;111;117;114;99;101]. (* "RawBufferSource" *)
Definition tag_original : text := str_of [79;114;105;103;105;110;97;108;83;111;117;114;99;101].     (* "OriginalSource" *)
Definition tag_sms : text := str_of [83;111;117;114;99;101;77;97;112;83;111;117;114;99;101].       (* "SourceMapSource" *)
Definition tag_concat : text := str_of [67;111;110;99;97;116;83;111;117;114;99;101].               (* "ConcatSource" *)
Definition tag_replace : text := str_of [82;101;112;108;97;99;101;83;111;117;114;99;101].          (* "ReplaceSource" *)

Definition hash_str (t : text) : list hev := [HB t; HU8 255].
Definition hash_bytes (t : text) : list hev := [HUs (len t); HB t].
Definition hash_opt_str (o : option text) : list hev :=
  match o with None => [HIs 0] | Some t => HIs 1 :: hash_str t end.
Definition hash_strs (l : list text) : list hev := HUs (len l) :: flat_map hash_str l.

Definition hash_smap (m : smap) : list hev :=
  hash_opt_str (sm_file m) ++ hash_str (sm_mappings m) ++ hash_strs (sm_sources m)
  ++ hash_strs (sm_contents m) ++ hash_strs (sm_names m) ++ hash_opt_str (sm_root m)
  ++ (match sm_debug m with Some d => hash_str d | None => [] end).   (* after fix F11 *)

Definition hash_repl (r : repl) : list hev :=
  [HU32 (r_start r); HU32 (r_end r)] ++ hash_str (r_content r) ++ hash_opt_str (r_name r)
  ++ [HIs (r_enforce r)].

Fixpoint hash_events (s : src) : list hev :=
  match s with
  | SRaw _ v => hash_str tag_raw ++ hash_bytes v
  | SRawString v => hash_str tag_rawstring ++ hash_bytes v
  | SRawBuffer v => hash_str tag_rawbuffer ++ hash_bytes v
  | SOriginal v n => hash_str tag_original ++ hash_bytes v ++ hash_str n
  | SMapped v _ m orig inner remove =>
    hash_str tag_sms ++ hash_bytes v ++ hash_smap m ++ hash_opt_str orig
    ++ (match inner with None => [HIs 0] | Some im => HIs 1 :: hash_smap im end)
    ++ [HU8 (if remove then 1 else 0)]
  | SConcat cs => hash_str tag_concat ++ flat_map hash_events cs
  | SReplace inner rs =>
    hash_str tag_replace ++ flat_map hash_repl (sort_repls rs) ++ hash_events inner
  | SCached _ inner => [HU64 (hash_events inner)]
  end.

(* ---------- equality (dyn: type tag first, then the type's PartialEq) ---------- *)
Definition repl_eqb (a b : repl) : bool :=
  (r_start a =? r_start b) && (r_end a =? r_end b) && text_eqb (r_content a) (r_content b)
  && opt_eqb text_eqb (r_name a) (r_name b) && (r_enforce a =? r_enforce b).

Fixpoint src_eqb (a b : src) : bool :=
  match a, b with
  | SRaw ba va, SRaw bb vb => Bool.eqb ba bb && text_eqb va vb
  | SRawString va, SRawString vb => text_eqb va vb
  | SRawBuffer va, SRawBuffer vb => text_eqb va vb
  | SOriginal va na, SOriginal vb nb => text_eqb va vb && text_eqb na nb
  | SMapped va na ma oa ia ra, SMapped vb nb mb ob ib rb =>
    text_eqb va vb && text_eqb na nb && smap_eqb ma mb && opt_eqb text_eqb oa ob
    && opt_eqb smap_eqb ia ib && Bool.eqb ra rb
  | SConcat ca, SConcat cb =>
    (fix go (x y : list src) : bool :=
       match x, y with
       | [], [] => true
       | p :: x', q :: y' => src_eqb p q && go x' y'
       | _, _ => false
       end) ca cb
  | SReplace ia ra, SReplace ib rb => src_eqb ia ib && list_eqb repl_eqb ra rb
  | SCached _ ia, SCached _ ib => src_eqb ia ib
  | _, _ => false
  end.

(* ---------- the class on which the hasher stream is injective (C20) ---------- *)
(* The stream of a ConcatSource is its type tag followed by the streams of its children, with no
   length prefix and no terminator (known finding K6).  `delim_cls top s`: with top = true, `s`
   may be (a ReplaceSource chain around) a ConcatSource; with top = false it may not.  Children of
   a ConcatSource are checked with top = false; the inner source of a CachedSource with top =
   true (it feeds a single u64 digest).  Proofs/HashInjective.v: on `delimited` trees the stream
   determines the tree up to what the hash deliberately ignores. *)
Fixpoint delim_cls (top : bool) (s : src) : bool :=
  match s with
  | SConcat cs => top && forallb (delim_cls false) cs
  | SReplace inner _ => delim_cls top inner
  | SCached _ inner => delim_cls true inner
  | _ => true
  end.
Definition no_concat (s : src) : bool := delim_cls false s.
Definition delimited (s : src) : bool := delim_cls true s.
