(* The mappings decoder with every arithmetic check of an overflow-checked
   (debug) Rust build made explicit: `None` = the Rust would panic.
   Used by property C17.  Definitions only. *)
From RS Require Import Base.Prelude Codec.Vlq.

Definition usize_max : N := 18446744073709551615.
Definition u32_max : N := 4294967295.
Definition i64_min : Z := (-9223372036854775808)%Z.
Definition i64_max : Z := 9223372036854775807%Z.
Definition fits_i64 (z : Z) : bool := (i64_min <=? z)%Z && (z <=? i64_max)%Z.

(* one byte, with the checks:  shift amount < 64 (guarded by the code after fix F6);
   current_value_pos += 5 and current_data_pos += 1 on usize; generated_line += 1 on u32;
   the i64 negation and addition feeding `as u32` *)
Definition dec_byte_chk (d : dec) (c : N) : option (dec * option mapping) :=
  let v := b64_val c in
  if v =? ERR then Some (d, None)
  else if negb (N.land v COM =? 0) then
    if (v =? SEM) && negb (d_gline d <? u32_max) then None       (* generated_line += 1 overflows *)
    else Some (dec_byte d c)
  else if N.land v 32 =? 0 then
    let bits := acc_or (d_val d) v (d_vpos d) in
    let fv := final_value bits in
    if negb (fits_i64 (- Z.shiftr (signed64 bits) 1)%Z) then None  (* -(current_value >> 1) *)
    else if (d_pos d <? 5) && negb (fits_i64 (Z.of_N (dec_get d (d_pos d)) + fv)%Z) then None
    else if negb (d_pos d <? usize_max) then None                  (* current_data_pos += 1 *)
    else Some (dec_byte d c)
  else
    if negb (d_vpos d + 5 <=? usize_max) then None                 (* current_value_pos += 5 *)
    else Some (dec_byte d c).

Fixpoint dec_run_chk (d : dec) (s : text) : option (list mapping) :=
  match s with
  | [] => Some (match emit d (d_pos d) with Some m => [m] | None => [] end)
  | c :: s' =>
    match dec_byte_chk d c with
    | None => None
    | Some (d', out) =>
      match dec_run_chk d' s' with
      | None => None
      | Some ms => Some (match out with Some m => m :: ms | None => ms end)
      end
    end
  end.

Definition decode_mappings_chk (s : text) : option (list mapping) := dec_run_chk dec_init s.
