(* Free-running observers on one shared tree (C18): several threads call observers (source, buffer,
   size, rope, map, chunk streaming, hash, clone) on the same object with no scheduler in between.
   At the granularity of whole observer calls an execution is an interleaving: a list of calls
   tagged with the calling thread, executed one after the other on the shared store.  What a
   thread sees is the sub-list of answers carrying its tag.  (Finer interleavings - inside the lazy
   sort of a ReplaceSource, inside CachedSource's fill paths - are the scheduled LTSs of Sem/Conc.v
   and Sem/ConcLock.v.)  Definitions only. *)
From RS Require Import Base.Prelude Stream.Types Stream.Tree Api.ApiHist.

Fixpoint run_tagged (st : store) (s : src) (l : list (nat * hop)) : list (nat * answer) * store :=
  match l with
  | [] => ([], st)
  | (t, o) :: l' =>
    let '(a, st1) := run_hop st s o in
    let '(r, st2) := run_tagged st1 s l' in
    ((t, a) :: r, st2)
  end.

Definition thread_view {A : Type} (tid : nat) (l : list (nat * A)) : list A :=
  map snd (filter (fun x => Nat.eqb (fst x) tid) l).

(* the interleaving in which thread 0 runs to completion, then thread 1, ... *)
Fixpoint thread_major (tid : nat) (progs : list (list hop)) : list (nat * hop) :=
  match progs with
  | [] => []
  | p :: ps => map (fun o => (tid, o)) p ++ thread_major (S tid) ps
  end.

(* `l` is an interleaving of the programs: every thread's calls appear in program order *)
Definition interleaving_of (progs : list (list hop)) (l : list (nat * hop)) : Prop :=
  forall tid, thread_view tid l = nth tid progs [].
