(* to_writer against a failing writer (property C07, fault sequences).
   A writer accepts `cap` bytes in total.  Two flavours:
     short = true : a write that does not fit accepts the bytes that still fit
                    (a short write); a write with no capacity left fails;
     short = false: a write that does not fit entirely fails at once.
   std::io::Write::write_all loops on `write` until the payload is written,
   fails on Err, and reports WriteZero when `write` returns Ok(0). *)
From RS Require Import Base.Prelude Base.Text Rope.RopeModel Stream.Types Stream.Tree.

Record wstate := mkW { w_cap : N; w_written : text }.

(* one write_all(payload): new state and whether it succeeded *)
Definition write_all (short : bool) (w : wstate) (payload : text) : wstate * bool :=
  if is_nil payload then (w, true)
  else if len payload <=? w_cap w then (mkW (w_cap w - len payload) (w_written w ++ payload), true)
  else if short then
    (* first write accepts w_cap bytes (if any), the next write fails *)
    (mkW 0 (w_written w ++ take (w_cap w) payload), false)
  else (w, false).

(* to_writer = the write_all calls in order, stopping at the first error (`?`) *)
Fixpoint run_writer (short : bool) (w : wstate) (calls : list text) : wstate * bool :=
  match calls with
  | [] => (w, true)
  | c :: calls' =>
    let '(w', ok) := write_all short w c in
    if ok then run_writer short w' calls' else (w', false)
  end.

Definition to_writer_failing (s : src) (cap : N) (short : bool) : text * bool :=
  let '(w, ok) := run_writer short (mkW cap []) (writer_calls s) in (w_written w, ok).
