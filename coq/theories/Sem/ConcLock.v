(* CachedSource's fill path with its critical section made visible (C18).
   `CachedSource::stream_chunks` holds the map shard locked from `entry()` until
   `entry.insert(map)`; in Sem/Conc.v that section is one atomic step.  Here the
   section is two steps (acquire at stream_entry, store-and-release at
   stream_insert) and a thread whose access meets the held lock is blocked until
   the release, exactly as the harness' scheduler treats real threads: at most
   one thread is blocked at a time; while one is blocked only the lock holder is
   granted steps; the blocked access runs right after the release.
   `locking = false` models a fill path that does not hold the lock and stores
   with insert() (a replaced entry): see `unlocked_fill_refuted`.
   One lock for all keys (the harness uses one key per case: one shard).
   Definitions only. *)
From RS Require Import Base.Prelude Sem.Conc.

Inductive lpc := LMapGet | LMapInsert | LStreamEntry | LStreamInsert | LDone.

Record lthread := mkLT { lt_ops : list cop; lt_pc : lpc; lt_served : list N; lt_trace : list N;
                         lt_fill : list bool }.
(* trace sites: 0 map_get 1 map_insert 2 stream_entry 3 stream_insert *)

Record lshared := mkLS { ls_c : cshared; ls_lock : option nat; ls_blocked : option nat }.

Definition lstart (o : cop) : lpc := match o with CopMap _ => LMapGet | CopStream _ => LStreamEntry end.

Definition lnext_op (t : lthread) (id : N) (site : N) (fill : bool) : lthread :=
  match lt_ops t with
  | _ :: (o :: _) as rest => mkLT rest (lstart o) (lt_served t ++ [id]) (lt_trace t ++ [site]) (lt_fill t ++ [fill])
  | _ => mkLT [] LDone (lt_served t ++ [id]) (lt_trace t ++ [site]) (lt_fill t ++ [fill])
  end.

Definition lat (t : lthread) (pc : lpc) (site : N) : lthread :=
  mkLT (lt_ops t) pc (lt_served t) (lt_trace t ++ [site]) (lt_fill t).

Definition store (c : cshared) (k : N) (by_stream : bool) : cshared :=
  mkCS ((k, cs_next c) :: cs_cache c) (cs_next c + 1)
       (if by_stream then cs_next c :: cs_by_stream c else cs_by_stream c).

(* one access of thread `tid`, which is not blocked by the lock; returns the new cache, whether
   the thread now holds / has released the lock, and the thread *)
Definition lraw (locking : bool) (c : cshared) (tid : nat) (t : lthread)
  : cshared * option bool (* Some true: acquired, Some false: released *) * lthread :=
  match lt_ops t with
  | [] => (c, None, t)
  | o :: _ =>
    let k := ckey o in
    match lt_pc t with
    | LMapGet =>
      match cget (cs_cache c) k with
      | Some id => (c, None, lnext_op t id 0 false)
      | None => (c, None, lat t LMapInsert 0)
      end
    | LMapInsert =>                      (* entry().or_insert *)
      match cget (cs_cache c) k with
      | Some id => (c, None, lnext_op t id 1 false)
      | None => (store c k false, None, lnext_op t (cs_next c) 1 true)
      end
    | LStreamEntry =>
      match cget (cs_cache c) k with
      | Some id => (c, None, lnext_op t id 2 false)
      | None => (c, (if locking then Some true else None), lat t LStreamInsert 2)
      end
    | LStreamInsert =>                   (* stores whatever is there: under the lock nothing can be *)
      (store c k true, (if locking then Some false else None), lnext_op t (cs_next c) 3 true)
    | LDone => (c, None, t)
    end
  end.

Definition lapply (locking : bool) (sh : lshared) (ts : list lthread) (tid : nat) (t : lthread)
  : lshared * list lthread :=
  let '(c, l, t') := lraw locking (ls_c sh) tid t in
  let lock := match l with Some true => Some tid | Some false => None | None => ls_lock sh end in
  (mkLS c lock (ls_blocked sh), update_nth ts tid t').

(* the scheduler grants thread `tid` one step *)
Definition lgrant (locking : bool) (sh : lshared) (ts : list lthread) (tid : nat) : lshared * list lthread :=
  match nth_error ts tid with
  | None => (sh, ts)
  | Some t =>
    match lt_pc t with
    | LDone => (sh, ts)
    | _ =>
      match ls_lock sh with
      | Some h =>
        if Nat.eqb h tid then
          (* the holder stores and releases; a blocked access then runs *)
          let '(sh1, ts1) := lapply locking sh ts tid t in
          match ls_blocked sh1, ls_lock sh1 with
          | Some b, None =>
            match nth_error ts1 b with
            | Some tb => lapply locking (mkLS (ls_c sh1) None None) ts1 b tb
            | None => (mkLS (ls_c sh1) None None, ts1)
            end
          | _, _ => (sh1, ts1)
          end
        else
          match ls_blocked sh with
          | Some _ => (sh, ts)                                     (* only the holder runs *)
          | None => (mkLS (ls_c sh) (ls_lock sh) (Some tid), ts)   (* blocked on the lock *)
          end
      | None => lapply locking sh ts tid t
      end
    end
  end.

Fixpoint lrun_schedule (locking : bool) (sh : lshared) (ts : list lthread) (sched : list N)
         (hist : list (list (N * N))) : lshared * list lthread * list (list (N * N)) :=
  match sched with
  | [] => (sh, ts, hist)
  | tid :: sched' =>
    let '(sh', ts') := lgrant locking sh ts (N.to_nat tid) in
    lrun_schedule locking sh' ts' sched' (cs_cache (ls_c sh') :: hist)
  end.

Definition ldone (ts : list lthread) (tid : nat) : bool :=
  match nth_error ts tid with
  | Some t => match lt_pc t with LDone => true | _ => false end
  | None => true
  end.

(* finish thread `tid`: grant it, or the lock holder while some thread is blocked *)
Fixpoint lfinish_thread (fuel : nat) (locking : bool) (sh : lshared) (ts : list lthread) (tid : nat)
         (hist : list (list (N * N))) : lshared * list lthread * list (list (N * N)) :=
  match fuel with
  | O => (sh, ts, hist)
  | S f =>
    if ldone ts tid then (sh, ts, hist) else
    let who := match ls_blocked sh, ls_lock sh with Some _, Some h => h | _, _ => tid end in
    let '(sh', ts') := lgrant locking sh ts who in
    lfinish_thread f locking sh' ts' tid (cs_cache (ls_c sh') :: hist)
  end.

Fixpoint lfinish (locking : bool) (sh : lshared) (ts : list lthread) (tids : list nat)
         (hist : list (list (N * N))) (fuel : nat) : lshared * list lthread * list (list (N * N)) :=
  match tids with
  | [] => (sh, ts, hist)
  | tid :: tids' =>
    let '(sh', ts', hist') := lfinish_thread fuel locking sh ts tid hist in
    lfinish locking sh' ts' tids' hist' fuel
  end.

Definition lthread_init (ops : list cop) : lthread :=
  mkLT ops (match ops with o :: _ => lstart o | [] => LDone end) [] [] [].

Definition total_ops (progs : list (list cop)) : nat := fold_right (fun p n => length p + n)%nat 0%nat progs.

Definition locked_run (locking : bool) (progs : list (list cop)) (sched : list N)
  : lshared * list lthread * list (list (N * N)) :=
  let ts := map lthread_init progs in
  let '(sh, ts1, hist) := lrun_schedule locking (mkLS (mkCS [] 0 []) None None) ts sched [] in
  let '(sh2, ts2, hist2) := lfinish locking sh ts1 (seq 0 (length progs)) hist (4 * S (total_ops progs)) in
  (sh2, ts2, rev hist2).
