(* Extraction of the executable model and of the property checkers.
   Only ExtrOcamlBasic is used; N, Z, positive and nat stay inductive. *)
From Coq Require Import Extraction ExtrOcamlBasic.
From RS Require Import Base.Prelude Codec.Vlq Codec.CodecSpec Checkers.ChkCodec Api.ApiCodec
  Base.Text Rope.RopeModel Rope.RopeProg Checkers.ChkRope Api.ApiRope
  Stream.Types Stream.Leaves Stream.Concat Stream.Replace Stream.Combined Stream.Tree Api.ApiTree Checkers.ChkTree Sem.ReplaceObj Checkers.ChkReplace Sem.HashEq Api.ApiHist Checkers.ChkHist Api.ApiCheck Sem.Conc Api.ApiSched.

Extraction Language OCaml.
Separate Extraction
  api_codec_enc api_codec_dec api_codec_vlq chk_C12_enc chk_C12_dec
  api_rope api_rope_check api_rope_valid
  api_tree concat_new api_check_tree api_rhist api_check_rhist api_thist api_chist api_pair api_check_hist api_check_pair api_panic_class api_writer api_check_writer api_comp api_check_comp api_json_value api_json_doc api_check_json_value api_check_json_doc
  api_sched_replace chk_C18_replace api_sched_cached api_sched_locked chk_C18_cached key_hop
  N.of_nat N.to_nat Z.of_N Z.to_N N.add N.mul N.eqb.
