(* Hash / PartialEq of source trees, basic facts (E1-E3):
   - the boolean equalities of the prelude reflect Leibniz equality;
   - `src_eqb` (the Rust `==`) is exactly "equal after erasing the ids of
     CachedSource nodes": hence reflexive, symmetric, transitive;
   - `==` implies equal hasher streams and equal text views. *)
From Coq Require Import List NArith Bool Lia.
From RS Require Import Base.Prelude Base.Text Rope.RopeModel Stream.Types Stream.Replace
  Stream.Tree Sem.HashEq.
Import ListNotations.
Open Scope N_scope.

(* ------------------------------------------------------------------ *)
(* Nested induction principle for source trees *)

Section SrcInd.
  Variable P : src -> Prop.
  Hypothesis HRaw : forall b v, P (SRaw b v).
  Hypothesis HRawString : forall v, P (SRawString v).
  Hypothesis HRawBuffer : forall v, P (SRawBuffer v).
  Hypothesis HOriginal : forall v n, P (SOriginal v n).
  Hypothesis HMapped : forall v n m o i r, P (SMapped v n m o i r).
  Hypothesis HConcat : forall cs, Forall P cs -> P (SConcat cs).
  Hypothesis HReplace : forall inner rs, P inner -> P (SReplace inner rs).
  Hypothesis HCached : forall id inner, P inner -> P (SCached id inner).

  Fixpoint src_nested_ind (s : src) : P s :=
    match s as s0 return P s0 with
    | SRaw b v => HRaw b v
    | SRawString v => HRawString v
    | SRawBuffer v => HRawBuffer v
    | SOriginal v n => HOriginal v n
    | SMapped v n m o i r => HMapped v n m o i r
    | SConcat cs =>
      HConcat cs
        ((fix go (l : list src) : Forall P l :=
            match l as l0 return Forall P l0 with
            | [] => Forall_nil P
            | x :: l' => Forall_cons x (src_nested_ind x) (go l')
            end) cs)
    | SReplace inner rs => HReplace inner rs (src_nested_ind inner)
    | SCached id inner => HCached id inner (src_nested_ind inner)
    end.
End SrcInd.

(* ------------------------------------------------------------------ *)
(* E1: boolean equalities reflect Leibniz equality *)

Lemma text_eqb_eq (a b : text) : text_eqb a b = true <-> a = b.
Proof.
  revert b. induction a as [|x a IH]; intros [|y b]; cbn [text_eqb].
  - split; reflexivity.
  - split; discriminate.
  - split; discriminate.
  - rewrite andb_true_iff, N.eqb_eq, IH. split.
    + intros [Hx Ha]. subst. reflexivity.
    + intros H. injection H as Hx Ha. split; assumption.
Qed.

Lemma text_eqb_refl (a : text) : text_eqb a a = true.
Proof. apply text_eqb_eq. reflexivity. Qed.

Lemma list_eqb_eq {A} (eqb : A -> A -> bool) :
  (forall x y, eqb x y = true <-> x = y) ->
  forall a b, list_eqb eqb a b = true <-> a = b.
Proof.
  intros Heqb a. induction a as [|x a IH]; intros [|y b]; cbn [list_eqb].
  - split; reflexivity.
  - split; discriminate.
  - split; discriminate.
  - rewrite andb_true_iff, Heqb, IH. split.
    + intros [Hx Ha]. subst. reflexivity.
    + intros H. injection H as Hx Ha. split; assumption.
Qed.

Lemma opt_eqb_eq {A} (eqb : A -> A -> bool) :
  (forall x y, eqb x y = true <-> x = y) ->
  forall a b, opt_eqb eqb a b = true <-> a = b.
Proof.
  intros Heqb [x|] [y|]; cbn [opt_eqb].
  - rewrite Heqb. split; intros H; [subst; reflexivity|injection H as H; exact H].
  - split; discriminate.
  - split; discriminate.
  - split; reflexivity.
Qed.

Lemma bool_eqb_eq (a b : bool) : Bool.eqb a b = true <-> a = b.
Proof. split; [apply eqb_prop|intros H; subst; apply eqb_reflx]. Qed.

Lemma smap_eqb_eq (a b : smap) : smap_eqb a b = true <-> a = b.
Proof.
  destruct a as [f1 m1 s1 c1 n1 r1 d1], b as [f2 m2 s2 c2 n2 r2 d2].
  unfold smap_eqb. cbn [sm_file sm_mappings sm_sources sm_contents sm_names sm_root sm_debug].
  rewrite !andb_true_iff.
  rewrite !(opt_eqb_eq text_eqb text_eqb_eq), !(list_eqb_eq text_eqb text_eqb_eq), text_eqb_eq.
  split.
  - intros [[[[[[H1 H2] H3] H4] H5] H6] H7]. subst. reflexivity.
  - intros H. injection H as H1 H2 H3 H4 H5 H6 H7. repeat split; assumption.
Qed.

Lemma repl_eqb_eq (a b : repl) : repl_eqb a b = true <-> a = b.
Proof.
  destruct a as [s1 e1 c1 n1 f1], b as [s2 e2 c2 n2 f2].
  unfold repl_eqb. cbn [r_start r_end r_content r_name r_enforce].
  rewrite !andb_true_iff, !N.eqb_eq, text_eqb_eq, (opt_eqb_eq text_eqb text_eqb_eq).
  split.
  - intros [[[[H1 H2] H3] H4] H5]. subst. reflexivity.
  - intros H. injection H as H1 H2 H3 H4 H5. repeat split; assumption.
Qed.

Lemma repls_eqb_eq (a b : list repl) : list_eqb repl_eqb a b = true <-> a = b.
Proof. apply list_eqb_eq, repl_eqb_eq. Qed.

(* ------------------------------------------------------------------ *)
(* `==` on trees: Leibniz equality up to the ids of CachedSource nodes *)

Fixpoint erase_ids (s : src) : src :=
  match s with
  | SConcat cs => SConcat (map erase_ids cs)
  | SReplace inner rs => SReplace (erase_ids inner) rs
  | SCached _ inner => SCached 0 (erase_ids inner)
  | _ => s
  end.

Definition concat_eqb : list src -> list src -> bool :=
  fix go (x y : list src) : bool :=
    match x, y with
    | [], [] => true
    | p :: x', q :: y' => src_eqb p q && go x' y'
    | _, _ => false
    end.

Lemma src_eqb_concat (ca cb : list src) : src_eqb (SConcat ca) (SConcat cb) = concat_eqb ca cb.
Proof. reflexivity. Qed.

Lemma concat_eqb_cons (p q : src) (x y : list src) :
  concat_eqb (p :: x) (q :: y) = src_eqb p q && concat_eqb x y.
Proof. reflexivity. Qed.

Lemma concat_eqb_spec (ca : list src) :
  Forall (fun a => forall b, src_eqb a b = true <-> erase_ids a = erase_ids b) ca ->
  forall cb, concat_eqb ca cb = true <-> map erase_ids ca = map erase_ids cb.
Proof.
  intros HF. induction HF as [|p ca Hp HF IH]; intros [|q cb].
  - split; reflexivity.
  - split; discriminate.
  - split; discriminate.
  - rewrite concat_eqb_cons, andb_true_iff, Hp, IH. cbn [map]. split.
    + intros [H1 H2]. rewrite H1, H2. reflexivity.
    + intros H. injection H as H1 H2. split; assumption.
Qed.

Theorem src_eqb_spec (a b : src) : src_eqb a b = true <-> erase_ids a = erase_ids b.
Proof.
  revert b. induction a as [ba va|va|va|va na|va na ma oa ia ra|ca IH|ia ra IH|ida ia IH]
    using src_nested_ind;
    intros [bb vb|vb|vb|vb nb|vb nb mb ob ib rb|cb|ib rb|idb ib];
    try (cbn [src_eqb erase_ids]; split; discriminate).
  - cbn [src_eqb erase_ids]. rewrite andb_true_iff, bool_eqb_eq, text_eqb_eq. split.
    + intros [H1 H2]. subst. reflexivity.
    + intros H. injection H as H1 H2. split; assumption.
  - cbn [src_eqb erase_ids]. rewrite text_eqb_eq. split.
    + intros H. subst. reflexivity.
    + intros H. injection H as H. exact H.
  - cbn [src_eqb erase_ids]. rewrite text_eqb_eq. split.
    + intros H. subst. reflexivity.
    + intros H. injection H as H. exact H.
  - cbn [src_eqb erase_ids]. rewrite andb_true_iff, !text_eqb_eq. split.
    + intros [H1 H2]. subst. reflexivity.
    + intros H. injection H as H1 H2. split; assumption.
  - cbn [src_eqb erase_ids].
    rewrite !andb_true_iff, !text_eqb_eq, !smap_eqb_eq, bool_eqb_eq,
      (opt_eqb_eq text_eqb text_eqb_eq), (opt_eqb_eq smap_eqb smap_eqb_eq).
    split.
    + intros [[[[[H1 H2] H3] H4] H5] H6]. subst. reflexivity.
    + intros H. injection H as H1 H2 H3 H4 H5 H6. repeat split; assumption.
  - rewrite src_eqb_concat, (concat_eqb_spec ca IH cb). cbn [erase_ids]. split.
    + intros H. rewrite H. reflexivity.
    + intros H. injection H as H. exact H.
  - cbn [src_eqb erase_ids]. rewrite andb_true_iff, IH, repls_eqb_eq. split.
    + intros [H1 H2]. rewrite H1, H2. reflexivity.
    + intros H. injection H as H1 H2. split; assumption.
  - cbn [src_eqb erase_ids]. rewrite IH. split.
    + intros H. rewrite H. reflexivity.
    + intros H. injection H as H. exact H.
Qed.

Theorem src_eqb_refl (a : src) : src_eqb a a = true.
Proof. apply src_eqb_spec. reflexivity. Qed.

Theorem src_eqb_sym (a b : src) : src_eqb a b = src_eqb b a.
Proof.
  destruct (src_eqb a b) eqn:E1, (src_eqb b a) eqn:E2; try reflexivity.
  - apply src_eqb_spec in E1. symmetry in E1. apply src_eqb_spec in E1.
    rewrite E1 in E2. discriminate.
  - apply src_eqb_spec in E2. symmetry in E2. apply src_eqb_spec in E2.
    rewrite E2 in E1. discriminate.
Qed.

Theorem src_eqb_trans (a b c : src) :
  src_eqb a b = true -> src_eqb b c = true -> src_eqb a c = true.
Proof.
  rewrite !src_eqb_spec. intros H1 H2. rewrite H1. exact H2.
Qed.

(* `==` is Leibniz equality on trees without CachedSource ids to ignore *)
Lemma src_eqb_leibniz (a b : src) : a = b -> src_eqb a b = true.
Proof. intros H. subst. apply src_eqb_refl. Qed.

(* ------------------------------------------------------------------ *)
(* E2: == implies equal hasher streams *)

Lemma flat_map_map_ext {A B} (f : A -> list B) (g : A -> A) (l : list A) :
  Forall (fun a => f (g a) = f a) l -> flat_map f (map g l) = flat_map f l.
Proof.
  intros HF. induction HF as [|x l Hx HF IH]; [reflexivity|].
  cbn [map flat_map]. rewrite Hx, IH. reflexivity.
Qed.

Lemma map_map_ext {A B} (f : A -> B) (g : A -> A) (l : list A) :
  Forall (fun a => f (g a) = f a) l -> map f (map g l) = map f l.
Proof.
  intros HF. induction HF as [|x l Hx HF IH]; [reflexivity|].
  cbn [map]. rewrite Hx, IH. reflexivity.
Qed.

Lemma hash_erase_ids (s : src) : hash_events (erase_ids s) = hash_events s.
Proof.
  induction s as [b v|v|v|v n|v n m o i r|cs IH|inner rs IH|id inner IH]
    using src_nested_ind; try reflexivity.
  - cbn [erase_ids hash_events]. rewrite (flat_map_map_ext hash_events erase_ids cs IH).
    reflexivity.
  - cbn [erase_ids hash_events]. rewrite IH. reflexivity.
  - cbn [erase_ids hash_events]. rewrite IH. reflexivity.
Qed.

Theorem eq_implies_hash (a b : src) : src_eqb a b = true -> hash_events a = hash_events b.
Proof.
  intros H. apply src_eqb_spec in H.
  rewrite <- (hash_erase_ids a), <- (hash_erase_ids b), H. reflexivity.
Qed.

(* ------------------------------------------------------------------ *)
(* E3: == implies equal text views *)

Lemma views_erase_ids (s : src) :
  source (erase_ids s) = source s /\ buffer (erase_ids s) = buffer s.
Proof.
  induction s as [b v|v|v|v n|v n m o i r|cs IH|inner rs IH|id inner IH]
    using src_nested_ind; try (split; reflexivity).
  - cbn [erase_ids source buffer]. split.
    + rewrite (map_map_ext source erase_ids cs); [reflexivity|].
      eapply Forall_impl; [|exact IH]. intros a [Ha _]. exact Ha.
    + rewrite (map_map_ext buffer erase_ids cs); [reflexivity|].
      eapply Forall_impl; [|exact IH]. intros a [_ Ha]. exact Ha.
  - destruct IH as [IHs IHb]. cbn [erase_ids source buffer]. rewrite IHs. split; reflexivity.
  - destruct IH as [IHs IHb]. cbn [erase_ids source buffer]. split; assumption.
Qed.

Theorem eq_implies_views (a b : src) :
  src_eqb a b = true -> source a = source b /\ buffer a = buffer b.
Proof.
  intros H. apply src_eqb_spec in H.
  destruct (views_erase_ids a) as [Hsa Hba], (views_erase_ids b) as [Hsb Hbb].
  rewrite <- Hsa, <- Hba, <- Hsb, <- Hbb, H. split; reflexivity.
Qed.

(* size follows too *)
Lemma size_erase_ids (s : src) : size (erase_ids s) = size s.
Proof.
  induction s as [b v|v|v|v n|v n m o i r|cs IH|inner rs IH|id inner IH]
    using src_nested_ind; try reflexivity.
  - cbn [erase_ids size]. induction IH as [|x l Hx HF IHl]; [reflexivity|].
    cbn [map fold_right]. rewrite Hx, IHl. reflexivity.
  - cbn [erase_ids size]. rewrite (proj1 (views_erase_ids inner)). reflexivity.
  - cbn [erase_ids size]. exact IH.
Qed.

Theorem eq_implies_size (a b : src) : src_eqb a b = true -> size a = size b.
Proof.
  intros H. apply src_eqb_spec in H.
  rewrite <- (size_erase_ids a), <- (size_erase_ids b), H. reflexivity.
Qed.

Print Assumptions text_eqb_eq.
Print Assumptions list_eqb_eq.
Print Assumptions opt_eqb_eq.
Print Assumptions smap_eqb_eq.
Print Assumptions repl_eqb_eq.
Print Assumptions src_eqb_spec.
Print Assumptions src_eqb_refl.
Print Assumptions src_eqb_sym.
Print Assumptions src_eqb_trans.
Print Assumptions eq_implies_hash.
Print Assumptions eq_implies_views.
Print Assumptions eq_implies_size.
