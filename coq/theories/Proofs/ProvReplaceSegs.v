(* Property C04 for trees with ReplaceSource nodes (class `pshape`), segment level,
   columns = true (R2):
     every mapped segment of the map returned by map() starts on an output byte that is either
     replacement content or a byte of an OriginalSource whose true origin (Sem/Prov.v) is exactly
     the segment's original file, line and column - never on raw text.
   Route: the segments of the map are segments of the text-less stream (ProvConcatSegs.
   map_segs_in_fsegs); for a ReplaceSource that stream is its text-carrying stream, whose chunks
   start where their text starts (RStreamTree.rgood_all) and satisfy the exact chunk relation
   (ProvReplaceExact.pshape_chunks_s): the first byte under a mapped chunk is replacement content
   or carries exactly the chunk's location; ConcatSource as in ProvConcatSegs. *)
From RS Require Import Base.Prelude Base.Text Rope.RopeModel Codec.Vlq Codec.CodecSpec
  Checkers.ChkCodec Stream.Types Stream.Leaves Stream.Concat Stream.Replace Stream.Tree Api.ApiTree
  Sem.Attr Sem.Prov Checkers.ChkTree Checkers.ChkProv Checkers.ChkComp Proofs.RopeWf Proofs.RopeOps
  Proofs.CodecKept Proofs.CodecEnc Proofs.CodecMain
  Proofs.StreamText Proofs.StreamLeaves Proofs.StreamMap Proofs.StreamConcat Proofs.StreamTree
  Proofs.WfStream Proofs.WfFinal Proofs.ReplaceSort Proofs.ReplaceText
  Proofs.RStreamText Proofs.RStreamPos Proofs.RStreamTree
  Proofs.AttrCodec Proofs.AttrSms Proofs.AttrLeaves Proofs.ProvTokens Proofs.ProvOriginal
  Proofs.LawConcatAttr Proofs.LawWrappers Proofs.FinalDense Proofs.FinalConcat Proofs.FinalTree
  Proofs.ReplAttrRef Proofs.ReplAttrStream Proofs.ReplAttrOrigin Proofs.ReplAttrCols Proofs.ReplAttrTree
  Proofs.ProvConcatBytes Proofs.ProvConcatSegs Proofs.ProvConcatTables
  Proofs.ProvReplaceStream Proofs.ProvReplaceBytes Proofs.ProvReplaceExact.
Require Import Lia List.

Local Open Scope N_scope.

(* ------------------------------------------------------------------ *)
(* a segment lies on replacement content or on a byte of its own origin  *)
(* ------------------------------------------------------------------ *)
Definition tag_fits (loc : loc) (g : ptag) : Prop :=
  g = PRepl \/ exists st e, g = POrig (l_file loc) (l_line loc) (l_col loc) st e.

Definition seg_on (tg : list (N * N * ptag)) (sg : rseg) : Prop :=
  match sg with
  | (l, c, Some loc) => exists g, In (l, c, g) tg /\ tag_fits loc g
  | (_, _, None) => True
  end.

Lemma seg_on_seg_ok t tags l0 c0 sg : seg_on (tagged t tags l0 c0) sg -> ChkProv.seg_ok (tagged t tags l0 c0) sg = true.
Proof.
  destruct sg as [[l c] [loc|]]; [|reflexivity]. intros (g & Hin & Hf). cbn [ChkProv.seg_ok].
  rewrite (tagged_tag_at _ _ _ _ _ _ _ Hin). destruct Hf as [->|(st & e & ->)]; [reflexivity|].
  rewrite text_eqb_refl, !N.eqb_refl. reflexivity.
Qed.

Lemma seg_in_seg_on tg sg : seg_in tg sg -> seg_on tg sg.
Proof.
  destruct sg as [[l c] [loc|]]; [|exact (fun x => x)]. intros (st & e & Hin).
  eexists. split; [exact Hin|]. right. exists st, e. reflexivity.
Qed.

Lemma seg_on_app_l a b sg : seg_on a sg -> seg_on (a ++ b) sg.
Proof.
  destruct sg as [[l c] [loc|]]; [|exact (fun x => x)]. intros (g & Hin & Hf).
  exists g. split; [apply in_or_app; left; exact Hin|exact Hf].
Qed.

Lemma seg_on_app_r a b sg : seg_on b sg -> seg_on (a ++ b) sg.
Proof.
  destruct sg as [[l c] [loc|]]; [|exact (fun x => x)]. intros (g & Hin & Hf).
  exists g. split; [apply in_or_app; right; exact Hin|exact Hf].
Qed.

Lemma seg_on_shift lo co t tags sg :
  seg_on (tagged t tags 1 0) sg -> seg_on (tagged t tags (lo + 1) co) (shseg lo co sg).
Proof.
  destruct sg as [[l c] [loc|]]; [|exact (fun x => x)]. intros (g & Hin & Hf).
  unfold shseg, shift. cbn [fst snd seg_on]. exists g. split; [|exact Hf].
  pose proof (tagged_shift_in lo t tags 1 0 co l c _ Hin) as X.
  replace (1 + lo) with (lo + 1) in X by lia. rewrite N.add_0_l in X. exact X.
Qed.

(* ------------------------------------------------------------------ *)
(* a text-carrying stream: every chunk starts where its text starts      *)
(* ------------------------------------------------------------------ *)
Section Chunks.
Variable Fc : text -> option text.

Lemma chunks_seg_on : forall evs S G p T tags,
  Reass evs T -> WP evs p -> no_empty_chunks evs = true -> CR (Rs Fc) (tchunks S G evs) tags ->
  Forall (seg_on (tagged T tags (fst p) (snd p))) (fsegs evs S G).
Proof.
  induction evs as [|e evs IH]; intros S G p T tags HR HW Hne HC; [constructor|].
  destruct e as [ot m|i nm c|i nm].
  - apply Reass_chunk_inv in HR. destruct HR as [t [x [-> [-> HR]]]].
    apply WP_chunk_inv in HW. destruct HW as [t' [Et [Hl [Hc HW]]]]. inversion Et. subst t'. clear Et.
    unfold no_empty_chunks in Hne. cbn [chunk_texts forallb] in Hne.
    apply andb_true_iff in Hne. destruct Hne as [Hne1 Hne]. fold (no_empty_chunks evs) in Hne.
    rewrite tchunks_chunk in HC.
    destruct (CR_cons_inv (Rs Fc) _ _ _ _ HC) as [g [gs [-> [Hlg [HRs HC']]]]].
    rewrite (tagged_app t g x gs (fst p) (snd p) Hlg).
    unfold fsegs. cbn [rsegs_of_events map snd]. fold (fsegs evs S G). constructor.
    + change (seg_on (tagged t g (fst p) (snd p) ++ tagged x gs (fst (advance (fst p) (snd p) t)) (snd (advance (fst p) (snd p) t)))
                     (g_line m, g_col m, res S G (m_orig m))).
      apply seg_on_app_l. destruct (res S G (m_orig m)) as [loc|]; [|exact I].
      destruct t as [|b t]; [discriminate|]. destruct g as [|y g]; [discriminate|].
      exists y. split; [cbn [tagged]; left; rewrite Hl, Hc; reflexivity|].
      cbn [Rs] in HRs. destruct HRs as [HA|[HE _]].
      * left. inversion HA. assumption.
      * right. destruct HE as [[stmt [E _]] _]. rewrite N.add_0_r in E. exists stmt, false. exact E.
    + eapply Forall_impl; [|apply (IH S G (adv p t) x gs HR HW Hne HC')].
      intros sg. apply seg_on_app_r.
  - unfold fsegs. cbn [rsegs_of_events]. apply (IH (lm_insert BAD S i nm) G p T tags HR HW Hne HC).
  - unfold fsegs. cbn [rsegs_of_events]. apply (IH S (lm_insert BAD G i nm) p T tags HR HW Hne HC).
Qed.
End Chunks.

(* ------------------------------------------------------------------ *)
(* the fold over the children of a ConcatSource, text-less mode          *)
(* ------------------------------------------------------------------ *)
Definition kt_on (kt : kid * list ptag) : Prop :=
  kid_ok (fst kt) /\ length (snd kt) = length (tr_text (fst kt)) /\
  Forall (seg_on (tagged (tr_text (fst kt)) (snd kt) 1 0)) (fsegs (tr_events (fst kt)) [] []).

Lemma fold_seg_on : forall (kts : list (kid * list ptag)) st out T G,
  tabs out [] [] = (c_sources st, c_names st) -> cpos st = adv (1, 0) T -> length G = length T ->
  Forall (seg_on (tagged T G 1 0)) (fsegs out [] []) -> Forall kt_on kts ->
  Forall (seg_on (tagged (T ++ concat (map (fun kt => tr_text (fst kt)) kts)) (G ++ flat_map snd kts) 1 0))
         (fsegs (snd (concat_fold true (map (fun kt => fst (fst kt)) kts) (st, out))) [] []).
Proof.
  induction kts as [|[tr g] kts IH]; intros st out T G Ht HT HG Hout HF.
  - cbn [map concat flat_map concat_fold fold_left snd]. rewrite !app_nil_r. exact Hout.
  - inversion HF as [|? ? Hkt HF']; subst. destruct Hkt as [Hk [Hlen Hsegs]]. cbn [fst snd] in Hk, Hlen, Hsegs.
    cbn [map concat flat_map fst snd]. rewrite concat_fold_cons. cbn [fst snd].
    change (fst (fst tr)) with (tr_events tr). change (snd (fst tr)) with (tr_info tr).
    pose proof (child_decomp st out tr Ht Hk) as [B1 [_ [B3 _]]]. cbn zeta in B1, B3.
    assert (Hi : tr_info tr = advance 1 0 (tr_text tr)) by (destruct Hk as [_ [_ [Hi _]]]; exact Hi).
    pose proof (concat_child_cpos true st (tr_events tr) (tr_info tr) (tr_text tr) Hi) as B4.
    destruct (concat_child true st (tr_events tr) (tr_info tr)) as [st' o]. cbn [fst snd] in *.
    rewrite !app_assoc. apply IH.
    + exact B1.
    + rewrite B4, HT, adv_app. reflexivity.
    + rewrite !app_length, HG, Hlen. reflexivity.
    + rewrite B3, (tagged_app T G (tr_text tr) g 1 0 HG).
      apply Forall_app. split; [|apply Forall_app; split].
      * eapply Forall_impl; [|exact Hout]. intros sg. apply seg_on_app_l.
      * unfold child_cl. destruct (c_close st && need (chunk_mappings (tr_events tr)) (tr_info tr)); [|constructor].
        constructor; [exact I|constructor].
      * rewrite Forall_map. eapply Forall_impl; [|exact Hsegs]. intros sg Hsg. apply seg_on_app_r.
        unfold cpos, adv in HT. cbn [fst snd] in HT. rewrite <- HT. cbn [fst snd].
        apply seg_on_shift. exact Hsg.
    + exact HF'.
Qed.

(* ------------------------------------------------------------------ *)
(* the induction over the tree                                          *)
(* ------------------------------------------------------------------ *)
Section Tree.
Variable Fc : text -> option text.
Hypothesis FcOK : forall f v, Fc f = Some v -> len v < two32 /\ ascii v = true.

Definition sgood2 (s : src) : Prop :=
  forall st, pshape s = true -> treeA s = true -> rsmall s = true -> side_s Fc s ->
    Forall (seg_on (tagged (source s) (prov s) 1 0)) (fsegs (fst (fst (stream st s oF))) [] []).

Lemma prov_length (st : store) s : pshape s = true -> treeA s = true -> rsmall s = true -> side_s Fc s ->
  length (prov s) = length (source s).
Proof.
  intros Hp Ha Hs Hsd.
  apply (cgood_length (Rs Fc) s st Hp Ha Hs). apply pshape_chunks_s; assumption.
Qed.

Lemma raw_sgood2 s : is_raw s = true -> sgood2 s.
Proof.
  intros Hr st _ _ _ _.
  assert (Es : fst (fst (stream st s oF)) = []) by (destruct s; try discriminate; reflexivity).
  rewrite Es. constructor.
Qed.

Lemma original_sgood2 v n : sgood2 (SOriginal v n).
Proof.
  intros st _ Ha _ _. eapply Forall_impl; [|apply (original_sgood v n st eq_refl Ha)].
  intros sg. apply seg_in_seg_on.
Qed.

Lemma side_s_concat cs : side_s Fc (SConcat cs) -> forall c, In c cs -> side_s Fc c.
Proof. intros H c Hc n v Hin. apply H. cbn [originals]. apply in_flat_map. exists c. split; assumption. Qed.

Lemma concat_sgood2 cs : Forall sgood2 cs -> sgood2 (SConcat cs).
Proof.
  intros IH st Hp Ha Hs Hsd. rewrite Forall_forall in IH.
  pose proof (pshape_concat cs Hp) as Hp'. pose proof (treeA_concat cs Ha) as Ha'.
  assert (Hs' : forall c, In c cs -> rsmall c = true).
  { cbn [rsmall] in Hs. rewrite forallb_forall in Hs. exact Hs. }
  pose proof (side_s_concat cs Hsd) as Hsd'.
  destruct (Nat.eq_dec (length cs) 1) as [E|E].
  { destruct cs as [|c [|c2 r]]; try discriminate.
    change (stream st (SConcat [c]) oF) with (stream st c oF).
    cbn [source prov map concat flat_map]. rewrite !app_nil_r.
    apply (IH c (or_introl eq_refl) st); [apply Hp'|apply Ha'|apply Hs'|apply Hsd']; left; reflexivity. }
  assert (TG : forall c, In c cs -> forall st0,
            kid_ok (fst (stream st0 c oF), source c) /\ snd (stream st0 c oF) = st0).
  { intros c Hin st0.
    destruct (tgood_all c st0 (pshape_rshape c (Hp' c Hin)) (Ha' c Hin) (Hs' c Hin)) as [K [S _]].
    split; assumption. }
  rewrite (stream_concat_fold st cs oF E), (kid_streams_pure oF cs (fun c Hin st0 => proj2 (TG c Hin st0)) st).
  cbn [fst snd final_source oF].
  set (kts := map (fun c => ((fst (stream st c oF), source c), prov c)) cs : list (kid * list ptag)).
  assert (E1 : map (fun c => fst (stream st c oF)) cs = map (fun kt => fst (fst kt)) kts).
  { unfold kts. rewrite map_map. apply map_ext. intros c. reflexivity. }
  assert (E2 : source (SConcat cs) = [] ++ concat (map (fun kt => tr_text (fst kt)) kts)).
  { cbn [source app]. unfold kts. rewrite map_map. reflexivity. }
  assert (E3 : prov (SConcat cs) = [] ++ flat_map snd kts).
  { cbn [prov app]. unfold kts. rewrite flat_map_map. reflexivity. }
  rewrite E1, E2, E3.
  apply (fold_seg_on kts concat_init [] [] []); [reflexivity|reflexivity|reflexivity|constructor|].
  unfold kts. rewrite Forall_map. apply Forall_forall. intros c Hin. unfold kt_on. cbn [fst snd].
  split; [apply (TG c Hin st)|]. split.
  - apply (prov_length st c (Hp' c Hin) (Ha' c Hin) (Hs' c Hin) (Hsd' c Hin)).
  - apply (IH c Hin st (Hp' c Hin) (Ha' c Hin) (Hs' c Hin) (Hsd' c Hin)).
Qed.

Lemma replace_sgood2 i rs : sgood2 (SReplace i rs).
Proof.
  intros st Hp Ha Hs Hsd.
  change (fst (fst (stream st (SReplace i rs) oF))) with (fst (fst (stream st (SReplace i rs) oT))).
  pose proof (pshape_rshape _ Hp) as Hr.
  pose proof (rgood_all (SReplace i rs) st true Hr Ha Hs) as [[G1 G2] _]. cbn zeta in G1, G2.
  pose proof (tidy_tree (SReplace i rs) Hr Ha Hs st) as [_ N0]. unfold evs_of, o10 in N0.
  pose proof (pshape_chunks_s Fc st (SReplace i rs) FcOK Hp Ha Hs Hsd) as HC.
  apply (chunks_seg_on Fc _ [] [] (1, 0) (source (SReplace i rs)) (prov (SReplace i rs)) G1 G2 N0 HC).
Qed.

Lemma sgood2_all : forall s, sgood2 s.
Proof.
  apply src_ind'.
  - intros b v. apply raw_sgood2. reflexivity.
  - intros v. apply raw_sgood2. reflexivity.
  - intros v. apply raw_sgood2. reflexivity.
  - apply original_sgood2.
  - intros v n m og i r st Hc. discriminate.
  - intros cs IH. apply concat_sgood2. exact IH.
  - intros i rs _. apply replace_sgood2.
  - intros id i _ st Hc. discriminate.
Qed.
End Tree.

(* ------------------------------------------------------------------ *)
(* the recorded contents of a tree                                      *)
(* ------------------------------------------------------------------ *)
Definition fc_of (l : list (text * text)) (f : text) : option text :=
  match find (fun p => text_eqb (fst p) f) l with Some (_, v) => Some v | None => None end.

Lemma fc_of_in l f v : fc_of l f = Some v -> In (f, v) l.
Proof.
  unfold fc_of. destruct (find (fun p => text_eqb (fst p) f) l) as [[n0 v0]|] eqn:E; [|discriminate].
  intros H. inversion H. subst v0. apply find_some in E. destruct E as [E1 E2]. cbn [fst] in E2.
  apply text_eqb_eq in E2. subst n0. exact E1.
Qed.

Lemma fc_of_side s : names_determine_content (originals s) = true -> side_s (fc_of (originals s)) s.
Proof.
  intros Hn n v Hin. unfold fc_of.
  destruct (find (fun p => text_eqb (fst p) n) (originals s)) as [[n0 v0]|] eqn:E.
  - apply find_some in E. destruct E as [E1 E2]. cbn [fst] in E2. apply text_eqb_eq in E2. subst n0.
    f_equal. apply (names_determine_in _ Hn n v0 v E1 Hin).
  - exfalso. apply (find_none _ _ E (n, v)) in Hin. cbn [fst] in Hin. rewrite text_eqb_refl in Hin. discriminate.
Qed.

Lemma originals_ok : forall s n v, In (n, v) (originals s) -> csmall s = true -> tree_ascii s = true ->
  len v < two32 /\ ascii v = true.
Proof.
  apply (src_ind' (fun s => forall n v, In (n, v) (originals s) -> csmall s = true -> tree_ascii s = true ->
                             len v < two32 /\ ascii v = true)); try (intros; cbn [originals] in *; contradiction).
  - intros v0 n0 n v [H|[]] Hc Ha. inversion H. subst. cbn [csmall tree_ascii] in *.
    apply andb_true_iff in Ha. split; [apply N.ltb_lt; exact Hc|apply Ha].
  - intros cs IH n v Hin Hc Ha. cbn [originals csmall tree_ascii] in *. apply in_flat_map in Hin.
    destruct Hin as [c [Hc0 Hin]]. rewrite Forall_forall in IH. rewrite forallb_forall in Hc, Ha.
    apply (IH c Hc0 n v Hin (Hc c Hc0) (Ha c Hc0)).
  - intros i rs IH n v Hin Hc Ha. cbn [originals csmall tree_ascii] in *. apply andb_true_iff in Ha.
    apply (IH n v Hin Hc). apply Ha.
  - intros id i IH n v Hin Hc Ha. cbn [originals csmall tree_ascii] in *. apply (IH n v Hin Hc Ha).
Qed.

Lemma fc_of_ok s : csmall s = true -> treeA s = true ->
  forall f v, fc_of (originals s) f = Some v -> len v < two32 /\ ascii v = true.
Proof.
  intros Hc Ha f v H. apply fc_of_in in H. unfold treeA in Ha. apply andb_true_iff in Ha.
  apply (originals_ok s f v H Hc). apply Ha.
Qed.

Lemma peel_originals : forall s, originals (peel s) = originals s.
Proof.
  apply src_ind'; try (intros; reflexivity).
  intros i rs IH. destruct rs as [|r rs]; [cbn [peel originals]; exact IH|reflexivity].
Qed.

(* the statement on the text-less stream (what map() encodes) *)
Theorem pshape_final_segs (st : store) (s : src) :
  pshape s = true -> treeA s = true -> rsmall s = true -> csmall s = true ->
  names_determine_content (originals s) = true ->
  forallb (ChkProv.seg_ok (tagged (source s) (prov s) 1 0))
          (fsegs (fst (fst (stream st s (mkOpts true true)))) [] []) = true.
Proof.
  intros Hp Ha Hs Hc Hn. apply forallb_forall. intros sg Hin. apply seg_on_seg_ok.
  pose proof (sgood2_all (fc_of (originals s)) (fc_of_ok s Hc Ha) s st Hp Ha Hs (fc_of_side s Hn)) as H.
  rewrite Forall_forall in H. apply H. exact Hin.
Qed.

(* R2 *)
Theorem replace_c04_segs (st : store) (s : src) :
  pshape s = true -> treeA s = true -> rsmall s = true -> csmall s = true ->
  names_determine_content (originals s) = true -> fields_small st (peel s) ->
  let m1 := fst (map_of st s true) in
  let tg := tagged (source s) (prov s) 1 0 in
  let segs := match m1 with Some m => rsegs_of_map m | None => [] end in
  forallb (ChkProv.seg_ok tg) segs = true.
Proof.
  intros Hp Ha Hs Hc Hn Hf. cbn zeta.
  destruct (peel_facts s) as [P1 [P2 [P3 [P4 [P5 [P6 [P7 P8]]]]]]].
  rewrite P1, P2, P3. set (q := peel s) in *.
  specialize (P4 Hp). specialize (P5 Ha). specialize (P6 Hs). specialize (P7 Hc).
  assert (Hnq : names_determine_content (originals q) = true) by (unfold q; rewrite peel_originals; exact Hn).
  fold (segs_of (fst (map_of st q true))).
  destruct (is_raw q) eqn:Er.
  - assert (Em : fst (map_of st q true) = None) by (destruct q; try discriminate; reflexivity).
    rewrite Em. reflexivity.
  - assert (Em : map_of st q true = get_map st q true).
    { destruct q as [| | | | |cs|i rs|]; try discriminate; try reflexivity.
      destruct rs as [|r rs]; [exfalso; apply (P8 i); reflexivity|reflexivity]. }
    rewrite Em.
    pose proof (final_enc_domain st q (pshape_rshape q P4) P5 P6 Hf) as He.
    pose proof (dense_tree_any q st (mkOpts true true) (pshape_rshape q P4) P5) as Hd.
    pose proof (sgood2_all (fc_of (originals q)) (fc_of_ok q P7 P5) q st P4 P5 P6 (fc_of_side q Hnq)) as Hg.
    unfold oF in Hg. unfold get_map.
    destruct (stream st q (mkOpts true true)) as [[evs gi] st']. cbn [fst snd] in *.
    apply forallb_forall. intros sg Hin. apply seg_on_seg_ok.
    rewrite Forall_forall in Hg. apply Hg. apply map_segs_in_fsegs; assumption.
Qed.

(* R1 and R2 together, in the form of C04_concat_columns *)
Theorem replace_c04_cols (st : store) (s : src) :
  pshape s = true -> treeA s = true -> rsmall s = true -> csmall s = true ->
  names_determine_content (originals s) = true -> fields_small st (peel s) ->
  let m1 := fst (map_of st s true) in
  let tg := tagged (source s) (prov s) 1 0 in
  let segs := match m1 with Some m => rsegs_of_map m | None => [] end in
  forallb (ChkProv.seg_ok tg) segs = true /\ forallb (byte_ok segs) tg = true.
Proof. intros Hp Ha Hs Hc Hn Hf. split; [apply replace_c04_segs|apply replace_c04_bytes]; assumption. Qed.

Print Assumptions pshape_final_segs.
Print Assumptions replace_c04_segs.
Print Assumptions replace_c04_cols.
