(* C03, checker level: `chk_C03` on the model's own observations of a tree of the class
   rshape / treeA / rsmall (raw leaves, OriginalSource, SourceMapSource without inner map and
   with a consistent map, ConcatSource, ReplaceSource; ASCII texts), after every warming
   history.
   - The two attribution clauses (1, 2: map() attributes every position as the text-carrying
     stream does, both column settings) hold for every such tree in the encoder's domain.
   - Outside the known-finding class K1 (`k1_shape`) the two "None exactly when no chunk is
     mapped" clauses hold as well: the verdict is 0.
   - Inside K1 (map() reaches a SourceMapSource without inner map through ReplaceSources
     without replacements and returns the given map verbatim) the verdict is 0 when both
     text-carrying streams hold a mapped chunk and 51 otherwise - exactly; no hypothesis on
     sizes or on the encoder's domain is needed there.
   - The same for trees with CachedSource wrappers observed first (cold caches). *)
From RS Require Import Base.Prelude Base.Text Rope.RopeModel Codec.Vlq Codec.CodecSpec
  Checkers.ChkCodec Stream.Types Stream.Leaves Stream.Concat Stream.Replace Stream.Combined Stream.Tree
  Api.ApiTree Sem.Attr Checkers.ChkTree
  Proofs.StreamText Proofs.StreamLeaves Proofs.StreamMap Proofs.StreamConcat Proofs.StreamTree
  Proofs.RStreamText Proofs.RStreamPos Proofs.RStreamTree
  Proofs.AttrCodec Proofs.AttrSms Proofs.AttrLeaves Proofs.LawConcatAttr Proofs.LawWrappers
  Proofs.FinalDense Proofs.FinalReplace Proofs.FinalConcat Proofs.FinalTree
  Proofs.ReplAttrStream Proofs.ReplAttrTree Proofs.LinesTree
  Proofs.ColdCache Proofs.ColdCacheTree Proofs.WfAllChk Proofs.ChkModelC02.
Require Import Lia List.
Import ListNotations.

Local Open Scope N_scope.

(* ------------------------------------------------------------------ *)
(* ReplaceSource without replacements keeps "some chunk is mapped"      *)
(* ------------------------------------------------------------------ *)
Lemma filter_live_all (l : list tattr) : forallb ne_ot (map fst l) = true -> filter live l = l.
Proof.
  induction l as [|x l IH]; intros H; [reflexivity|]. cbn [map forallb] in H.
  apply andb_true_iff in H. destruct H as [Hx Hl]. cbn [filter].
  assert (E : live x = true) by (unfold live; unfold ne_ot in Hx; exact Hx).
  rewrite E, (IH Hl). reflexivity.
Qed.

Lemma ne_filter_live evs : no_empty_chunks evs = true ->
  filter live (ta (rsegs_of_events evs [] [])) = ta (rsegs_of_events evs [] []).
Proof. intros H. apply filter_live_all. rewrite ne_tas in H. exact H. Qed.

(* no chunk of a text-carrying stream of the class is empty, both column settings *)
Lemma rshape_no_empty st s cols :
  RStreamTree.rshape s = true -> treeA s = true -> rsmall s = true ->
  no_empty_chunks (fst (fst (stream st s (mkOpts cols false)))) = true.
Proof.
  intros H1 H2 H3. destruct cols.
  - exact (proj2 (tidy_tree s H1 H2 H3 st)).
  - exact (ne_tree_lines s H1 H2 H3 st).
Qed.

Lemma treeA_replace_nil i : treeA i = true -> treeA (SReplace i []) = true.
Proof.
  unfold treeA. cbn [tree_wf tree_ascii forallb]. intros H. apply andb_true_iff in H.
  destruct H as [Hw Ha]. rewrite Hw, Ha. reflexivity.
Qed.

Lemma replace_nil_mce st i cols :
  RStreamTree.rshape i = true -> treeA i = true -> rsmall (SReplace i []) = true ->
  mapped_chunk_exists (fst (fst (stream st (SReplace i []) (mkOpts cols false)))) =
  mapped_chunk_exists (fst (fst (stream st i (mkOpts cols false)))).
Proof.
  intros H1 H2 H3.
  assert (H3i : rsmall i = true).
  { cbn [rsmall] in H3. apply andb_true_iff in H3. exact (proj1 H3). }
  pose proof (rshape_no_empty st (SReplace i []) cols H1 (treeA_replace_nil i H2) H3) as No.
  pose proof (rshape_no_empty st i cols H1 H2 H3i) as Ni.
  pose proof (dense_tree_any i st (mkOpts cols false) H1 H2) as D.
  rewrite replace_nil_stream_eq in No |- *. cbn [fst snd columns] in No |- *.
  destruct (replace_stream_nil_ta (fst (fst (stream st i (mkOpts cols false))))
              (snd (fst (stream st i (mkOpts cols false)))) D) as [E _].
  rewrite (ne_filter_live _ No), (ne_filter_live _ Ni) in E.
  rewrite !mce_ta, E. reflexivity.
Qed.

(* ------------------------------------------------------------------ *)
(* map() against the text-carrying stream, by induction on the tree      *)
(* ------------------------------------------------------------------ *)
Lemma mapped_dom v n m og r : treeA (SMapped v n m og None r) = true ->
  ascii v = true /\ map_consistent v m = true.
Proof.
  intros HA. unfold treeA in HA. apply andb_true_iff in HA. destruct HA as [_ H]. cbn [tree_ascii] in H.
  apply andb_true_iff in H. destruct H as [H _]. apply andb_true_iff in H. destruct H as [H _].
  apply andb_true_iff in H. destruct H as [H Hc]. apply andb_true_iff in H. destruct H as [H _].
  apply andb_true_iff in H. destruct H as [H _]. split; assumption.
Qed.

(* what the cases that stream (get_map) need: sizes and the encoder's domain; asked only
   outside the class K1 *)
Definition c03_dom (st : store) (s : src) (cols : bool) : Prop :=
  rsmall s = true /\
  forallb mapping_small (chunk_mappings (fst (fst (stream st (map_target s) (mkOpts cols true))))) = true.

Definition c03_goal (st : store) (s : src) (cols : bool) : Prop :=
  attr_of_map (fst (map_of st s cols)) (source s) cols =
  attr_of_stream (fst (fst (stream st s (mkOpts cols false)))) cols /\
  (k1_shape s = false ->
   is_none (fst (map_of st s cols)) =
   negb (mapped_chunk_exists (fst (fst (stream st s (mkOpts cols false)))))).

Lemma get_map_goal st s cols :
  RStreamTree.rshape s = true -> treeA s = true -> map_of st s cols = get_map st s cols ->
  map_target s = s -> c03_dom st s cols -> c03_goal st s cols.
Proof.
  intros H1 H2 Em Et [H3 Hs]. rewrite Et in Hs. unfold c03_goal. rewrite Em. destruct cols.
  - destruct (C03_tree_cols st s H1 H2 H3 Hs) as [A B]. split; [exact A|intros _; exact B].
  - destruct (C03_tree_lines st s H1 H2 H3 Hs) as [A B]. split; [exact A|intros _; exact B].
Qed.

Theorem map_of_C03 : forall s st cols,
  RStreamTree.rshape s = true -> treeA s = true ->
  (k1_shape s = false -> c03_dom st s cols) ->
  c03_goal st s cols.
Proof.
  induction s as [b v|v|v|v n|v n m og im rm|cs|i IH rs|id i IH]; intros st cols H1 H2 Hd.
  - split; [apply leaf_attr; exact I|intros _; apply leaf_none; exact I].
  - split; [apply leaf_attr; exact I|intros _; apply leaf_none; exact I].
  - split; [apply leaf_attr; exact I|intros _; apply leaf_none; exact I].
  - apply get_map_goal; try assumption; try reflexivity. apply Hd. reflexivity.
  - destruct im as [x|]; [cbn [RStreamTree.rshape] in H1; discriminate|].
    destruct (mapped_dom v n m og rm H2) as [Hav Hc].
    split; [|cbn [k1_shape]; discriminate].
    cbn [map_of fst source stream]. destruct cols; cbn [sm_stream columns final_source].
    + symmetry. apply sm_full_attr; assumption.
    + symmetry. apply sm_lines_full_attr; assumption.
  - apply get_map_goal; try assumption; try reflexivity. apply Hd. reflexivity.
  - destruct rs as [|r rs].
    + (* delegation *)
      cbn [RStreamTree.rshape] in H1. pose proof (treeA_replace_inner i [] H2) as H2i.
      assert (Hdi : k1_shape i = false -> c03_dom st i cols).
      { intros Hk. destruct (Hd Hk) as [Hsm Hs]. split; [|exact Hs].
        cbn [rsmall] in Hsm. apply andb_true_iff in Hsm. exact (proj1 Hsm). }
      destruct (IH st cols H1 H2i Hdi) as [A B]. unfold c03_goal.
      change (map_of st (SReplace i []) cols) with (map_of st i cols).
      change (source (SReplace i [])) with (source i).
      pose proof (dense_tree_any i st (mkOpts cols false) H1 H2i) as D.
      split.
      * rewrite (proj1 (replace_nil_stream_attr st i cols cols D)). exact A.
      * intros Hk. cbn [k1_shape is_nil andb] in Hk.
        rewrite (replace_nil_mce st i cols H1 H2i (proj1 (Hd Hk))). exact (B Hk).
    + apply get_map_goal; try assumption; try reflexivity. apply Hd. reflexivity.
  - cbn [RStreamTree.rshape] in H1. discriminate.
Qed.

(* inside K1 map() is never None *)
Lemma k1_map_some : forall s st cols, RStreamTree.rshape s = true -> k1_shape s = true ->
  is_none (fst (map_of st s cols)) = false.
Proof.
  induction s as [b v|v|v|v n|v n m og im rm|cs|i IH rs|id i IH]; intros st cols H1 Hk;
    try (cbn [k1_shape] in Hk; discriminate).
  - destruct im as [x|]; [cbn [k1_shape] in Hk; discriminate|]. reflexivity.
  - cbn [k1_shape] in Hk. destruct rs as [|r rs]; [|cbn [is_nil andb] in Hk; discriminate].
    cbn [is_nil andb] in Hk. cbn [RStreamTree.rshape] in H1.
    change (map_of st (SReplace i []) cols) with (map_of st i cols). apply IH; assumption.
Qed.

(* ------------------------------------------------------------------ *)
(* the observations                                                    *)
(* ------------------------------------------------------------------ *)
Lemma chk_C03_unfold s st o :
  treeA s = true ->
  to_source o = source s ->
  to_streams o = map (fun op => fst (stream st s op)) all_opts ->
  to_maps o = [fst (map_of st s true); fst (map_of st s false)] ->
  (forall cols, attr_of_map (fst (map_of st s cols)) (source s) cols =
                attr_of_stream (fst (fst (stream st s (mkOpts cols false)))) cols) ->
  chk_C03 s o =
  if negb (Bool.eqb (is_none (fst (map_of st s true)))
                    (negb (mapped_chunk_exists (fst (fst (stream st s (mkOpts true false)))))))
  then (if k1_shape s then 51 else 3)
  else if negb (Bool.eqb (is_none (fst (map_of st s false)))
                         (negb (mapped_chunk_exists (fst (fst (stream st s (mkOpts false false)))))))
  then (if k1_shape s then 51 else 4) else 0.
Proof.
  intros Ha E1 E2 E3 Hattr. unfold chk_C03. rewrite Ha, E1, E2, E3. cbn [negb map all_opts fst].
  rewrite (attr_lists_eqb _ _ (Hattr true)), (attr_lists_eqb_fl _ _ (Hattr false)). reflexivity.
Qed.

(* the encoder-domain hypothesis is that of the C11 theorems: `WfAllChk.enc_small` *)
Lemma dom_of_enc st s : rsmall s = true -> enc_small st s -> forall cols, c03_dom st s cols.
Proof. intros H3 Hs cols. split; [exact H3|exact (Hs cols)]. Qed.

(* M4, from any store *)
Theorem chk_C03_model_any_store (s : src) (st : store) (o : tree_obs) :
  RStreamTree.rshape s = true -> treeA s = true -> rsmall s = true -> k1_shape s = false ->
  enc_small st s ->
  to_source o = source s ->
  to_streams o = map (fun op => fst (stream st s op)) all_opts ->
  to_maps o = [fst (map_of st s true); fst (map_of st s false)] ->
  chk_C03 s o = 0.
Proof.
  intros H1 H2 H3 Hk Hs E1 E2 E3.
  pose proof (fun cols => map_of_C03 s st cols H1 H2 (fun _ => dom_of_enc st s H3 Hs cols)) as G.
  rewrite (chk_C03_unfold s st o H2 E1 E2 E3 (fun cols => proj1 (G cols))).
  rewrite (proj2 (G true) Hk), (proj2 (G false) Hk), !Bool.eqb_reflx. reflexivity.
Qed.

(* outside K1 *)
Theorem chk_C03_tree (s : src) (ws : list (N * wop)) :
  RStreamTree.rshape s = true -> treeA s = true -> rsmall s = true -> k1_shape s = false ->
  enc_small [] s ->
  chk_C03 s (api_tree s ws) = 0.
Proof.
  intros H1 H2 H3 Hk Hs. rewrite (api_tree_rshape s ws H1).
  exact (chk_C03_model_any_store s [] (api_tree s []) H1 H2 H3 Hk Hs eq_refl eq_refl eq_refl).
Qed.

(* inside K1: exactly *)
Theorem chk_C03_tree_k1_exact (s : src) (ws : list (N * wop)) :
  RStreamTree.rshape s = true -> treeA s = true -> k1_shape s = true ->
  chk_C03 s (api_tree s ws) =
  if mapped_chunk_exists (fst (fst (stream [] s (mkOpts true false)))) &&
     mapped_chunk_exists (fst (fst (stream [] s (mkOpts false false))))
  then 0 else 51.
Proof.
  intros H1 H2 Hk. rewrite (api_tree_rshape s ws H1).
  assert (Hno : k1_shape s = false -> forall cols, c03_dom [] s cols) by (rewrite Hk; discriminate).
  pose proof (fun cols => map_of_C03 s [] cols H1 H2 (fun E => Hno E cols)) as G.
  rewrite (chk_C03_unfold s [] (api_tree s []) H2 eq_refl eq_refl eq_refl (fun cols => proj1 (G cols))).
  rewrite Hk, !(k1_map_some s [] _ H1 Hk).
  destruct (mapped_chunk_exists (fst (fst (stream [] s (mkOpts true false))))); cbn [negb Bool.eqb andb];
    [|reflexivity].
  destruct (mapped_chunk_exists (fst (fst (stream [] s (mkOpts false false))))); reflexivity.
Qed.

Corollary chk_C03_tree_k1 (s : src) (ws : list (N * wop)) :
  RStreamTree.rshape s = true -> treeA s = true -> k1_shape s = true ->
  chk_C03 s (api_tree s ws) = 0 \/ chk_C03 s (api_tree s ws) = 51.
Proof.
  intros H1 H2 Hk. rewrite (chk_C03_tree_k1_exact s ws H1 H2 Hk).
  destruct (_ && _); [left|right]; reflexivity.
Qed.

Corollary chk_C03_tree_any (s : src) (ws : list (N * wop)) :
  RStreamTree.rshape s = true -> treeA s = true -> rsmall s = true -> enc_small [] s ->
  chk_C03 s (api_tree s ws) = 0 \/ (k1_shape s = true /\ chk_C03 s (api_tree s ws) = 51).
Proof.
  intros H1 H2 H3 Hs. destruct (k1_shape s) eqn:Hk.
  - destruct (chk_C03_tree_k1 s ws H1 H2 Hk) as [E|E]; [left; exact E|right; split; [reflexivity|exact E]].
  - left. apply chk_C03_tree; assumption.
Qed.

(* the verdict is never one of the attribution clauses 1 / 2, the clause numbers 3 / 4 or the
   "wrong shape" verdict 9, K1 or not *)
Corollary chk_C03_tree_attr_clauses (s : src) (ws : list (N * wop)) :
  RStreamTree.rshape s = true -> treeA s = true -> rsmall s = true -> enc_small [] s ->
  ~ In (chk_C03 s (api_tree s ws)) [1; 2; 3; 4; 9; 100].
Proof.
  intros H1 H2 H3 Hs.
  destruct (chk_C03_tree_any s ws H1 H2 H3 Hs) as [E|[_ E]]; rewrite E; cbn [In];
    intros H; repeat (destruct H as [H|H]; [discriminate|]); exact H.
Qed.

(* ------------------------------------------------------------------ *)
(* trees with CachedSource nodes, first observation                    *)
(* ------------------------------------------------------------------ *)
Lemma uncache_k1 : forall s, k1_shape (uncache s) = k1_shape s.
Proof.
  induction s as [b v|v|v|v n|v n m og im rm|cs|i IH rs|id i IH]; try reflexivity.
  - cbn [uncache k1_shape]. rewrite IH. reflexivity.
  - cbn [uncache k1_shape]. exact IH.
Qed.

Lemma chk_C03_guard s s' o : treeA s = treeA s' -> k1_shape s = k1_shape s' ->
  chk_C03 s o = chk_C03 s' o.
Proof. intros E1 E2. unfold chk_C03. rewrite E1, E2. reflexivity. Qed.

Theorem chk_C03_cold (s : src) :
  ids_distinct s ->
  RStreamTree.rshape (uncache s) = true -> treeA s = true -> rsmall (uncache s) = true ->
  enc_small [] (uncache s) ->
  chk_C03 s (api_tree s []) = 0 \/ (k1_shape s = true /\ chk_C03 s (api_tree s []) = 51).
Proof.
  intros Hd H1 H2 H3 Hs. rewrite (api_tree_cold s Hd).
  rewrite (chk_C03_guard s (uncache s) _ (eq_sym (uncache_treeA s)) (eq_sym (uncache_k1 s))).
  rewrite <- (uncache_k1 s).
  apply chk_C03_tree_any; [exact H1|apply treeA_uncache; exact H2|exact H3|exact Hs].
Qed.

(* ------------------------------------------------------------------ *)
(* witnesses                                                           *)
(* ------------------------------------------------------------------ *)
(* K1 with verdict 51: the given map has one unmapped segment, map() returns it, no streamed
   chunk is mapped; also through a ReplaceSource without replacements *)
Definition k1_unmapped : src :=
  SMapped [97; 98] [109] (mkSmap None [65] [[115; 49]] [] [] None None) None None false.

Lemma k1_unmapped_verdict :
  RStreamTree.rshape k1_unmapped = true /\ treeA k1_unmapped = true /\ k1_shape k1_unmapped = true /\
  chk_C03 k1_unmapped (api_tree k1_unmapped []) = 51 /\
  chk_C03 (SReplace k1_unmapped []) (api_tree (SReplace k1_unmapped []) []) = 51.
Proof. vm_compute. repeat split; reflexivity. Qed.

(* K1 with verdict 0 (WfAllChk.k1_witness, rejected by chk_C11, passes chk_C03) *)
Lemma k1_witness_C03 : chk_C03 k1_witness (api_tree k1_witness []) = 0.
Proof. vm_compute. reflexivity. Qed.

Print Assumptions replace_nil_mce.
Print Assumptions map_of_C03.
Print Assumptions chk_C03_model_any_store.
Print Assumptions chk_C03_tree.
Print Assumptions chk_C03_tree_k1_exact.
Print Assumptions chk_C03_tree_k1.
Print Assumptions chk_C03_tree_any.
Print Assumptions chk_C03_tree_attr_clauses.
Print Assumptions chk_C03_cold.
Print Assumptions k1_unmapped_verdict.
Print Assumptions k1_witness_C03.
