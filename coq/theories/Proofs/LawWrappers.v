(* C13: the wrapper laws that hold of the model (Q3).
   (a) typed nesting is flattening, (b) a ConcatSource with one child is its child,
   (c) a ReplaceSource without replacements, (d) a CachedSource on a cold cache,
   (e) boxed nesting of ConcatSources, (f) empty neighbours in a ConcatSource. *)
From RS Require Import Base.Prelude Base.Text Rope.RopeModel Codec.Vlq Codec.CodecSpec
  Stream.Types Stream.Leaves Stream.Concat Stream.Replace Stream.Combined Stream.Tree
  Sem.Attr Checkers.ChkTree
  Proofs.StreamText Proofs.StreamLeaves Proofs.StreamConcat Proofs.StreamTree
  Proofs.RStreamText Proofs.WfStream Proofs.AttrCodec Proofs.LawConcatAttr.
Require Import Lia List.

Local Open Scope N_scope.

(* ------------------------------------------------------------------ *)
(* (a) typed nesting is flattening                                     *)
(* ------------------------------------------------------------------ *)
Definition children_of (s : src) : list src :=
  match s with SConcat cs => cs | _ => [s] end.

Definition item_children (it : citem) : list src :=
  match it with ITyped cs => cs | IBoxed s => [s] end.

Theorem concat_new_eq (items : list citem) :
  concat_new items = SConcat (flat_map item_children items).
Proof. reflexivity. Qed.

Theorem concat_new_nil : concat_new [] = SConcat [].
Proof. reflexivity. Qed.

Theorem concat_new_cons (it : citem) (items : list citem) :
  concat_new (it :: items) = SConcat (item_children it ++ children_of (concat_new items)).
Proof. reflexivity. Qed.

Theorem concat_new_app (xs ys : list citem) :
  concat_new (xs ++ ys) = SConcat (children_of (concat_new xs) ++ children_of (concat_new ys)).
Proof. unfold concat_new. cbn [children_of]. rewrite flat_map_app. reflexivity. Qed.

(* a typed ConcatSource item is the same as its children given one by one *)
Theorem concat_new_typed_flat (xs ys : list citem) (cs : list src) :
  concat_new (xs ++ ITyped cs :: ys) = concat_new (xs ++ map IBoxed cs ++ ys).
Proof.
  assert (E : forall cs, flat_map item_children (map IBoxed cs) = cs).
  { induction cs0 as [|c cs0 IH]; [reflexivity|]. cbn [map flat_map item_children app]. rewrite IH. reflexivity. }
  rewrite !concat_new_eq, !flat_map_app. cbn [flat_map item_children]. rewrite E. reflexivity.
Qed.

Theorem concat_new_nested (a b c : src) :
  concat_new (IBoxed a :: [ITyped [b; c]]) = SConcat [a; b; c].
Proof. reflexivity. Qed.

(* hence identical observations *)
Corollary concat_new_nested_obs (st : store) (o : opts) (cols : bool) (a b c : src) :
  stream st (concat_new (IBoxed a :: [ITyped [b; c]])) o = stream st (SConcat [a; b; c]) o /\
  map_of st (concat_new (IBoxed a :: [ITyped [b; c]])) cols = map_of st (SConcat [a; b; c]) cols /\
  source (concat_new (IBoxed a :: [ITyped [b; c]])) = source (SConcat [a; b; c]) /\
  buffer (concat_new (IBoxed a :: [ITyped [b; c]])) = buffer (SConcat [a; b; c]).
Proof. rewrite concat_new_nested. repeat split; reflexivity. Qed.

Corollary concat_new_typed_flat_obs (st : store) (o : opts) (cols : bool) xs ys cs :
  stream st (concat_new (xs ++ ITyped cs :: ys)) o = stream st (concat_new (xs ++ map IBoxed cs ++ ys)) o /\
  map_of st (concat_new (xs ++ ITyped cs :: ys)) cols = map_of st (concat_new (xs ++ map IBoxed cs ++ ys)) cols /\
  source (concat_new (xs ++ ITyped cs :: ys)) = source (concat_new (xs ++ map IBoxed cs ++ ys)).
Proof. rewrite concat_new_typed_flat. repeat split; reflexivity. Qed.

(* ------------------------------------------------------------------ *)
(* (b) a single child                                                  *)
(* ------------------------------------------------------------------ *)
Theorem concat_single_stream (st : store) (a : src) (o : opts) :
  stream st (SConcat [a]) o = stream st a o.
Proof. reflexivity. Qed.

Theorem concat_single_source (a : src) : source (SConcat [a]) = source a.
Proof. cbn [source map concat]. apply app_nil_r. Qed.

Theorem concat_single_buffer (a : src) : buffer (SConcat [a]) = buffer a.
Proof. cbn [buffer map concat]. apply app_nil_r. Qed.

Theorem concat_single_size (a : src) : size (SConcat [a]) = size a.
Proof. cbn [size fold_right]. lia. Qed.

Theorem concat_single_rope (a : src) : rope_of (SConcat [a]) = rope_of a.
Proof. reflexivity. Qed.

Theorem concat_single_writer (a : src) : writer_calls (SConcat [a]) = writer_calls a.
Proof. cbn [writer_calls flat_map]. apply app_nil_r. Qed.

(* map() of a ConcatSource is always computed from its stream *)
Theorem concat_single_map (st : store) (a : src) (cols : bool) :
  map_of st (SConcat [a]) cols = get_map st a cols.
Proof. reflexivity. Qed.

(* ------------------------------------------------------------------ *)
(* (c) no replacements (text and map; the stream is below)              *)
(* ------------------------------------------------------------------ *)
Theorem replace_nil_map (st : store) (a : src) (cols : bool) :
  map_of st (SReplace a []) cols = map_of st a cols.
Proof. reflexivity. Qed.

Theorem replace_nil_source (a : src) : source (SReplace a []) = source a.
Proof. reflexivity. Qed.

Theorem replace_nil_buffer (a : src) : buffer (SReplace a []) = source a.
Proof. reflexivity. Qed.

Theorem replace_nil_stream_eq (st : store) (a : src) (o : opts) :
  stream st (SReplace a []) o =
  (replace_stream [] (fst (fst (stream st a (mkOpts (columns o) false))))
                     (snd (fst (stream st a (mkOpts (columns o) false)))),
   snd (stream st a (mkOpts (columns o) false))).
Proof.
  cbn [stream]. destruct (stream st a (mkOpts (columns o) false)) as [[ievs gi] st']. reflexivity.
Qed.

(* chunk texts: those of the inner stream, empty chunks dropped *)
Theorem replace_nil_stream_texts (st : store) (a : src) (cols : bool) :
  chunk_texts (fst (fst (stream st (SReplace a []) (mkOpts cols false)))) =
  filter kept_chunk (chunk_texts (fst (fst (stream st a (mkOpts cols false))))).
Proof.
  rewrite replace_nil_stream_eq. cbn [fst snd columns]. apply replace_stream_nil_texts.
Qed.

Theorem replace_nil_stream_store (st : store) (a : src) (cols : bool) :
  snd (stream st (SReplace a []) (mkOpts cols false)) = snd (stream st a (mkOpts cols false)).
Proof. rewrite replace_nil_stream_eq. reflexivity. Qed.

(* ------------------------------------------------------------------ *)
(* (d) CachedSource on a cold cache                                    *)
(* ------------------------------------------------------------------ *)
Theorem cached_cold_stream (st : store) (id : N) (a : src) (o : opts) :
  cache_get (store_get st id) o = None ->
  fst (stream st (SCached id a) o) = fst (stream st a o).
Proof.
  intros H. cbn [stream]. rewrite H.
  destruct (stream st a o) as [[evs gi] st']. reflexivity.
Qed.

Theorem cached_cold_source (id : N) (a : src) : source (SCached id a) = source a.
Proof. reflexivity. Qed.

(* store_put then store_get *)
Lemma cache_get_app_none c o k v : cache_get c o = None ->
  cache_get (c ++ [(k, v)]) o = if opts_eqb k o then Some v else None.
Proof.
  induction c as [|[k' v'] c IH]; intros H; [reflexivity|].
  cbn [cache_get app] in *. destruct (opts_eqb k' o); [discriminate|]. apply IH. exact H.
Qed.

Lemma opts_eqb_refl o : opts_eqb o o = true.
Proof. unfold opts_eqb. destruct (columns o), (final_source o); reflexivity. Qed.

Lemma store_get_put_same st id o v :
  cache_get (store_get (store_put st id o v) id) o =
  match cache_get (store_get st id) o with Some x => Some x | None => Some v end.
Proof.
  induction st as [|[k c] st IH].
  - cbn [store_put store_get]. rewrite N.eqb_refl. cbn [cache_get]. rewrite opts_eqb_refl. reflexivity.
  - cbn [store_put store_get]. destruct (k =? id) eqn:E.
    + cbn [store_get]. rewrite E. destruct (cache_get c o) as [x|] eqn:G.
      * rewrite G. reflexivity.
      * rewrite cache_get_app_none by exact G. rewrite opts_eqb_refl. reflexivity.
    + cbn [store_get]. rewrite E. exact IH.
Qed.

Lemma store_get_put_other st id id' o v : id' <> id ->
  store_get (store_put st id' o v) id = store_get st id.
Proof.
  intros Hne. induction st as [|[k c] st IH].
  - cbn [store_put store_get]. replace (id' =? id) with false by (symmetry; apply N.eqb_neq; exact Hne).
    reflexivity.
  - cbn [store_put store_get]. destruct (k =? id') eqn:E.
    + apply N.eqb_eq in E. subst k. cbn [store_get].
      replace (id' =? id) with false by (symmetry; apply N.eqb_neq; exact Hne). reflexivity.
    + cbn [store_get]. destruct (k =? id); [reflexivity|exact IH].
Qed.

(* map(): the wrapped source's map, when evaluating the wrapped source leaves no entry
   for (columns, false) in this cache *)
Theorem cached_cold_map (st : store) (id : N) (a : src) (cols : bool) :
  cache_get (store_get st id) (mkOpts cols false) = None ->
  cache_get (store_get (snd (map_of st a cols)) id) (mkOpts cols false) = None ->
  fst (map_of st (SCached id a) cols) = fst (map_of st a cols).
Proof.
  intros H1 H2. cbn [map_of]. rewrite H1.
  destruct (map_of st a cols) as [m st'] eqn:E. cbn [fst snd] in *.
  rewrite store_get_put_same, H2. reflexivity.
Qed.

(* the trees of the library: a CachedSource is never nested in a clone of itself *)
Fixpoint has_id (id : N) (s : src) : bool :=
  match s with
  | SCached k inner => (k =? id) || has_id id inner
  | SConcat cs => existsb (has_id id) cs
  | SReplace inner _ => has_id id inner
  | _ => false
  end.

Definition keeps_id (id : N) (s : src) : Prop :=
  (forall st o, store_get (snd (stream st s o)) id = store_get st id) /\
  (forall st cols, store_get (snd (map_of st s cols)) id = store_get st id).

Lemma cfold_keeps id o cs : Forall (keeps_id id) cs -> forall cst evs st,
  store_get (snd (fold_left (cfold_step o) cs (cst, evs, st))) id = store_get st id.
Proof.
  induction 1 as [|c cs Hc _ IH]; intros cst evs st; [reflexivity|].
  cbn [fold_left]. rewrite cfold_step_eq. destruct Hc as [Hc _]. specialize (Hc st o).
  destruct (stream st c o) as [[cevs gi] st1]. cbn [snd] in Hc.
  destruct (concat_child (final_source o) cst cevs gi) as [cst' out]. rewrite IH. exact Hc.
Qed.

Lemma keeps_stream_get_map id s :
  (forall st o, store_get (snd (stream st s o)) id = store_get st id) ->
  forall st cols, store_get (snd (get_map st s cols)) id = store_get st id.
Proof.
  intros H st cols. unfold get_map. specialize (H st (mkOpts cols true)).
  destruct (stream st s (mkOpts cols true)) as [[evs gi] st']. exact H.
Qed.

Lemma no_id_keeps id : forall s, has_id id s = false -> keeps_id id s.
Proof.
  apply (src_ind' (fun s => has_id id s = false -> keeps_id id s)).
  - intros b v _. split; intros; reflexivity.
  - intros v _. split; intros; reflexivity.
  - intros v _. split; intros; reflexivity.
  - intros v n _.
    assert (S : forall st o, store_get (snd (stream st (SOriginal v n) o)) id = store_get st id)
      by (intros; reflexivity).
    split; [exact S|]. intros st cols. apply (keeps_stream_get_map id _ S).
  - intros v n m og i r _.
    assert (S : forall st o, store_get (snd (stream st (SMapped v n m og i r) o)) id = store_get st id)
      by (intros st o; cbn [stream]; destruct i; reflexivity).
    split; [exact S|]. intros st cols. destruct i as [im|]; [|reflexivity].
    apply (keeps_stream_get_map id _ S).
  - intros cs IH Hid. cbn [has_id] in Hid.
    assert (Hall : Forall (keeps_id id) cs).
    { rewrite Forall_forall in *. intros c Hc. apply IH; [exact Hc|].
      destruct (has_id id c) eqn:E; [|reflexivity].
      assert (X : existsb (has_id id) cs = true) by (apply existsb_exists; exists c; split; assumption).
      congruence. }
    assert (S : forall st o, store_get (snd (stream st (SConcat cs) o)) id = store_get st id).
    { intros st o. rewrite stream_concat_eq. destruct cs as [|c [|c2 r]].
      - reflexivity.
      - inversion Hall as [|? ? [Hc _] _]. apply Hc.
      - pose proof (cfold_keeps id o (c :: c2 :: r) Hall concat_init [] st) as A.
        destruct (fold_left (cfold_step o) (c :: c2 :: r) (concat_init, [], st)) as [[cst evs] st'].
        exact A. }
    split; [exact S|]. intros st cols. apply (keeps_stream_get_map id _ S).
  - intros i rs IH Hid. cbn [has_id] in Hid. destruct (IH Hid) as [A B].
    assert (S : forall st o, store_get (snd (stream st (SReplace i rs) o)) id = store_get st id).
    { intros st o. cbn [stream]. specialize (A st (mkOpts (columns o) false)).
      destruct (stream st i (mkOpts (columns o) false)) as [[ievs gi] st']. exact A. }
    split; [exact S|]. intros st cols. cbn [map_of]. destruct (is_nil rs); [apply B|].
    apply (keeps_stream_get_map id _ S).
  - intros k i IH Hid. cbn [has_id] in Hid. apply orb_false_iff in Hid. destruct Hid as [Hk Hid].
    apply N.eqb_neq in Hk. destruct (IH Hid) as [A B]. split.
    + intros st o. cbn [stream]. destruct (cache_get (store_get st k) o) as [[m|]|]; try reflexivity.
      specialize (A st o). destruct (stream st i o) as [[evs gi] st']. cbn [snd] in *.
      rewrite store_get_put_other by exact Hk. exact A.
    + intros st cols. cbn [map_of]. destruct (cache_get (store_get st k) (mkOpts cols false)); [reflexivity|].
      specialize (B st cols). destruct (map_of st i cols) as [m st']. cbn [snd] in *.
      rewrite store_get_put_other by exact Hk. exact B.
Qed.

Corollary cached_cold_map_tree (st : store) (id : N) (a : src) (cols : bool) :
  has_id id a = false ->
  cache_get (store_get st id) (mkOpts cols false) = None ->
  fst (map_of st (SCached id a) cols) = fst (map_of st a cols).
Proof.
  intros Hid H. apply cached_cold_map; [exact H|].
  destruct (no_id_keeps id a Hid) as [_ B]. rewrite B. exact H.
Qed.

(* Without the second hypothesis of `cached_cold_map` the law
     cache_get (store_get st id) (mkOpts cols false) = None ->
     fst (map_of st (SCached id a) cols) = fst (map_of st a cols)
   is FALSE of the model: when `a` contains a CachedSource with the same id (same caches)
   below a ReplaceSource with a replacement, evaluating `a` fills the entry (columns, false)
   with the map of the INNER node, and `or_insert` hands that one back.  The Rust API cannot
   build this tree (the wrapped source exists before the CachedSource and its clones do), so
   this is a remark on the model's domain, not a finding. *)
Example cached_cold_map_counterexample :
  let x := SOriginal [97] [102] in
  let a := SReplace (SCached 7 x) [mkRepl 0 0 [10] None 1] in
  cache_get (store_get [] 7) (mkOpts true false) = None /\
  fst (map_of [] (SCached 7 a) true) <> fst (map_of [] a true).
Proof. split; [reflexivity|]. vm_compute. discriminate. Qed.

(* ------------------------------------------------------------------ *)
(* (c) no replacements: the stream                                     *)
(* ------------------------------------------------------------------ *)
Lemma replace_chunk_nil_eq st chunk m : rs_rest st = [] -> rs_rend st = None ->
  replace_chunk st chunk m =
  (set_pos st (rs_pos st + len chunk),
   if 0 <? len chunk then
     [EChunk (Some chunk)
        (mkMapping (wrap32z (Z.of_N (g_line m) + rs_loff st))
           (out_col st (Z.of_N (g_line m) + rs_loff st) (g_col m))
           (match m_orig m with Some o => Some (map_name st o) | None => None end))]
   else []).
Proof.
  intros H1 H2. rewrite RStreamText.replace_chunk_eq. unfold chunk_entry. rewrite H2. cbn zeta. cbn iota.
  rewrite H1, repl_loop_nil. cbn iota. cbn [v_cpos v_gc v_orig fst snd app]. reflexivity.
Qed.

(* ReplaceSource re-announces names through its own tables: rs_name_idx translates the inner
   name table into rs_names, string by string; sources pass through unchanged *)
Record pinv (st : rstate) (cn : list text) : Prop := mkPinv {
  pi_rest : rs_rest st = [];
  pi_rend : rs_rend st = None;
  pi_name : ren_ok (rs_name_idx st) cn (rs_names st) }.

Lemma replace_event_nil_attr st e evs cs cn :
  pinv st cn -> dense (e :: evs) (len cs) (len cn) = true ->
  pinv (fst (replace_event st e)) (snd (tabs [e] cs cn)) /\
  dense evs (len (fst (tabs [e] cs cn))) (len (snd (tabs [e] cs cn))) = true /\
  tabs (snd (replace_event st e)) cs (rs_names st)
  = (fst (tabs [e] cs cn), rs_names (fst (replace_event st e))) /\
  dense (snd (replace_event st e)) (len cs) (len (rs_names st)) = true /\
  filter live (ta (rsegs_of_events (snd (replace_event st e)) cs (rs_names st)))
  = filter live (ta (rsegs_of_events [e] cs cn)).
Proof.
  intros [H1 H2 Hn] Hd. destruct e as [[chunk|] m|i name content|i name].
  - (* text chunk *)
    cbn [replace_event]. rewrite (replace_chunk_nil_eq st chunk m H1 H2). cbn [fst snd tabs].
    cbn [dense] in Hd. apply andb_true_iff in Hd. destruct Hd as [Hm Hd].
    split; [constructor; cbn [set_pos rs_rest rs_rend rs_name_idx rs_names]; assumption|].
    split; [exact Hd|]. cbn [set_pos rs_names].
    destruct chunk as [|b t].
    + change (0 <? len (@nil N)) with false. cbn iota. repeat split; reflexivity.
    + replace (0 <? len (b :: t)) with true by (symmetry; apply N.ltb_lt; rewrite slen_cons; lia).
      cbn iota. destruct (m_orig m) as [o|] eqn:Eo.
      * apply andb_true_iff in Hm. destruct Hm as [Ho Hna].
        destruct (o_name o) as [k|] eqn:Ek.
        -- apply N.ltb_lt in Hna. destruct (snth_lt_some cn k Hna) as [y Hy].
           destruct (Hn _ _ Hy) as [gk [K1 K2]].
           pose proof (snth_some_lt _ _ _ K2) as Kl. apply N.ltb_lt in Kl.
           split; [reflexivity|]. split.
           { cbn [dense m_orig map_name o_src o_name]. rewrite Ek, K1, Ho, Kl. reflexivity. }
           f_equal. unfold ta. cbn [rsegs_of_events map fst snd m_orig map_name o_src o_line o_col o_name].
           rewrite Eo. cbn [o_src o_name]. rewrite Ek, K1, K2, Hy. reflexivity.
        -- split; [reflexivity|]. split.
           { cbn [dense m_orig map_name o_src o_name]. rewrite Ek, Ho. reflexivity. }
           f_equal. unfold ta. cbn [rsegs_of_events map fst snd m_orig map_name o_src o_line o_col o_name].
           rewrite Eo. cbn [o_src o_name]. rewrite Ek. reflexivity.
      * split; [reflexivity|]. split; [reflexivity|].
        f_equal. unfold ta. cbn [rsegs_of_events map fst snd m_orig]. rewrite Eo. reflexivity.
  - (* chunk without text *)
    cbn [replace_event fst snd tabs]. cbn [dense] in Hd. apply andb_true_iff in Hd. destruct Hd as [_ Hd].
    split; [constructor; assumption|]. split; [exact Hd|]. repeat split; reflexivity.
  - (* source *)
    cbn [dense] in Hd. apply andb_true_iff in Hd. destruct Hd as [Hi Hd]. apply N.eqb_eq in Hi. subst i.
    cbn [replace_event fst snd tabs rs_names]. rewrite lm_insert_next, slen_snoc.
    split; [constructor; cbn [rs_rest rs_rend rs_name_idx rs_names]; assumption|].
    split; [exact Hd|]. split; [reflexivity|]. split; [|reflexivity].
    cbn [dense]. rewrite N.eqb_refl. reflexivity.
  - (* name *)
    cbn [dense] in Hd. apply andb_true_iff in Hd. destruct Hd as [Hi Hd]. apply N.eqb_eq in Hi. subst i.
    cbn [tabs fst snd]. rewrite lm_insert_next, slen_snoc.
    cbn [replace_event]. destruct (find_text (rs_names st) name 0) as [g|] eqn:E; cbn [fst snd rs_names].
    + split.
      { constructor; cbn [rs_rest rs_rend rs_name_idx rs_names]; [exact H1|exact H2|].
        apply ren_ok_insert; [exact Hn|apply find_text_nth0; exact E]. }
      split; [exact Hd|]. repeat split; reflexivity.
    + split.
      { constructor; cbn [rs_rest rs_rend rs_name_idx rs_names]; [exact H1|exact H2|].
        apply ren_ok_insert; [apply ren_ok_grow; exact Hn|apply snth_len_snoc]. }
      split; [exact Hd|]. split; [cbn [tabs]; rewrite lm_insert_next; reflexivity|].
      split; [|reflexivity]. cbn [dense]. rewrite N.eqb_refl. reflexivity.
Qed.

Lemma tabs_cons e evs s n : tabs (e :: evs) s n = tabs evs (fst (tabs [e] s n)) (snd (tabs [e] s n)).
Proof. apply (tabs_app [e] evs). Qed.

Lemma rsegs_cons e evs s n :
  rsegs_of_events (e :: evs) s n =
  rsegs_of_events [e] s n ++ rsegs_of_events evs (fst (tabs [e] s n)) (snd (tabs [e] s n)).
Proof. apply (rsegs_app [e] evs). Qed.

Lemma replace_events_nil_attr evs : forall st cs cn,
  pinv st cn -> dense evs (len cs) (len cn) = true ->
  rs_rest (fst (replace_events st evs)) = [] /\
  tabs (snd (replace_events st evs)) cs (rs_names st)
  = (fst (tabs evs cs cn), rs_names (fst (replace_events st evs))) /\
  dense (snd (replace_events st evs)) (len cs) (len (rs_names st)) = true /\
  filter live (ta (rsegs_of_events (snd (replace_events st evs)) cs (rs_names st)))
  = filter live (ta (rsegs_of_events evs cs cn)).
Proof.
  induction evs as [|e evs IH]; intros st cs cn HI Hd.
  - cbn [replace_events fst snd tabs]. split; [apply HI|]. repeat split; reflexivity.
  - cbn [replace_events]. pose proof (replace_event_nil_attr st e evs cs cn HI Hd) as [A1 [A2 [A3 [A4 A5]]]].
    destruct (replace_event st e) as [st1 o1]. cbn [fst snd] in *.
    pose proof (IH st1 _ _ A1 A2) as [B1 [B2 [B3 B4]]].
    destruct (replace_events st1 evs) as [st2 o2]. cbn [fst snd] in *.
    split; [exact B1|]. split; [|split].
    + rewrite tabs_app, A3. cbn [fst snd]. rewrite B2, (tabs_cons e evs). reflexivity.
    + apply dense_app_true; [exact A4|]. rewrite A3. cbn [fst snd]. exact B3.
    + rewrite rsegs_app, A3. cbn [fst snd]. rewrite ta_app, filter_app, A5, B4.
      rewrite (rsegs_cons e evs), ta_app, filter_app. reflexivity.
Qed.

Theorem replace_stream_nil_ta (ievs : list event) (gi : N * N) :
  dense ievs 0 0 = true ->
  filter live (ta (rsegs_of_events (fst (replace_stream [] ievs gi)) [] []))
  = filter live (ta (rsegs_of_events ievs [] [])) /\
  dense (fst (replace_stream [] ievs gi)) 0 0 = true.
Proof.
  intros Hd. unfold replace_stream.
  assert (HI : pinv (replace_init []) []) by (constructor; [reflexivity|reflexivity|apply ren_ok_nil]).
  pose proof (replace_events_nil_attr ievs (replace_init []) [] [] HI Hd) as [A1 [_ [A3 A4]]].
  destruct (replace_events (replace_init []) ievs) as [st evs]. cbn [fst snd] in *.
  rewrite A1. cbn [map concat]. change (split_lines []) with (@nil text). cbn [emit_remainder fst].
  rewrite app_nil_r. split; [exact A4|exact A3].
Qed.

(* the attribution of every output byte is unchanged, with and without columns *)
Theorem replace_stream_nil_attr (ievs : list event) (gi : N * N) (c : bool) :
  dense ievs 0 0 = true ->
  attr_of_stream (fst (replace_stream [] ievs gi)) c = attr_of_stream ievs c.
Proof.
  intros Hd. apply ta_live_attr_of_stream. apply (replace_stream_nil_ta ievs gi Hd).
Qed.

Theorem replace_nil_stream_attr (st : store) (a : src) (cols c : bool) :
  dense (fst (fst (stream st a (mkOpts cols false)))) 0 0 = true ->
  attr_of_stream (fst (fst (stream st (SReplace a []) (mkOpts cols false)))) c
  = attr_of_stream (fst (fst (stream st a (mkOpts cols false)))) c /\
  dense (fst (fst (stream st (SReplace a []) (mkOpts cols false)))) 0 0 = true.
Proof.
  intros Hd. rewrite replace_nil_stream_eq. cbn [fst snd columns].
  split; [apply replace_stream_nil_attr; exact Hd|apply replace_stream_nil_ta; exact Hd].
Qed.

(* ------------------------------------------------------------------ *)
(* ConcatSource over its children's streams                            *)
(* ------------------------------------------------------------------ *)
Definition evs_of (r : list event * (N * N) * store) : list event := fst (fst r).
Definition tas (evs : list event) : list tattr := ta (rsegs_of_events evs [] []).

Lemma concat_kids_ta st cs cols : length cs <> 1%nat ->
  Forall (fun k => dense (fst k) 0 0 = true) (fst (kid_streams st cs (mkOpts cols false))) ->
  tas (evs_of (stream st (SConcat cs) (mkOpts cols false)))
  = flat_map (fun k => tas (fst k)) (fst (kid_streams st cs (mkOpts cols false))) /\
  dense (evs_of (stream st (SConcat cs) (mkOpts cols false))) 0 0 = true /\
  snd (stream st (SConcat cs) (mkOpts cols false)) = snd (kid_streams st cs (mkOpts cols false)).
Proof.
  intros Hl Hd. rewrite (stream_concat_fold st cs _ Hl). unfold evs_of, tas. cbn [fst snd final_source].
  split; [apply concat_fold_ta; exact Hd|]. split; [apply concat_fold_dense; exact Hd|reflexivity].
Qed.

Lemma tas_attr a b c : tas a = tas b -> attr_of_stream a c = attr_of_stream b c.
Proof. apply ta_attr_of_stream. Qed.

Lemma tas_texts a b : tas a = tas b -> chunk_texts a = chunk_texts b.
Proof. unfold tas. intros H. rewrite <- (ta_texts a [] []), <- (ta_texts b [] []), H. reflexivity. Qed.

(* ------------------------------------------------------------------ *)
(* (e) boxed nesting                                                   *)
(* ------------------------------------------------------------------ *)
Theorem concat_nest_right_ta (st : store) (a b c : src) (cols : bool) :
  Forall (fun k => dense (fst k) 0 0 = true) (fst (kid_streams st [a; b; c] (mkOpts cols false))) ->
  tas (evs_of (stream st (SConcat [a; SConcat [b; c]]) (mkOpts cols false)))
  = tas (evs_of (stream st (SConcat [a; b; c]) (mkOpts cols false))) /\
  snd (stream st (SConcat [a; SConcat [b; c]]) (mkOpts cols false))
  = snd (stream st (SConcat [a; b; c]) (mkOpts cols false)).
Proof.
  intros Hd.
  destruct (concat_kids_ta st [a; b; c] cols) as [R1 [_ R3]]; [discriminate|exact Hd|].
  rewrite R1, R3. clear R1 R3.
  assert (Hd2 : Forall (fun k => dense (fst k) 0 0 = true)
                       (fst (kid_streams st [a; SConcat [b; c]] (mkOpts cols false))) /\
                flat_map (fun k => tas (fst k)) (fst (kid_streams st [a; SConcat [b; c]] (mkOpts cols false)))
                = flat_map (fun k => tas (fst k)) (fst (kid_streams st [a; b; c] (mkOpts cols false))) /\
                snd (kid_streams st [a; SConcat [b; c]] (mkOpts cols false))
                = snd (kid_streams st [a; b; c] (mkOpts cols false))).
  { cbn [kid_streams] in *. destruct (stream st a (mkOpts cols false)) as [[ea ga] st1].
    destruct (concat_kids_ta st1 [b; c] cols) as [I1 [I2 I3]]; [discriminate| |].
    { cbn [kid_streams]. destruct (stream st1 b (mkOpts cols false)) as [[eb gb] st2].
      destruct (stream st2 c (mkOpts cols false)) as [[ec gc] st3]. cbn [fst snd] in *.
      inversion Hd. assumption. }
    unfold evs_of in *.
    destruct (stream st1 (SConcat [b; c]) (mkOpts cols false)) as [[ebc gbc] st3'] eqn:Ebc.
    cbn [fst snd kid_streams] in *.
    destruct (stream st1 b (mkOpts cols false)) as [[eb gb] st2].
    destruct (stream st2 c (mkOpts cols false)) as [[ec gc] st3]. cbn [fst snd flat_map] in *.
    inversion Hd as [|? ? Ha Hbc]. subst.
    split; [constructor; [exact Ha|constructor; [exact I2|constructor]]|].
    split; [rewrite I1; rewrite !app_nil_r; reflexivity|reflexivity]. }
  destruct Hd2 as [D1 [D2 D3]].
  destruct (concat_kids_ta st [a; SConcat [b; c]] cols) as [L1 [_ L3]]; [discriminate|exact D1|].
  rewrite L1, L3. split; assumption.
Qed.

Theorem concat_nest_left_ta (st : store) (a b c : src) (cols : bool) :
  Forall (fun k => dense (fst k) 0 0 = true) (fst (kid_streams st [a; b; c] (mkOpts cols false))) ->
  tas (evs_of (stream st (SConcat [SConcat [a; b]; c]) (mkOpts cols false)))
  = tas (evs_of (stream st (SConcat [a; b; c]) (mkOpts cols false))) /\
  snd (stream st (SConcat [SConcat [a; b]; c]) (mkOpts cols false))
  = snd (stream st (SConcat [a; b; c]) (mkOpts cols false)).
Proof.
  intros Hd.
  destruct (concat_kids_ta st [a; b; c] cols) as [R1 [_ R3]]; [discriminate|exact Hd|].
  rewrite R1, R3. clear R1 R3.
  assert (Hd2 : Forall (fun k => dense (fst k) 0 0 = true)
                       (fst (kid_streams st [SConcat [a; b]; c] (mkOpts cols false))) /\
                flat_map (fun k => tas (fst k)) (fst (kid_streams st [SConcat [a; b]; c] (mkOpts cols false)))
                = flat_map (fun k => tas (fst k)) (fst (kid_streams st [a; b; c] (mkOpts cols false))) /\
                snd (kid_streams st [SConcat [a; b]; c] (mkOpts cols false))
                = snd (kid_streams st [a; b; c] (mkOpts cols false))).
  { destruct (concat_kids_ta st [a; b] cols) as [I1 [I2 I3]]; [discriminate| |].
    { cbn [kid_streams] in *. destruct (stream st a (mkOpts cols false)) as [[ea ga] st1].
      destruct (stream st1 b (mkOpts cols false)) as [[eb gb] st2].
      destruct (stream st2 c (mkOpts cols false)) as [[ec gc] st3]. cbn [fst snd] in *.
      inversion Hd as [|? ? Ha Hbc]. inversion Hbc as [|? ? Hb Hc]. subst.
      constructor; [exact Ha|constructor; [exact Hb|constructor]]. }
    unfold evs_of in *. cbn [kid_streams] in *.
    destruct (stream st (SConcat [a; b]) (mkOpts cols false)) as [[eab gab] st2'] eqn:Eab.
    destruct (stream st a (mkOpts cols false)) as [[ea ga] st1].
    destruct (stream st1 b (mkOpts cols false)) as [[eb gb] st2].
    cbn [fst snd] in *. subst st2'.
    destruct (stream st2 c (mkOpts cols false)) as [[ec gc] st3]. cbn [fst snd flat_map] in *.
    inversion Hd as [|? ? Ha Hbc]. inversion Hbc as [|? ? Hb Hc]. subst.
    split; [constructor; [exact I2|exact Hc]|].
    split; [rewrite I1; rewrite !app_nil_r, <- app_assoc; reflexivity|reflexivity]. }
  destruct Hd2 as [D1 [D2 D3]].
  destruct (concat_kids_ta st [SConcat [a; b]; c] cols) as [L1 [_ L3]]; [discriminate|exact D1|].
  rewrite L1, L3. split; assumption.
Qed.

(* as asked: per-byte attribution and chunk texts (hence the reassembled text) coincide *)
Theorem concat_nest_right (st : store) (a b c : src) (cols cl : bool) :
  Forall (fun k => dense (fst k) 0 0 = true) (fst (kid_streams st [a; b; c] (mkOpts cols false))) ->
  attr_of_stream (evs_of (stream st (SConcat [a; SConcat [b; c]]) (mkOpts cols false))) cl
  = attr_of_stream (evs_of (stream st (SConcat [a; b; c]) (mkOpts cols false))) cl /\
  chunk_texts (evs_of (stream st (SConcat [a; SConcat [b; c]]) (mkOpts cols false)))
  = chunk_texts (evs_of (stream st (SConcat [a; b; c]) (mkOpts cols false))) /\
  (forall t, reassembles (evs_of (stream st (SConcat [a; SConcat [b; c]]) (mkOpts cols false))) t
             = reassembles (evs_of (stream st (SConcat [a; b; c]) (mkOpts cols false))) t).
Proof.
  intros Hd. destruct (concat_nest_right_ta st a b c cols Hd) as [A _].
  split; [apply tas_attr; exact A|]. pose proof (tas_texts _ _ A) as T. split; [exact T|].
  intros t. unfold reassembles. rewrite T. reflexivity.
Qed.

Theorem concat_nest_left (st : store) (a b c : src) (cols cl : bool) :
  Forall (fun k => dense (fst k) 0 0 = true) (fst (kid_streams st [a; b; c] (mkOpts cols false))) ->
  attr_of_stream (evs_of (stream st (SConcat [SConcat [a; b]; c]) (mkOpts cols false))) cl
  = attr_of_stream (evs_of (stream st (SConcat [a; b; c]) (mkOpts cols false))) cl /\
  chunk_texts (evs_of (stream st (SConcat [SConcat [a; b]; c]) (mkOpts cols false)))
  = chunk_texts (evs_of (stream st (SConcat [a; b; c]) (mkOpts cols false))) /\
  (forall t, reassembles (evs_of (stream st (SConcat [SConcat [a; b]; c]) (mkOpts cols false))) t
             = reassembles (evs_of (stream st (SConcat [a; b; c]) (mkOpts cols false))) t).
Proof.
  intros Hd. destruct (concat_nest_left_ta st a b c cols Hd) as [A _].
  split; [apply tas_attr; exact A|]. pose proof (tas_texts _ _ A) as T. split; [exact T|].
  intros t. unfold reassembles. rewrite T. reflexivity.
Qed.

(* ------------------------------------------------------------------ *)
(* (f) empty neighbours                                                *)
(* ------------------------------------------------------------------ *)
Definition empty_leaf (s : src) : bool :=
  match s with
  | SRaw _ [] | SRawString [] | SRawBuffer [] | SOriginal [] _ | SConcat [] => true
  | _ => false
  end.

Lemma empty_leaf_stream s st cols : empty_leaf s = true ->
  tas (evs_of (stream st s (mkOpts cols false))) = [] /\
  dense (evs_of (stream st s (mkOpts cols false))) 0 0 = true /\
  snd (stream st s (mkOpts cols false)) = st /\
  source s = [].
Proof.
  destruct s as [b v|v|v|v n|v n m og i r|cs|i rs|id i]; cbn [empty_leaf]; try discriminate.
  - destruct v; [|discriminate]. intros _. destruct b; repeat split; reflexivity.
  - destruct v; [|discriminate]. intros _. repeat split; reflexivity.
  - destruct v; [|discriminate]. intros _. repeat split; reflexivity.
  - destruct v; [|discriminate]. intros _. destruct cols; repeat split; reflexivity.
  - destruct cs; [|discriminate]. intros _. repeat split; reflexivity.
Qed.

Theorem concat_empty_neighbours_ta (st : store) (e a e' : src) (cols : bool) :
  empty_leaf e = true -> empty_leaf e' = true ->
  dense (evs_of (stream st a (mkOpts cols false))) 0 0 = true ->
  tas (evs_of (stream st (SConcat [e; a; e']) (mkOpts cols false)))
  = tas (evs_of (stream st a (mkOpts cols false))) /\
  snd (stream st (SConcat [e; a; e']) (mkOpts cols false)) = snd (stream st a (mkOpts cols false)).
Proof.
  intros He He' Hd.
  destruct (empty_leaf_stream e st cols He) as [E1 [E2 [E3 _]]].
  assert (K : Forall (fun k => dense (fst k) 0 0 = true) (fst (kid_streams st [e; a; e'] (mkOpts cols false))) /\
              flat_map (fun k => tas (fst k)) (fst (kid_streams st [e; a; e'] (mkOpts cols false)))
              = tas (evs_of (stream st a (mkOpts cols false))) /\
              snd (kid_streams st [e; a; e'] (mkOpts cols false)) = snd (stream st a (mkOpts cols false))).
  { unfold evs_of in *. cbn [kid_streams].
    destruct (stream st e (mkOpts cols false)) as [[ee ge] st1]. cbn [fst snd] in *. subst st1.
    destruct (stream st a (mkOpts cols false)) as [[ea ga] st2]. cbn [fst snd] in *.
    destruct (empty_leaf_stream e' st2 cols He') as [F1 [F2 [F3 _]]]. unfold evs_of in *.
    destruct (stream st2 e' (mkOpts cols false)) as [[ee' ge'] st3]. cbn [fst snd flat_map] in *.
    split; [constructor; [exact E2|constructor; [exact Hd|constructor; [exact F2|constructor]]]|].
    split; [rewrite E1, F1; cbn [app]; rewrite !app_nil_r; reflexivity|exact F3]. }
  destruct K as [K1 [K2 K3]].
  destruct (concat_kids_ta st [e; a; e'] cols) as [L1 [_ L3]]; [discriminate|exact K1|].
  rewrite L1, L3. split; assumption.
Qed.

Theorem concat_empty_neighbours (st : store) (e a e' : src) (cols cl : bool) :
  empty_leaf e = true -> empty_leaf e' = true ->
  dense (evs_of (stream st a (mkOpts cols false))) 0 0 = true ->
  attr_of_stream (evs_of (stream st (SConcat [e; a; e']) (mkOpts cols false))) cl
  = attr_of_stream (evs_of (stream st a (mkOpts cols false))) cl /\
  chunk_texts (evs_of (stream st (SConcat [e; a; e']) (mkOpts cols false)))
  = chunk_texts (evs_of (stream st a (mkOpts cols false))) /\
  source (SConcat [e; a; e']) = source a.
Proof.
  intros He He' Hd. destruct (concat_empty_neighbours_ta st e a e' cols He He' Hd) as [A _].
  split; [apply tas_attr; exact A|]. split; [apply tas_texts; exact A|].
  destruct (empty_leaf_stream e st cols He) as [_ [_ [_ S1]]].
  destruct (empty_leaf_stream e' st cols He') as [_ [_ [_ S2]]].
  cbn [source map concat]. rewrite S1, S2. cbn [app]. rewrite !app_nil_r. reflexivity.
Qed.

(* ------------------------------------------------------------------ *)
(* the side condition `dense` holds of the model's own trees (text mode): *)
(* raw leaves, OriginalSource, SourceMapSource without inner map,        *)
(* ConcatSource, ReplaceSource without replacements                      *)
(* ------------------------------------------------------------------ *)
Fixpoint dcnt (evs : list event) (ns nn : N) : N * N :=
  match evs with
  | [] => (ns, nn)
  | ESource _ _ _ :: evs' => dcnt evs' (ns + 1) nn
  | EName _ _ :: evs' => dcnt evs' ns (nn + 1)
  | EChunk _ _ :: evs' => dcnt evs' ns nn
  end.

Lemma dense_app_n a : forall b ns nn,
  dense (a ++ b) ns nn = dense a ns nn && dense b (fst (dcnt a ns nn)) (snd (dcnt a ns nn)).
Proof.
  induction a as [|e a IH]; intros b ns nn; [reflexivity|].
  destruct e as [t m|i n c|i n]; cbn [app dense dcnt]; rewrite IH, andb_assoc; reflexivity.
Qed.

Lemma chunks_dense ns nn evs : Forall (chunk_ok ns nn) evs -> dense evs ns nn = true /\ dcnt evs ns nn = (ns, nn).
Proof.
  induction 1 as [|e evs He _ IH]; [split; reflexivity|].
  destruct e as [t m|i n c|i n]; cbn [chunk_ok] in He; try contradiction.
  destruct IH as [I1 I2]. split; cbn [dense dcnt]; [|exact I2].
  rewrite I1, andb_true_r. destruct (m_orig m) as [o|]; [|reflexivity].
  cbn [orig_ok] in He. destruct He as [A B]. apply andb_true_iff. split; [apply N.ltb_lt; exact A|].
  destruct (o_name o); [apply N.ltb_lt; exact B|reflexivity].
Qed.

Lemma announce_sources_dense m srcs : forall i nn,
  dense (announce_sources m srcs i) i nn = true /\ dcnt (announce_sources m srcs i) i nn = (i + len srcs, nn).
Proof.
  induction srcs as [|s srcs IH]; intros i nn.
  - cbn [announce_sources dense dcnt]. rewrite slen_nil, N.add_0_r. split; reflexivity.
  - cbn [announce_sources dense dcnt]. destruct (IH (i + 1) nn) as [A B]. rewrite N.eqb_refl, A, B, slen_cons.
    split; [reflexivity|]. f_equal. lia.
Qed.

Lemma announce_names_dense names : forall i ns,
  dense (announce_names names i) ns i = true /\ dcnt (announce_names names i) ns i = (ns, i + len names).
Proof.
  induction names as [|s names IH]; intros i ns.
  - cbn [announce_names dense dcnt]. rewrite slen_nil, N.add_0_r. split; reflexivity.
  - cbn [announce_names dense dcnt]. destruct (IH (i + 1) ns) as [A B]. rewrite N.eqb_refl, A, B, slen_cons.
    split; [reflexivity|]. f_equal. lia.
Qed.

Lemma announced_dense m evs :
  Forall (chunk_ok (len (sm_sources m)) (len (sm_names m))) evs ->
  dense (announce_sources m (sm_sources m) 0 ++ announce_names (sm_names m) 0 ++ evs) 0 0 = true.
Proof.
  intros H. destruct (announce_sources_dense m (sm_sources m) 0 0) as [A1 A2].
  destruct (announce_names_dense (sm_names m) 0 (len (sm_sources m))) as [B1 B2].
  rewrite dense_app_n, A1, A2. cbn [fst snd andb N.add].
  rewrite dense_app_n, B1, B2. cbn [fst snd andb N.add]. apply chunks_dense. exact H.
Qed.

Lemma announced_sources_dense m evs :
  Forall (chunk_ok (len (sm_sources m)) 0) evs ->
  dense (announce_sources m (sm_sources m) 0 ++ evs) 0 0 = true.
Proof.
  intros H. destruct (announce_sources_dense m (sm_sources m) 0 0) as [A1 A2].
  rewrite dense_app_n, A1, A2. cbn [fst snd andb N.add]. apply chunks_dense. exact H.
Qed.

Lemma raw_stream_dense t : dense (fst (raw_stream t false)) 0 0 = true.
Proof. unfold raw_stream. cbn [fst]. apply chunks_dense. apply raw_chunks_ok. Qed.

Lemma original_stream_dense v name cols : dense (fst (original_stream v name (mkOpts cols false))) 0 0 = true.
Proof.
  unfold original_stream. cbn [columns final_source]. destruct cols.
  - pose proof (original_tokens_ok false (potential_tokens v) 1 0) as H.
    destruct (original_tokens (potential_tokens v) false 1 0) as [evs gi]. cbn [fst] in *.
    cbn [dense]. change (0 =? 0) with true. cbn [andb N.add]. apply chunks_dense. exact H.
  - cbn [fst dense]. change (0 =? 0) with true. cbn [andb N.add]. apply chunks_dense.
    apply original_line_chunks_ok.
Qed.

Lemma sm_stream_dense t m cols : map_consistent t m = true ->
  dense (fst (sm_stream t m (mkOpts cols false))) 0 0 = true.
Proof.
  intros Hc. pose proof (map_consistent_segs t m Hc) as Hs.
  set (ns := len (sm_sources m)) in *. set (nn := len (sm_names m)) in *.
  unfold sm_stream. cbn [columns final_source]. destruct cols.
  - unfold sm_stream_full. destruct (is_nil (split_lines t)); [reflexivity|].
    destruct (lines_end_info (split_lines t)) as [fl fc].
    pose proof (sm_full_loop_ok ns nn (split_lines t) fl fc _ Hs (mkF 1 0 false None) I) as [A B].
    destruct (sm_full_loop (split_lines t) fl fc (mkF 1 0 false None) (decode_mappings (sm_mappings m)))
      as [st evs]. cbn [fst snd] in A, B.
    pose proof (sm_full_step_ok ns nn (split_lines t) fl fc st (unmapped fl fc) A I) as [_ D].
    destruct (sm_full_step (split_lines t) fl fc st (unmapped fl fc)) as [st' evs']. cbn [fst snd] in *.
    apply announced_dense. apply Forall_app. split; assumption.
  - unfold sm_stream_lines_full. destruct (is_nil (split_lines t)); [reflexivity|].
    pose proof (sm_lines_full_loop_ok ns nn (split_lines t) _ Hs 1) as A.
    destruct (sm_lines_full_loop (split_lines t) (decode_mappings (sm_mappings m)) 1) as [cur evs].
    cbn [fst snd] in *. apply announced_sources_dense. apply Forall_app. split; [exact A|apply whole_lines_ok].
Qed.

Fixpoint dshape (s : src) : bool :=
  match s with
  | SRaw _ _ | SRawString _ | SRawBuffer _ | SOriginal _ _ => true
  | SMapped v _ m _ None _ => map_consistent v m
  | SMapped _ _ _ _ (Some _) _ => false
  | SConcat cs => forallb dshape cs
  | SReplace inner rs => is_nil rs && dshape inner
  | SCached _ _ => false
  end.

Definition dense_all (s : src) : Prop :=
  forall st cols, dense (evs_of (stream st s (mkOpts cols false))) 0 0 = true.

Lemma kid_streams_dense cols cs : Forall dense_all cs -> forall st,
  Forall (fun k => dense (fst k) 0 0 = true) (fst (kid_streams st cs (mkOpts cols false))).
Proof.
  induction 1 as [|c cs Hc _ IH]; intros st; [constructor|].
  cbn [kid_streams]. specialize (Hc st cols). unfold evs_of in Hc.
  destruct (stream st c (mkOpts cols false)) as [[evs gi] st1]. specialize (IH st1).
  destruct (kid_streams st1 cs (mkOpts cols false)) as [ks st2]. cbn [fst snd] in *.
  constructor; assumption.
Qed.

Theorem dense_tree : forall s, dshape s = true -> dense_all s.
Proof.
  apply (src_ind' (fun s => dshape s = true -> dense_all s)).
  - intros b v _ st cols. unfold evs_of. cbn [stream fst final_source]. apply raw_stream_dense.
  - intros v _ st cols. unfold evs_of. cbn [stream fst final_source]. apply raw_stream_dense.
  - intros v _ st cols. unfold evs_of. cbn [stream fst final_source]. apply raw_stream_dense.
  - intros v n _ st cols. unfold evs_of. cbn [stream fst]. apply original_stream_dense.
  - intros v n m og i r Hsh st cols. cbn [dshape] in Hsh. destruct i as [im|]; [discriminate|].
    unfold evs_of. cbn [stream fst]. apply sm_stream_dense. exact Hsh.
  - intros cs IH Hsh st cols. cbn [dshape] in Hsh.
    assert (Hall : Forall dense_all cs).
    { rewrite Forall_forall in *. rewrite forallb_forall in Hsh. intros c Hc. apply IH; [exact Hc|apply Hsh; exact Hc]. }
    destruct (Nat.eq_dec (length cs) 1) as [E|E].
    + destruct cs as [|c [|c2 r]]; try discriminate. inversion Hall as [|? ? Hc _]. apply Hc.
    + apply (concat_kids_ta st cs cols E). apply kid_streams_dense. exact Hall.
  - intros i rs IH Hsh st cols. cbn [dshape] in Hsh. apply andb_true_iff in Hsh. destruct Hsh as [Hn Hsh].
    destruct rs; [|discriminate]. apply (replace_nil_stream_attr st i cols true). apply (IH Hsh).
  - intros id i _ Hsh. discriminate.
Qed.

(* the laws on these trees, without side conditions on streams *)
Corollary replace_nil_stream_attr_tree (st : store) (a : src) (cols c : bool) : dshape a = true ->
  attr_of_stream (evs_of (stream st (SReplace a []) (mkOpts cols false))) c
  = attr_of_stream (evs_of (stream st a (mkOpts cols false))) c.
Proof. intros H. apply (replace_nil_stream_attr st a cols c). apply (dense_tree a H). Qed.

Corollary concat_nest_tree (st : store) (a b c : src) (cols cl : bool) :
  dshape a = true -> dshape b = true -> dshape c = true ->
  attr_of_stream (evs_of (stream st (SConcat [a; SConcat [b; c]]) (mkOpts cols false))) cl
  = attr_of_stream (evs_of (stream st (SConcat [a; b; c]) (mkOpts cols false))) cl /\
  attr_of_stream (evs_of (stream st (SConcat [SConcat [a; b]; c]) (mkOpts cols false))) cl
  = attr_of_stream (evs_of (stream st (SConcat [a; b; c]) (mkOpts cols false))) cl /\
  chunk_texts (evs_of (stream st (SConcat [a; SConcat [b; c]]) (mkOpts cols false)))
  = chunk_texts (evs_of (stream st (SConcat [a; b; c]) (mkOpts cols false))) /\
  chunk_texts (evs_of (stream st (SConcat [SConcat [a; b]; c]) (mkOpts cols false)))
  = chunk_texts (evs_of (stream st (SConcat [a; b; c]) (mkOpts cols false))).
Proof.
  intros Ha Hb Hc.
  assert (Hd : Forall (fun k => dense (fst k) 0 0 = true) (fst (kid_streams st [a; b; c] (mkOpts cols false)))).
  { apply kid_streams_dense. repeat constructor; apply dense_tree; assumption. }
  destruct (concat_nest_right st a b c cols cl Hd) as [A1 [A2 _]].
  destruct (concat_nest_left st a b c cols cl Hd) as [B1 [B2 _]].
  repeat split; assumption.
Qed.

Corollary concat_empty_neighbours_tree (st : store) (e a e' : src) (cols cl : bool) :
  empty_leaf e = true -> empty_leaf e' = true -> dshape a = true ->
  attr_of_stream (evs_of (stream st (SConcat [e; a; e']) (mkOpts cols false))) cl
  = attr_of_stream (evs_of (stream st a (mkOpts cols false))) cl /\
  chunk_texts (evs_of (stream st (SConcat [e; a; e']) (mkOpts cols false)))
  = chunk_texts (evs_of (stream st a (mkOpts cols false))) /\
  source (SConcat [e; a; e']) = source a.
Proof. intros He He' Ha. apply concat_empty_neighbours; [exact He|exact He'|apply (dense_tree a Ha)]. Qed.

Print Assumptions concat_new_typed_flat.
Print Assumptions concat_single_stream.
Print Assumptions replace_nil_stream_texts.
Print Assumptions cached_cold_stream.
Print Assumptions cached_cold_map.
Print Assumptions cached_cold_map_tree.
Print Assumptions replace_nil_stream_attr.
Print Assumptions concat_nest_right.
Print Assumptions concat_nest_left.
Print Assumptions concat_empty_neighbours.
Print Assumptions dense_tree.
Print Assumptions concat_nest_tree.
Print Assumptions concat_empty_neighbours_tree.
