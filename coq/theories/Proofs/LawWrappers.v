(* C13: the wrapper laws that hold of the model by computation (Q3).
   (a) typed nesting is flattening, (b) a ConcatSource with one child is its child,
   (c) a ReplaceSource without replacements, (d) a CachedSource on a cold cache. *)
From RS Require Import Base.Prelude Base.Text Rope.RopeModel Codec.Vlq Codec.CodecSpec
  Stream.Types Stream.Leaves Stream.Concat Stream.Replace Stream.Combined Stream.Tree
  Sem.Attr Checkers.ChkTree
  Proofs.StreamText Proofs.StreamLeaves Proofs.StreamConcat Proofs.StreamTree
  Proofs.RStreamText.
Require Import Lia List.

Local Open Scope N_scope.

(* ------------------------------------------------------------------ *)
(* (a) typed nesting is flattening                                     *)
(* ------------------------------------------------------------------ *)
Definition children_of (s : src) : list src :=
  match s with SConcat cs => cs | _ => [s] end.

Definition item_children (it : citem) : list src :=
  match it with ITyped cs => cs | IBoxed s => [s] end.

Theorem concat_new_eq (items : list citem) :
  concat_new items = SConcat (flat_map item_children items).
Proof. reflexivity. Qed.

Theorem concat_new_nil : concat_new [] = SConcat [].
Proof. reflexivity. Qed.

Theorem concat_new_cons (it : citem) (items : list citem) :
  concat_new (it :: items) = SConcat (item_children it ++ children_of (concat_new items)).
Proof. reflexivity. Qed.

Theorem concat_new_app (xs ys : list citem) :
  concat_new (xs ++ ys) = SConcat (children_of (concat_new xs) ++ children_of (concat_new ys)).
Proof. unfold concat_new. cbn [children_of]. rewrite flat_map_app. reflexivity. Qed.

(* a typed ConcatSource item is the same as its children given one by one *)
Theorem concat_new_typed_flat (xs ys : list citem) (cs : list src) :
  concat_new (xs ++ ITyped cs :: ys) = concat_new (xs ++ map IBoxed cs ++ ys).
Proof.
  assert (E : forall cs, flat_map item_children (map IBoxed cs) = cs).
  { induction cs0 as [|c cs0 IH]; [reflexivity|]. cbn [map flat_map item_children app]. rewrite IH. reflexivity. }
  rewrite !concat_new_eq, !flat_map_app. cbn [flat_map item_children]. rewrite E. reflexivity.
Qed.

Theorem concat_new_nested (a b c : src) :
  concat_new (IBoxed a :: [ITyped [b; c]]) = SConcat [a; b; c].
Proof. reflexivity. Qed.

(* hence identical observations *)
Corollary concat_new_nested_obs (st : store) (o : opts) (cols : bool) (a b c : src) :
  stream st (concat_new (IBoxed a :: [ITyped [b; c]])) o = stream st (SConcat [a; b; c]) o /\
  map_of st (concat_new (IBoxed a :: [ITyped [b; c]])) cols = map_of st (SConcat [a; b; c]) cols /\
  source (concat_new (IBoxed a :: [ITyped [b; c]])) = source (SConcat [a; b; c]) /\
  buffer (concat_new (IBoxed a :: [ITyped [b; c]])) = buffer (SConcat [a; b; c]).
Proof. rewrite concat_new_nested. repeat split; reflexivity. Qed.

Corollary concat_new_typed_flat_obs (st : store) (o : opts) (cols : bool) xs ys cs :
  stream st (concat_new (xs ++ ITyped cs :: ys)) o = stream st (concat_new (xs ++ map IBoxed cs ++ ys)) o /\
  map_of st (concat_new (xs ++ ITyped cs :: ys)) cols = map_of st (concat_new (xs ++ map IBoxed cs ++ ys)) cols /\
  source (concat_new (xs ++ ITyped cs :: ys)) = source (concat_new (xs ++ map IBoxed cs ++ ys)).
Proof. rewrite concat_new_typed_flat. repeat split; reflexivity. Qed.

(* ------------------------------------------------------------------ *)
(* (b) a single child                                                  *)
(* ------------------------------------------------------------------ *)
Theorem concat_single_stream (st : store) (a : src) (o : opts) :
  stream st (SConcat [a]) o = stream st a o.
Proof. reflexivity. Qed.

Theorem concat_single_source (a : src) : source (SConcat [a]) = source a.
Proof. cbn [source map concat]. apply app_nil_r. Qed.

Theorem concat_single_buffer (a : src) : buffer (SConcat [a]) = buffer a.
Proof. cbn [buffer map concat]. apply app_nil_r. Qed.

Theorem concat_single_size (a : src) : size (SConcat [a]) = size a.
Proof. cbn [size fold_right]. lia. Qed.

Theorem concat_single_rope (a : src) : rope_of (SConcat [a]) = rope_of a.
Proof. reflexivity. Qed.

Theorem concat_single_writer (a : src) : writer_calls (SConcat [a]) = writer_calls a.
Proof. cbn [writer_calls flat_map]. apply app_nil_r. Qed.

(* map() of a ConcatSource is always computed from its stream *)
Theorem concat_single_map (st : store) (a : src) (cols : bool) :
  map_of st (SConcat [a]) cols = get_map st a cols.
Proof. reflexivity. Qed.

(* ------------------------------------------------------------------ *)
(* (c) no replacements (text and map; the stream is below)              *)
(* ------------------------------------------------------------------ *)
Theorem replace_nil_map (st : store) (a : src) (cols : bool) :
  map_of st (SReplace a []) cols = map_of st a cols.
Proof. reflexivity. Qed.

Theorem replace_nil_source (a : src) : source (SReplace a []) = source a.
Proof. reflexivity. Qed.

Theorem replace_nil_buffer (a : src) : buffer (SReplace a []) = source a.
Proof. reflexivity. Qed.

Theorem replace_nil_stream_eq (st : store) (a : src) (o : opts) :
  stream st (SReplace a []) o =
  (replace_stream [] (fst (fst (stream st a (mkOpts (columns o) false))))
                     (snd (fst (stream st a (mkOpts (columns o) false)))),
   snd (stream st a (mkOpts (columns o) false))).
Proof.
  cbn [stream]. destruct (stream st a (mkOpts (columns o) false)) as [[ievs gi] st']. reflexivity.
Qed.

(* chunk texts: those of the inner stream, empty chunks dropped *)
Theorem replace_nil_stream_texts (st : store) (a : src) (cols : bool) :
  chunk_texts (fst (fst (stream st (SReplace a []) (mkOpts cols false)))) =
  filter kept_chunk (chunk_texts (fst (fst (stream st a (mkOpts cols false))))).
Proof.
  rewrite replace_nil_stream_eq. cbn [fst snd columns]. apply replace_stream_nil_texts.
Qed.

Theorem replace_nil_stream_store (st : store) (a : src) (cols : bool) :
  snd (stream st (SReplace a []) (mkOpts cols false)) = snd (stream st a (mkOpts cols false)).
Proof. rewrite replace_nil_stream_eq. reflexivity. Qed.

(* ------------------------------------------------------------------ *)
(* (d) CachedSource on a cold cache                                    *)
(* ------------------------------------------------------------------ *)
Theorem cached_cold_stream (st : store) (id : N) (a : src) (o : opts) :
  cache_get (store_get st id) o = None ->
  fst (stream st (SCached id a) o) = fst (stream st a o).
Proof.
  intros H. cbn [stream]. rewrite H.
  destruct (stream st a o) as [[evs gi] st']. reflexivity.
Qed.

Theorem cached_cold_source (id : N) (a : src) : source (SCached id a) = source a.
Proof. reflexivity. Qed.

(* store_put then store_get *)
Lemma cache_get_app_none c o k v : cache_get c o = None ->
  cache_get (c ++ [(k, v)]) o = if opts_eqb k o then Some v else None.
Proof.
  induction c as [|[k' v'] c IH]; intros H; [reflexivity|].
  cbn [cache_get app] in *. destruct (opts_eqb k' o); [discriminate|]. apply IH. exact H.
Qed.

Lemma opts_eqb_refl o : opts_eqb o o = true.
Proof. unfold opts_eqb. destruct (columns o), (final_source o); reflexivity. Qed.

Lemma store_get_put_same st id o v :
  cache_get (store_get (store_put st id o v) id) o =
  match cache_get (store_get st id) o with Some x => Some x | None => Some v end.
Proof.
  induction st as [|[k c] st IH].
  - cbn [store_put store_get]. rewrite N.eqb_refl. cbn [cache_get]. rewrite opts_eqb_refl. reflexivity.
  - cbn [store_put store_get]. destruct (k =? id) eqn:E.
    + cbn [store_get]. rewrite E. destruct (cache_get c o) as [x|] eqn:G.
      * rewrite G. reflexivity.
      * rewrite cache_get_app_none by exact G. rewrite opts_eqb_refl. reflexivity.
    + cbn [store_get]. rewrite E. exact IH.
Qed.

Lemma store_get_put_other st id id' o v : id' <> id ->
  store_get (store_put st id' o v) id = store_get st id.
Proof.
  intros Hne. induction st as [|[k c] st IH].
  - cbn [store_put store_get]. replace (id' =? id) with false by (symmetry; apply N.eqb_neq; exact Hne).
    reflexivity.
  - cbn [store_put store_get]. destruct (k =? id') eqn:E.
    + apply N.eqb_eq in E. subst k. cbn [store_get].
      replace (id' =? id) with false by (symmetry; apply N.eqb_neq; exact Hne). reflexivity.
    + cbn [store_get]. destruct (k =? id); [reflexivity|exact IH].
Qed.

(* map(): the wrapped source's map, when evaluating the wrapped source leaves no entry
   for (columns, false) in this cache *)
Theorem cached_cold_map (st : store) (id : N) (a : src) (cols : bool) :
  cache_get (store_get st id) (mkOpts cols false) = None ->
  cache_get (store_get (snd (map_of st a cols)) id) (mkOpts cols false) = None ->
  fst (map_of st (SCached id a) cols) = fst (map_of st a cols).
Proof.
  intros H1 H2. cbn [map_of]. rewrite H1.
  destruct (map_of st a cols) as [m st'] eqn:E. cbn [fst snd] in *.
  rewrite store_get_put_same, H2. reflexivity.
Qed.

(* the trees of the library: a CachedSource is never nested in a clone of itself *)
Fixpoint has_id (id : N) (s : src) : bool :=
  match s with
  | SCached k inner => (k =? id) || has_id id inner
  | SConcat cs => existsb (has_id id) cs
  | SReplace inner _ => has_id id inner
  | _ => false
  end.

Definition keeps_id (id : N) (s : src) : Prop :=
  (forall st o, store_get (snd (stream st s o)) id = store_get st id) /\
  (forall st cols, store_get (snd (map_of st s cols)) id = store_get st id).

Lemma cfold_keeps id o cs : Forall (keeps_id id) cs -> forall cst evs st,
  store_get (snd (fold_left (cfold_step o) cs (cst, evs, st))) id = store_get st id.
Proof.
  induction 1 as [|c cs Hc _ IH]; intros cst evs st; [reflexivity|].
  cbn [fold_left]. rewrite cfold_step_eq. destruct Hc as [Hc _]. specialize (Hc st o).
  destruct (stream st c o) as [[cevs gi] st1]. cbn [snd] in Hc.
  destruct (concat_child (final_source o) cst cevs gi) as [cst' out]. rewrite IH. exact Hc.
Qed.

Lemma keeps_stream_get_map id s :
  (forall st o, store_get (snd (stream st s o)) id = store_get st id) ->
  forall st cols, store_get (snd (get_map st s cols)) id = store_get st id.
Proof.
  intros H st cols. unfold get_map. specialize (H st (mkOpts cols true)).
  destruct (stream st s (mkOpts cols true)) as [[evs gi] st']. exact H.
Qed.

Lemma no_id_keeps id : forall s, has_id id s = false -> keeps_id id s.
Proof.
  apply (src_ind' (fun s => has_id id s = false -> keeps_id id s)).
  - intros b v _. split; intros; reflexivity.
  - intros v _. split; intros; reflexivity.
  - intros v _. split; intros; reflexivity.
  - intros v n _.
    assert (S : forall st o, store_get (snd (stream st (SOriginal v n) o)) id = store_get st id)
      by (intros; reflexivity).
    split; [exact S|]. intros st cols. apply (keeps_stream_get_map id _ S).
  - intros v n m og i r _.
    assert (S : forall st o, store_get (snd (stream st (SMapped v n m og i r) o)) id = store_get st id)
      by (intros st o; cbn [stream]; destruct i; reflexivity).
    split; [exact S|]. intros st cols. destruct i as [im|]; [|reflexivity].
    apply (keeps_stream_get_map id _ S).
  - intros cs IH Hid. cbn [has_id] in Hid.
    assert (Hall : Forall (keeps_id id) cs).
    { rewrite Forall_forall in *. intros c Hc. apply IH; [exact Hc|].
      destruct (has_id id c) eqn:E; [|reflexivity].
      assert (X : existsb (has_id id) cs = true) by (apply existsb_exists; exists c; split; assumption).
      congruence. }
    assert (S : forall st o, store_get (snd (stream st (SConcat cs) o)) id = store_get st id).
    { intros st o. rewrite stream_concat_eq. destruct cs as [|c [|c2 r]].
      - reflexivity.
      - inversion Hall as [|? ? [Hc _] _]. apply Hc.
      - pose proof (cfold_keeps id o (c :: c2 :: r) Hall concat_init [] st) as A.
        destruct (fold_left (cfold_step o) (c :: c2 :: r) (concat_init, [], st)) as [[cst evs] st'].
        exact A. }
    split; [exact S|]. intros st cols. apply (keeps_stream_get_map id _ S).
  - intros i rs IH Hid. cbn [has_id] in Hid. destruct (IH Hid) as [A B].
    assert (S : forall st o, store_get (snd (stream st (SReplace i rs) o)) id = store_get st id).
    { intros st o. cbn [stream]. specialize (A st (mkOpts (columns o) false)).
      destruct (stream st i (mkOpts (columns o) false)) as [[ievs gi] st']. exact A. }
    split; [exact S|]. intros st cols. cbn [map_of]. destruct (is_nil rs); [apply B|].
    apply (keeps_stream_get_map id _ S).
  - intros k i IH Hid. cbn [has_id] in Hid. apply orb_false_iff in Hid. destruct Hid as [Hk Hid].
    apply N.eqb_neq in Hk. destruct (IH Hid) as [A B]. split.
    + intros st o. cbn [stream]. destruct (cache_get (store_get st k) o) as [[m|]|]; try reflexivity.
      specialize (A st o). destruct (stream st i o) as [[evs gi] st']. cbn [snd] in *.
      rewrite store_get_put_other by exact Hk. exact A.
    + intros st cols. cbn [map_of]. destruct (cache_get (store_get st k) (mkOpts cols false)); [reflexivity|].
      specialize (B st cols). destruct (map_of st i cols) as [m st']. cbn [snd] in *.
      rewrite store_get_put_other by exact Hk. exact B.
Qed.

Corollary cached_cold_map_tree (st : store) (id : N) (a : src) (cols : bool) :
  has_id id a = false ->
  cache_get (store_get st id) (mkOpts cols false) = None ->
  fst (map_of st (SCached id a) cols) = fst (map_of st a cols).
Proof.
  intros Hid H. apply cached_cold_map; [exact H|].
  destruct (no_id_keeps id a Hid) as [_ B]. rewrite B. exact H.
Qed.

(* Without the second hypothesis of `cached_cold_map` the law
     cache_get (store_get st id) (mkOpts cols false) = None ->
     fst (map_of st (SCached id a) cols) = fst (map_of st a cols)
   is FALSE of the model: when `a` contains a CachedSource with the same id (same caches)
   below a ReplaceSource with a replacement, evaluating `a` fills the entry (columns, false)
   with the map of the INNER node, and `or_insert` hands that one back.  The Rust API cannot
   build this tree (the wrapped source exists before the CachedSource and its clones do), so
   this is a remark on the model's domain, not a finding. *)
Example cached_cold_map_counterexample :
  let x := SOriginal [97] [102] in
  let a := SReplace (SCached 7 x) [mkRepl 0 0 [10] None 1] in
  cache_get (store_get [] 7) (mkOpts true false) = None /\
  fst (map_of [] (SCached 7 a) true) <> fst (map_of [] a true).
Proof. split; [reflexivity|]. vm_compute. discriminate. Qed.

Print Assumptions concat_new_typed_flat.
Print Assumptions concat_single_stream.
Print Assumptions replace_nil_stream_texts.
Print Assumptions cached_cold_stream.
Print Assumptions cached_cold_map.
Print Assumptions cached_cold_map_tree.
