(* C14, observational consequences of `==` (E4, E5).
   E4  equal objects with equal histories are indistinguishable: the same sequence of observer
       calls on `a` and on `b` (a == b, caches shared in the same pattern, started with
       corresponding caches in the same state - in particular both cold) gives the same answers,
       call by call, and the extracted checker of the property accepts.
   E5  `==` and the hash are functions of the tree: running observers changes the store only,
       never the tree, so no history on either side can change them; the clauses of the checker
       that watch this can never fire on the model.
   The histories must be the same on both sides as far as stream_chunks / map() calls go (text
   views, hash and clone calls do not touch the caches and may differ): with different
   histories the caches are in different states and the known finding K2 applies (witness at
   the end). *)
From RS Require Import Base.Prelude Base.Text Rope.RopeModel Codec.Vlq
  Stream.Types Stream.Leaves Stream.Concat Stream.Replace Stream.Combined Stream.Tree
  Api.ApiTree Sem.Attr Sem.HashEq Api.ApiHist Checkers.ChkTree Checkers.ChkHist
  Proofs.HashEqBasic Proofs.AttrCodec Proofs.CacheStore Proofs.CacheReplay Proofs.EqObsTree.
Require Import Lia List.

Local Open Scope N_scope.

(* ------------------------------------------------------------------ *)
(* rope() does not read the ids                                         *)
(* ------------------------------------------------------------------ *)
Definition rope_step (acc : option rope) (c : src) : option rope :=
  match acc, rope_of c with
  | Some a, Some r => Some (rope_append a r)
  | _, _ => None
  end.

Lemma rope_of_concat cs :
  rope_of (SConcat cs) =
  match cs with [c] => rope_of c | _ => fold_left rope_step cs (Some rope_new) end.
Proof. destruct cs as [|c [|c2 r]]; reflexivity. Qed.

Lemma rope_fold_erase cs : Forall (fun c => rope_of (erase_ids c) = rope_of c) cs ->
  forall acc, fold_left rope_step (map erase_ids cs) acc = fold_left rope_step cs acc.
Proof.
  induction 1 as [|c cs Hc _ IH]; intros acc; [reflexivity|].
  cbn [map fold_left]. unfold rope_step at 2 4. rewrite Hc. apply IH.
Qed.

Lemma rope_erase_ids (s : src) : rope_of (erase_ids s) = rope_of s.
Proof.
  induction s as [b v|v|v|v n|v n m o i r|cs IH|inner rs IH|id inner IH]
    using src_nested_ind; try reflexivity.
  - cbn [erase_ids]. rewrite !rope_of_concat. destruct cs as [|c [|c2 r]].
    + reflexivity.
    + inversion IH as [|? ? Hc _]. exact Hc.
    + change (map erase_ids (c :: c2 :: r)) with (erase_ids c :: erase_ids c2 :: map erase_ids r).
      change (erase_ids c :: erase_ids c2 :: map erase_ids r) with (map erase_ids (c :: c2 :: r)).
      apply rope_fold_erase. exact IH.
  - cbn [erase_ids rope_of]. rewrite IH. reflexivity.
  - cbn [erase_ids rope_of]. exact IH.
Qed.

Theorem eq_implies_rope (a b : src) : src_eqb a b = true -> rope_of a = rope_of b.
Proof.
  intros H. apply src_eqb_spec in H.
  rewrite <- (rope_erase_ids a), <- (rope_erase_ids b), H. reflexivity.
Qed.

(* ------------------------------------------------------------------ *)
(* E4: the same history on both sides                                   *)
(* ------------------------------------------------------------------ *)
Lemma sim_run_hop P a b : src_eqb a b = true -> sim P a b ->
  forall op sta stb, store_rel P sta stb ->
    fst (run_hop sta a op) = fst (run_hop stb b op) /\
    store_rel P (snd (run_hop sta a op)) (snd (run_hop stb b op)).
Proof.
  intros He [Hs Hm] op sta stb HR.
  destruct (eq_implies_views a b He) as [Hsrc Hbuf].
  destruct op; cbn [run_hop].
  - cbn [fst snd]. rewrite Hsrc. split; [reflexivity|exact HR].
  - cbn [fst snd]. rewrite Hbuf. split; [reflexivity|exact HR].
  - cbn [fst snd]. rewrite (eq_implies_size a b He). split; [reflexivity|exact HR].
  - cbn [fst snd]. rewrite (eq_implies_rope a b He). split; [reflexivity|exact HR].
  - destruct (Hm sta stb cols HR) as [A B].
    destruct (map_of sta a cols) as [ma sa]. destruct (map_of stb b cols) as [mb sb].
    cbn [fst snd] in *. subst. split; [reflexivity|exact B].
  - destruct (Hs sta stb (mkOpts cols final) HR) as [A B].
    destruct (stream sta a (mkOpts cols final)) as [[ea ga] sa].
    destruct (stream stb b (mkOpts cols final)) as [[eb gb] sb].
    cbn [fst snd] in *. inversion A. subst. split; [reflexivity|exact B].
  - cbn [fst snd]. rewrite (eq_implies_hash a b He). split; [reflexivity|exact HR].
  - cbn [fst snd]. split; [reflexivity|exact HR].
Qed.

Lemma sim_run_hops P a b : src_eqb a b = true -> sim P a b ->
  forall ops sta stb, store_rel P sta stb ->
    fst (run_hops sta a ops) = fst (run_hops stb b ops) /\
    store_rel P (snd (run_hops sta a ops)) (snd (run_hops stb b ops)).
Proof.
  intros He HS. induction ops as [|op ops IH]; intros sta stb HR.
  - cbn [run_hops fst snd]. split; [reflexivity|exact HR].
  - cbn [run_hops]. destruct (sim_run_hop P a b He HS op sta stb HR) as [A B].
    destruct (run_hop sta a op) as [xa sa]. destruct (run_hop stb b op) as [xb sb].
    cbn [fst snd] in A, B. subst xb. destruct (IH sa sb B) as [C D].
    destruct (run_hops sa a ops) as [la ta]. destruct (run_hops sb b ops) as [lb tb].
    cbn [fst snd] in *. subst lb. split; [reflexivity|exact D].
Qed.

(* general form: corresponding caches in the same state before, same answers, corresponding
   caches in the same state after *)
Theorem E4_eq_related_histories (a b : src) :
  src_eqb a b = true -> same_sharing a b ->
  forall ops sta stb, store_rel (corr a b) sta stb ->
    fst (run_hops sta a ops) = fst (run_hops stb b ops) /\
    store_rel (corr a b) (snd (run_hops sta a ops)) (snd (run_hops stb b ops)).
Proof.
  intros He HS. apply sim_run_hops; [exact He|].
  apply sim_erase; [exact HS| |apply incl_refl]. apply E1_src_eqb_erase. exact He.
Qed.

(* E4 as asked *)
Theorem E4_eq_histories (a b : src) :
  src_eqb a b = true -> ids_distinct a -> ids_distinct b ->
  forall ops, fst (run_hops [] a ops) = fst (run_hops [] b ops).
Proof.
  intros He Ha Hb ops.
  exact (proj1 (E4_eq_related_histories a b He (ids_distinct_same_sharing a b Ha Hb) ops [] []
                  (store_rel_nil _))).
Qed.

(* histories compose: a common history first, then any common continuation (this is the shape
   of `api_pair`: a history, then `final_ops`) *)
Lemma run_hops_app (s : src) : forall ops1 ops2 st,
  run_hops st s (ops1 ++ ops2) =
  (fst (run_hops st s ops1) ++ fst (run_hops (snd (run_hops st s ops1)) s ops2),
   snd (run_hops (snd (run_hops st s ops1)) s ops2)).
Proof.
  induction ops1 as [|op ops1 IH]; intros ops2 st.
  - cbn [app run_hops fst snd]. destruct (run_hops st s ops2). reflexivity.
  - cbn [app run_hops]. destruct (run_hop st s op) as [x st1]. rewrite (IH ops2 st1).
    destruct (run_hops st1 s ops1) as [l1 st2]. cbn [fst snd].
    destruct (run_hops st2 s ops2) as [l2 st3]. reflexivity.
Qed.

(* only the calls that touch the caches have to agree: text views, hash and clone calls may be
   interleaved differently on the two sides *)
Definition touches_store (op : hop) : bool :=
  match op with OMap _ | OStream _ _ => true | _ => false end.

Lemma run_hops_store_filter (s : src) : forall ops st,
  snd (run_hops st s ops) = snd (run_hops st s (filter touches_store ops)).
Proof.
  induction ops as [|op ops IH]; intros st; [reflexivity|].
  cbn [filter run_hops]. destruct (touches_store op) eqn:T.
  - cbn [run_hops]. destruct (run_hop st s op) as [x st1]. specialize (IH st1).
    destruct (run_hops st1 s ops) as [l st2].
    destruct (run_hops st1 s (filter touches_store ops)) as [l' st2']. exact IH.
  - assert (E : snd (run_hop st s op) = st) by (destruct op; try discriminate; reflexivity).
    destruct (run_hop st s op) as [x st1]. cbn [snd] in E. subst st1. specialize (IH st).
    destruct (run_hops st s ops) as [l st2]. exact IH.
Qed.

Theorem E4_pair_answers_gen (a b : src) (opsa opsb : list hop) :
  src_eqb a b = true -> same_sharing a b ->
  filter touches_store opsa = filter touches_store opsb ->
  po_a (api_pair a opsa b opsb) = po_b (api_pair a opsa b opsb).
Proof.
  intros He HS Hf. unfold api_pair. cbn [po_a po_b].
  rewrite (run_hops_store_filter a opsa), (run_hops_store_filter b opsb), Hf.
  destruct (E4_eq_related_histories a b He HS (filter touches_store opsb) [] [] (store_rel_nil _))
    as [_ R].
  exact (proj1 (E4_eq_related_histories a b He HS final_ops _ _ R)).
Qed.

Theorem E4_pair_answers (a b : src) (ops : list hop) :
  src_eqb a b = true -> same_sharing a b ->
  po_a (api_pair a ops b ops) = po_b (api_pair a ops b ops).
Proof. intros He HS. apply E4_pair_answers_gen; [exact He|exact HS|reflexivity]. Qed.

(* ------------------------------------------------------------------ *)
(* E5: `==` and the hash are history-independent                        *)
(* ------------------------------------------------------------------ *)
(* what makes it so: an observer call maps (store, tree) to (answer, store); the tree is not
   part of the result, and neither `==` nor the hasher stream takes the store *)
Theorem E5_hash_answer_any_store (s : src) (st : store) :
  run_hop st s OHash = (AHash (hash_events s), st).
Proof. reflexivity. Qed.

Lemma hash_answer_nth (s : src) : forall ops st i,
  nth_error ops i = Some OHash ->
  nth_ans (fst (run_hops st s ops)) i = AHash (hash_events s).
Proof.
  unfold nth_ans. induction ops as [|op ops IH]; intros st i H; [destruct i; discriminate|].
  cbn [run_hops]. destruct (run_hop st s op) as [x st1] eqn:E. specialize (IH st1).
  destruct (run_hops st1 s ops) as [l st2]. cbn [fst] in *. destruct i as [|i].
  - cbn [nth_error] in H. inversion H. subst op. cbn [run_hop] in E. inversion E. reflexivity.
  - cbn [nth_error] in H. cbn [nth]. apply IH. exact H.
Qed.

(* whatever was observed before, on either side: the hash asked at any point of any history is
   the hash of the tree, and equal trees hash alike *)
Theorem E5_hash_history_independent (a b : src) (opsa opsb : list hop) (sta stb : store) (i j : nat) :
  nth_error opsa i = Some OHash -> nth_error opsb j = Some OHash ->
  nth_ans (fst (run_hops sta a opsa)) i = AHash (hash_events a) /\
  nth_ans (fst (run_hops stb b opsb)) j = AHash (hash_events b) /\
  (src_eqb a b = true ->
   nth_ans (fst (run_hops sta a opsa)) i = nth_ans (fst (run_hops stb b opsb)) j).
Proof.
  intros Hi Hj. rewrite (hash_answer_nth a opsa sta i Hi), (hash_answer_nth b opsb stb j Hj).
  split; [reflexivity|]. split; [reflexivity|]. intros He. rewrite (eq_implies_hash a b He). reflexivity.
Qed.

(* the comparison made after arbitrary histories on both sides is the comparison made before,
   in both directions *)
Theorem E5_eq_history_independent (a b : src) (opsa opsb : list hop) :
  let o := api_pair a opsa b opsb in
  po_eq o = src_eqb a b /\ po_eq0 o = po_eq o /\ po_eqr o = po_eq o.
Proof.
  cbn zeta. unfold api_pair. cbn [po_eq po_eq0 po_eqr].
  split; [reflexivity|]. split; [reflexivity|]. symmetry. apply src_eqb_sym.
Qed.

(* the checker's clauses for symmetry (1), equality changed by observers (5), hash changed by
   observers (4), equal values hashing differently (2) never fire on the model, whatever the
   two histories *)
Lemma final_hash_0 (s : src) (st : store) :
  nth_ans (fst (run_hops st s final_ops)) 0 = AHash (hash_events s).
Proof. apply hash_answer_nth. reflexivity. Qed.

Lemma final_hash_7 (s : src) (st : store) :
  nth_ans (fst (run_hops st s final_ops)) 7 = AHash (hash_events s).
Proof. apply hash_answer_nth. reflexivity. Qed.

Theorem E5_checker_clauses_never_fire (a b : src) (opsa opsb : list hop) :
  let r := chk_C14_pair a b (api_pair a opsa b opsb) in
  r <> 1 /\ r <> 5 /\ r <> 4 /\ r <> 2.
Proof.
  cbn zeta. unfold chk_C14_pair, api_pair. cbn [po_eq po_eq0 po_eqr po_a po_b].
  rewrite !final_hash_0, !final_hash_7. cbn [get_hash].
  rewrite !hevs_eqb_refl. rewrite (src_eqb_sym b a), Bool.eqb_reflx. cbn [negb andb].
  destruct (tree_wf a && tree_wf b); cbn [negb]; [|repeat split; discriminate].
  destruct (src_eqb a b) eqn:He; [|repeat split; discriminate].
  rewrite (eq_implies_hash a b He), hevs_eqb_refl. cbn [negb].
  destruct (treeA a && treeA b); cbn [negb].
  - match goal with |- context [obs_equiv ?x ?y] => destruct (obs_equiv x y) as [|p] end.
    + repeat split; discriminate.
    + destruct (k2_shape a || k2_shape b); [repeat split; discriminate|].
      match goal with |- context [if ?c then 57 else _] => destruct c end;
        [repeat split; discriminate|repeat split; lia].
  - match goal with |- context [if ?c then 0 else 3] => destruct c end; repeat split; discriminate.
Qed.

(* with the same history on both sides the checker accepts outright *)
Lemma rca_refl (x : option smap) (t : text) (c : bool) : referenced_contents_agree x x t c = true.
Proof.
  unfold referenced_contents_agree. apply forallb_forall. intros [l|] _; [|reflexivity].
  destruct (content_of_file x (l_file l)); cbn [opt_eqb]; [apply text_eqb_refl|reflexivity].
Qed.

Lemma obs_equiv_refl (l : list answer) : obs_equiv l l = 0.
Proof.
  unfold obs_equiv. rewrite !text_eqb_refl. cbn [negb].
  rewrite (list_eqb_attr_refl attr_eqb attr_eqb_refl), (list_eqb_attr_refl attr_eqb_fl attr_eqb_fl_refl).
  cbn [negb]. rewrite !rca_refl. reflexivity.
Qed.

Theorem E4_checker_accepts_gen (a b : src) (opsa opsb : list hop) :
  src_eqb a b = true -> same_sharing a b ->
  filter touches_store opsa = filter touches_store opsb ->
  chk_C14_pair a b (api_pair a opsa b opsb) = if tree_wf a && tree_wf b then 0 else 100.
Proof.
  intros He HS Hf. pose proof (E4_pair_answers_gen a b opsa opsb He HS Hf) as HL.
  unfold chk_C14_pair. rewrite <- HL.
  unfold api_pair. cbn [po_eq po_eq0 po_eqr po_a po_b].
  rewrite !final_hash_0, !final_hash_7. cbn [get_hash].
  rewrite !hevs_eqb_refl. rewrite (src_eqb_sym b a), Bool.eqb_reflx, He. cbn [negb andb].
  destruct (tree_wf a && tree_wf b); cbn [negb]; [|reflexivity].
  rewrite !text_eqb_refl, obs_equiv_refl. cbn [andb].
  destruct (treeA a && treeA b); reflexivity.
Qed.

Theorem E4_checker_accepts (a b : src) (ops : list hop) :
  src_eqb a b = true -> same_sharing a b ->
  chk_C14_pair a b (api_pair a ops b ops) = if tree_wf a && tree_wf b then 0 else 100.
Proof. intros He HS. apply E4_checker_accepts_gen; [exact He|exact HS|reflexivity]. Qed.

(* ------------------------------------------------------------------ *)
(* different histories: K2                                              *)
(* ------------------------------------------------------------------ *)
(* Full statement, FALSE (known finding K2):
     forall a b opsa opsb ops, src_eqb a b = true -> ids_distinct a -> ids_distinct b ->
       fst (run_hops (snd (run_hops [] a opsa)) a ops) = fst (run_hops (snd (run_hops [] b opsb)) b ops).
   One tree, one side warmed by a stream_chunks call, the other cold: map() differs. *)
Definition k2_tree : src :=
  SReplace (SCached 1 (SConcat [SOriginal [123] [97]; SOriginal [123;123;59] [98]]))
           [mkRepl 2 4 [10;123] None 1].

Example histories_must_agree :
  src_eqb k2_tree k2_tree = true /\ ids_distinct k2_tree /\
  fst (run_hops (snd (run_hops [] k2_tree [OStream false false])) k2_tree [OMap false]) <>
  fst (run_hops (snd (run_hops [] k2_tree [])) k2_tree [OMap false]).
Proof.
  split; [vm_compute; reflexivity|]. split.
  - unfold ids_distinct. cbn. constructor; [intros []|constructor].
  - vm_compute. discriminate.
Qed.

Print Assumptions eq_implies_rope.
Print Assumptions E4_eq_related_histories.
Print Assumptions E4_eq_histories.
Print Assumptions E4_pair_answers_gen.
Print Assumptions E4_pair_answers.
Print Assumptions E4_checker_accepts_gen.
Print Assumptions E4_checker_accepts.
Print Assumptions E5_hash_answer_any_store.
Print Assumptions E5_hash_history_independent.
Print Assumptions E5_eq_history_independent.
Print Assumptions E5_checker_clauses_never_fire.
Print Assumptions histories_must_agree.
