(* T4: dropping the redundant segments (`kept`) does not change the attribution
   of any position, on sorted input.  Also general facts about `kept_from`
   reused by the encoder/decoder proofs. *)
From RS Require Import Base.Prelude Codec.Vlq Codec.CodecSpec.

Local Open Scope N_scope.

(* ---------- pos_le as a proposition ---------- *)
Lemma pos_le_iff a b :
  pos_le a b = true <->
  g_line a < g_line b \/ (g_line a = g_line b /\ g_col a <= g_col b).
Proof.
  unfold pos_le. rewrite orb_true_iff, andb_true_iff, N.ltb_lt, N.eqb_eq, N.leb_le. reflexivity.
Qed.

Lemma pos_le_trans a b c : pos_le a b = true -> pos_le b c = true -> pos_le a c = true.
Proof. rewrite !pos_le_iff. lia. Qed.

(* strong sortedness: every element is below every later one *)
Fixpoint ssorted (ms : list mapping) : Prop :=
  match ms with
  | [] => True
  | a :: ms' => Forall (fun b => pos_le a b = true) ms' /\ ssorted ms'
  end.

Lemma sorted_ssorted : forall ms, sorted_by pos_le ms = true -> ssorted ms.
Proof.
  induction ms as [|a ms1 IH]; [intros _; exact I|].
  destruct ms1 as [|b ms'].
  - intros _. split; [constructor|exact I].
  - intros H. change (pos_le a b && sorted_by pos_le (b :: ms') = true) in H.
    apply andb_true_iff in H. destruct H as [Hab Hs].
    specialize (IH Hs). split; [|exact IH].
    destruct IH as [Hb _]. constructor; [exact Hab|].
    eapply Forall_impl; [|exact Hb]. intros x Hx. eapply pos_le_trans; eassumption.
Qed.

Lemma ssorted_app : forall a b, ssorted (a ++ b) ->
  ssorted a /\ ssorted b /\ (forall x y, In x a -> In y b -> pos_le x y = true).
Proof.
  induction a as [|x a IH]; intros b H.
  - cbn [app] in H. split; [exact I|]. split; [exact H|]. intros ? ? [].
  - cbn [app ssorted] in H. destruct H as [Hx Hs]. destruct (IH b Hs) as (Ha & Hb & Hab).
    apply Forall_app in Hx. destruct Hx as [Hxa Hxb].
    split; [split; assumption|]. split; [exact Hb|].
    intros u v [->|Hu] Hv.
    + rewrite Forall_forall in Hxb. apply Hxb. exact Hv.
    + apply Hab; assumption.
Qed.

(* ---------- kept_from ---------- *)
Definition act_of_m (m : mapping) : option (N * orig) :=
  match m_orig m with Some o => Some (g_line m, o) | None => None end.

Lemma kept_from_cons act m ms :
  kept_from act (m :: ms) =
  if redundant act m then kept_from act ms else m :: kept_from (act_of_m m) ms.
Proof. reflexivity. Qed.

Fixpoint act_end (act : option (N * orig)) (ms : list mapping) : option (N * orig) :=
  match ms with
  | [] => act
  | m :: ms' => if redundant act m then act_end act ms' else act_end (act_of_m m) ms'
  end.

Lemma kept_from_app : forall a act b,
  kept_from act (a ++ b) = kept_from act a ++ kept_from (act_end act a) b.
Proof.
  induction a as [|m a IH]; intros act b; [reflexivity|].
  rewrite <- app_comm_cons, !kept_from_cons. cbn [act_end].
  destruct (redundant act m); [apply IH|]. rewrite IH. reflexivity.
Qed.

Lemma kept_from_last : forall ms act,
  (kept_from act ms = [] /\ act_end act ms = act) \/
  (exists ks k, kept_from act ms = ks ++ [k] /\ act_end act ms = act_of_m k).
Proof.
  induction ms as [|m ms IH]; intros act; [left; split; reflexivity|].
  rewrite kept_from_cons. cbn [act_end].
  destruct (redundant act m); [apply IH|].
  right. destruct (IH (act_of_m m)) as [[H1 H2]|(ks & k & H1 & H2)].
  - exists [], m. rewrite H1, H2. split; reflexivity.
  - exists (m :: ks), k. rewrite H1, H2. split; reflexivity.
Qed.

Lemma kept_from_In : forall ms act x, In x (kept_from act ms) -> In x ms.
Proof.
  induction ms as [|m ms IH]; intros act x H; [exact H|].
  rewrite kept_from_cons in H. destruct (redundant act m).
  - right. eapply IH. exact H.
  - destruct H as [->|H]; [left; reflexivity|right; eapply IH; exact H].
Qed.

Lemma kept_from_Forall (P : mapping -> Prop) ms act :
  Forall P ms -> Forall P (kept_from act ms).
Proof.
  rewrite !Forall_forall. intros H x Hx. apply H. eapply kept_from_In. exact Hx.
Qed.

Lemma kept_forallb (p : mapping -> bool) ms :
  forallb p ms = true -> forallb p (kept ms) = true.
Proof.
  rewrite !forallb_forall. intros H x Hx. apply H. eapply kept_from_In. exact Hx.
Qed.

Lemma ssorted_kept : forall ms act, ssorted ms -> ssorted (kept_from act ms).
Proof.
  induction ms as [|m ms IH]; intros act H; [exact I|].
  destruct H as [Hm Hs]. rewrite kept_from_cons. destruct (redundant act m).
  - apply IH. exact Hs.
  - split; [apply kept_from_Forall; exact Hm|apply IH; exact Hs].
Qed.

(* ---------- lookup ---------- *)
Definition qual (l c : N) (m : mapping) : bool := (g_line m =? l) && (g_col m <=? c).

Lemma lookup_from_snoc : forall a m l c best,
  lookup_from (a ++ [m]) l c best =
  if qual l c m then Some m else lookup_from a l c best.
Proof.
  induction a as [|x a IH]; intros m l c best.
  - cbn [app lookup_from]. unfold qual. destruct ((g_line m =? l) && (g_col m <=? c)); reflexivity.
  - rewrite <- app_comm_cons. cbn [lookup_from].
    destruct ((g_line x =? l) && (g_col x <=? c)); apply IH.
Qed.

Lemma lookup_from_none : forall ms l c best,
  Forall (fun m => qual l c m = false) ms -> lookup_from ms l c best = best.
Proof.
  induction ms as [|m ms IH]; intros l c best H; [reflexivity|].
  inversion H as [|? ? Hm Hms]; subst. cbn [lookup_from]. unfold qual in Hm. rewrite Hm.
  apply IH. exact Hms.
Qed.

Lemma orig_fields_eq (o o' : orig) :
  ((o_src o' =? o_src o) && (o_line o' =? o_line o) && (o_col o' =? o_col o)
   && match o_name o, o_name o' with None, None => true | _, _ => false end) = true ->
  o' = o.
Proof.
  intros H. destruct o as [s l c n], o' as [s' l' c' n']. cbn [o_src o_line o_col o_name] in H.
  rewrite !andb_true_iff, !N.eqb_eq in H. destruct H as [[[-> ->] ->] Hn].
  destruct n, n'; try discriminate. reflexivity.
Qed.

Lemma kept_attr_ssorted (l c : N) : forall ms,
  ssorted ms -> lookup (kept ms) l c = lookup ms l c.
Proof.
  induction ms as [|m ms IH] using rev_ind; intros Hs; [reflexivity|].
  apply ssorted_app in Hs. destruct Hs as (Hms & _ & Hle).
  specialize (IH Hms).
  unfold kept. rewrite kept_from_app. fold (kept ms).
  rewrite kept_from_cons. cbn [kept_from].
  destruct (redundant (act_end None ms) m) eqn:R.
  - rewrite app_nil_r. unfold lookup at 2. rewrite lookup_from_snoc.
    destruct (qual l c m) eqn:Q; [|exact IH].
    (* m qualifies but was dropped: the last kept segment answers the same *)
    clear IH. unfold qual in Q. apply andb_true_iff in Q. destruct Q as [Ql Qc].
    apply N.eqb_eq in Ql. apply N.leb_le in Qc.
    destruct (kept_from_last ms None) as [[K1 K2]|(ks & k & K1 & K2)].
    + fold (kept ms) in K1. rewrite K1. rewrite K2 in R. cbn [redundant] in R.
      destruct (m_orig m); [discriminate|reflexivity].
    + fold (kept ms) in K1. rewrite K1. rewrite K2 in R.
      assert (Hk : pos_le k m = true).
      { apply Hle; [|left; reflexivity]. apply (kept_from_In ms None).
        fold (kept ms). rewrite K1. apply in_or_app. right. left. reflexivity. }
      apply pos_le_iff in Hk.
      assert (Hsk : ssorted (ks ++ [k])).
      { rewrite <- K1. apply ssorted_kept. exact Hms. }
      apply ssorted_app in Hsk. destruct Hsk as (_ & _ & Hks).
      assert (Hlow : g_line k < l -> lookup_from ks l c None = None).
      { intros Hlt. apply lookup_from_none. apply Forall_forall. intros x Hx.
        assert (Hxk : pos_le x k = true) by (apply Hks; [exact Hx|left; reflexivity]).
        apply pos_le_iff in Hxk. unfold qual.
        assert (E : (g_line x =? l) = false) by (apply N.eqb_neq; lia).
        rewrite E. reflexivity. }
      unfold lookup. rewrite lookup_from_snoc. unfold qual.
      unfold act_of_m in R. destruct (m_orig k) as [o|] eqn:Ok; cbn [redundant] in R.
      * destruct (g_line k =? g_line m) eqn:El.
        -- apply N.eqb_eq in El. destruct (m_orig m) as [o'|]; [|discriminate].
           apply orig_fields_eq in R. subst o'.
           assert (E1 : (g_line k =? l) = true) by (apply N.eqb_eq; lia).
           assert (E2 : (g_col k <=? c) = true) by (apply N.leb_le; lia).
           rewrite E1, E2. cbn [andb]. exact Ok.
        -- apply N.eqb_neq in El. destruct (m_orig m); [discriminate|].
           assert (E1 : (g_line k =? l) = false) by (apply N.eqb_neq; lia).
           rewrite E1. cbn [andb]. rewrite Hlow by lia. reflexivity.
      * destruct (m_orig m); [discriminate|].
        destruct ((g_line k =? l) && (g_col k <=? c)) eqn:Qk; [exact Ok|].
        rewrite Hlow; [reflexivity|].
        apply andb_false_iff in Qk. destruct Qk as [Qk|Qk].
        -- apply N.eqb_neq in Qk. lia.
        -- apply N.leb_gt in Qk. lia.
  - unfold lookup in *. rewrite !lookup_from_snoc.
    destruct (qual l c m); [reflexivity|exact IH].
Qed.

(* T4 *)
Theorem kept_attr (ms : list mapping) (l c : N) :
  sorted_by pos_le ms = true -> lookup (kept ms) l c = lookup ms l c.
Proof.
  intros H. apply kept_attr_ssorted. apply sorted_ssorted. exact H.
Qed.

Print Assumptions kept_attr.
