(* The text-less streaming mode (final_source = true) used by map().
   W5: end info.  W6: every reported position is a position of the text. *)
From RS Require Import Base.Prelude Base.Text Rope.RopeModel Codec.Vlq Codec.CodecSpec
  Stream.Types Stream.Leaves Stream.Concat Stream.Replace Stream.Combined Stream.Tree
  Sem.Attr Checkers.ChkTree
  Proofs.StreamText Proofs.StreamLeaves Proofs.StreamMap Proofs.StreamConcat Proofs.StreamTree
  Proofs.WfStream.
Require Import Lia List.

Local Open Scope N_scope.

(* ------------------------------------------------------------------ *)
(* ConcatSource: the offsets do not depend on the mode                 *)
(* ------------------------------------------------------------------ *)
Lemma concat_event_offs final st e :
  c_loff (fst (concat_event final st e)) = c_loff st /\
  c_coff (fst (concat_event final st e)) = c_coff st.
Proof.
  destruct e as [chunk m|i name content|i name]; cbn [concat_event].
  - cbn [fst c_loff c_coff]. split; reflexivity.
  - destruct (find_text (c_sources st) name 0); cbn [fst c_loff c_coff]; split; reflexivity.
  - destruct (find_text (c_names st) name 0); cbn [fst c_loff c_coff]; split; reflexivity.
Qed.

Lemma concat_events_offs final evs : forall st,
  c_loff (fst (concat_events final st evs)) = c_loff st /\
  c_coff (fst (concat_events final st evs)) = c_coff st.
Proof.
  induction evs as [|e evs IH]; intros st; [split; reflexivity|].
  cbn [concat_events]. pose proof (concat_event_offs final st e) as [A1 A2].
  destruct (concat_event final st e) as [st1 o1]. cbn [fst] in A1, A2.
  pose proof (IH st1) as [B1 B2]. destruct (concat_events final st1 evs) as [st2 o2]. cbn [fst] in *.
  split; congruence.
Qed.

Lemma concat_child_cpos final st evs gi t : gi = advance 1 0 t ->
  cpos (fst (concat_child final st evs gi)) = adv (cpos st) t.
Proof.
  intros Hgi. unfold concat_child.
  pose proof (concat_events_offs final evs (concat_child_start st)) as [A1 A2].
  destruct (concat_events final (concat_child_start st) evs) as [st1 o1]. cbn [fst snd] in *.
  change (c_loff (concat_child_start st)) with (c_loff st) in A1.
  change (c_coff (concat_child_start st)) with (c_coff st) in A2.
  unfold concat_child_end. cbn [fst].
  rewrite <- (shift_start st), adv_shift by (cbn; lia).
  unfold adv. cbn [fst snd]. rewrite <- Hgi. unfold cpos, shift. cbn [c_loff c_coff].
  rewrite A1, A2.
  pose proof (advance_line_ge 1 0 t) as Hge. rewrite <- Hgi in Hge.
  destruct (1 <? fst gi) eqn:E1.
  - apply N.ltb_lt in E1. replace (fst gi =? 1) with false by (symmetry; apply N.eqb_neq; lia). peq.
  - apply N.ltb_ge in E1. replace (fst gi =? 1) with true by (symmetry; apply N.eqb_eq; lia). peq.
Qed.

(* ------------------------------------------------------------------ *)
(* W5: end info                                                        *)
(* ------------------------------------------------------------------ *)
Definition final_end (s : src) : Prop :=
  forall st cols, snd (fst (stream st s (mkOpts cols true))) = advance 1 0 (source s).

Lemma cfold_end cols cs : Forall final_end cs -> forall cst evs st T,
  cpos cst = adv (1, 0) T ->
  cpos (fst (fst (fold_left (cfold_step (mkOpts cols true)) cs (cst, evs, st)))) =
  adv (1, 0) (T ++ concat (map source cs)).
Proof.
  induction 1 as [|c cs Hc _ IH]; intros cst evs st T HT.
  - cbn [fold_left map concat fst]. rewrite app_nil_r. exact HT.
  - cbn [fold_left]. rewrite cfold_step_eq. pose proof (Hc st cols) as A.
    destruct (stream st c (mkOpts cols true)) as [[cevs gi] st1]. cbn [fst snd] in A.
    cbn [final_source].
    pose proof (concat_child_cpos true cst cevs gi (source c) A) as B.
    destruct (concat_child true cst cevs gi) as [cst' out]. cbn [fst] in B.
    cbn [map concat]. rewrite app_assoc. apply IH. rewrite B, HT, adv_app. reflexivity.
Qed.

(* the induction, for a class of trees C on which ReplaceSource nodes are known to end well *)
Section FinalEnd.
Variable C : src -> Prop.
Hypothesis C_mapped : forall v n m og i r, C (SMapped v n m og i r) -> i = None.
Hypothesis C_concat : forall cs, C (SConcat cs) -> Forall C cs.
Hypothesis C_replace : forall i rs, C (SReplace i rs) -> final_end (SReplace i rs).
Hypothesis C_cached : forall id i, C (SCached id i) -> False.

Lemma final_end_class : forall s, C s -> final_end s.
Proof.
  apply (src_ind' (fun s => C s -> final_end s)).
  - intros b v _ st cols. cbn [stream fst snd]. apply raw_stream_end.
  - intros v _ st cols. cbn [stream fst snd]. apply raw_stream_end.
  - intros v _ st cols. cbn [stream fst snd]. apply raw_stream_end.
  - intros v n _ st cols. cbn [stream fst snd source]. apply original_stream_end.
  - intros v n m og i r HC st cols. rewrite (C_mapped _ _ _ _ _ _ HC).
    cbn [stream fst snd source]. apply sm_stream_end.
  - intros cs IH HC st cols. apply C_concat in HC.
    assert (Hall : Forall final_end cs).
    { rewrite Forall_forall in *. intros c Hc. apply IH; [exact Hc|apply HC; exact Hc]. }
    rewrite stream_concat_eq. cbn [source]. destruct cs as [|c [|c2 cs]].
    + reflexivity.
    + inversion Hall as [|? ? Hc _]. cbn [map concat]. rewrite app_nil_r. apply Hc.
    + pose proof (cfold_end cols (c :: c2 :: cs) Hall concat_init [] st [] eq_refl) as A.
      destruct (fold_left (cfold_step (mkOpts cols true)) (c :: c2 :: cs) (concat_init, [], st))
        as [[cst evs] st']. cbn [fst snd] in *. exact A.
  - intros i rs _ HC. apply C_replace. exact HC.
  - intros id i _ HC. destruct (C_cached _ _ HC).
Qed.
End FinalEnd.

(* W5 for trees without ReplaceSource (no hypothesis on the texts or maps is needed).
   Full statement, for `rshape s = true` and `treeA s = true`:
     snd (fst (stream st s (mkOpts cols true))) = advance 1 0 (source s)
   A ReplaceSource streams its inner source with final_source = false in both modes, so its
   case is exactly the text-mode end-info theorem of ReplaceSource: see `final_end_cond`. *)
Theorem final_end_partial (s : src) (st : store) (cols : bool) :
  simple_shape s = true ->
  snd (fst (stream st s (mkOpts cols true))) = advance 1 0 (source s).
Proof.
  intros H. revert st cols.
  apply (final_end_class (fun s => simple_shape s = true)); [| | | |exact H].
  - intros v n m og i r Hs. cbn [simple_shape] in Hs. destruct i; [discriminate|reflexivity].
  - intros cs Hs. cbn [simple_shape] in Hs. rewrite forallb_forall in Hs. apply Forall_forall. exact Hs.
  - intros i rs Hs. discriminate.
  - intros id i Hs. discriminate.
Qed.

(* the text-mode end info of ReplaceSource nodes, as a premise *)
Definition replace_text_end : Prop :=
  forall i rs st cols, rshape i = true -> treeA (SReplace i rs) = true ->
    snd (fst (stream st (SReplace i rs) (mkOpts cols false))) = advance 1 0 (source (SReplace i rs)).

Lemma treeA_concat cs : treeA (SConcat cs) = true -> forall c, In c cs -> treeA c = true.
Proof.
  unfold treeA. cbn [tree_wf tree_ascii]. intros H c Hc. apply andb_true_iff in H. destruct H as [A B].
  rewrite forallb_forall in A, B. rewrite (A c Hc), (B c Hc). reflexivity.
Qed.

(* W5, conditional on the text-mode theorem for ReplaceSource *)
Theorem final_end_cond : replace_text_end ->
  forall (s : src) (st : store) (cols : bool), rshape s = true -> treeA s = true ->
  snd (fst (stream st s (mkOpts cols true))) = advance 1 0 (source s).
Proof.
  intros HR s st cols H1 H2. revert st cols.
  apply (final_end_class (fun s => rshape s = true /\ treeA s = true)); [| | | |split; assumption].
  - intros v n m og i r [Hs _]. cbn [rshape] in Hs. destruct i; [discriminate|reflexivity].
  - intros cs [Hs Ha]. cbn [rshape] in Hs. rewrite forallb_forall in Hs. apply Forall_forall.
    intros c Hc. split; [apply Hs; exact Hc|apply (treeA_concat cs Ha); exact Hc].
  - intros i rs [Hs Ha] st cols. cbn [rshape] in Hs.
    change (stream st (SReplace i rs) (mkOpts cols true)) with (stream st (SReplace i rs) (mkOpts cols false)).
    apply HR; assumption.
  - intros id i [Hs _]. discriminate.
Qed.

(* ------------------------------------------------------------------ *)
(* positions of a text                                                 *)
(* ------------------------------------------------------------------ *)
Definition prepend (p : text) (ls : list text) : list text :=
  match ls with
  | [] => if is_nil p then [] else [p]
  | hd :: tl => (p ++ hd) :: tl
  end.

Lemma split_lines_aux_prepend t : forall cur,
  split_lines_aux t cur = prepend (rev cur) (split_lines t).
Proof.
  unfold split_lines. induction t as [|x t IH]; intros cur.
  - cbn [split_lines_aux prepend]. destruct cur as [|y cur]; [reflexivity|].
    cbn [rev]. destruct (rev cur); reflexivity.
  - cbn [split_lines_aux]. destruct (x =? NL).
    + cbn [rev app prepend]. reflexivity.
    + rewrite (IH (x :: cur)), (IH [x]). cbn [rev app].
      destruct (split_lines_aux t []) as [|hd tl]; cbn [prepend].
      * destruct (rev cur); reflexivity.
      * rewrite <- app_assoc. reflexivity.
Qed.

Lemma ends_with_nl_cons x t : t <> [] -> ends_with_nl (x :: t) = ends_with_nl t.
Proof.
  intros H. unfold ends_with_nl. change (x :: t) with ([x] ++ t). rewrite last_byte_app.
  destruct (last_byte t) eqn:E; [reflexivity|]. apply last_byte_none in E. contradiction.
Qed.

Definition strip (l : text) : text := if ends_with_nl l then removelast l else l.

Lemma line_contents_eq t :
  line_contents t = map strip (split_lines t) ++ (if is_nil t || ends_with_nl t then [[]] else []).
Proof. reflexivity. Qed.

Lemma line_contents_nil : line_contents [] = [[]].
Proof. reflexivity. Qed.

Lemma line_contents_nl t : line_contents (10 :: t) = [] :: line_contents t.
Proof.
  rewrite !line_contents_eq. unfold split_lines. cbn [split_lines_aux]. change (10 =? NL) with true.
  cbn iota. cbn [rev app map]. fold (split_lines t).
  change (strip [10]) with (@nil N). cbn [app]. f_equal. f_equal.
  destruct t as [|y t]; [reflexivity|]. cbn [is_nil orb]. rewrite ends_with_nl_cons by discriminate.
  reflexivity.
Qed.

Lemma line_contents_ch x t : x <> 10 ->
  line_contents (x :: t) =
  match line_contents t with hd :: tl => (x :: hd) :: tl | [] => [[x]] end.
Proof.
  intros Hx. rewrite !line_contents_eq. unfold split_lines at 1. cbn [split_lines_aux].
  replace (x =? NL) with false by (symmetry; apply N.eqb_neq; exact Hx).
  rewrite (split_lines_aux_prepend t [x]). cbn [rev app].
  destruct t as [|y t].
  - cbn. unfold strip, ends_with_nl. cbn. replace (x =? NL) with false by (symmetry; apply N.eqb_neq; exact Hx).
    reflexivity.
  - cbn [is_nil orb]. rewrite (ends_with_nl_cons x (y :: t)) by discriminate.
    destruct (split_lines (y :: t)) as [|hd tl] eqn:E.
    { apply split_lines_nil in E. discriminate. }
    assert (Hhd : hd <> []).
    { apply (split_lines_nonempty (y :: t)). rewrite E. left. reflexivity. }
    cbn [prepend app map].
    assert (Hs : strip (x :: hd) = x :: strip hd).
    { unfold strip. rewrite (ends_with_nl_cons x hd Hhd). destruct (ends_with_nl hd); [|reflexivity].
      destruct hd; [contradiction|reflexivity]. }
    rewrite Hs. reflexivity.
Qed.

Lemma line_contents_nonempty t : line_contents t <> [].
Proof.
  destruct t as [|x t]; [discriminate|]. destruct (N.eq_dec x 10) as [->|Hx].
  - rewrite line_contents_nl. discriminate.
  - rewrite (line_contents_ch x t Hx). destruct (line_contents t); discriminate.
Qed.

Lemma isp_nil l c : is_position [] l c = true <-> l = 1 /\ c = 0.
Proof.
  unfold is_position. rewrite line_contents_nil. destruct (l =? 0) eqn:E0.
  - apply N.eqb_eq in E0. split; [discriminate|lia].
  - apply N.eqb_neq in E0. destruct (N.eq_dec l 1) as [->|Hne].
    + cbn [N.sub]. rewrite snth_0. change (len (@nil N)) with 0. rewrite N.leb_le. lia.
    + rewrite snth_pos, snth_nil by lia. split; [discriminate|lia].
Qed.

Lemma isp_nl t l c :
  is_position (10 :: t) l c = true <-> (l = 1 /\ c = 0) \/ (2 <= l /\ is_position t (l - 1) c = true).
Proof.
  unfold is_position at 1. rewrite line_contents_nl. destruct (l =? 0) eqn:E0.
  - apply N.eqb_eq in E0. split; [discriminate|lia].
  - apply N.eqb_neq in E0. destruct (N.eq_dec l 1) as [->|Hne].
    + cbn [N.sub]. rewrite snth_0. change (len (@nil N)) with 0. rewrite N.leb_le. lia.
    + rewrite snth_pos by lia. unfold is_position.
      replace (l - 1 =? 0) with false by (symmetry; apply N.eqb_neq; lia).
      split; [intros H; right; split; [lia|exact H]|intros [[H _]|[_ H]]; [lia|exact H]].
Qed.

Lemma isp_ch x t l c : x <> 10 ->
  is_position (x :: t) l c = true <->
  (l = 1 /\ (c = 0 \/ (1 <= c /\ is_position t 1 (c - 1) = true))) \/ (2 <= l /\ is_position t l c = true).
Proof.
  intros Hx. unfold is_position. rewrite (line_contents_ch x t Hx).
  pose proof (line_contents_nonempty t) as Hne.
  destruct (line_contents t) as [|hd tl]; [contradiction|].
  destruct (l =? 0) eqn:E0.
  - apply N.eqb_eq in E0. split; [discriminate|lia].
  - apply N.eqb_neq in E0. destruct (N.eq_dec l 1) as [->|Hl].
    + cbn [N.sub]. change (1 =? 0) with false. cbn iota. rewrite !snth_0. rewrite slen_cons, !N.leb_le. lia.
    + rewrite (snth_pos (l - 1) (x :: hd)) by lia. rewrite (snth_pos (l - 1) hd) by lia.
      split; [intros H; right; split; [lia|exact H]|intros [[H _]|[_ H]]; [lia|exact H]].
Qed.

(* (l, c) is a position of t exactly when it is where some prefix of t ends *)
Lemma is_position_prefix a : forall b,
  is_position (a ++ b) (fst (advance 1 0 a)) (snd (advance 1 0 a)) = true.
Proof.
  induction a as [|x a IH]; intros b.
  - cbn [app advance fst snd]. unfold is_position. change (1 =? 0) with false. cbn iota. cbn [N.sub].
    pose proof (line_contents_nonempty b) as Hne. destruct (line_contents b) as [|hd tl]; [contradiction|].
    rewrite snth_0. apply N.leb_le. apply N.le_0_l.
  - cbn [app advance]. specialize (IH b). destruct (x =? NL) eqn:E.
    + apply N.eqb_eq in E. subst x. apply isp_nl. right.
      pose proof (advance_shift 1 0 a 1 0 (N.le_refl 1)) as S. change (1 =? 1) with true in S. cbn iota in S.
      change (0 + 0) with 0 in S. rewrite S.
      pose proof (advance_line_ge 1 0 a) as Hge.
      destruct (advance 1 0 a) as [l c]. unfold shift. cbn [fst snd] in *.
      split; [lia|]. replace (l + 1 - 1) with l by lia. destruct (l =? 1); [rewrite N.add_0_r|]; exact IH.
    + apply N.eqb_neq in E. apply (isp_ch x _ _ _ E).
      pose proof (advance_shift 0 1 a 1 0 (N.le_refl 1)) as S. change (1 =? 1) with true in S. cbn iota in S.
      change (1 + 0) with 1 in S. rewrite S.
      pose proof (advance_line_ge 1 0 a) as Hge.
      destruct (advance 1 0 a) as [l c]. unfold shift. cbn [fst snd] in *.
      rewrite N.add_0_r. destruct (N.eq_dec l 1) as [->|Hl].
      * left. split; [reflexivity|]. right. change (1 =? 1) with true. cbn iota.
        split; [lia|]. replace (c + 1 - 1) with c by lia. exact IH.
      * right. split; [lia|]. replace (l =? 1) with false by (symmetry; apply N.eqb_neq; lia). exact IH.
Qed.

Lemma is_position_split t : forall l c, is_position t l c = true ->
  exists a b, t = a ++ b /\ advance 1 0 a = (l, c).
Proof.
  induction t as [|x t IH]; intros l c H.
  - apply isp_nil in H. destruct H as [-> ->]. exists [], []. split; reflexivity.
  - destruct (N.eq_dec x 10) as [->|Hx].
    + apply isp_nl in H. destruct H as [[-> ->]|[Hl H]].
      * exists [], (10 :: t). split; reflexivity.
      * destruct (IH _ _ H) as [a [b [E A]]]. exists (10 :: a), b. split; [rewrite E; reflexivity|].
        cbn [advance]. change (10 =? NL) with true. cbn iota.
        pose proof (advance_shift 1 0 a 1 0 (N.le_refl 1)) as S. change (1 =? 1) with true in S. cbn iota in S.
        change (0 + 0) with 0 in S. rewrite S, A. unfold shift. cbn [fst snd].
        destruct (l - 1 =? 1); apply (f_equal2 (@pair N N)); lia.
    + apply (isp_ch x t l c Hx) in H. destruct H as [[-> [->|[Hc H]]]|[Hl H]].
      * exists [], (x :: t). split; reflexivity.
      * destruct (IH _ _ H) as [a [b [E A]]]. exists (x :: a), b. split; [rewrite E; reflexivity|].
        cbn [advance]. replace (x =? NL) with false by (symmetry; apply N.eqb_neq; exact Hx).
        pose proof (advance_shift 0 1 a 1 0 (N.le_refl 1)) as S. change (1 =? 1) with true in S. cbn iota in S.
        change (1 + 0) with 1 in S. rewrite S, A. unfold shift. cbn [fst snd].
        change (1 =? 1) with true. cbn iota. apply (f_equal2 (@pair N N)); lia.
      * destruct (IH _ _ H) as [a [b [E A]]]. exists (x :: a), b. split; [rewrite E; reflexivity|].
        cbn [advance]. replace (x =? NL) with false by (symmetry; apply N.eqb_neq; exact Hx).
        pose proof (advance_shift 0 1 a 1 0 (N.le_refl 1)) as S. change (1 =? 1) with true in S. cbn iota in S.
        change (1 + 0) with 1 in S. rewrite S, A. unfold shift. cbn [fst snd].
        replace (l =? 1) with false by (symmetry; apply N.eqb_neq; lia).
        apply (f_equal2 (@pair N N)); lia.
Qed.

Lemma is_position_adv a b l c : advance 1 0 a = (l, c) -> is_position (a ++ b) l c = true.
Proof. intros H. pose proof (is_position_prefix a b) as P. rewrite H in P. exact P. Qed.

Lemma is_position_app_r t r l c : is_position t l c = true -> is_position (t ++ r) l c = true.
Proof.
  intros H. apply is_position_split in H. destruct H as [a [b [-> A]]].
  rewrite <- app_assoc. apply is_position_adv. exact A.
Qed.

(* a position of t, shifted by a text T in front *)
Lemma is_position_shift T t l c : is_position t l c = true ->
  is_position (T ++ t) (fst (shift (fst (advance 1 0 T) - 1) (snd (advance 1 0 T)) (l, c)))
                       (snd (shift (fst (advance 1 0 T) - 1) (snd (advance 1 0 T)) (l, c))) = true.
Proof.
  intros H. apply is_position_split in H. destruct H as [a [b [-> A]]].
  rewrite app_assoc.
  assert (E : advance 1 0 (T ++ a) = shift (fst (advance 1 0 T) - 1) (snd (advance 1 0 T)) (l, c)).
  { rewrite advance_app. pose proof (advance_line_ge 1 0 T) as Hge.
    destruct (advance 1 0 T) as [lT cT]. cbn [fst snd] in *.
    pose proof (advance_shift (lT - 1) cT a 1 0 (N.le_refl 1)) as S.
    change (1 =? 1) with true in S. cbn iota in S.
    replace (1 + (lT - 1)) with lT in S by lia. rewrite N.add_0_l in S. rewrite S, A. reflexivity. }
  rewrite <- E. apply is_position_prefix.
Qed.

Lemma is_position_line0 t l c k : is_position t l c = true -> 1 <= k -> k <= l -> is_position t k 0 = true.
Proof.
  unfold is_position. intros H Hk Hl. destruct (l =? 0) eqn:E0; [discriminate|].
  replace (k =? 0) with false by (symmetry; apply N.eqb_neq; lia).
  destruct (nth_opt (line_contents t) (l - 1)) as [line|] eqn:E; [|discriminate].
  apply snth_some_lt in E. destruct (snth_lt_some (line_contents t) (k - 1)) as [x Hx]; [lia|].
  rewrite Hx. apply N.leb_le. lia.
Qed.

(* ------------------------------------------------------------------ *)
(* W6: every reported position is a position of the text               *)
(* ------------------------------------------------------------------ *)
Definition ev_pos (t : text) (e : event) : Prop :=
  match e with EChunk _ m => is_position t (g_line m) (g_col m) = true | _ => True end.

Lemma ev_pos_app_r t r e : ev_pos t e -> ev_pos (t ++ r) e.
Proof. destruct e; cbn [ev_pos]; [apply is_position_app_r|tauto|tauto]. Qed.

Lemma positions_of_events t evs : Forall (ev_pos t) evs -> positions_of_text t (chunks_of evs) = true.
Proof.
  unfold positions_of_text. induction 1 as [|e evs He _ IH]; [reflexivity|].
  destruct e as [tx m|i n c|i n]; cbn [chunks_of forallb]; [|exact IH|exact IH].
  cbn [ev_pos] in He. cbn [snd]. rewrite He, IH. reflexivity.
Qed.

Lemma announce_sources_pos t m srcs : forall i, Forall (ev_pos t) (announce_sources m srcs i).
Proof. induction srcs as [|s srcs IH]; intros i; cbn [announce_sources]; constructor; [exact I|apply IH]. Qed.

Lemma announce_names_pos t names : forall i, Forall (ev_pos t) (announce_names names i).
Proof. induction names as [|s names IH]; intros i; cbn [announce_names]; constructor; [exact I|apply IH]. Qed.

(* OriginalSource *)
Lemma original_tokens_pos toks : Forall piece_shape toks -> forall pre line col,
  advance 1 0 pre = (line, col) ->
  Forall (ev_pos (pre ++ concat toks)) (fst (original_tokens toks true line col)).
Proof.
  induction 1 as [|tk toks Htk _ IH]; intros pre line col Hp; [constructor|].
  cbn [original_tokens concat].
  assert (Hhere : is_position (pre ++ tk ++ concat toks) line col = true)
    by (apply is_position_adv; exact Hp).
  assert (Hnext : advance 1 0 (pre ++ tk) = if ends_with_nl tk then (line + 1, 0) else (line, col + len tk)).
  { rewrite (advance_app' 1 0 pre tk line col Hp). apply piece_advance. exact Htk. }
  destruct (ends_with_nl tk).
  - specialize (IH (pre ++ tk) (line + 1) 0 Hnext). rewrite <- app_assoc in IH.
    destruct (original_tokens toks true (line + 1) 0) as [evs gi]. cbn [fst] in *.
    apply Forall_app. split; [|exact IH].
    destruct (true && (len tk =? 1)); [constructor|]. constructor; [exact Hhere|constructor].
  - specialize (IH (pre ++ tk) line (col + len tk) Hnext). rewrite <- app_assoc in IH.
    destruct (original_tokens toks true line (col + len tk)) as [evs gi]. cbn [fst andb] in *.
    apply Forall_app. split; [|exact IH]. constructor; [exact Hhere|constructor].
Qed.

Lemma original_line_marks_pos t n : forall line,
  (forall k, line <= k -> k < line + N.of_nat n -> is_position t k 0 = true) ->
  Forall (ev_pos t) (original_line_marks n line).
Proof.
  induction n as [|n IH]; intros line H; [constructor|]. cbn [original_line_marks].
  constructor; [cbn [ev_pos orig_at g_line g_col]; apply H; lia|]. apply IH. intros k H1 H2. apply H; lia.
Qed.

Lemma original_stream_pos v name cols :
  Forall (ev_pos v) (fst (original_stream v name (mkOpts cols true))).
Proof.
  unfold original_stream. cbn [columns final_source]. destruct cols.
  - pose proof (original_tokens_pos _ (potential_tokens_pieces v) [] 1 0 eq_refl) as H.
    rewrite concat_potential_tokens in H. cbn [app] in H.
    destruct (original_tokens (potential_tokens v) true 1 0) as [evs gi]. cbn [fst] in *.
    constructor; [exact I|exact H].
  - pose proof (gen_info_advance v) as Hg. destruct (gen_info v) as [gl gc]. cbn [fst].
    constructor; [exact I|]. apply original_line_marks_pos. intros k H1 H2.
    assert (Hend : is_position v gl gc = true).
    { rewrite <- (app_nil_r v) at 1. apply is_position_adv. symmetry. exact Hg. }
    apply (is_position_line0 v gl gc k Hend H1). destruct (gc =? 0); lia.
Qed.

(* SourceMapSource *)
Definition seg_pos (t : text) (mp : mapping) : Prop := is_position t (g_line mp) (g_col mp) = true.

Lemma map_consistent_pos t m : map_consistent t m = true ->
  Forall (seg_pos t) (decode_mappings (sm_mappings m)).
Proof.
  unfold map_consistent. intros H. apply andb_true_iff in H. destruct H as [H _].
  apply andb_true_iff in H. destruct H as [_ H]. apply segs_inside_positions in H.
  rewrite forallb_forall in H. apply Forall_forall. exact H.
Qed.

Lemma sm_final_loop_pos t rl rc ms : Forall (seg_pos t) ms ->
  forall active, Forall (ev_pos t) (sm_final_loop ms rl rc active).
Proof.
  induction 1 as [|m ms Hm _ IH]; intros active; [constructor|]. cbn [sm_final_loop].
  destruct ((rl <=? g_line m) && ((rc <=? g_col m) || (rl <? g_line m))); [apply IH|].
  destruct (m_orig m) as [o|].
  - constructor; [exact Hm|apply IH].
  - destruct (active =? g_line m); [constructor; [exact Hm|]|]; apply IH.
Qed.

Lemma sm_lines_final_loop_pos t fin ms : Forall (seg_pos t) ms ->
  forall cur, Forall (ev_pos t) (sm_lines_final_loop ms cur fin).
Proof.
  induction 1 as [|m ms Hm _ IH]; intros cur; [constructor|]. cbn [sm_lines_final_loop].
  destruct (m_orig m) as [o|]; [|apply IH].
  destruct ((cur <=? g_line m) && (g_line m <=? fin)); [|apply IH].
  constructor; [|apply IH]. cbn [ev_pos g_line g_col]. unfold seg_pos in Hm.
  apply (is_position_line0 t (g_line m) (g_col m) (g_line m) Hm); [|lia].
  unfold is_position in Hm. destruct (g_line m =? 0) eqn:E; [discriminate|]. apply N.eqb_neq in E. lia.
Qed.

Lemma sm_stream_pos t m cols : map_consistent t m = true ->
  Forall (ev_pos t) (fst (sm_stream t m (mkOpts cols true))).
Proof.
  intros Hc. pose proof (map_consistent_pos t m Hc) as Hs. unfold sm_stream. cbn [columns final_source].
  destruct cols.
  - unfold sm_stream_final. destruct (gen_info t) as [rl rc].
    destruct ((rl =? 1) && (rc =? 0)); cbn [fst]; [constructor|].
    apply Forall_app. split; [apply announce_sources_pos|]. apply Forall_app.
    split; [apply announce_names_pos|]. apply sm_final_loop_pos. exact Hs.
  - unfold sm_stream_lines_final. destruct (gen_info t) as [rl rc].
    destruct ((rl =? 1) && (rc =? 0)); cbn [fst]; [constructor|].
    apply Forall_app. split; [apply announce_sources_pos|]. apply sm_lines_final_loop_pos. exact Hs.
Qed.

(* ConcatSource *)
Lemma cpos_position st T r : cpos st = adv (1, 0) T -> is_position (T ++ r) (c_loff st + 1) (c_coff st) = true.
Proof. unfold cpos, adv. cbn [fst snd]. intros H. apply is_position_adv. symmetry. exact H. Qed.

Lemma concat_event_pos final T t st e : cpos st = adv (1, 0) T -> ev_pos t e ->
  Forall (ev_pos (T ++ t)) (snd (concat_event final st e)).
Proof.
  intros HT He. destruct e as [chunk m|i name content|i name]; cbn [concat_event].
  - cbn [snd]. apply Forall_app. split.
    { destruct (c_close st && negb ((g_line m =? 1) && (g_col m =? 0))); [|constructor].
      constructor; [|constructor]. cbn [closer ev_pos unmapped g_line g_col]. apply cpos_position. exact HT. }
    constructor; [|constructor]. cbn [ev_pos] in He.
    pose proof (is_position_shift T t _ _ He) as P.
    unfold cpos, adv in HT. cbn [fst snd] in HT. rewrite <- HT in P. cbn [fst snd] in P.
    replace (c_loff st + 1 - 1) with (c_loff st) in P by lia. unfold shift in P. cbn [fst snd] in P.
    destruct (m_orig m) as [o|]; [destruct (lm_get (c_src_idx st) (o_src o))|];
      cbn [ev_pos unmapped g_line g_col]; exact P.
  - destruct (find_text (c_sources st) name 0); cbn [snd]; repeat constructor.
  - destruct (find_text (c_names st) name 0); cbn [snd]; repeat constructor.
Qed.

Lemma concat_events_pos final T t evs : forall st, cpos st = adv (1, 0) T -> Forall (ev_pos t) evs ->
  Forall (ev_pos (T ++ t)) (snd (concat_events final st evs)).
Proof.
  induction evs as [|e evs IH]; intros st HT H; [constructor|].
  inversion H as [|? ? He Hevs]. subst. cbn [concat_events].
  pose proof (concat_event_pos final T t st e HT He) as A.
  pose proof (concat_event_offs final st e) as [O1 O2].
  destruct (concat_event final st e) as [st1 o1]. cbn [fst snd] in *.
  assert (HT1 : cpos st1 = adv (1, 0) T) by (unfold cpos in *; rewrite O1, O2; exact HT).
  pose proof (IH st1 HT1 Hevs) as B. destruct (concat_events final st1 evs) as [st2 o2]. cbn [snd] in *.
  apply Forall_app. split; assumption.
Qed.

Lemma concat_child_pos final T t st evs gi : cpos st = adv (1, 0) T -> Forall (ev_pos t) evs ->
  Forall (ev_pos (T ++ t)) (snd (concat_child final st evs gi)).
Proof.
  intros HT H. unfold concat_child.
  assert (HT0 : cpos (concat_child_start st) = adv (1, 0) T) by exact HT.
  pose proof (concat_events_pos final T t evs (concat_child_start st) HT0 H) as A.
  pose proof (concat_events_offs final evs (concat_child_start st)) as [O1 O2].
  destruct (concat_events final (concat_child_start st) evs) as [st1 o1]. cbn [fst snd] in *.
  assert (HT1 : cpos st1 = adv (1, 0) T) by (unfold cpos in *; rewrite O1, O2; exact HT).
  unfold concat_child_end. cbn [snd]. apply Forall_app. split; [exact A|].
  destruct (c_close st1 && negb ((fst gi =? 1) && (snd gi =? 0))); [|constructor].
  constructor; [|constructor]. cbn [closer ev_pos unmapped g_line g_col]. apply cpos_position. exact HT1.
Qed.

Definition final_pos (s : src) : Prop :=
  forall st cols, Forall (ev_pos (source s)) (fst (fst (stream st s (mkOpts cols true)))).

Lemma cfold_pos cols cs : Forall final_end cs -> Forall final_pos cs -> forall cst evs st T,
  cpos cst = adv (1, 0) T -> Forall (ev_pos T) evs ->
  Forall (ev_pos (T ++ concat (map source cs)))
         (snd (fst (fold_left (cfold_step (mkOpts cols true)) cs (cst, evs, st)))).
Proof.
  induction 1 as [|c cs Hc _ IH]; intros Hp cst evs st T HT Hevs.
  - cbn [fold_left map concat fst snd]. rewrite app_nil_r. exact Hevs.
  - inversion Hp as [|? ? Hpc Hpcs]. subst.
    cbn [fold_left]. rewrite cfold_step_eq. pose proof (Hc st cols) as A. pose proof (Hpc st cols) as P.
    destruct (stream st c (mkOpts cols true)) as [[cevs gi] st1]. cbn [fst snd] in A, P.
    cbn [final_source].
    pose proof (concat_child_cpos true cst cevs gi (source c) A) as B.
    pose proof (concat_child_pos true T (source c) cst cevs gi HT P) as D.
    destruct (concat_child true cst cevs gi) as [cst' out]. cbn [fst snd] in B, D.
    cbn [map concat]. rewrite app_assoc. apply (IH Hpcs).
    + rewrite B, HT, adv_app. reflexivity.
    + apply Forall_app. split; [|exact D]. eapply Forall_impl; [|exact Hevs].
      intros e. apply ev_pos_app_r.
Qed.

Lemma final_pos_all : forall s, simple_shape s = true -> tree_ascii s = true -> final_pos s.
Proof.
  apply (src_ind' (fun s => simple_shape s = true -> tree_ascii s = true -> final_pos s)).
  - intros b v _ _ st cols. cbn [stream raw_stream final_source fst]. constructor.
  - intros v _ _ st cols. cbn [stream raw_stream final_source fst]. constructor.
  - intros v _ _ st cols. cbn [stream raw_stream final_source fst]. constructor.
  - intros v n _ _ st cols. cbn [stream fst source]. apply original_stream_pos.
  - intros v n m og i r Hsh Ha st cols. cbn [simple_shape] in Hsh. destruct i as [im|]; [discriminate|].
    cbn [stream fst source]. apply sm_stream_pos. cbn [tree_ascii] in Ha.
    rewrite andb_true_r in Ha. apply andb_true_iff in Ha. destruct Ha as [Ha _].
    apply andb_true_iff in Ha. destruct Ha as [_ Ha]. exact Ha.
  - intros cs IH Hsh Ha st cols. cbn [simple_shape tree_ascii] in Hsh, Ha.
    assert (Hall : Forall final_pos cs).
    { rewrite Forall_forall in *. rewrite forallb_forall in Hsh, Ha. intros c Hc.
      apply IH; [exact Hc|apply Hsh; exact Hc|apply Ha; exact Hc]. }
    assert (Hend : Forall final_end cs).
    { rewrite Forall_forall. rewrite forallb_forall in Hsh. intros c Hc st0 cols0.
      apply final_end_partial. apply Hsh. exact Hc. }
    rewrite stream_concat_eq. cbn [source]. destruct cs as [|c [|c2 cs]].
    + constructor.
    + inversion Hall as [|? ? Hc _]. cbn [map concat]. rewrite app_nil_r. apply Hc.
    + pose proof (cfold_pos cols (c :: c2 :: cs) Hend Hall concat_init [] st [] eq_refl (Forall_nil _)) as A.
      destruct (fold_left (cfold_step (mkOpts cols true)) (c :: c2 :: cs) (concat_init, [], st))
        as [[cst evs] st']. cbn [fst snd] in *. exact A.
  - intros i rs _ Hsh. discriminate.
  - intros id i _ Hsh. discriminate.
Qed.

(* W6 (trees without ReplaceSource) *)
Theorem final_positions (s : src) (st : store) (cols : bool) :
  simple_shape s = true -> treeA s = true ->
  positions_of_text (source s) (chunks_of (fst (fst (stream st s (mkOpts cols true))))) = true.
Proof.
  intros Hsh Ha. unfold treeA in Ha. apply andb_true_iff in Ha. destruct Ha as [_ Ha].
  apply positions_of_events. apply final_pos_all; assumption.
Qed.

Print Assumptions final_end_partial.
Print Assumptions final_end_cond.
Print Assumptions final_positions.
