(* Injectivity of the typed hasher stream (E4-E7).

   The stream of a ConcatSource is its type tag followed by the streams of its
   children, with no length prefix and no terminator: the grouping of a nested
   ConcatSource cannot be recovered (`hash_not_injective`).  On the class
   `delimited` (no ConcatSource directly below a ConcatSource or, through
   ReplaceSource chains, below one; CachedSource resets the condition because
   it feeds a single u64 digest) the stream determines the tree up to what the
   hash deliberately ignores (`norm`). *)
From Coq Require Import List NArith Bool Lia Sorted Permutation.
From RS Require Import Base.Prelude Base.Text Rope.RopeModel Stream.Types Stream.Replace
  Stream.Tree Sem.HashEq Proofs.ReplaceSort Proofs.HashEqBasic.
Import ListNotations.
Open Scope N_scope.

(* ------------------------------------------------------------------ *)
(* Definitions *)

(* what the hash ignores: RawSource's is_buffer flag, SourceMapSource's name,
   CachedSource's identity, the insertion order of replacements with distinct keys *)
Fixpoint norm (s : src) : src :=
  match s with
  | SRaw _ v => SRaw false v
  | SRawString v => SRawString v
  | SRawBuffer v => SRawBuffer v
  | SOriginal v n => SOriginal v n
  | SMapped v _ m o i r => SMapped v [] m o i r
  | SConcat cs => SConcat (map norm cs)
  | SReplace inner rs => SReplace (norm inner) (sort_repls rs)
  | SCached _ inner => SCached 0 (norm inner)
  end.

(* `delim_cls top s`, `no_concat`, `delimited`: defined in Sem/HashEq.v (the checker of C20
   uses `delimited`).  With top = true, `s` may be (a ReplaceSource chain around) a
   ConcatSource; with top = false it may not.  Children of a ConcatSource are
   checked with top = false; the inner source of a CachedSource with top = true. *)

Lemma no_concat_delimited (s : src) : no_concat s = true -> delimited s = true.
Proof.
  unfold no_concat, delimited.
  induction s as [b v|v|v|v n|v n m o i r|cs IH|inner rs IH|id inner IH]
    using src_nested_ind; cbn [delim_cls]; try (intros; reflexivity).
  - discriminate.
  - exact IH.
  - intros H; exact H.
Qed.

(* ------------------------------------------------------------------ *)
(* Prefix codes on typed events *)

Definition no_hb_head (l : list hev) : Prop :=
  match l with HB _ :: _ => False | _ => True end.
Definition no_u32_head (l : list hev) : Prop :=
  match l with HU32 _ :: _ => False | _ => True end.

Lemma hash_str_inj (t t' : text) (r r' : list hev) :
  hash_str t ++ r = hash_str t' ++ r' -> t = t' /\ r = r'.
Proof.
  unfold hash_str. cbn [app]. intros H. injection H as H1 H2. split; assumption.
Qed.

Lemma hash_bytes_inj (t t' : text) (r r' : list hev) :
  hash_bytes t ++ r = hash_bytes t' ++ r' -> t = t' /\ r = r'.
Proof.
  unfold hash_bytes. cbn [app]. intros H. injection H as _ H1 H2. split; assumption.
Qed.

Lemma hash_opt_str_inj (o o' : option text) (r r' : list hev) :
  hash_opt_str o ++ r = hash_opt_str o' ++ r' -> o = o' /\ r = r'.
Proof.
  destruct o as [t|], o' as [t'|]; unfold hash_opt_str, hash_str; cbn [app]; intros H.
  - injection H as H1 H2. subst. split; reflexivity.
  - discriminate H.
  - discriminate H.
  - injection H as H. split; [reflexivity|exact H].
Qed.

Lemma hash_opt_str_head (o : option text) (r : list hev) : no_hb_head (hash_opt_str o ++ r).
Proof. destruct o; exact I. Qed.

Lemma flat_hash_str_inj (l l' : list text) (r r' : list hev) :
  length l = length l' ->
  flat_map hash_str l ++ r = flat_map hash_str l' ++ r' -> l = l' /\ r = r'.
Proof.
  revert l'. induction l as [|t l IH]; intros [|t' l'] Hlen H; try discriminate Hlen.
  - split; [reflexivity|exact H].
  - cbn [flat_map] in H. rewrite <- !app_assoc in H.
    apply hash_str_inj in H. destruct H as [Ht H].
    injection Hlen as Hlen. destruct (IH l' Hlen H) as [Hl Hr].
    subst. split; reflexivity.
Qed.

Lemma hash_strs_inj (l l' : list text) (r r' : list hev) :
  hash_strs l ++ r = hash_strs l' ++ r' -> l = l' /\ r = r'.
Proof.
  unfold hash_strs. cbn [app]. intros H. injection H as Hlen H.
  apply flat_hash_str_inj; [|exact H].
  unfold len in Hlen. apply Nat2N.inj in Hlen. exact Hlen.
Qed.

Definition hash_debug (o : option text) : list hev :=
  match o with Some d => hash_str d | None => [] end.

Lemma hash_debug_inj (o o' : option text) (r r' : list hev) :
  no_hb_head r -> no_hb_head r' ->
  hash_debug o ++ r = hash_debug o' ++ r' -> o = o' /\ r = r'.
Proof.
  intros Hr Hr'. destruct o as [d|], o' as [d'|]; unfold hash_debug, hash_str; cbn [app]; intros H.
  - injection H as H1 H2. subst. split; reflexivity.
  - subst r'. destruct Hr'.
  - subst r. destruct Hr.
  - split; [reflexivity|exact H].
Qed.

Lemma hash_smap_unfold (m : smap) (r : list hev) :
  hash_smap m ++ r =
  hash_opt_str (sm_file m) ++ hash_str (sm_mappings m) ++ hash_strs (sm_sources m)
  ++ hash_strs (sm_contents m) ++ hash_strs (sm_names m) ++ hash_opt_str (sm_root m)
  ++ hash_debug (sm_debug m) ++ r.
Proof. unfold hash_smap, hash_debug. rewrite <- !app_assoc. reflexivity. Qed.

(* whatever follows a hash_smap is not a raw `write`: needed because of the
   optional trailing debug-id string *)
Lemma hash_smap_inj (m m' : smap) (r r' : list hev) :
  no_hb_head r -> no_hb_head r' ->
  hash_smap m ++ r = hash_smap m' ++ r' -> m = m' /\ r = r'.
Proof.
  intros Hr Hr' H. rewrite !hash_smap_unfold in H.
  destruct m as [f1 m1 s1 c1 n1 r1 d1], m' as [f2 m2 s2 c2 n2 r2 d2].
  cbn [sm_file sm_mappings sm_sources sm_contents sm_names sm_root sm_debug] in H.
  apply hash_opt_str_inj in H. destruct H as [H1 H].
  apply hash_str_inj in H. destruct H as [H2 H].
  apply hash_strs_inj in H. destruct H as [H3 H].
  apply hash_strs_inj in H. destruct H as [H4 H].
  apply hash_strs_inj in H. destruct H as [H5 H].
  apply hash_opt_str_inj in H. destruct H as [H6 H].
  apply hash_debug_inj in H; [|exact Hr|exact Hr']. destruct H as [H7 H].
  subst. split; reflexivity.
Qed.

Lemma cons_inj {A} (x y : A) (l l' : list A) : x :: l = y :: l' -> x = y /\ l = l'.
Proof. intros H. injection H as H1 H2. split; assumption. Qed.

Lemma hash_repl_inj (x x' : repl) (r r' : list hev) :
  hash_repl x ++ r = hash_repl x' ++ r' -> x = x' /\ r = r'.
Proof.
  destruct x as [s1 e1 c1 n1 f1], x' as [s2 e2 c2 n2 f2]. unfold hash_repl.
  cbn [r_start r_end r_content r_name r_enforce]. rewrite <- !app_assoc.
  change ([HU32 s1; HU32 e1] ++ hash_str c1 ++ hash_opt_str n1 ++ [HIs f1] ++ r)
    with (HU32 s1 :: HU32 e1 :: hash_str c1 ++ hash_opt_str n1 ++ HIs f1 :: r).
  change ([HU32 s2; HU32 e2] ++ hash_str c2 ++ hash_opt_str n2 ++ [HIs f2] ++ r')
    with (HU32 s2 :: HU32 e2 :: hash_str c2 ++ hash_opt_str n2 ++ HIs f2 :: r').
  intros H.
  apply cons_inj in H. destruct H as [H1 H]. apply cons_inj in H. destruct H as [H2 H].
  apply hash_str_inj in H. destruct H as [H3 H].
  apply hash_opt_str_inj in H. destruct H as [H4 H].
  apply cons_inj in H. destruct H as [H5 H].
  injection H1 as H1. injection H2 as H2. injection H5 as H5.
  subst. split; reflexivity.
Qed.

Lemma hash_repl_head (x : repl) (r : list hev) :
  exists n tl, hash_repl x ++ r = HU32 n :: tl.
Proof. unfold hash_repl. cbn [app]. eexists. eexists. reflexivity. Qed.

(* the replacement records are separated from what follows by its first event
   not being a `write_u32` *)
Lemma hash_repls_inj (l l' : list repl) (r r' : list hev) :
  no_u32_head r -> no_u32_head r' ->
  flat_map hash_repl l ++ r = flat_map hash_repl l' ++ r' -> l = l' /\ r = r'.
Proof.
  intros Hr Hr'. revert l'. induction l as [|x l IH]; intros [|x' l'] H.
  - split; [reflexivity|exact H].
  - exfalso. cbn [flat_map app] in H. rewrite <- app_assoc in H.
    destruct (hash_repl_head x' (flat_map hash_repl l' ++ r')) as (n & tl & E).
    rewrite E in H. subst r. exact Hr.
  - exfalso. cbn [flat_map app] in H. rewrite <- app_assoc in H.
    destruct (hash_repl_head x (flat_map hash_repl l ++ r)) as (n & tl & E).
    rewrite E in H. subst r'. exact Hr'.
  - cbn [flat_map] in H. rewrite <- !app_assoc in H.
    apply hash_repl_inj in H. destruct H as [Hx H].
    destruct (IH l' H) as [Hl Hrr]. subst. split; reflexivity.
Qed.

(* the first event of a source's stream is `write(tag)` or `write_u64` *)
Lemma hash_events_head (s : src) (r : list hev) : no_u32_head (hash_events s ++ r).
Proof. destruct s; exact I. Qed.

Lemma hash_events_nonnil (s : src) (r : list hev) : hash_events s ++ r <> [].
Proof. destruct s; discriminate. Qed.

(* ------------------------------------------------------------------ *)
(* E4: injectivity on the delimited class *)

Definition inj_at (a : src) : Prop :=
  forall top b r r',
    delim_cls top a = true -> delim_cls top b = true ->
    (top = true -> r = [] /\ r' = []) ->
    hash_events a ++ r = hash_events b ++ r' ->
    norm a = norm b /\ r = r'.

Lemma concat_children_inj (ca : list src) :
  Forall inj_at ca ->
  forall cb, forallb (delim_cls false) ca = true -> forallb (delim_cls false) cb = true ->
    flat_map hash_events ca = flat_map hash_events cb -> map norm ca = map norm cb.
Proof.
  intros HF. induction HF as [|x ca Hx HF IH]; intros [|y cb] Ha Hb H.
  - reflexivity.
  - exfalso. cbn [flat_map] in H. symmetry in H. exact (hash_events_nonnil _ _ H).
  - exfalso. cbn [flat_map] in H. exact (hash_events_nonnil _ _ H).
  - cbn [forallb] in Ha, Hb. apply andb_true_iff in Ha. apply andb_true_iff in Hb.
    destruct Ha as [Hax Ha], Hb as [Hby Hb]. cbn [flat_map] in H.
    destruct (Hx false y _ _ Hax Hby (fun E => False_ind _ (diff_false_true E)) H) as [Hn Hr].
    cbn [map]. rewrite Hn, (IH cb Ha Hb Hr). reflexivity.
Qed.

Ltac off_diag H :=
  exfalso; cbn [hash_events hash_str app] in H; discriminate H.

Lemma bool_u8_inj (x y : bool) (r r' : list hev) :
  HU8 (if x then 1 else 0) :: r = HU8 (if y then 1 else 0) :: r' -> x = y /\ r = r'.
Proof.
  intros H. apply cons_inj in H. destruct H as [H Hr]. split; [|exact Hr].
  destruct x, y; try reflexivity; discriminate H.
Qed.

Lemma hash_inj_all (a : src) : inj_at a.
Proof.
  induction a as [ba va|va|va|va na|va na ma oa ia ra|ca IH|ia ra IH|ida ia IH]
    using src_nested_ind;
    intros top [bb vb|vb|vb|vb nb|vb nb mb ob ib rb|cb|ib rb|idb ib] r r' Ca Cb Htop H;
    try (off_diag H).
  - (* RawSource *)
    cbn [hash_events] in H. rewrite <- !app_assoc in H.
    apply hash_str_inj in H. destruct H as [_ H].
    apply hash_bytes_inj in H. destruct H as [Hv H]. subst. split; reflexivity.
  - (* RawStringSource *)
    cbn [hash_events] in H. rewrite <- !app_assoc in H.
    apply hash_str_inj in H. destruct H as [_ H].
    apply hash_bytes_inj in H. destruct H as [Hv H]. subst. split; reflexivity.
  - (* RawBufferSource *)
    cbn [hash_events] in H. rewrite <- !app_assoc in H.
    apply hash_str_inj in H. destruct H as [_ H].
    apply hash_bytes_inj in H. destruct H as [Hv H]. subst. split; reflexivity.
  - (* OriginalSource *)
    cbn [hash_events] in H. rewrite <- !app_assoc in H.
    apply hash_str_inj in H. destruct H as [_ H].
    apply hash_bytes_inj in H. destruct H as [Hv H].
    apply hash_str_inj in H. destruct H as [Hn H]. subst. split; reflexivity.
  - (* SourceMapSource *)
    cbn [hash_events] in H. rewrite <- !app_assoc in H.
    apply hash_str_inj in H. destruct H as [_ H].
    apply hash_bytes_inj in H. destruct H as [Hv H].
    apply hash_smap_inj in H; [|apply hash_opt_str_head|apply hash_opt_str_head].
    destruct H as [Hm H].
    apply hash_opt_str_inj in H. destruct H as [Ho H].
    destruct ia as [ima|], ib as [imb|]; cbn [app] in H.
    + injection H as H. apply hash_smap_inj in H; [|exact I|exact I].
      destruct H as [Him H]. apply bool_u8_inj in H. destruct H as [Hrm H].
      subst. split; reflexivity.
    + discriminate H.
    + discriminate H.
    + apply cons_inj in H. destruct H as [_ H]. apply bool_u8_inj in H. destruct H as [Hrm H].
      subst. split; reflexivity.
  - (* ConcatSource *)
    cbn [delim_cls] in Ca, Cb. apply andb_true_iff in Ca. apply andb_true_iff in Cb.
    destruct Ca as [Et Ca], Cb as [_ Cb]. destruct (Htop Et) as [Hr Hr']. subst r r'.
    split; [|reflexivity]. rewrite !app_nil_r in H.
    cbn [hash_events] in H. apply hash_str_inj in H. destruct H as [_ H].
    cbn [norm]. rewrite (concat_children_inj ca IH cb Ca Cb H). reflexivity.
  - (* ReplaceSource *)
    cbn [delim_cls] in Ca, Cb. cbn [hash_events] in H. rewrite <- !app_assoc in H.
    apply hash_str_inj in H. destruct H as [_ H].
    apply hash_repls_inj in H; [|apply hash_events_head|apply hash_events_head].
    destruct H as [Hrs H].
    destruct (IH top ib r r' Ca Cb Htop H) as [Hn Hr].
    cbn [norm]. rewrite Hn, Hrs. split; [reflexivity|exact Hr].
  - (* CachedSource *)
    cbn [delim_cls] in Ca, Cb. cbn [hash_events app] in H. injection H as H Hr.
    assert (H' : hash_events ia ++ [] = hash_events ib ++ []) by (rewrite !app_nil_r; exact H).
    destruct (IH true ib [] [] Ca Cb (fun _ => conj eq_refl eq_refl) H') as [Hn _].
    cbn [norm]. rewrite Hn. split; [reflexivity|exact Hr].
Qed.

Theorem hash_injective (a b : src) :
  delimited a = true -> delimited b = true ->
  hash_events a = hash_events b -> norm a = norm b.
Proof.
  intros Da Db H.
  assert (H' : hash_events a ++ [] = hash_events b ++ []) by (rewrite !app_nil_r; exact H).
  exact (proj1 (hash_inj_all a true b [] [] Da Db (fun _ => conj eq_refl eq_refl) H')).
Qed.

(* sources that are not (ReplaceSource chains around) a ConcatSource form a prefix code *)
Theorem hash_prefix_code (a b : src) (r r' : list hev) :
  no_concat a = true -> no_concat b = true ->
  hash_events a ++ r = hash_events b ++ r' -> norm a = norm b /\ r = r'.
Proof.
  intros Da Db H.
  exact (hash_inj_all a false b r r' Da Db (fun E => False_ind _ (diff_false_true E)) H).
Qed.

(* ------------------------------------------------------------------ *)
(* the converse: the stream depends on the normal form only *)

Lemma insert_sorted_last (x : repl) (l : list repl) :
  Forall (fun a => repl_le a x = true) l -> insert_sorted x l = l ++ [x].
Proof.
  intros HF. induction HF as [|y l Hy HF IH]; [reflexivity|].
  cbn [insert_sorted app]. rewrite Hy, IH. reflexivity.
Qed.

Lemma strongly_sorted_snoc (l : list repl) (x : repl) :
  StronglySorted rle (l ++ [x]) ->
  StronglySorted rle l /\ Forall (fun a => repl_le a x = true) l.
Proof.
  induction l as [|y l IH]; cbn [app]; intros H.
  - split; constructor.
  - inversion H as [|y0 l0 Hs Hy]; subst. destruct (IH Hs) as [Hs' Hle]. split.
    + constructor; [exact Hs'|]. apply Forall_app in Hy. exact (proj1 Hy).
    + constructor; [|exact Hle]. apply Forall_app in Hy. destruct Hy as [_ Hy].
      inversion Hy; subst. assumption.
Qed.

Lemma sort_repls_of_sorted (l : list repl) : StronglySorted rle l -> sort_repls l = l.
Proof.
  induction l as [|x l IH] using rev_ind; intros Hs; [reflexivity|].
  apply strongly_sorted_snoc in Hs. destruct Hs as [Hs Hle].
  rewrite sort_repls_snoc, (IH Hs). apply insert_sorted_last. exact Hle.
Qed.

Theorem sort_repls_idem (rs : list repl) : sort_repls (sort_repls rs) = sort_repls rs.
Proof. apply sort_repls_of_sorted. exact (sort_repls_sorted rs). Qed.

Lemma hash_norm (s : src) : hash_events (norm s) = hash_events s.
Proof.
  induction s as [b v|v|v|v n|v n m o i r|cs IH|inner rs IH|id inner IH]
    using src_nested_ind; try reflexivity.
  - cbn [norm hash_events]. rewrite (flat_map_map_ext hash_events norm cs IH). reflexivity.
  - cbn [norm hash_events]. rewrite IH, sort_repls_idem. reflexivity.
  - cbn [norm hash_events]. rewrite IH. reflexivity.
Qed.

Theorem norm_implies_hash (a b : src) : norm a = norm b -> hash_events a = hash_events b.
Proof. intros H. rewrite <- (hash_norm a), <- (hash_norm b), H. reflexivity. Qed.

Theorem hash_injective_iff (a b : src) :
  delimited a = true -> delimited b = true ->
  (hash_events a = hash_events b <-> norm a = norm b).
Proof.
  intros Da Db. split; [apply hash_injective; assumption|apply norm_implies_hash].
Qed.

Lemma norm_idem (s : src) : norm (norm s) = norm s.
Proof.
  induction s as [b v|v|v|v n|v n m o i r|cs IH|inner rs IH|id inner IH]
    using src_nested_ind; try reflexivity.
  - cbn [norm]. f_equal. induction IH as [|x l Hx HF IHl]; [reflexivity|].
    cbn [map]. rewrite Hx, IHl. reflexivity.
  - cbn [norm]. rewrite IH, sort_repls_idem. reflexivity.
  - cbn [norm]. rewrite IH. reflexivity.
Qed.

(* == refines the kernel of the hash: equal trees have equal normal forms *)
Theorem eq_implies_norm (a b : src) : src_eqb a b = true -> norm a = norm b.
Proof.
  revert b. induction a as [ba va|va|va|va na|va na ma oa ia ra|ca IH|ia ra IH|ida ia IH]
    using src_nested_ind; intros b H; apply src_eqb_spec in H;
    destruct b as [bb vb|vb|vb|vb nb|vb nb mb ob ib rb|cb|ib rb|idb ib];
    cbn [erase_ids] in H; try discriminate H.
  - injection H as H1 H2. subst. reflexivity.
  - injection H as H1. subst. reflexivity.
  - injection H as H1. subst. reflexivity.
  - injection H as H1 H2. subst. reflexivity.
  - injection H as H1 H2 H3 H4 H5 H6. subst. reflexivity.
  - injection H as H. cbn [norm]. f_equal.
    revert cb H. induction IH as [|x l Hx HF IHl]; intros [|y cb] H; try discriminate H.
    + reflexivity.
    + cbn [map] in H. injection H as H1 H2. cbn [map].
      rewrite (Hx y), (IHl cb H2); [reflexivity|]. apply src_eqb_spec. exact H1.
  - injection H as H1 H2. subst. cbn [norm]. rewrite (IH ib); [reflexivity|].
    apply src_eqb_spec. exact H1.
  - injection H as H1. cbn [norm]. rewrite (IH ib); [reflexivity|].
    apply src_eqb_spec. exact H1.
Qed.

(* ------------------------------------------------------------------ *)
(* E5: equal normal forms have equal views, provided the RawSource leaves
   built from bytes are unchanged by from_utf8_lossy. *)

Fixpoint lossless (s : src) : bool :=
  match s with
  | SRaw true v => text_eqb (utf8_lossy v) v
  | SConcat cs => forallb lossless cs
  | SReplace inner _ => lossless inner
  | SCached _ inner => lossless inner
  | _ => true
  end.

Lemma replace_source_text_sorted (t : text) (rs : list repl) :
  replace_source_text t (sort_repls rs) = replace_source_text t rs.
Proof. unfold replace_source_text. rewrite sort_repls_idem. reflexivity. Qed.

Lemma views_norm (s : src) :
  lossless s = true -> source (norm s) = source s /\ buffer (norm s) = buffer s.
Proof.
  induction s as [b v|v|v|v n|v n m o i r|cs IH|inner rs IH|id inner IH]
    using src_nested_ind; intros HL; try (split; reflexivity).
  - destruct b; [|split; reflexivity]. cbn [lossless] in HL. apply text_eqb_eq in HL.
    cbn [norm source buffer]. split; [symmetry; exact HL|reflexivity].
  - cbn [lossless] in HL. cbn [norm source buffer].
    assert (Hs : map source (map norm cs) = map source cs /\
                 map buffer (map norm cs) = map buffer cs).
    { induction IH as [|x l Hx HF IHl]; [split; reflexivity|].
      cbn [forallb] in HL. apply andb_true_iff in HL. destruct HL as [HLx HL].
      destruct (Hx HLx) as [Hxs Hxb], (IHl HL) as [Hls Hlb].
      cbn [map]. rewrite Hxs, Hxb, Hls, Hlb. split; reflexivity. }
    destruct Hs as [Hs Hb]. rewrite Hs, Hb. split; reflexivity.
  - cbn [lossless] in HL. destruct (IH HL) as [IHs _]. cbn [norm source buffer].
    rewrite IHs, replace_source_text_sorted. split; reflexivity.
  - cbn [lossless] in HL. cbn [norm source buffer]. exact (IH HL).
Qed.

(* FULL STATEMENT (false of the model):
     norm_views : norm a = norm b -> source a = source b /\ buffer a = buffer b.
   `norm` erases RawSource's is_buffer flag because the hash ignores it, but
   source() of a RawSource built from bytes is from_utf8_lossy of the bytes; and
   buffer() of a ReplaceSource is computed from source() of its inner source.
   Counterexamples below. *)
Lemma norm_views_counterexample_source :
  exists a b, norm a = norm b /\ hash_events a = hash_events b /\ source a <> source b.
Proof.
  exists (SRaw true [255]), (SRaw false [255]).
  split; [reflexivity|]. split; [reflexivity|]. vm_compute. discriminate.
Qed.

Lemma norm_views_counterexample_buffer :
  exists a b, norm a = norm b /\ hash_events a = hash_events b /\ buffer a <> buffer b.
Proof.
  exists (SReplace (SRaw true [255]) []), (SReplace (SRaw false [255]) []).
  split; [reflexivity|]. split; [reflexivity|]. vm_compute. discriminate.
Qed.

Theorem norm_views_partial (a b : src) :
  lossless a = true -> lossless b = true ->
  norm a = norm b -> source a = source b /\ buffer a = buffer b.
Proof.
  intros La Lb H. destruct (views_norm a La) as [Hsa Hba], (views_norm b Lb) as [Hsb Hbb].
  rewrite <- Hsa, <- Hba, <- Hsb, <- Hbb, H. split; reflexivity.
Qed.

(* equal hashes, equal views (on the delimited class) *)
Corollary hash_eq_views (a b : src) :
  delimited a = true -> delimited b = true -> lossless a = true -> lossless b = true ->
  hash_events a = hash_events b -> source a = source b /\ buffer a = buffer b.
Proof.
  intros Da Db La Lb H. apply norm_views_partial; [exact La|exact Lb|].
  apply hash_injective; assumption.
Qed.

(* ------------------------------------------------------------------ *)
(* E6: outside the delimited class the stream is not injective *)

Lemma hash_not_injective :
  exists a b, hash_events a = hash_events b /\ source a <> source b.
Proof.
  exists (SConcat [SReplace (SConcat [SRaw false [97]; SRaw false [98]]) [mkRepl 9 9 [120] None 1];
                   SRaw false [99]]),
         (SConcat [SReplace (SConcat [SRaw false [97]; SRaw false [98]; SRaw false [99]])
                     [mkRepl 9 9 [120] None 1]]).
  split; [vm_compute; reflexivity|]. vm_compute. discriminate.
Qed.

(* the general reason: a trailing nested ConcatSource can be regrouped at will *)
Lemma hash_concat_regroup (xs ys zs : list src) :
  hash_events (SConcat (xs ++ [SConcat (ys ++ zs)])) =
  hash_events (SConcat (xs ++ SConcat ys :: zs)).
Proof.
  cbn [hash_events]. rewrite !flat_map_app. cbn [flat_map hash_events].
  rewrite flat_map_app, app_nil_r, <- !app_assoc. reflexivity.
Qed.

(* ------------------------------------------------------------------ *)
(* E7: CachedSource *)

Theorem hash_cached_congruence (i j : N) (a b : src) :
  hash_events a = hash_events b <-> hash_events (SCached i a) = hash_events (SCached j b).
Proof.
  cbn [hash_events]. split.
  - intros H. rewrite H. reflexivity.
  - intros H. injection H as H. exact H.
Qed.

Print Assumptions hash_injective.
Print Assumptions hash_prefix_code.
Print Assumptions hash_injective_iff.
Print Assumptions eq_implies_norm.
Print Assumptions norm_views_partial.
Print Assumptions hash_eq_views.
Print Assumptions hash_not_injective.
Print Assumptions hash_concat_regroup.
Print Assumptions hash_cached_congruence.
