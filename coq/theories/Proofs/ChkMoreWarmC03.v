(* C03, checker level, for trees with CachedSource nodes in ANY warm state (class `cls` of
   WarmTreeDefs.v, every cache id once).
     chk_C03_warm     verdict 0 outside the class K1 after ANY warm-up history;
     chk_C03_warm_any inside K1 the only other verdict is 51.
   The two attribution clauses are `warm_map` / `warm_text` (both sides = the reference).  For the
   "None exactly when no chunk is mapped" clauses the store invariant `Sound2` (WfMoreWarm.v) is
   extended by `Mp3`: every map a cache holds under a text-less key (c, true), and under a key
   (c, false) of a node whose wrapped source is outside K1, has a mapped segment (`mp`).
   Together with `map_wf` (segments strictly increasing, strictly before the end), `mapR`
   (segments on positions of the text) and attribution = reference, a stored or returned map is
   None exactly when the reference attributes no byte (`map_none_iff`); a text-carrying stream
   without empty chunks has a mapped chunk exactly when it attributes some byte
   (`text_mce_has_some`). *)
From RS Require Import Base.Prelude Base.Text Rope.RopeModel Codec.Vlq Codec.CodecSpec
  Checkers.ChkCodec Stream.Types Stream.Leaves Stream.Concat Stream.Replace Stream.Combined Stream.Tree
  Api.ApiTree Sem.Attr Sem.HashEq Api.ApiHist Checkers.ChkTree Checkers.ChkHist
  Proofs.CodecKept Proofs.CodecEnc Proofs.CodecMain Proofs.StreamText Proofs.StreamLeaves Proofs.StreamMap Proofs.StreamConcat Proofs.StreamTree
  Proofs.WfStream Proofs.WfFinal Proofs.WfMap Proofs.RStreamText Proofs.RStreamPos Proofs.RStreamTree
  Proofs.AttrCodec Proofs.AttrSms Proofs.AttrLeaves Proofs.LawConcatAttr Proofs.LawWrappers
  Proofs.CacheStore Proofs.CacheReplay Proofs.FinalDense Proofs.FinalReplace Proofs.FinalConcat Proofs.FinalTree Proofs.FinalCache
  Proofs.ReplAttrStream Proofs.ReplAttrOrigin Proofs.ReplAttrSms Proofs.ReplAttrTree
  Proofs.LinesBase Proofs.LinesSelf Proofs.LinesConcat Proofs.LinesTree
  Proofs.ColdCache Proofs.ColdCacheTree Proofs.BoundsPos Proofs.BoundsOrig Proofs.BoundsIdx Proofs.BoundsAll
  Proofs.WarmTreeDefs Proofs.WarmTreeReplay Proofs.WarmTreeCodec Proofs.WarmTreeNodes Proofs.WarmTreeMain Proofs.WarmTreeHist
  Proofs.WfAllStrict Proofs.WfAllMap Proofs.WfAllChk Proofs.WfMoreComb Proofs.WfMoreWarm
  Proofs.ChkModelC02 Proofs.ChkModelC03.
Require Import Lia List.
Import ListNotations.

Local Open Scope N_scope.


(* ================================================================== *)
(* a text-carrying stream without empty chunks                          *)
(* ================================================================== *)
Definition ne_seg (ch : option text * rseg) : Prop := exists b t, fst ch = Some (b :: t).

Lemma ne_rsegs : forall evs S Nn, no_empty_chunks evs = true -> Forall ne_seg (rsegs_of_events evs S Nn).
Proof.
  unfold no_empty_chunks. induction evs as [|e evs IH]; intros S Nn H; [constructor|].
  destruct e as [t m|i n c|i n]; cbn [chunk_texts forallb rsegs_of_events] in *; [|apply IH; exact H..].
  apply andb_true_iff in H. destruct H as [H1 H2]. constructor; [|apply IH; exact H2].
  destruct t as [[|b x]|]; try discriminate. exists b, x. reflexivity.
Qed.

Lemma ne_seg_seg_ne chs : Forall ne_seg chs -> Forall seg_ne chs.
Proof. intros H. eapply Forall_impl; [|exact H]. intros ch Hc _. exact Hc. Qed.

Lemma has_some_rev (l : list attr) : has_some (rev l) = has_some l.
Proof.
  unfold has_some. induction l as [|x l IH]; [reflexivity|]. cbn [rev existsb].
  rewrite existsb_app, IH. cbn [existsb]. rewrite orb_false_r. apply orb_comm.
Qed.

Lemma has_some_repeat (a : attr) (n : nat) : (0 < n)%nat -> has_some (repeat a n) = asome a.
Proof.
  intros H. destruct n as [|n]; [lia|]. cbn [repeat has_some existsb].
  destruct (asome a) eqn:E; [reflexivity|]. cbn [orb]. induction n as [|n IH]; [reflexivity|].
  cbn [repeat existsb]. rewrite E. apply IH. lia.
Qed.

Lemma lfc_has_some : forall chs cur acc n, Forall ne_seg chs -> (asome cur = true -> (0 < n)%nat) ->
  has_some (line_firsts_cover chs cur acc n) = has_some acc || asome cur || existsb seg_mapped chs.
Proof.
  induction chs as [|ch chs IH]; intros cur acc n Hne Hc.
  - cbn [line_firsts_cover existsb]. rewrite has_some_rev, has_some_app, orb_false_r.
    destruct (asome cur) eqn:E.
    + rewrite (has_some_repeat cur n (Hc eq_refl)), E. rewrite orb_true_r. reflexivity.
    + rewrite orb_false_r. destruct n as [|n]; [reflexivity|].
      rewrite (has_some_repeat cur (S n)) by lia. rewrite E. reflexivity.
  - inversion Hne as [|? ? [b [t Et]] Hne']. subst. destruct ch as [ot [[l c] a]]. cbn [fst] in Et. subst ot.
    cbn [line_firsts_cover existsb]. unfold seg_mapped at 1. cbn [snd].
    set (cur' := match cur with
                 | Some _ => cur
                 | None => match a with
                           | Some x => if is_nil (b :: t) then None else Some (mkLoc (l_file x) (l_line x) 0 None)
                           | None => cur
                           end
                 end).
    assert (Ec : asome cur' = asome cur || asome a).
    { unfold cur'. destruct cur as [x|]; [reflexivity|]. destruct a as [x|]; reflexivity. }
    assert (Hpos : (0 < n + length (b :: t))%nat) by (cbn [length]; lia).
    destruct (ends_with_nl (b :: t)).
    + rewrite (IH None _ 0%nat Hne') by discriminate.
      rewrite has_some_app, (has_some_repeat cur' _ Hpos), Ec. cbn [asome].
      destruct (asome cur), (asome a), (has_some acc), (existsb seg_mapped chs); reflexivity.
    + rewrite (IH cur' acc _ Hne') by (intros _; exact Hpos). rewrite Ec.
      destruct (asome cur), (asome a), (has_some acc), (existsb seg_mapped chs); reflexivity.
Qed.

(* a mapped chunk exactly when some byte is attributed *)
Theorem text_mce_has_some (evs : list event) (c : bool) : no_empty_chunks evs = true ->
  mapped_chunk_exists evs = has_some (attr_of_stream evs c).
Proof.
  intros Hne. pose proof (ne_rsegs evs [] [] Hne) as Hs. rewrite (mce_rsegs evs [] []).
  unfold attr_of_stream. destruct c.
  - destruct (existsb seg_mapped (rsegs_of_events evs [] [])) eqn:E.
    + symmetry. apply cover_has_some_intro; [apply ne_seg_seg_ne; exact Hs|exact E].
    + destruct (has_some (attr_cover (rsegs_of_events evs [] []))) eqn:E2; [|reflexivity].
      apply cover_has_some in E2. congruence.
  - rewrite (lfc_has_some _ None [] 0%nat Hs) by discriminate. reflexivity.
Qed.

(* ================================================================== *)
(* a map with a mapped segment attributes some byte                     *)
(* ================================================================== *)
Definition rsg (m : smap) (mp : mapping) : rseg :=
  (g_line mp, g_col mp, match m_orig mp with Some o => Some (resolve_map m o) | None => None end).

Lemma rsegs_of_map_eq m : rsegs_of_map m = map (rsg m) (decode_mappings (sm_mappings m)).
Proof. reflexivity. Qed.

Lemma pos_lt_trans a b c : pos_lt a b = true -> pos_lt b c = true -> pos_lt a c = true.
Proof.
  unfold pos_lt. intros H1 H2.
  apply orb_true_iff in H1. apply orb_true_iff in H2. apply orb_true_iff.
  rewrite andb_true_iff, N.ltb_lt, N.eqb_eq, N.ltb_lt in H1.
  rewrite andb_true_iff, N.ltb_lt, N.eqb_eq, N.ltb_lt in H2.
  rewrite andb_true_iff, N.ltb_lt, N.eqb_eq, N.ltb_lt.
  destruct H1 as [H1|[H1 H1x]], H2 as [H2|[H2 H2x]]; try (left; lia).
  right. split; [congruence|lia].
Qed.

Lemma sorted_lt_head : forall r x, sorted_by pos_lt (x :: r) = true -> Forall (fun y => pos_lt x y = true) r.
Proof.
  induction r as [|y r IH]; intros x H; [constructor|]. cbn [sorted_by] in H.
  apply andb_true_iff in H. destruct H as [H1 H2]. constructor; [exact H1|].
  eapply Forall_impl; [|apply (IH y H2)]. cbn beta. intros z Hz. apply (pos_lt_trans x y z H1 Hz).
Qed.

Lemma sorted_tail le x r : sorted_by le (x :: r) = true -> sorted_by le r = true.
Proof. destruct r as [|y r]; [reflexivity|]. cbn [sorted_by]. intros H. apply andb_true_iff in H. apply H. Qed.

Lemma lookup_later m x : forall r best, Forall (fun y => pos_lt x y = true) r ->
  seg_lookup (map (rsg m) r) (g_line x) (g_col x) best = best.
Proof.
  induction r as [|y r IH]; intros best H; [reflexivity|]. inversion H as [|? ? Hy Hr]. subst.
  cbn [map]. rewrite seg_lookup_cons.
  assert (E : squal (g_line x) (g_col x) (rsg m y) = false).
  { unfold squal, rsg. cbn [fst snd]. unfold pos_lt in Hy. apply orb_true_iff in Hy.
    rewrite andb_true_iff, N.ltb_lt, N.eqb_eq, N.ltb_lt in Hy. apply andb_false_iff.
    rewrite N.eqb_neq, N.leb_gt. destruct Hy as [Hy|[Hy Hy2]]; [left; lia|right; exact Hy2]. }
  rewrite E. apply IH. exact Hr.
Qed.

Lemma lookup_hit m mp : forall ms best, sorted_by pos_lt ms = true -> In mp ms ->
  seg_lookup (map (rsg m) ms) (g_line mp) (g_col mp) best = snd (rsg m mp).
Proof.
  induction ms as [|x r IH]; intros best Hs Hin; [destruct Hin|].
  cbn [map]. rewrite seg_lookup_cons. destruct Hin as [->|Hin].
  - assert (E : squal (g_line mp) (g_col mp) (rsg m mp) = true).
    { unfold squal, rsg. cbn [fst snd]. rewrite N.eqb_refl, N.leb_refl. reflexivity. }
    rewrite E. apply lookup_later. apply sorted_lt_head. exact Hs.
  - apply IH; [apply (sorted_tail _ _ _ Hs)|exact Hin].
Qed.

Lemma first_mapped_hit (segs : list rseg) l c a : In (l, c, Some a) segs -> asome (seg_first_mapped segs l) = true.
Proof.
  induction segs as [|[[sl sc] sa] segs IH]; intros H; [destruct H|]. cbn [seg_first_mapped].
  destruct H as [H|H].
  - inversion H. subst. rewrite N.eqb_refl. reflexivity.
  - destruct (sl =? l); [|apply IH; exact H]. destruct sa; [reflexivity|apply IH; exact H].
Qed.

Lemma pos_ltb_irrefl p : pos_ltb p p = false.
Proof. unfold pos_ltb. rewrite !N.ltb_irrefl, andb_false_r. reflexivity. Qed.

(* the byte at a position of the text strictly before its end *)
Lemma attr_at_position f t l c : is_position t l c = true -> pos_ltb (l, c) (advance 1 0 t) = true ->
  In (f l c) (attr_by_fun f t 1 0).
Proof.
  intros Hp Hl. destruct (is_position_split t l c Hp) as [a [b [-> A]]].
  destruct b as [|x b]; [rewrite app_nil_r, A, pos_ltb_irrefl in Hl; discriminate|].
  rewrite attr_by_fun_app, A. cbn [fst snd attr_by_fun]. apply in_or_app. right. left. reflexivity.
Qed.

Lemma in_has_some' (a : attr) (l : list attr) : In a l -> asome a = true -> has_some l = true.
Proof. intros Hin Ha. apply existsb_exists. exists a. split; assumption. Qed.

Theorem map_has_some (t : text) (m : smap) (c : bool) :
  sorted_by pos_lt (decode_mappings (sm_mappings m)) = true ->
  Forall (seg_pos t) (decode_mappings (sm_mappings m)) ->
  Forall (fun mp => pos_ltb (g_line mp, g_col mp) (advance 1 0 t) = true) (decode_mappings (sm_mappings m)) ->
  existsb is_mapped (decode_mappings (sm_mappings m)) = true ->
  has_some (attr_of_map (Some m) t c) = true.
Proof.
  intros Hs Hp Hl Hm. apply existsb_exists in Hm. destruct Hm as [mp [Hin Hmp]].
  rewrite Forall_forall in Hp, Hl. specialize (Hp mp Hin). specialize (Hl mp Hin). unfold seg_pos in Hp.
  cbn [attr_of_map]. rewrite attr_by_pos_fun.
  apply (in_has_some' _ _ (attr_at_position (seg_fun (rsegs_of_map m) c) t _ _ Hp Hl)).
  unfold is_mapped in Hmp. destruct (m_orig mp) as [o|] eqn:Eo; [|discriminate].
  unfold seg_fun. rewrite rsegs_of_map_eq. destruct c.
  - rewrite (lookup_hit m mp _ None Hs Hin). unfold rsg. cbn [snd]. rewrite Eo. reflexivity.
  - apply (first_mapped_hit _ (g_line mp) (g_col mp) (resolve_map m o)).
    apply in_map_iff. exists mp. split; [|exact Hin]. unfold rsg. rewrite Eo. reflexivity.
Qed.

Lemma has_some_none (t : text) : has_some (map (fun _ => @None loc) t) = false.
Proof. induction t as [|b t IH]; [reflexivity|]. cbn [map has_some existsb]. exact IH. Qed.

(* a map has a mapped segment *)
Definition mp (v : option smap) : bool :=
  match v with Some m => existsb is_mapped (decode_mappings (sm_mappings m)) | None => true end.

Lemma map_wf_before t m : map_wf t (Some m) = true ->
  Forall (fun x => pos_ltb (g_line x, g_col x) (advance 1 0 t) = true) (decode_mappings (sm_mappings m)).
Proof.
  unfold map_wf. intros H. apply andb_true_iff in H. destruct H as [H _].
  apply andb_true_iff in H. destruct H as [_ H]. rewrite forallb_forall in H.
  apply Forall_forall. intros x Hx. specialize (H x Hx).
  apply andb_true_iff in H. destruct H as [H _]. apply andb_true_iff in H. apply H.
Qed.

(* None exactly when no byte is attributed *)
Theorem map_none_iff (t : text) (v : option smap) (c : bool) :
  map_wf t v = true -> (forall m, v = Some m -> Forall (seg_pos t) (decode_mappings (sm_mappings m))) ->
  mp v = true -> is_none v = negb (has_some (attr_of_map v t c)).
Proof.
  intros Hw Hp Hm. destruct v as [m|].
  - cbn [is_none]. rewrite (map_has_some t m c); [reflexivity|apply (map_wf_sorted t m Hw)|apply (Hp m eq_refl)|
      apply (map_wf_before t m Hw)|exact Hm].
  - cbn [is_none attr_of_map]. rewrite has_some_none. reflexivity.
Qed.

(* ================================================================== *)
(* the map built by the encoder has a mapped segment                    *)
(* ================================================================== *)
Lemma kept_mapped : forall ms, existsb is_mapped ms = true -> existsb is_mapped (kept_from None ms) = true.
Proof.
  induction ms as [|m ms IH]; intros H; [discriminate|]. cbn [existsb] in H. cbn [kept_from redundant].
  unfold is_mapped in H at 1. destruct (m_orig m) as [o|] eqn:E.
  - cbn [existsb]. unfold is_mapped at 1. rewrite E. reflexivity.
  - cbn [orb] in H. apply IH. exact H.
Qed.

Lemma line_firsts_mapped : forall ms, Forall (fun m => 1 <= g_line m) ms -> existsb is_mapped ms = true ->
  existsb is_mapped (line_firsts_from 0 ms) = true.
Proof.
  induction ms as [|m ms IH]; intros Hl H; [discriminate|]. inversion Hl as [|? ? Hm Hms]. subst.
  cbn [existsb] in H. cbn [line_firsts_from]. unfold is_mapped in H at 1. destruct (m_orig m) as [o|] eqn:E.
  - replace (0 =? g_line m) with false by (symmetry; apply N.eqb_neq; lia). reflexivity.
  - cbn [orb] in H. apply IH; assumption.
Qed.

Theorem events_mp (c : bool) (evs : list event) : enc_domain (chunk_mappings evs) = true ->
  mp (map_of_events c evs) = true.
Proof.
  intros Hd. destruct (map_of_events c evs) as [m|] eqn:Hm; [|reflexivity]. cbn [mp].
  pose proof (map_of_events_none c evs Hd) as Hn. rewrite Hm in Hn. cbn [is_none] in Hn.
  assert (Ex : existsb is_mapped (chunk_mappings evs) = true).
  { rewrite <- mapped_chunk_exists_eq. destruct (mapped_chunk_exists evs); [reflexivity|discriminate]. }
  rewrite (map_of_events_mappings _ _ _ Hm), (enc_domain_roundtrip c _ Hd). destruct c.
  - apply kept_mapped. exact Ex.
  - apply line_firsts_mapped; [|exact Ex]. apply enc_domain_unpack in Hd. destruct Hd as [_ Hs].
    eapply Forall_impl; [|exact Hs]. intros x (_ & _ & H & _). exact H.
Qed.

(* ================================================================== *)
(* the extended store invariant                                         *)
(* ================================================================== *)
Definition entry_mp (inner : src) (f : bool) (v : option smap) : Prop :=
  f = true \/ k1_shape inner = false -> mp v = true.

Definition Mp3 (st : store) (U : src) : Prop :=
  forall id inner, In (id, inner) (nodes U) ->
  forall c f v, cache_get (store_get st id) (mkOpts c f) = Some v -> entry_mp inner f v.

Definition Sound3 (st : store) (U : src) : Prop := Sound2 st U /\ Mp3 st U.

Theorem sound3_empty (U : src) : Sound3 [] U.
Proof. split; [apply sound2_empty|]. intros id inner _ c f v H. discriminate. Qed.

Lemma mp3_put (U : src) st id inner c f v : ids_distinct U -> In (id, inner) (nodes U) ->
  Mp3 st U -> entry_mp inner f v -> Mp3 (store_put st id (mkOpts c f) v) U.
Proof.
  intros Hd Hin Hs Hv id' inner' Hin' c' f' x H. apply store_put_get_inv in H.
  destruct H as [H|[Ei [Eo [Ex _]]]].
  - apply (Hs id' inner' Hin' c' f' x H).
  - subst id' x. inversion Eo. subst c' f'.
    rewrite (nodes_inj U Hd id inner' inner Hin' Hin). exact Hv.
Qed.

Lemma FG_domain c s r : cls s -> FG c s r -> enc_domain (chunk_mappings (fst r)) = true.
Proof.
  intros Hcl [[K1 [K2 [K3 K4]]] [_ [_ Hb]]]. unfold tr_events, tr_info, tr_text in *. cbn [fst snd] in *.
  apply (entry_domain s (fst r) Hcl K1 K4 (ev_pos_cm _ _ K2) Hb).
Qed.

Lemma FG_mp c s r : cls s -> FG c s r -> mp (map_of_events c (fst r)) = true.
Proof. intros Hcl H. apply events_mp. apply (FG_domain c s r Hcl H). Qed.

Lemma TG_mp c s r : cls s -> TG c s r -> mp (map_of_events c (fst r)) = true.
Proof. intros Hcl H. apply (FG_mp c s r Hcl). apply FG_of_TG. exact H. Qed.

(* ================================================================== *)
(* the induction: every call keeps `Mp3`                                *)
(* ================================================================== *)
Section Warm3.
Variable U : src.
Hypothesis HU : ids_distinct U.

Definition keeps (s : src) : Prop :=
  (forall st c f, Sound3 st U -> Mp3 (snd (stream st s (mkOpts c f))) U) /\
  (forall st c, Sound3 st U ->
     (k1_shape s = false -> mp (fst (map_of st s c)) = true) /\ Mp3 (snd (map_of st s c)) U).

Definition PW3 (s : src) : Prop := incl (nodes s) (nodes U) -> cls s -> keeps s.

Lemma stream_sound3 s : incl (nodes s) (nodes U) -> cls s -> keeps s ->
  forall st c f, Sound3 st U -> Sound3 (snd (stream st s (mkOpts c f))) U.
Proof.
  intros Hin Hcl [K _] st c f Hs. split; [|apply K; exact Hs].
  destruct (warm2_all U HU s Hin Hcl) as [A [B _]]. destruct f.
  - apply (B st c (proj1 Hs)).
  - apply (A st c (proj1 Hs)).
Qed.

(* map() of a node that streams *)
Lemma get_map_keeps s : incl (nodes s) (nodes U) -> cls s ->
  (forall st c f, Sound3 st U -> Mp3 (snd (stream st s (mkOpts c f))) U) ->
  forall st c, Sound3 st U ->
    mp (fst (Tree.get_map st s c)) = true /\ Mp3 (snd (Tree.get_map st s c)) U.
Proof.
  intros Hin Hcl K st c Hs. destruct (warm2_all U HU s Hin Hcl) as [_ [B _]].
  destruct (B st c (proj1 Hs)) as [[F _] _]. pose proof (K st c true Hs) as S.
  unfold Tree.get_map. destruct (stream st s (mkOpts c true)) as [[evs gi] st']. cbn [fst snd] in *.
  split; [apply (FG_mp c s (evs, gi) Hcl F)|exact S].
Qed.

Lemma nocache_keeps_stream s : has_cached s = false ->
  forall st c f, Sound3 st U -> Mp3 (snd (stream st s (mkOpts c f))) U.
Proof. intros Hn st c f Hs. rewrite (nocache_stream s st _ Hn). cbn [snd]. exact (proj2 Hs). Qed.

(* the children of a ConcatSource, the store threaded through *)
Lemma kids_keep (c f : bool) : forall cs,
  (forall ch, In ch cs -> incl (nodes ch) (nodes U) /\ cls ch /\ keeps ch) ->
  forall st, Sound3 st U -> Sound3 (snd (kid_streams st cs (mkOpts c f))) U.
Proof.
  induction cs as [|ch cs IH]; intros Hall st Hs; [exact Hs|].
  cbn [kid_streams]. destruct (Hall ch (or_introl eq_refl)) as [H1 [H2 H3]].
  pose proof (stream_sound3 ch H1 H2 H3 st c f Hs) as S1.
  destruct (stream st ch (mkOpts c f)) as [[evs gi] st1]. cbn [snd] in S1.
  pose proof (IH (fun x Hx => Hall x (or_intror Hx)) st1 S1) as S2.
  destruct (kid_streams st1 cs (mkOpts c f)) as [ks st2]. cbn [snd] in *. exact S2.
Qed.

Theorem warm3_all : forall s, PW3 s.
Proof.
  apply (src_ind' PW3); unfold PW3.
  - (* SRaw *) intros b v _ Hcl. split; [apply nocache_keeps_stream; reflexivity|].
    intros st c Hs. cbn [map_of fst snd]. split; [reflexivity|exact (proj2 Hs)].
  - intros v _ Hcl. split; [apply nocache_keeps_stream; reflexivity|].
    intros st c Hs. cbn [map_of fst snd]. split; [reflexivity|exact (proj2 Hs)].
  - intros v _ Hcl. split; [apply nocache_keeps_stream; reflexivity|].
    intros st c Hs. cbn [map_of fst snd]. split; [reflexivity|exact (proj2 Hs)].
  - (* SOriginal *) intros v n Hin Hcl.
    pose proof (nocache_keeps_stream (SOriginal v n) eq_refl) as K. split; [exact K|].
    intros st c Hs. change (map_of st (SOriginal v n) c) with (Tree.get_map st (SOriginal v n) c).
    destruct (get_map_keeps _ Hin Hcl K st c Hs) as [A B]. split; [intros _; exact A|exact B].
  - (* SMapped *) intros v n m og i r Hin Hcl. split; [apply nocache_keeps_stream; reflexivity|].
    intros st c Hs. destruct i as [im|].
    + destruct Hcl as [_ [Sh _]]. discriminate.
    + cbn [map_of fst snd k1_shape]. split; [discriminate|exact (proj2 Hs)].
  - (* SConcat *) intros cs IH Hin Hcl. rewrite Forall_forall in IH.
    assert (Hkids : forall ch, In ch cs -> incl (nodes ch) (nodes U) /\ cls ch /\ keeps ch).
    { intros ch Hch.
      assert (H1 : incl (nodes ch) (nodes U)) by (intros x Hx; apply Hin; apply (nodes_child cs ch Hch); exact Hx).
      pose proof (cls_concat cs ch Hcl Hch) as H2. split; [exact H1|]. split; [exact H2|apply (IH ch Hch H1 H2)]. }
    assert (K : forall st c f, Sound3 st U -> Mp3 (snd (stream st (SConcat cs) (mkOpts c f))) U).
    { intros st c f Hs. destruct (Nat.eq_dec (length cs) 1) as [E|E].
      - destruct cs as [|ch [|c2 r]]; try discriminate.
        change (stream st (SConcat [ch]) (mkOpts c f)) with (stream st ch (mkOpts c f)).
        destruct (Hkids ch (or_introl eq_refl)) as [_ [_ [X _]]]. apply X. exact Hs.
      - rewrite (stream_concat_fold st cs _ E). cbn [snd]. apply (kids_keep c f cs Hkids st Hs). }
    split; [exact K|]. intros st c Hs.
    change (map_of st (SConcat cs) c) with (Tree.get_map st (SConcat cs) c).
    destruct (get_map_keeps _ Hin Hcl K st c Hs) as [A B]. split; [intros _; exact A|exact B].
  - (* SReplace *) intros i rs IH Hin Hcl. destruct (cls_replace i rs Hcl) as [Hci Hnc].
    destruct rs as [|r rs].
    + destruct (IH Hin Hci) as [IS IM]. split.
      * intros st c f Hs. rewrite replace_nil_stream_eq. cbn [snd columns]. apply IS. exact Hs.
      * intros st c Hs. change (map_of st (SReplace i []) c) with (map_of st i c).
        cbn [k1_shape is_nil andb]. apply IM. exact Hs.
    + assert (Hn : has_cached (SReplace i (r :: rs)) = false) by (apply Hnc; discriminate).
      pose proof (nocache_keeps_stream _ Hn) as K. split; [exact K|]. intros st c Hs.
      change (map_of st (SReplace i (r :: rs)) c) with (Tree.get_map st (SReplace i (r :: rs)) c).
      destruct (get_map_keeps _ Hin Hcl K st c Hs) as [A B]. split; [intros _; exact A|exact B].
  - (* SCached *) intros id i IH Hin Hcl. pose proof (cls_cached id i Hcl) as Hci.
    assert (Hnode : In (id, i) (nodes U)) by (apply Hin; left; reflexivity).
    assert (Hin' : incl (nodes i) (nodes U)) by (intros x Hx; apply Hin; right; exact Hx).
    destruct (IH Hin' Hci) as [IS IM]. destruct (warm2_all U HU i Hin' Hci) as [IA [IB _]].
    split.
    + intros st c f Hs. cbn [stream].
      destruct (cache_get (store_get st id) (mkOpts c f)) as [v|] eqn:G.
      * destruct v as [m|]; cbn [snd]; exact (proj2 Hs).
      * pose proof (IS st c f Hs) as S.
        assert (M : mp (map_of_events c (fst (fst (stream st i (mkOpts c f))))) = true).
        { destruct f.
          - destruct (IB st c (proj1 Hs)) as [[T _] _]. apply (FG_mp c i _ Hci T).
          - destruct (IA st c (proj1 Hs)) as [[T _] _]. apply (TG_mp c i _ Hci T). }
        destruct (stream st i (mkOpts c f)) as [[evs gi] st']. cbn [fst snd columns] in *.
        apply (mp3_put U st' id i c f _ HU Hnode S). intros _. exact M.
    + intros st c Hs. cbn [map_of k1_shape].
      destruct (cache_get (store_get st id) (mkOpts c false)) as [v|] eqn:G.
      * cbn [fst snd]. split; [|exact (proj2 Hs)].
        intros Hk. apply (proj2 Hs id i Hnode c false v G). right. exact Hk.
      * destruct (IM st c Hs) as [E S]. destruct (map_of st i c) as [m st']. cbn [fst snd] in *.
        assert (We : entry_mp i false m) by (intros [X|X]; [discriminate|apply E; exact X]).
        pose proof (mp3_put U st' id i c false m HU Hnode S We) as S'.
        split; [|exact S']. intros Hk.
        destruct (cache_get (store_get (store_put st' id (mkOpts c false) m) id) (mkOpts c false)) as [m'|] eqn:G';
          [apply (S' id i Hnode c false m' G'); right; exact Hk|apply E; exact Hk].
Qed.

End Warm3.

(* ================================================================== *)
(* the statements                                                       *)
(* ================================================================== *)
Section G3.
Variable s : src.
Hypothesis Hd : ids_distinct s.
Hypothesis Hcl : cls s.

Let W2 := warm2_all s Hd s (incl_refl _) Hcl.
Let W3 := warm3_all s Hd s (incl_refl _) Hcl.

(* the invariant is preserved by every call and every warm-up history *)
Lemma wop_sound3 (st : store) (node : src) (w : wop) :
  incl (nodes node) (nodes s) -> cls node -> Sound3 st s -> Sound3 (run_wop st node w) s.
Proof.
  intros Hin Hn Hs. destruct (warm3_all s Hd node Hin Hn) as [A M].
  destruct (warm2_all s Hd node Hin Hn) as [A2 [B2 M2]].
  destruct w as [c|c f]; cbn [run_wop].
  - split; [apply (M2 st c (proj1 Hs))|apply (M st c Hs)].
  - split; [|apply (A st c f Hs)]. destruct f; [apply (B2 st c (proj1 Hs))|apply (A2 st c (proj1 Hs))].
Qed.

Theorem warm_sound3 : forall (ws : list (N * wop)) (st : store), Sound3 st s -> Sound3 (run_warm st s ws) s.
Proof.
  induction ws as [|[id w] ws IH]; intros st Hs; [exact Hs|].
  cbn [run_warm]. destruct (find_cached s id) as [node|] eqn:E; [|apply IH; exact Hs].
  destruct (find_cached_sub s id node E) as [A B]. apply IH. apply wop_sound3; [exact A|apply B; exact Hcl|exact Hs].
Qed.

(* clauses 1, 2: map() attributes every position as the text-carrying stream of the same store *)
Theorem warm_map_text (st : store) (c : bool) : Sound2 st s ->
  attr_of_map (fst (map_of st s c)) (source s) c =
  attr_of_stream (fst (fst (stream st s (mkOpts c false)))) c.
Proof.
  intros Hs. destruct W2 as [A [_ M]]. destruct (M st c Hs) as [[Em _] _].
  destruct (A st c Hs) as [[[_ [_ [_ [_ [_ [_ [Ht _]]]]]]] _] _]. rewrite Em, Ht. reflexivity.
Qed.

(* clauses 3, 4: outside K1, None exactly when no chunk is mapped *)
Theorem warm_map_none (st : store) (c : bool) : Sound3 st s -> k1_shape s = false ->
  is_none (fst (map_of st s c)) =
  negb (mapped_chunk_exists (fst (fst (stream st s (mkOpts c false))))).
Proof.
  intros Hs Hk. pose proof (warm_map_text st c (proj1 Hs)) as Ea.
  destruct W2 as [A [_ M]]. destruct (M st c (proj1 Hs)) as [[_ Gm] [Wf _]].
  destruct (A st c (proj1 Hs)) as [[_ Ne] _].
  destruct W3 as [_ M3]. destruct (M3 st c Hs) as [Mp _].
  rewrite (text_mce_has_some _ c Ne), <- Ea. apply map_none_iff.
  - apply Wf. exact Hk.
  - intros m Em. rewrite Em in Gm. destruct Gm as [[_ [P _]] _]. exact P.
  - apply Mp. exact Hk.
Qed.

Lemma cls_treeA3 : treeA s = true.
Proof. pose proof Hcl as [_ [_ [A _]]]. exact A. Qed.

(* the extracted checker, over any Sound3 store *)
Theorem chk_C03_warm_store (st : store) (o : tree_obs) : Sound3 st s ->
  to_source o = source s ->
  to_streams o = map (fun op => fst (stream st s op)) all_opts ->
  to_maps o = [fst (map_of st s true); fst (map_of st s false)] ->
  (k1_shape s = false -> chk_C03 s o = 0) /\ (chk_C03 s o = 0 \/ chk_C03 s o = 51).
Proof.
  intros Hs E1 E2 E3.
  rewrite (chk_C03_unfold s st o cls_treeA3 E1 E2 E3 (fun c => warm_map_text st c (proj1 Hs))).
  destruct (k1_shape s) eqn:Hk.
  - split; [discriminate|].
    destruct (negb (Bool.eqb _ _)); [right; reflexivity|].
    destruct (negb (Bool.eqb _ _)); [right|left]; reflexivity.
  - rewrite (warm_map_none st true Hs Hk), (warm_map_none st false Hs Hk), !Bool.eqb_reflx.
    split; [intros _; reflexivity|left; reflexivity].
Qed.

(* after ANY warm-up history, outside K1 *)
Theorem chk_C03_warm (ws : list (N * wop)) : k1_shape s = false -> chk_C03 s (api_tree s ws) = 0.
Proof.
  intros Hk.
  destruct (chk_C03_warm_store (run_warm [] s ws) (api_tree s ws) (warm_sound3 ws [] (sound3_empty s))
              eq_refl eq_refl eq_refl) as [X _].
  apply X. exact Hk.
Qed.

Theorem chk_C03_warm_any (ws : list (N * wop)) :
  chk_C03 s (api_tree s ws) = 0 \/ (k1_shape s = true /\ chk_C03 s (api_tree s ws) = 51).
Proof.
  destruct (chk_C03_warm_store (run_warm [] s ws) (api_tree s ws) (warm_sound3 ws [] (sound3_empty s))
              eq_refl eq_refl eq_refl) as [X Y].
  destruct (k1_shape s) eqn:Hk.
  - destruct Y as [Y|Y]; [left; exact Y|right; split; [reflexivity|exact Y]].
  - left. apply X. reflexivity.
Qed.

End G3.

(* ================================================================== *)
(* the statements with the hypotheses spelled out                       *)
(* ================================================================== *)
Theorem C03_warm_checker (s : src) (ws : list (N * wop)) :
  ids_distinct s -> k2_shape s = false -> rshape (uncache s) = true -> treeA s = true ->
  tiny (uncache s) = true -> k1_shape s = false ->
  chk_C03 s (api_tree s ws) = 0.
Proof. intros H1 H2 H3 H4 H5 Hk. apply chk_C03_warm; [exact H1|apply tiny_cls; assumption|exact Hk]. Qed.

Theorem C03_warm_checker_any (s : src) (ws : list (N * wop)) :
  ids_distinct s -> k2_shape s = false -> rshape (uncache s) = true -> treeA s = true ->
  tiny (uncache s) = true ->
  chk_C03 s (api_tree s ws) = 0 \/ (k1_shape s = true /\ chk_C03 s (api_tree s ws) = 51).
Proof. intros H1 H2 H3 H4 H5. apply chk_C03_warm_any; [exact H1|apply tiny_cls; assumption]. Qed.

(* ================================================================== *)
(* tests                                                                *)
(* ================================================================== *)
(* the bundler-shaped tree of WarmTreeHist.v, any warm-up history *)
Example w_tree_C03 (ws : list (N * wop)) : chk_C03 w_tree (api_tree w_tree ws) = 0.
Proof.
  apply C03_warm_checker; try (vm_compute; reflexivity).
  apply ids_distinctb_spec. vm_compute. reflexivity.
Qed.

Example w_tree_C03_recomputed : chk_C03 w_tree (api_tree w_tree w_warm) = 0.
Proof. vm_compute. reflexivity. Qed.

(* why `Mp3` exempts the (c, false) entries of nodes inside K1: map() on a CachedSource over a
   SourceMapSource whose given map has no mapped segment stores that map verbatim (`mp` fails);
   the enclosing ConcatSource is outside K1 and the checker accepts it after that warm-up; the
   CachedSource itself is inside K1 and gets the verdict 51 *)
Example k1_entry_exempt_C03 :
  let node := SCached 1 k1_unmapped in
  let s := SConcat [node; SRaw false [10; 120]] in
  let st := run_warm [] s [(1, WMap true)] in
  (k1_shape node, k1_shape s) = (true, false) /\
  (match cache_get (store_get st 1) (mkOpts true false) with Some v => mp v | None => true end) = false /\
  chk_C03 s (api_tree s [(1, WMap true)]) = 0 /\
  chk_C03 node (api_tree node [(1, WMap true)]) = 51.
Proof. vm_compute. repeat split; reflexivity. Qed.

Print Assumptions text_mce_has_some.
Print Assumptions map_none_iff.
Print Assumptions events_mp.
Print Assumptions sound3_empty.
Print Assumptions warm3_all.
Print Assumptions warm_sound3.
Print Assumptions warm_map_text.
Print Assumptions warm_map_none.
Print Assumptions chk_C03_warm_store.
Print Assumptions chk_C03_warm.
Print Assumptions chk_C03_warm_any.
Print Assumptions C03_warm_checker.
Print Assumptions C03_warm_checker_any.
Print Assumptions w_tree_C03.
Print Assumptions k1_entry_exempt_C03.
