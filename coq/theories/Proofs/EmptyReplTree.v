(* C13, law "a ReplaceSource whose replacements are all empty insertions behaves as its inner
   source", E3 (tree level) and E4 (checker level).
   For `inner` in the class rshape / treeA (raw leaves, OriginalSource, SourceMapSource without
   inner map, ConcatSource, ReplaceSource; no CachedSource) and `empties rs = true`:
     - the text-carrying stream and map() of `SReplace inner rs` with columns = true REFINE those
       of `inner` byte by byte (`loc_ref`: same file, line, name; the column is never below);
     - with columns = false they are EQUAL (Leibniz, hence at (file, line) granularity);
     - the extracted checker `chk_C13` accepts the model's pair observations in relaxed mode,
       whatever observer histories ran on the two sides.
   No condition on the announced file names is needed (EmptyReplStream.v), and `rs` may be []. *)
From RS Require Import Base.Prelude Base.Text Rope.RopeModel Codec.Vlq Codec.CodecSpec
  Stream.Types Stream.Leaves Stream.Concat Stream.Replace Stream.Combined Stream.Tree
  Api.ApiTree Sem.Attr Sem.HashEq Api.ApiHist Checkers.ChkTree Checkers.ChkComp Checkers.ChkHist
  Proofs.HashEqBasic Proofs.StreamText Proofs.ReplaceSort Proofs.ReplaceText
  Proofs.RStreamText Proofs.RStreamPos Proofs.RStreamTree
  Proofs.AttrCodec Proofs.LawConcatAttr Proofs.LawWrappers
  Proofs.CacheReplay Proofs.FinalCache
  Proofs.ReplAttrRef Proofs.ReplAttrStream Proofs.ReplAttrOrigin Proofs.ReplAttrCols Proofs.ReplAttrTree
  Proofs.WfAllChk Proofs.CompLinesBridge Proofs.CompLinesReplace Proofs.CompLinesTree
  Proofs.ChkModelC03 Proofs.BoundsPos Proofs.BoundsAll
  Proofs.EmptyReplText Proofs.EmptyReplRef Proofs.EmptyReplStream.
Require Import Lia List.
Import ListNotations.

Local Open Scope N_scope.

Notation rshape := RStreamTree.rshape.
Notation sevs := LawWrappers.evs_of.

Definition refines (X Y : list attr) : Prop := Forall2 (fun x y => attr_ref x y = true) X Y.

Lemma refines_chk X Y : refines X Y <-> list_eqb_attr (opt_eqb loc_ref) X Y = true.
Proof. unfold refines. symmetry. apply list_eqb_attr_Forall2. Qed.

Lemma refines_refl X : refines X X.
Proof. induction X as [|x X IH]; constructor; [apply attr_ref_refl|exact IH]. Qed.

(* ------------------------------------------------------------------ *)
(* E3: streams                                                           *)
(* ------------------------------------------------------------------ *)
Section Tree.
Variables (inner : src) (rs : list repl).
Hypothesis Hsh : rshape inner = true.
Hypothesis HA : treeA (SReplace inner rs) = true.
Hypothesis He : empties rs = true.

Let R := SReplace inner rs.

Lemma HAi : treeA inner = true.
Proof. apply (treeA_replace_inv inner rs HA). Qed.

Lemma source_R : source R = source inner.
Proof. apply source_replace_empties. exact He. Qed.

(* columns = true: the stream refines the inner stream *)
Theorem replace_empties_stream_cols (st : store) :
  rsmall inner = true -> csmall inner = true ->
  refines (attr_of_stream (sevs (stream st R (mkOpts true false))) true)
          (attr_of_stream (sevs (stream st inner (mkOpts true false))) true).
Proof.
  intros Hsm Hc.
  pose proof (tidy_tree inner Hsh HAi Hsm st) as [D N0].
  pose proof (rshape_stream_good st inner true Hsh HAi Hsm) as G.
  pose proof (csm_contents_small _ (csmall_tree inner Hsh HAi Hc st)) as Cs.
  unfold R, sevs, o10 in *. rewrite stream_replace_eq.
  destruct (stream st inner (mkOpts true false)) as [[ievs gi] st1]. cbn [fst snd] in *.
  destruct G as [G1 _].
  apply (replace_stream_empties rs ievs (source inner) gi He G1 N0 D Cs).
Qed.

(* columns = false: the streams attribute alike *)
Theorem replace_empties_stream_lines (st : store) :
  rsmall R = true ->
  attr_of_stream (sevs (stream st R (mkOpts false false))) false
  = attr_of_stream (sevs (stream st inner (mkOpts false false))) false.
Proof.
  intros Hsm.
  assert (Hsmi : rsmall inner = true).
  { unfold R in Hsm. cbn [rsmall] in Hsm. apply andb_true_iff in Hsm. apply Hsm. }
  destruct (replace_tree_lines st inner rs Hsh HA Hsm) as [_ L]. cbn zeta in L.
  fold R in L. rewrite L, source_R.
  pose proof (tree_stream_facts st inner false Hsh HAi Hsmi) as [Ri [Ni _]]. cbn zeta in Ri, Ni.
  rewrite (lines_bridge _ _ Ri Ni).
  apply lfb_fl. apply (replace_reference_empties_fl _ rs He).
Qed.

(* ------------------------------------------------------------------ *)
(* E3: map()                                                             *)
(* ------------------------------------------------------------------ *)
Hypothesis Ht : tiny R = true.

Lemma tiny_inner : tiny inner = true.
Proof.
  destruct (tiny_parts R Ht) as [T1 [T2 [T3 [T4 T5]]]]. unfold R in *.
  cbn [tsize asrc anam nleaves maps_tiny] in *. unfold tiny.
  rewrite T5, andb_true_r.
  repeat (apply andb_true_iff; split); apply N.ltb_lt; lia.
Qed.

Lemma c03_dom_tiny (s : src) (st : store) (cols : bool) :
  rshape s = true -> treeA s = true -> tiny s = true -> c03_dom st s cols.
Proof.
  intros H1 H2 H3. split; [apply tiny_rsmall; assumption|].
  destruct (map_target_class s H1 H2 H3) as [A [B C]]. apply tiny_mapping_small; assumption.
Qed.

Lemma map_stream (s : src) (st : store) (cols : bool) :
  rshape s = true -> treeA s = true -> tiny s = true ->
  attr_of_map (fst (map_of st s cols)) (source s) cols
  = attr_of_stream (fst (fst (stream st s (mkOpts cols false)))) cols.
Proof.
  intros H1 H2 H3.
  apply (map_of_C03 s st cols H1 H2 (fun _ => c03_dom_tiny s st cols H1 H2 H3)).
Qed.

Lemma rsmall_R : rsmall R = true.
Proof. apply tiny_rsmall; [exact HA|exact Ht]. Qed.

Lemma rsmall_inner : rsmall inner = true.
Proof. apply tiny_rsmall; [exact HAi|exact tiny_inner]. Qed.

Theorem replace_empties_stream_cols_tiny (st : store) :
  refines (attr_of_stream (sevs (stream st R (mkOpts true false))) true)
          (attr_of_stream (sevs (stream st inner (mkOpts true false))) true).
Proof. apply replace_empties_stream_cols; [exact rsmall_inner|apply tiny_csmall; exact tiny_inner]. Qed.

Theorem replace_empties_stream_lines_tiny (st : store) :
  attr_of_stream (sevs (stream st R (mkOpts false false))) false
  = attr_of_stream (sevs (stream st inner (mkOpts false false))) false.
Proof. apply replace_empties_stream_lines. exact rsmall_R. Qed.

(* map(), columns = true: refinement *)
Theorem replace_empties_map_cols (st st' : store) :
  refines (attr_of_map (fst (map_of st R true)) (source inner) true)
          (attr_of_map (fst (map_of st' inner true)) (source inner) true).
Proof.
  pose proof (map_stream R st true Hsh HA Ht) as A. rewrite source_R in A. rewrite A.
  rewrite (map_stream inner st' true Hsh HAi tiny_inner).
  destruct (nocache_pure inner (rshape_nocache inner Hsh)) as [P _].
  pose proof (replace_empties_stream_cols_tiny st) as K. unfold sevs in K.
  rewrite (P st) in K. rewrite (P st'). cbn [fst] in *. exact K.
Qed.

(* map(), columns = false: equal *)
Theorem replace_empties_map_lines (st st' : store) :
  attr_of_map (fst (map_of st R false)) (source inner) false
  = attr_of_map (fst (map_of st' inner false)) (source inner) false.
Proof.
  pose proof (map_stream R st false Hsh HA Ht) as A. rewrite source_R in A. rewrite A.
  rewrite (map_stream inner st' false Hsh HAi tiny_inner).
  destruct (nocache_pure inner (rshape_nocache inner Hsh)) as [P _].
  pose proof (replace_empties_stream_lines_tiny st) as K. unfold sevs in K.
  rewrite (P st) in K. rewrite (P st'). cbn [fst] in *. exact K.
Qed.

Corollary replace_empties_map_lines_fl (st st' : store) :
  list_eqb_attr attr_eqb_fl (attr_of_map (fst (map_of st R false)) (source inner) false)
                            (attr_of_map (fst (map_of st' inner false)) (source inner) false) = true.
Proof. apply attr_lists_eqb_fl. apply replace_empties_map_lines. Qed.

(* ------------------------------------------------------------------ *)
(* E4: the checker                                                       *)
(* ------------------------------------------------------------------ *)
Lemma nth_final_1 (st : store) (s : src) :
  get_text (nth_ans (fst (run_hops st s final_ops)) 1) = source s.
Proof.
  unfold final_ops. cbn [run_hops run_hop]. destruct (map_of st s true) as [m1 st1].
  destruct (map_of st1 s false) as [m0 st0].
  destruct (stream st0 s (mkOpts true false)) as [[e1 g1] st2].
  destruct (stream st2 s (mkOpts false false)) as [[e0 g0] st3]. reflexivity.
Qed.

Lemma nth_final_3 (st : store) (s : src) :
  get_map (nth_ans (fst (run_hops st s final_ops)) 3) = fst (map_of st s true).
Proof.
  unfold final_ops. cbn [run_hops run_hop]. destruct (map_of st s true) as [m1 st1].
  destruct (map_of st1 s false) as [m0 st0].
  destruct (stream st0 s (mkOpts true false)) as [[e1 g1] st2].
  destruct (stream st2 s (mkOpts false false)) as [[e0 g0] st3]. reflexivity.
Qed.

Lemma nth_final_4 (st : store) (s : src) :
  get_map (nth_ans (fst (run_hops st s final_ops)) 4) = fst (map_of (snd (map_of st s true)) s false).
Proof.
  unfold final_ops. cbn [run_hops run_hop]. destruct (map_of st s true) as [m1 st1]. cbn [snd].
  destruct (map_of st1 s false) as [m0 st0].
  destruct (stream st0 s (mkOpts true false)) as [[e1 g1] st2].
  destruct (stream st2 s (mkOpts false false)) as [[e0 g0] st3]. reflexivity.
Qed.

Theorem C13_replace_empties_checker (opsa opsb : list hop) :
  chk_C13 R inner true (api_pair R opsa inner opsb) = 0.
Proof.
  unfold chk_C13. replace (treeA R) with true by (symmetry; exact HA). rewrite HAi. cbn [andb negb].
  unfold api_pair. cbn [po_a po_b].
  set (sta := snd (run_hops [] R opsa)). set (stb := snd (run_hops [] inner opsb)).
  rewrite !nth_final_1, !nth_final_3, !nth_final_4, source_R, text_eqb_refl. cbn [negb].
  rewrite (proj1 (refines_chk _ _) (replace_empties_map_cols sta stb)). cbn [negb].
  rewrite (replace_empties_map_lines_fl (snd (map_of sta R true)) (snd (map_of stb inner true))).
  reflexivity.
Qed.

End Tree.

(* ------------------------------------------------------------------ *)
(* the statements, closed                                                *)
(* ------------------------------------------------------------------ *)
Theorem C13_replace_empties_streams (st : store) (inner : src) (rs : list repl) :
  rshape inner = true -> treeA (SReplace inner rs) = true -> empties rs = true ->
  rsmall (SReplace inner rs) = true -> csmall inner = true ->
  source (SReplace inner rs) = source inner /\
  list_eqb_attr (opt_eqb loc_ref)
    (attr_of_stream (sevs (stream st (SReplace inner rs) (mkOpts true false))) true)
    (attr_of_stream (sevs (stream st inner (mkOpts true false))) true) = true /\
  attr_of_stream (sevs (stream st (SReplace inner rs) (mkOpts false false))) false
  = attr_of_stream (sevs (stream st inner (mkOpts false false))) false.
Proof.
  intros H1 H2 H3 H4 H5. split; [apply source_replace_empties; exact H3|]. split.
  - apply refines_chk. apply replace_empties_stream_cols; try assumption.
    cbn [rsmall] in H4. apply andb_true_iff in H4. apply H4.
  - apply replace_empties_stream_lines; assumption.
Qed.

Theorem C13_replace_empties_maps (st st' : store) (inner : src) (rs : list repl) :
  rshape inner = true -> treeA (SReplace inner rs) = true -> empties rs = true ->
  tiny (SReplace inner rs) = true ->
  list_eqb_attr (opt_eqb loc_ref)
    (attr_of_map (fst (map_of st (SReplace inner rs) true)) (source inner) true)
    (attr_of_map (fst (map_of st' inner true)) (source inner) true) = true /\
  attr_of_map (fst (map_of st (SReplace inner rs) false)) (source inner) false
  = attr_of_map (fst (map_of st' inner false)) (source inner) false.
Proof.
  intros H1 H2 H3 H4. split.
  - apply refines_chk. apply replace_empties_map_cols; assumption.
  - apply replace_empties_map_lines; assumption.
Qed.

Theorem C13_replace_empties (inner : src) (rs : list repl) (opsa opsb : list hop) :
  rshape inner = true -> treeA (SReplace inner rs) = true -> empties rs = true ->
  tiny (SReplace inner rs) = true ->
  chk_C13 (SReplace inner rs) inner true (api_pair (SReplace inner rs) opsa inner opsb) = 0.
Proof. intros H1 H2 H3 H4. apply C13_replace_empties_checker; assumption. Qed.

(* the strict comparison does fire: the column refinement is real (clause 3) *)
Example C13_replace_empties_strict_fires :
  let o1 := SOriginal [97;98;32;99;10;99;100;59;101] [102;49] in
  let rs := [mkRepl 1 1 [] None 0] in
  rshape o1 = true /\ treeA (SReplace o1 rs) = true /\ empties rs = true /\ tiny (SReplace o1 rs) = true /\
  chk_C13 (SReplace o1 rs) o1 true (api_pair (SReplace o1 rs) [] o1 []) = 0 /\
  chk_C13 (SReplace o1 rs) o1 false (api_pair (SReplace o1 rs) [] o1 []) = 3.
Proof. vm_compute. repeat split; reflexivity. Qed.

Print Assumptions C13_replace_empties_streams.
Print Assumptions C13_replace_empties_maps.
Print Assumptions C13_replace_empties.
