(* C14 after DIFFERENT histories on the two sides, part 6: witnesses, refutations, tests, about
   the checker as it is now (its known-finding class for the content clauses is k7c_shape).

   old_class_too_narrow / D1_old_class_refuted   the reason the checker's class was widened.
       An equal pair inside every hypothesis (a == b, every cache id once, class `cls`, names
       determine contents) OUTSIDE the former class k7_shape whose strict content clause 5 (6)
       fails after different histories:
         pad_tree i = Concat [ Original "x\n" g ;
                               Cached_i (Concat [ SourceMapSource "ab" (sources [s1], no contents) ;
                                                  Original "x\n" g ]) ]
       Cold, the CachedSource forwards the announcements (s1, None), (g, Some "x\n") of the wrapped
       ConcatSource.  The map it caches has sources [s1; g] and the POSITIONAL table
       sourcesContent ["" ; "x\n"]: the missing content of s1 in front of a present one is stored
       as "".  Warm, the replay announces (s1, Some "").  The enclosing ConcatSource knows g
       already (index 0), so s1 gets index 1 there, behind every content: cold its map() has
       sourcesContent ["x\n"] (s1: absent), warm ["x\n"; ""] (s1: empty).  Same "absent vs
       empty" padding as K7, but produced inside the cached map of a CachedSource that DOES
       map chunks.  It is inside k7c_shape (content_gap): the verdict is 57.  The absent = empty
       comparison of chk_C13 accepts the pair (pad_absent_is_empty).
   class_needed_pad, class_needed_k7   the class of D1_final is inhabited and yields 57 (so
       "verdict 0" without the hypothesis k7c_shape a = false is false: D2_needs_class).
   k7c_covers_sample   a recorded brute-force search: verdict 0 or (k7c_shape and 57), and the
       spellings k7w_shape ("maps no chunk"), k7s_shape, k7c_shape of the class coincide.
   D4_*   non-vacuity: caches, outside the class, different histories, verdict 0.
   k7_present_instance   a tree INSIDE the class on which the checker provably answers 0 after
       any two histories (instance of EqDiffPresent.D2_present).
   consistency_needed   `consistentb (decl a)` cannot be dropped from D_absent_is_empty. *)
From RS Require Import Base.Prelude Base.Text Rope.RopeModel Codec.Vlq Codec.CodecSpec
  Stream.Types Stream.Leaves Stream.Concat Stream.Replace Stream.Combined Stream.Tree
  Api.ApiTree Sem.Attr Sem.HashEq Api.ApiHist Checkers.ChkTree Checkers.ChkHist
  Proofs.StreamTree Proofs.RStreamTree Proofs.BoundsPos Proofs.EqObsTree Proofs.ColdCache
  Proofs.WarmTreeDefs Proofs.WarmTreeHist Proofs.CompWarmContInv Proofs.CompWarmLawsFull
  Proofs.EqDiffBase Proofs.EqDiffChk Proofs.EqDiffPresent Proofs.EqDiffAnns Proofs.EqDiffStrict.
Require Import Lia List.
Import ListNotations.

Local Open Scope N_scope.

(* every boolean hypothesis at once:
   (ids once, k2, rshape, treeA, rsmall, tiny, k7, consistent, non-empty contents) *)
Definition hyps (s : src) :=
  (ids_distinctb s, k2_shape s, rshape (uncache s), treeA s, rsmall (uncache s), tiny (uncache s),
   k7_shape s, consistentb (decl s), nonempty_contentsb (decl s)).

Lemma hyps_cls s k c n : hyps s = (true, false, true, true, true, true, k, c, n) ->
  ColdCache.ids_distinct s /\ cls s.
Proof.
  unfold hyps. intros H. injection H as H1 H2 H3 H4 H5 H6 H7 H8 H9. split.
  - apply ids_distinctb_spec. assumption.
  - unfold cls. repeat split; assumption.
Qed.

(* ------------------------------------------------------------------ *)
(* D2 / D1 refuted                                                      *)
(* ------------------------------------------------------------------ *)
Definition sm_nc : src :=      (* "ab", one segment AAAA into s1, no sourcesContent *)
  SMapped [97; 98] [109] (mkSmap None [65; 65; 65; 65] [[115; 49]] [] [] None None) None None false.
Definition orig_g : src := SOriginal [120; 10] [103].
Definition pad_tree (i : N) : src := SConcat [orig_g; SCached i (SConcat [sm_nc; orig_g])].

Example pad_tree_hyps (i : N) : hyps (pad_tree i) = (true, false, true, true, true, true, false, true, false).
Proof. vm_compute. reflexivity. Qed.

Example pad_tree_eq : src_eqb (pad_tree 1) (pad_tree 2) = true.
Proof. vm_compute. reflexivity. Qed.

Example pad_tree_class (i : N) :
  k7_shape (pad_tree i) = false /\ k7c_shape (pad_tree i) = true /\
  k7w_shape (pad_tree i) = true /\ k7s_shape (pad_tree i) = true.
Proof. vm_compute. repeat split; reflexivity. Qed.

Example pad_verdicts :
  chk_C14_pair (pad_tree 1) (pad_tree 2) (api_pair (pad_tree 1) [OMap true] (pad_tree 2) []) = 57 /\
  chk_C14_pair (pad_tree 1) (pad_tree 2) (api_pair (pad_tree 1) [OMap false] (pad_tree 2) []) = 57 /\
  chk_C14_pair (pad_tree 1) (pad_tree 2) (api_pair (pad_tree 1) [OStream true true] (pad_tree 2) []) = 57 /\
  chk_C14_pair (pad_tree 1) (pad_tree 2) (api_pair (pad_tree 1) [OMap true] (pad_tree 2) [OStream true false]) = 57 /\
  chk_C14_pair (pad_tree 1) (pad_tree 2) (api_pair (pad_tree 1) [] (pad_tree 2) []) = 0 /\
  chk_C14_pair (pad_tree 1) (pad_tree 2) (api_pair (pad_tree 1) [OMap true] (pad_tree 2) [OMap true]) = 0.
Proof. vm_compute. repeat split; reflexivity. Qed.

(* the clauses that fail: 5 (map with columns), 6 (without) *)
Example pad_clauses :
  obs_equiv (po_a (api_pair (pad_tree 1) [OMap true] (pad_tree 2) [])) (po_b (api_pair (pad_tree 1) [OMap true] (pad_tree 2) [])) = 5 /\
  obs_equiv (po_a (api_pair (pad_tree 1) [OMap false] (pad_tree 2) [])) (po_b (api_pair (pad_tree 1) [OMap false] (pad_tree 2) [])) = 6.
Proof. vm_compute. split; reflexivity. Qed.

(* the two maps: the same sources, sourcesContent ["x\n"] against ["x\n"; ""] *)
Example pad_maps :
  map (fun a => match a with AMap (Some m) => (sm_sources m, sm_contents m) | _ => ([], []) end)
      (fst (run_hops [] (pad_tree 1) [OMap true; OMap true]))
  = [([[103]; [115; 49]], [[120; 10]]); ([[103]; [115; 49]], [[120; 10]; []])].
Proof. vm_compute. reflexivity. Qed.

(* outside the FORMER class k7_shape, inside every other hypothesis, the strict content clause
   fails; the pair is inside the class the checker tests now, and the verdict is the known finding *)
Theorem old_class_too_narrow : exists (a b : src) (opsa opsb : list hop),
  src_eqb a b = true /\ ColdCache.ids_distinct a /\ ColdCache.ids_distinct b /\ cls a /\ cls b /\
  consistentb (decl a) = true /\ k7_shape a = false /\ k7_shape b = false /\
  obs_equiv (po_a (api_pair a opsa b opsb)) (po_b (api_pair a opsa b opsb)) = 5 /\
  k7c_shape a = true /\ chk_C14_pair a b (api_pair a opsa b opsb) = 57.
Proof.
  exists (pad_tree 1), (pad_tree 2), [OMap true], [].
  destruct (hyps_cls _ _ _ _ (pad_tree_hyps 1)) as [D1 C1]. destruct (hyps_cls _ _ _ _ (pad_tree_hyps 2)) as [D2 C2].
  split; [exact pad_tree_eq|]. split; [exact D1|]. split; [exact D2|]. split; [exact C1|]. split; [exact C2|].
  repeat split; vm_compute; reflexivity.
Qed.

(* the class is needed: inside it the verdict 57 does occur (the witness above) *)
Theorem class_needed_pad : exists (a b : src) (opsa opsb : list hop),
  src_eqb a b = true /\ ColdCache.ids_distinct a /\ ColdCache.ids_distinct b /\ cls a /\ cls b /\
  consistentb (decl a) = true /\ k7c_shape a = true /\
  chk_C14_pair a b (api_pair a opsa b opsb) = 57.
Proof.
  destruct old_class_too_narrow as [a [b [opsa [opsb [He [Da [Db [Ca [Cb [Hc [_ [_ [_ [K V]]]]]]]]]]]]]].
  exists a, b, opsa, opsb. split; [exact He|]. split; [exact Da|]. split; [exact Db|]. split; [exact Ca|].
  split; [exact Cb|]. split; [exact Hc|]. split; [exact K|exact V].
Qed.

Theorem D2_needs_class : ~ (forall (a b : src) (opsa opsb : list hop),
  src_eqb a b = true -> ColdCache.ids_distinct a -> ColdCache.ids_distinct b -> cls a -> cls b ->
  consistentb (decl a) = true -> chk_C14_pair a b (api_pair a opsa b opsb) = 0).
Proof.
  intros H. destruct class_needed_pad as [a [b [opsa [opsb [He [Da [Db [Ca [Cb [Hc [_ V]]]]]]]]]]].
  rewrite (H a b opsa opsb He Da Db Ca Cb Hc) in V. discriminate.
Qed.

(* D1 with the FORMER class ("0, or 57 inside k7_shape") is false *)
Theorem D1_old_class_refuted : ~ (forall (a b : src) (opsa opsb : list hop),
  src_eqb a b = true -> ColdCache.ids_distinct a -> ColdCache.ids_distinct b -> cls a -> cls b ->
  consistentb (decl a) = true ->
  chk_C14_pair a b (api_pair a opsa b opsb) = 0 \/
  (k7_shape a = true /\ chk_C14_pair a b (api_pair a opsa b opsb) = 57)).
Proof.
  intros H. destruct old_class_too_narrow as [a [b [opsa [opsb [He [Da [Db [Ca [Cb [Hc [Ka [_ [_ [_ V]]]]]]]]]]]]]].
  destruct (H a b opsa opsb He Da Db Ca Cb Hc) as [E|[E _]].
  - rewrite V in E. discriminate.
  - rewrite Ka in E. discriminate.
Qed.

(* the comparison of chk_C13 (absent = empty) accepts the pair, whatever the histories *)
Example pad_absent_is_empty (opsa opsb : list hop) :
  obs_equiv_laws (po_a (api_pair (pad_tree 1) opsa (pad_tree 2) opsb))
                 (po_b (api_pair (pad_tree 1) opsa (pad_tree 2) opsb)) = 0.
Proof.
  destruct (hyps_cls _ _ _ _ (pad_tree_hyps 1)) as [D1 C1]. destruct (hyps_cls _ _ _ _ (pad_tree_hyps 2)) as [D2 C2].
  apply D_absent_is_empty; try assumption; vm_compute; reflexivity.
Qed.

(* and D1_final says what the checker can answer on it *)
Example pad_final (opsa opsb : list hop) :
  let v := chk_C14_pair (pad_tree 1) (pad_tree 2) (api_pair (pad_tree 1) opsa (pad_tree 2) opsb) in
  v = 0 \/ v = 57.
Proof.
  destruct (hyps_cls _ _ _ _ (pad_tree_hyps 1)) as [D1 C1]. destruct (hyps_cls _ _ _ _ (pad_tree_hyps 2)) as [D2 C2].
  destruct (D1_final (pad_tree 1) (pad_tree 2) opsa opsb pad_tree_eq D1 D2 C1 C2) as [H|[_ H]]; [left|right]; exact H.
Qed.

(* ------------------------------------------------------------------ *)
(* a recorded search                                                    *)
(* ------------------------------------------------------------------ *)
(* 9 leaves (empty / non-empty OriginalSource, RawSource, SourceMapSources with and without
   contents, with empty text, without mappings, with an unreferenced source, a second content for
   the same file), shape  x ; Cached (y ; z)  and  x ; Cached (y ; Cached z), every single
   observer call on one side against no call on the other: whenever the tree is in `cls` the
   verdict is 0, or 57 with the tree in k7c_shape; and the spellings of the class (k7w_shape:
   "maps no chunk" + content gap; k7s_shape: read off refA; k7c_shape: the checker's) coincide on
   every tree of the sample. *)
Definition mk_sm (v mp : text) (ss cs : list text) : src :=
  SMapped v [109] (mkSmap None mp ss cs [] None None) None None false.
Definition sample_leaves : list src :=
  [ SOriginal [] [102];
    SOriginal [97; 10; 98] [103];
    SRaw false [120; 10];
    mk_sm [97; 98] [65; 65; 65; 65] [[115; 49]] [];
    mk_sm [99; 100] [65; 65; 65; 65] [[115; 50]] [[122; 122]];
    mk_sm [] [] [[115; 51]] [[113]];
    mk_sm [101; 102] [] [[115; 52]] [[119]];
    mk_sm [103; 104] [65; 67; 65; 65] [[115; 53]; [115; 54]] [[121]];
    SOriginal [113] [102] ].
Definition sample_ops : list hop :=
  [OMap true; OMap false; OStream true false; OStream true true; OStream false false; OStream false true].
Definition pairs_of {A B} (l : list A) (r : list B) : list (A * B) := flat_map (fun x => map (fun y => (x, y)) r) l.
Definition sample_trees : list src :=
  flat_map (fun p => let '(x, (y, z)) := p in
                     [SConcat [x; SCached 1 (SConcat [y; z])]; SConcat [x; SCached 1 (SConcat [y; SCached 2 z])]])
           (pairs_of sample_leaves (pairs_of sample_leaves sample_leaves)).
Definition in_cls (s : src) : bool :=
  ids_distinctb s && negb (k2_shape s) && rshape (uncache s) && treeA s && rsmall (uncache s) && tiny (uncache s).
Definition sample_ok (t : src) : bool :=
  negb (in_cls t) ||
  Bool.eqb (k7s_shape t) (k7w_shape t) && Bool.eqb (k7c_shape t) (k7w_shape t) &&
  implb (k7_shape t) (k7c_shape t) &&
  forallb (fun op => let v := chk_C14_pair t t (api_pair t [op] t []) in
                     (v =? 0) || (k7c_shape t && (v =? 57))) sample_ops.

Example k7c_covers_sample :
  length sample_trees = 1458%nat /\ forallb sample_ok sample_trees = true /\
  (* the sample is not trivial: trees of `cls` with verdict 57 outside / inside the former class *)
  length (filter (fun t => in_cls t && negb (k7_shape t) &&
                           existsb (fun op => chk_C14_pair t t (api_pair t [op] t []) =? 57) sample_ops)
                 sample_trees) = 24%nat /\
  length (filter (fun t => in_cls t && k7_shape t &&
                           existsb (fun op => chk_C14_pair t t (api_pair t [op] t []) =? 57) sample_ops)
                 sample_trees) = 54%nat.
Proof. vm_compute. repeat split; reflexivity. Qed.

(* ------------------------------------------------------------------ *)
(* D3: the former K7 class is inhabited and yields 57                   *)
(* ------------------------------------------------------------------ *)
(* a CachedSource around an empty OriginalSource next to mapped text *)
Definition k7_tree (i : N) : src := SConcat [sm_nc; SCached i (SOriginal [] [102])].

Example k7_tree_hyps (i : N) : hyps (k7_tree i) = (true, false, true, true, true, true, true, true, false).
Proof. vm_compute. reflexivity. Qed.

Theorem class_needed_k7 : exists (a b : src) (opsa opsb : list hop),
  src_eqb a b = true /\ ColdCache.ids_distinct a /\ ColdCache.ids_distinct b /\ cls a /\ cls b /\
  consistentb (decl a) = true /\ k7_shape a = true /\ k7c_shape a = true /\
  chk_C14_pair a b (api_pair a opsa b opsb) = 57.
Proof.
  exists (k7_tree 1), (k7_tree 2), [OMap true], [OStream true false].
  destruct (hyps_cls _ _ _ _ (k7_tree_hyps 1)) as [D1 C1]. destruct (hyps_cls _ _ _ _ (k7_tree_hyps 2)) as [D2 C2].
  split; [vm_compute; reflexivity|]. split; [exact D1|]. split; [exact D2|]. split; [exact C1|]. split; [exact C2|].
  repeat split; vm_compute; reflexivity.
Qed.

(* map() first on one side against: nothing, a text-carrying stream, a text-less stream (this
   one warms the key map() uses: both sides warm, accepted) *)
Example k7_verdicts :
  chk_C14_pair (k7_tree 1) (k7_tree 2) (api_pair (k7_tree 1) [OMap true] (k7_tree 2) []) = 57 /\
  chk_C14_pair (k7_tree 1) (k7_tree 2) (api_pair (k7_tree 1) [OMap true] (k7_tree 2) [OStream true false]) = 57 /\
  chk_C14_pair (k7_tree 1) (k7_tree 2) (api_pair (k7_tree 1) [OMap true] (k7_tree 2) [OStream true true]) = 0.
Proof. vm_compute. repeat split; reflexivity. Qed.

(* inside K7, too, the absent = empty comparison accepts when names determine contents *)
Example k7_absent_is_empty (opsa opsb : list hop) :
  obs_equiv_laws (po_a (api_pair (k7_tree 1) opsa (k7_tree 2) opsb))
                 (po_b (api_pair (k7_tree 1) opsa (k7_tree 2) opsb)) = 0.
Proof.
  destruct (hyps_cls _ _ _ _ (k7_tree_hyps 1)) as [D1 C1]. destruct (hyps_cls _ _ _ _ (k7_tree_hyps 2)) as [D2 C2].
  apply D_absent_is_empty; try assumption; vm_compute; reflexivity.
Qed.

(* the K7 shape alone is harmless when every file comes with a content: the file the cached
   empty OriginalSource announces is listed or not, but nothing before it is padded *)
Definition sm_c : src :=
  SMapped [99; 100] [109] (mkSmap None [65; 65; 65; 65] [[115; 50]] [[122; 122]] [] None None) None None false.
Definition k7_present (i : N) : src := SConcat [sm_c; SCached i (SOriginal [] [102])].

Example k7_present_hyps (i : N) :
  hyps (k7_present i) = (true, false, true, true, true, true, true, true, false) /\ presentb (decl (k7_present i)) = true.
Proof. vm_compute. split; reflexivity. Qed.

Example k7_present_instance (opsa opsb : list hop) :
  chk_C14_pair (k7_present 1) (k7_present 2) (api_pair (k7_present 1) opsa (k7_present 2) opsb) = 0.
Proof.
  destruct (hyps_cls _ _ _ _ (proj1 (k7_present_hyps 1))) as [D1 C1].
  destruct (hyps_cls _ _ _ _ (proj1 (k7_present_hyps 2))) as [D2 C2].
  apply D2_present; try assumption; vm_compute; reflexivity.
Qed.

(* `consistentb (decl a)` cannot be dropped from D_absent_is_empty: a file announced with two
   different contents, once by a cached subtree that maps no chunk of it *)
Definition k7_bad (i : N) : src := SConcat [SCached i (SOriginal [] [102]); SOriginal [98] [102]].

Example consistency_needed :
  hyps (k7_bad 1) = (true, false, true, true, true, true, true, false, false) /\
  hyps (k7_bad 2) = (true, false, true, true, true, true, true, false, false) /\
  src_eqb (k7_bad 1) (k7_bad 2) = true /\
  obs_equiv_laws (po_a (api_pair (k7_bad 1) [OMap true] (k7_bad 2) []))
                 (po_b (api_pair (k7_bad 1) [OMap true] (k7_bad 2) [])) = 5 /\
  chk_C14_pair (k7_bad 1) (k7_bad 2) (api_pair (k7_bad 1) [OMap true] (k7_bad 2) []) = 57.
Proof. vm_compute. repeat split; reflexivity. Qed.

(* ------------------------------------------------------------------ *)
(* D4: non-vacuity                                                      *)
(* ------------------------------------------------------------------ *)
(* the bundler's shape of WarmTreeHist.v, every file with a non-empty content:
   Concat[Cached(..), Cached(Concat[Cached(..), .., Replace(Cached(..),[])]), Cached(SourceMapSource), ..] *)
Definition nv_sm : src :=
  SMapped [97; 98] [109] (mkSmap None [67; 65; 65; 65] [[115; 49]] [[122; 10; 122]] [] None None) None None false.
Definition nv_tree (k : N) : src :=
  SConcat [SCached (k + 1) w_o1;
           SCached (k + 2) (SConcat [SCached (k + 3) w_o2; SRaw false [65; 10; 66]; SReplace (SCached (k + 5) w_o3) []]);
           SCached (k + 4) nv_sm; w_o3].
Definition nv_opsa : list hop := [OMap true; OStream false false; OSrc; OStream true true].
Definition nv_opsb : list hop := [OStream true false; OHash; OMap false; OMap false; OStream false true].

Example nv_tree_hyps : hyps (nv_tree 0) = (true, false, true, true, true, true, false, true, true) /\
                       hyps (nv_tree 10) = (true, false, true, true, true, true, false, true, true).
Proof. vm_compute. split; reflexivity. Qed.

(* an instance of D2_nonempty: ANY two histories *)
Example D4_instance (opsa opsb : list hop) :
  chk_C14_pair (nv_tree 0) (nv_tree 10) (api_pair (nv_tree 0) opsa (nv_tree 10) opsb) = 0.
Proof.
  destruct nv_tree_hyps as [H0 H10].
  destruct (hyps_cls _ _ _ _ H0) as [D1 C1]. destruct (hyps_cls _ _ _ _ H10) as [D2 C2].
  apply D2_nonempty; try assumption; vm_compute; reflexivity.
Qed.

(* the same recomputed for two different histories *)
Example D4_recomputed :
  src_eqb (nv_tree 0) (nv_tree 10) = true /\ has_cached (nv_tree 0) = true /\ k7c_shape (nv_tree 0) = false /\
  chk_C14_pair (nv_tree 0) (nv_tree 10) (api_pair (nv_tree 0) nv_opsa (nv_tree 10) nv_opsb) = 0.
Proof. vm_compute. repeat split; reflexivity. Qed.

(* verdict 0 is not confined to the trees of D2_nonempty: w_tree holds a SourceMapSource whose
   file has no content *)
Example D4_w_tree :
  hyps w_tree = (true, false, true, true, true, true, false, true, false) /\
  chk_C14_pair w_tree w_tree (api_pair w_tree nv_opsa w_tree nv_opsb) = 0.
Proof. vm_compute. split; reflexivity. Qed.

(* ... and it is an instance of D2_final (outside the class), for ANY two histories;
   neither D2_nonempty nor D2_present applies to it *)
Example D4_w_tree_instance (opsa opsb : list hop) :
  chk_C14_pair w_tree w_tree (api_pair w_tree opsa w_tree opsb) = 0.
Proof.
  destruct (hyps_cls _ _ _ _ (proj1 D4_w_tree)) as [D1 C1].
  apply D2_final; try assumption; vm_compute; reflexivity.
Qed.

Example D4_w_tree_class :
  k7s_shape w_tree = false /\ k7c_shape w_tree = false /\ k7w_shape w_tree = false /\ presentb (decl w_tree) = false.
Proof. vm_compute. repeat split; reflexivity. Qed.

(* the K7 witness is inside every spelling of the class *)
Example k7_tree_k7s (i : N) : k7c_shape (k7_tree i) = true /\ k7s_shape (k7_tree i) = true /\ k7w_shape (k7_tree i) = true.
Proof. vm_compute. repeat split; reflexivity. Qed.

Print Assumptions old_class_too_narrow.
Print Assumptions class_needed_pad.
Print Assumptions D2_needs_class.
Print Assumptions D1_old_class_refuted.
Print Assumptions pad_final.
Print Assumptions pad_absent_is_empty.
Print Assumptions k7c_covers_sample.
Print Assumptions class_needed_k7.
Print Assumptions k7_absent_is_empty.
Print Assumptions k7_present_instance.
Print Assumptions consistency_needed.
Print Assumptions D4_instance.
Print Assumptions D4_recomputed.
Print Assumptions D4_w_tree.
Print Assumptions D4_w_tree_instance.
