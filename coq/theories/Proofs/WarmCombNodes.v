(* Warm caches over combined-map leaves, part 5: the node lemmas of the induction
   (WarmTreeNodes.v for `cls2`).
   (a) a subtree without CachedSource nodes ignores the store: `TG2` / `FG2` from the theorems of
       the cache-free class `rshape2` (CombLeafTree*.v: combined leaves included) and the bounds of
       WarmCombBounds.v;
   (b) ConcatSource over children that satisfy `TG2` / `FG2`;
   (c) ReplaceSource without replacements over a child that satisfies `TG2`. *)
From RS Require Import Base.Prelude Base.Text Rope.RopeModel Codec.Vlq Codec.CodecSpec
  Checkers.ChkCodec Stream.Types Stream.Leaves Stream.Concat Stream.Replace Stream.Combined Stream.Tree
  Api.ApiTree Sem.Attr Sem.HashEq Api.ApiHist Checkers.ChkTree Checkers.ChkHist
  Proofs.CodecKept Proofs.CodecMain Proofs.StreamText Proofs.StreamLeaves Proofs.StreamMap Proofs.StreamConcat Proofs.StreamTree
  Proofs.WfStream Proofs.WfFinal Proofs.RStreamText Proofs.RStreamPos Proofs.RStreamTree
  Proofs.AttrCodec Proofs.AttrSms Proofs.AttrLeaves Proofs.LawConcatAttr Proofs.LawWrappers
  Proofs.CacheStore Proofs.CacheReplay Proofs.FinalDense Proofs.FinalReplace Proofs.FinalConcat Proofs.FinalTree Proofs.FinalCache
  Proofs.ReplAttrStream Proofs.ReplAttrOrigin Proofs.ReplAttrTree Proofs.LinesBase Proofs.LinesSelf Proofs.LinesConcat Proofs.LinesTree
  Proofs.ColdCache Proofs.ColdCacheTree Proofs.BoundsPos Proofs.BoundsOrig Proofs.BoundsIdx Proofs.BoundsAll
  Proofs.CombLeafTree Proofs.CombLeafTreeCols Proofs.CombLeafTreeLines
  Proofs.WarmTreeDefs Proofs.WarmTreeCodec Proofs.WarmTreeNodes
  Proofs.WarmCombBounds Proofs.WarmCombDefs Proofs.WarmCombCodec.
Require Import Lia List.

Local Open Scope N_scope.

(* ------------------------------------------------------------------ *)
(* (a) subtrees without CachedSource                                    *)
(* ------------------------------------------------------------------ *)
Theorem nocache_TG2 (c : bool) (s : src) (st : store) : cls2 s -> has_cached s = false ->
  TG2 c s (fst (stream st s (mkOpts c false))) /\ snd (stream st s (mkOpts c false)) = st.
Proof.
  intros Hcl Hn. destruct (cls2_nocache s Hcl Hn) as [Hsh [HA [Hsm Ht]]].
  rewrite (nocache_stream s st _ Hn). cbn [fst snd]. split; [|reflexivity].
  pose proof (rgood2_all s Hsh HA Hsm [] c) as [[G1 G2] [G3 [G4 _]]]. cbn zeta in *.
  destruct (tiny2_parts s Ht) as [T1 [_ [_ [_ T5]]]].
  unfold TG2. split; [apply dense2_tree_any; assumption|]. split; [exact G1|]. split; [exact G2|].
  split; [exact G3|]. split.
  { intros ->. apply (ne2_tree_lines s Hsh HA Hsm []). }
  split; [exact G4|]. split; [symmetry; apply nocache_refA; exact Hn|].
  split; [apply (obnd2_tree s Hsh HA T1 T5)|apply (cnt2_tree s Hsh)].
Qed.

Theorem nocache_FG2 (c : bool) (s : src) (st : store) : cls2 s -> has_cached s = false ->
  FG2 c s (fst (stream st s (mkOpts c true))) /\ snd (stream st s (mkOpts c true)) = st.
Proof.
  intros Hcl Hn. destruct (cls2_nocache s Hcl Hn) as [Hsh [HA [Hsm Ht]]].
  rewrite (nocache_stream s st _ Hn). cbn [fst snd]. split; [|reflexivity].
  destruct (tiny2_parts s Ht) as [T1 [_ [_ [_ T5]]]].
  unfold FG2. rewrite (nocache_refA s c Hn). destruct c.
  - destruct (tgood2_all s Hsh HA Hsm []) as [K [_ E]]. fold oF oT.
    split; [exact K|]. split; [discriminate|]. split; [exact E|].
    split; [apply (obnd2_tree s Hsh HA T1 T5)|apply (cnt2_tree s Hsh)].
  - destruct (tgoodL2_all s Hsh HA Hsm []) as [K [KL [_ E]]]. fold oLF oLT.
    split; [exact K|]. split; [intros _; exact KL|]. split; [exact E|].
    split; [apply (obnd2_tree s Hsh HA T1 T5)|apply (cnt2_tree s Hsh)].
Qed.

Lemma cls2_uncache s : cls2 s -> cls2 (uncache s).
Proof.
  intros [_ [Sh [A [Sm T]]]]. split; [apply nocache_k2; apply uncache_nocache|].
  rewrite uncache_idem. split; [exact Sh|]. split; [apply treeA_uncache; exact A|]. split; assumption.
Qed.

(* the reference stream satisfies TG2 of the tree itself *)
Theorem ref_TG2 (c : bool) (s : src) : cls2 s -> TG2 c s (fst (stream [] (uncache s) (mkOpts c false))).
Proof.
  intros Hcl. destruct (nocache_TG2 c (uncache s) [] (cls2_uncache s Hcl) (uncache_nocache s)) as [H _].
  destruct (uncache_counts2 s) as [E1 E2].
  unfold TG2, bnd2 in *. rewrite uncache_source, refA_uncache, E1, E2 in H. exact H.
Qed.

(* ------------------------------------------------------------------ *)
(* (b) ConcatSource                                                     *)
(* ------------------------------------------------------------------ *)
Lemma bnd_concat2 final cs (trs : list kid) :
  Forall2 (fun ch tr => bnd2 ch (tr_events tr)) cs trs ->
  bnd2 (SConcat cs) (snd (concat_fold final (map fst trs) (concat_init, []))).
Proof.
  intros H. unfold bnd2. split; [|].
  - apply concat_fold_b; [|constructor]. rewrite Forall_map.
    induction H as [|ch tr cs trs [B _] _ IH]; constructor; assumption.
  - assert (S : sumS (map fst trs) <= asrc2 (SConcat cs) /\ sumN (map fst trs) <= anam2 (SConcat cs)).
    { cbn [asrc2 anam2]. clear - H. induction H as [|ch tr cs trs [_ [B1 B2]] _ IH]; [cbn; lia|].
      unfold sumS, sumN in *. cbn [map fold_right]. unfold tr_events in *. lia. }
    pose proof (concat_fold_n final (map fst trs) concat_init []) as [A1 A2]. cbn [nS nN] in A1, A2.
    lia.
Qed.

Lemma ct_dense2 c cs (trs : list kid) : Forall2 (child_of (TG2 c)) cs trs ->
  Forall (fun k => dense (fst k) 0 0 = true) (map fst trs).
Proof.
  intros Hk. rewrite Forall_map. apply (F2_right _ _ _ _ Hk). intros ch tr _ [_ H]. apply H.
Qed.

Lemma ct_ref_dense2 c cs : cls2 (SConcat cs) -> Forall (fun k => dense (fst k) 0 0 = true) (rkids cs c).
Proof.
  intros Hcl. unfold rkids. rewrite Forall_map. apply Forall_forall. intros ch Hch.
  apply (ref_TG2 c ch (cls2_concat cs ch Hcl Hch)).
Qed.

Lemma ct_texts2 c cs (trs : list kid) : Forall2 (child_of (TG2 c)) cs trs ->
  Forall2 (fun k T => Reass (fst k) T /\ NLL (fst k)) (map fst trs) (map source cs).
Proof.
  intros Hk. apply F2_map_l, F2_map_r, F2_flip. apply (F2_impl _ _ _ _ Hk).
  intros ch tr _ [E [_ [H1 [_ [H2 _]]]]]. split; assumption.
Qed.

Lemma ct_ref_texts2 c cs : cls2 (SConcat cs) ->
  Forall2 (fun k T => Reass (fst k) T /\ NLL (fst k)) (rkids cs c) (map source cs).
Proof.
  intros Hcl. unfold rkids. apply F2_map_l, F2_map_r.
  assert (H : Forall2 (fun a b : src => a = b) cs cs) by (clear; induction cs; constructor; auto).
  apply (F2_impl _ _ _ _ H). intros a b Ha <-.
  destruct (ref_TG2 c a (cls2_concat cs a Hcl Ha)) as [_ [H1 [_ [H2 _]]]]. split; assumption.
Qed.

Lemma ct_attr2 c cs (trs : list kid) : length cs <> 1%nat -> cls2 (SConcat cs) ->
  Forall2 (child_of (TG2 c)) cs trs ->
  attr_of_stream (snd (concat_fold false (map fst trs) (concat_init, []))) c = refA (SConcat cs) c.
Proof.
  intros Hl Hcl Hk. unfold refA. rewrite (ref_concat cs c Hl).
  pose proof (ct_dense2 c cs trs Hk) as D1. pose proof (ct_ref_dense2 c cs Hcl) as D2.
  pose proof (ct_texts2 c cs trs Hk) as X1. pose proof (ct_ref_texts2 c cs Hcl) as X2.
  destruct c.
  - rewrite (concat_attr_cols _ D1), (concat_attr_cols _ D2).
    unfold rkids. rewrite !flat_map_concat_map, !map_map. f_equal. symmetry. apply F2_map_eq.
    apply (F2_impl _ _ _ _ Hk). intros ch tr _ [_ H]. destruct H as [_ [_ [_ [_ [_ [_ [H _]]]]]]]. symmetry. exact H.
  - rewrite (concat_text_lines _ _ D1 X1), (concat_text_lines _ _ D2 X2).
    rewrite (tfl_flat_congr (map fst trs) (rkids cs false)); [reflexivity|].
    unfold rkids. apply F2_map_l, F2_map_r, F2_flip. apply (F2_impl _ _ _ _ Hk).
    intros ch tr Hch [E H]. destruct H as [_ [H1 [_ [H2 [_ [_ [H3 _]]]]]]].
    destruct (ref_TG2 false ch (cls2_concat cs ch Hcl Hch)) as [_ [G1 [_ [G2 [_ [_ [G3 _]]]]]]].
    cbn [fst]. apply (lines_sum_eq _ _ (source ch)); assumption.
Qed.

Theorem concat_TG2 c cs (trs : list kid) : length cs <> 1%nat -> cls2 (SConcat cs) ->
  Forall2 (child_of (TG2 c)) cs trs ->
  TG2 c (SConcat cs) (snd (concat_fold false (map fst trs) (concat_init, [])),
                     concat_result (fst (concat_fold false (map fst trs) (concat_init, [])))).
Proof.
  intros Hl Hcl Hk.
  assert (HF : Forall (fun tr : kid => Reass (tr_events tr) (tr_text tr) /\ tr_info tr = advance 1 0 (tr_text tr)) trs).
  { apply (F2_right _ _ _ _ Hk). intros ch tr _ [E H].
    destruct H as [_ [H1 [_ [_ [_ [H2 _]]]]]]. unfold tr_events, tr_info. rewrite E. split; assumption. }
  assert (HW : Forall (fun tr : kid => WP (tr_events tr) (1, 0)) trs).
  { apply (F2_right _ _ _ _ Hk). intros ch tr _ [E H]. apply H. }
  pose proof (concat_fold_inv trs (concat_init, []) [] cinv_init HF) as [[A1 [A2 A3]] A4].
  cbn [app] in A2, A3. rewrite (texts_children cs trs _ Hk) in A2, A3.
  pose proof (ct_dense2 c cs trs Hk) as D1.
  pose proof (concat_fold_chunk_texts _ D1) as Htx.
  unfold TG2. cbn [fst snd].
  split; [apply (concat_fold_dense _ D1)|]. split; [exact A2|].
  split; [apply A4; [apply WP_nil|exact HW]|]. split.
  { apply (NLL_flat _ _ Htx). rewrite Forall_map.
    apply (F2_right _ _ _ _ Hk). intros ch tr _ [_ H]. apply H. }
  split.
  { intros Hc. apply (ne_flat _ _ Htx). rewrite Forall_map.
    apply (F2_right _ _ _ _ Hk). intros ch tr _ [_ H]. destruct H as [_ [_ [_ [_ [H _]]]]]. apply H. exact Hc. }
  split; [exact A3|]. split; [apply ct_attr2; assumption|].
  apply bnd_concat2. apply (F2_impl _ _ _ _ Hk). intros ch tr _ [_ H]. apply H.
Qed.

Lemma cf_kid_ok2 c cs (trs : list kid) : Forall2 (child_of (FG2 c)) cs trs -> Forall kid_ok trs.
Proof.
  intros Hk. apply (F2_right _ _ _ _ Hk). intros ch tr _ [E H].
  destruct H as [H _]. rewrite <- E in H. destruct tr as [r t]. exact H.
Qed.

Lemma cf_kidL_ok2 cs (trs : list kid) : Forall2 (child_of (FG2 false)) cs trs -> Forall kidL_ok trs.
Proof.
  intros Hk. apply (F2_right _ _ _ _ Hk). intros ch tr _ [E H].
  destruct H as [_ [H _]]. specialize (H eq_refl). rewrite <- E in H. destruct tr as [r t]. exact H.
Qed.

Lemma cf_attr2 c cs (trs : list kid) : length cs <> 1%nat -> cls2 (SConcat cs) ->
  Forall2 (child_of (FG2 c)) cs trs ->
  attr_of_final_events (snd (concat_fold true (map fst trs) (concat_init, []))) (source (SConcat cs)) c
  = refA (SConcat cs) c.
Proof.
  intros Hl Hcl Hk. rewrite <- (texts_children cs trs _ Hk). unfold refA. rewrite (ref_concat cs c Hl).
  assert (Hall : forall ch, In ch cs -> cls2 ch) by (intros ch; apply cls2_concat; exact Hcl).
  pose proof (cf_kid_ok2 c cs trs Hk) as K.
  destruct c.
  - rewrite (concat_final_attr trs K).
    rewrite (concat_attr_cols _ (ct_ref_dense2 true cs Hcl)).
    unfold rkids. rewrite !flat_map_concat_map, !map_map. f_equal. symmetry. apply F2_map_eq.
    apply (F2_impl _ _ _ _ Hk). intros ch tr _ [E H]. destruct H as [_ [_ [H _]]].
    unfold tr_events. rewrite E. symmetry. exact H.
  - apply (concat_lines_vs_text trs (rkids cs false) (cf_kidL_ok2 cs trs Hk)).
    unfold rkids. apply F2_map_r, F2_flip. apply (F2_impl _ _ _ _ Hk). intros ch tr Hch [E H].
    destruct (ref_TG2 false ch (Hall ch Hch)) as [G0 [G1 [_ [G2 [_ [_ [G3 _]]]]]]].
    cbn [fst]. rewrite E. split; [exact G0|]. split; [exact G1|]. split; [exact G2|].
    rewrite G3. destruct H as [_ [_ [H _]]]. exact H.
Qed.

Theorem concat_FG2 c cs (trs : list kid) : length cs <> 1%nat -> cls2 (SConcat cs) ->
  Forall2 (child_of (FG2 c)) cs trs ->
  FG2 c (SConcat cs) (snd (concat_fold true (map fst trs) (concat_init, [])),
                     concat_result (fst (concat_fold true (map fst trs) (concat_init, [])))).
Proof.
  intros Hl Hcl Hk. pose proof (cf_kid_ok2 c cs trs Hk) as K.
  unfold FG2. cbn [fst]. split; [|split; [|split]].
  - rewrite <- (texts_children cs trs _ Hk). apply (concat_kid_ok trs K).
  - intros Hc. subst c. rewrite <- (texts_children cs trs _ Hk). apply (concat_kidL_ok trs (cf_kidL_ok2 cs trs Hk)).
  - apply cf_attr2; assumption.
  - apply bnd_concat2. apply (F2_impl _ _ _ _ Hk). intros ch tr _ [_ H]. apply H.
Qed.

(* ------------------------------------------------------------------ *)
(* (c) ReplaceSource without replacements                               *)
(* ------------------------------------------------------------------ *)
Theorem replace_nil_TG2 (c : bool) (i : src) (r : list event * (N * N)) :
  cls2 (SReplace i []) -> TG2 c i r -> TG2 c (SReplace i []) (replace_stream [] (fst r) (snd r)).
Proof.
  intros Hcl HT. destruct (cls2_replace i [] Hcl) as [Hci _].
  destruct (cls2_sizes i Hci) as [L _].
  destruct HT as [Hd [Hr [Hw [Hn [Hne [Hi [Hattr [B1 [B2 B3]]]]]]]]].
  assert (Hb : len (source i) + clen [] + 1 < two32).
  { unfold clen. cbn [map concat]. change (len (@nil N)) with 0. unfold KB, two32 in *. lia. }
  pose proof (replace_stream_Good [] (fst r) (source i) (Forall_nil _) Hr Hw Hn Hb) as [[G1 G2] [G3 G4]].
  cbn zeta in *. rewrite splice_nil in *. rewrite <- Hi in *.
  unfold TG2. cbn [source]. change (replace_source_text (source i) []) with (source i).
  split; [apply FinalDense.replace_stream_dense; exact Hd|]. split; [exact G1|]. split; [exact G2|]. split; [exact G3|].
  split.
  { intros Hc. specialize (Hne Hc).
    apply (ReplAttrOrigin.replace_stream_dense [] (fst r) (source i) (snd r) (Forall_nil _));
      [apply reassembles_iff; exact Hr|exact Hne|exact Hd]. }
  split; [rewrite G4; exact Hi|]. split.
  - rewrite (replace_stream_nil_attr _ _ c Hd), Hattr.
    destruct (ref_TG2 c i Hci) as [Rd _].
    unfold refA, ref_evs. cbn [uncache]. rewrite replace_nil_stream_eq. cbn [fst snd columns].
    symmetry. apply replace_stream_nil_attr. exact Rd.
  - unfold bnd2. split; [apply replace_stream_b; exact B1|].
    pose proof (replace_stream_n [] (fst r) (snd r)) as [N1 N2]. change (len (@nil repl)) with 0 in N2.
    cbn [asrc2 anam2]. change (len (@nil repl)) with 0. split; lia.
Qed.

Print Assumptions nocache_TG2.
Print Assumptions nocache_FG2.
Print Assumptions ref_TG2.
Print Assumptions concat_TG2.
Print Assumptions concat_FG2.
Print Assumptions replace_nil_TG2.
