(* The JSON parser of Sem/Json.v inverts the compact printer:
   J1  parse_str reads back every escaped byte string,
   J2  parse (print v) = Some v for every well-formed value. *)
From RS Require Import Base.Prelude Base.Text Rope.RopeModel Sem.Json.
Require Import Lia List.

(* ------------------------------------------------------------------ *)
(* J1: strings                                                         *)
(* ------------------------------------------------------------------ *)

Lemma hex_val_hex_digit (n : N) : n < 16 -> hex_val (hex_digit n) = Some n.
Proof.
  intros H. unfold hex_digit, hex_val.
  destruct (N.ltb_spec n 10).
  - replace ((48 <=? 48 + n) && (48 + n <=? 57)) with true.
    + f_equal. lia.
    + symmetry. apply andb_true_iff. split; apply N.leb_le; lia.
  - replace ((48 <=? 87 + n) && (87 + n <=? 57)) with false.
    + replace ((97 <=? 87 + n) && (87 + n <=? 102)) with true.
      * f_equal. lia.
      * symmetry. apply andb_true_iff. split; apply N.leb_le; lia.
    + symmetry. apply andb_false_iff. right. apply N.leb_gt. lia.
Qed.

Lemma utf8_encode_char_ascii (b : N) : b < 128 -> utf8_encode_char b = [b].
Proof.
  intros H. unfold utf8_encode_char.
  destruct (N.ltb_spec b 128); [reflexivity | lia].
Qed.

Lemma escape_byte_cases (b : N) :
  (b = 34 /\ escape_byte b = [92; 34]) \/
  (b = 92 /\ escape_byte b = [92; 92]) \/
  (b < 32 /\ escape_byte b = [92; 117; 48; 48; hex_digit (b / 16); hex_digit (b mod 16)]) \/
  (b <> 34 /\ b <> 92 /\ 32 <= b /\ escape_byte b = [b]).
Proof.
  unfold escape_byte.
  destruct (N.eqb_spec b 34); [left; auto|].
  destruct (N.eqb_spec b 92); [right; left; auto|].
  destruct (N.ltb_spec b 32); [right; right; left; auto|].
  right; right; right; auto.
Qed.

Lemma escape_byte_nonempty (b : N) : (1 <= length (escape_byte b))%nat.
Proof.
  destruct (escape_byte_cases b) as [[_ E]|[[_ E]|[[_ E]|[_ [_ [_ E]]]]]]; rewrite E; cbn [length]; lia.
Qed.

Lemma hex4_escape (b : N) (r : text) :
  b < 32 -> hex4 (48 :: 48 :: hex_digit (b / 16) :: hex_digit (b mod 16) :: r) = Some (b, r).
Proof.
  intros H. unfold hex4.
  assert (H1 : b / 16 < 16) by (apply N.div_lt_upper_bound; lia).
  assert (H2 : b mod 16 < 16) by (apply N.mod_lt; lia).
  rewrite (hex_val_hex_digit _ H1), (hex_val_hex_digit _ H2).
  change (hex_val 48) with (Some 0).
  assert (D : b = 16 * (b / 16) + b mod 16) by (apply N.div_mod; lia).
  revert D. generalize (b / 16) (b mod 16). intros q m D.
  replace (0 * 4096 + 0 * 256 + q * 16 + m) with b by lia. reflexivity.
Qed.

(* the \u escapes produced by the printer never denote a surrogate *)
Lemma escape_not_surrogate (b : N) :
  b < 32 -> (55296 <=? b) && (b <? 56320) = false /\ (56320 <=? b) && (b <? 57344) = false.
Proof.
  intros H. split; apply andb_false_iff; left; apply N.leb_gt; lia.
Qed.

(* one printed byte is read back in one step *)
Lemma parse_str_escape (b : N) (f : nat) (r acc : text) :
  parse_str (S f) (escape_byte b ++ r) acc = parse_str f r (b :: acc).
Proof.
  destruct (escape_byte_cases b) as [[-> E]|[[-> E]|[[L E]|[N1 [N2 [L E]]]]]]; rewrite E.
  - reflexivity.
  - reflexivity.
  - change (parse_str (S f) ([92; 117; 48; 48; hex_digit (b / 16); hex_digit (b mod 16)] ++ r) acc)
      with (match hex4 (48 :: 48 :: hex_digit (b / 16) :: hex_digit (b mod 16) :: r) with
            | Some (u, r0) =>
              if (55296 <=? u) && (u <? 56320) then
                match r0 with
                | 92 :: 117 :: r' =>
                  match hex4 r' with
                  | Some (lo, r'') =>
                    if (56320 <=? lo) && (lo <? 57344) then
                      parse_str f r'' (rev (utf8_encode_char (65536 + (u - 55296) * 1024 + (lo - 56320))) ++ acc)
                    else None
                  | None => None
                  end
                | _ => None
                end
              else if (56320 <=? u) && (u <? 57344) then None
              else parse_str f r0 (rev (utf8_encode_char u) ++ acc)
            | None => None
            end).
    rewrite (hex4_escape b r L).
    destruct (escape_not_surrogate b L) as [S1 S2]. rewrite S1, S2.
    rewrite utf8_encode_char_ascii by lia. reflexivity.
  - cbn [app parse_str].
    destruct (N.eqb_spec b 34); [contradiction|].
    destruct (N.eqb_spec b 92); [contradiction|].
    destruct (N.ltb_spec b 32); [lia|]. reflexivity.
Qed.

(* J1, with the sharp fuel bound: one unit per source byte plus one for the quote *)
Theorem parse_str_print_gen (s : text) :
  forall (fuel : nat) (rest acc : text),
    (length s < fuel)%nat ->
    parse_str fuel (flat_map escape_byte s ++ [34] ++ rest) acc = Some (rev acc ++ s, rest).
Proof.
  induction s as [|b s IH]; intros fuel rest acc Hf.
  - destruct fuel as [|f]; [inversion Hf|].
    cbn [flat_map app]. rewrite app_nil_r. reflexivity.
  - destruct fuel as [|f]; [inversion Hf|].
    cbn [flat_map]. rewrite <- app_assoc. rewrite parse_str_escape.
    rewrite IH by (cbn [length] in Hf; lia).
    cbn [rev]. rewrite <- app_assoc. reflexivity.
Qed.

Lemma length_flat_map_escape (s : text) : (length s <= length (flat_map escape_byte s))%nat.
Proof.
  induction s as [|b s IH]; [apply le_n|].
  cbn [flat_map length]. rewrite app_length.
  pose proof (escape_byte_nonempty b). lia.
Qed.

(* J1 as stated: fuel bounded by the printed length *)
Theorem parse_str_print (s : text) (fuel : nat) (rest acc : text) :
  (length (flat_map escape_byte s) < fuel)%nat ->
  parse_str fuel (flat_map escape_byte s ++ [34] ++ rest) acc = Some (rev acc ++ s, rest).
Proof.
  intros H. apply parse_str_print_gen.
  pose proof (length_flat_map_escape s). lia.
Qed.

(* the fuel parse_value hands to parse_str is always enough *)
Lemma parse_str_print_self (s rest : text) :
  parse_str (S (length (flat_map escape_byte s ++ [34] ++ rest)))
            (flat_map escape_byte s ++ [34] ++ rest) [] = Some (s, rest).
Proof.
  rewrite parse_str_print_gen; [reflexivity|].
  rewrite app_length. pose proof (length_flat_map_escape s). lia.
Qed.


(* ------------------------------------------------------------------ *)
(* J2: values                                                          *)
(* ------------------------------------------------------------------ *)

(* nested induction principle: JArr / JObj carry lists of values *)
Section JsonInd.
  Variable P : json -> Prop.
  Hypothesis HNull : P JNull.
  Hypothesis HBool : forall b, P (JBool b).
  Hypothesis HNum : forall raw, P (JNum raw).
  Hypothesis HStr : forall s, P (JStr s).
  Hypothesis HArr : forall l, Forall P l -> P (JArr l).
  Hypothesis HObj : forall l, Forall (fun kv => P (snd kv)) l -> P (JObj l).
  Fixpoint json_ind_nested (v : json) : P v :=
    match v with
    | JNull => HNull
    | JBool b => HBool b
    | JNum raw => HNum raw
    | JStr s => HStr s
    | JArr l =>
      HArr l ((fix go (l : list json) : Forall P l :=
                 match l with
                 | [] => Forall_nil _
                 | x :: l' => Forall_cons x (json_ind_nested x) (go l')
                 end) l)
    | JObj l =>
      HObj l ((fix go (l : list (text * json)) : Forall (fun kv => P (snd kv)) l :=
                 match l with
                 | [] => Forall_nil _
                 | kv :: l' => Forall_cons kv (json_ind_nested (snd kv)) (go l')
                 end) l)
    end.
End JsonInd.

(* well-formed values: numbers are non-empty runs of number characters;
   strings and object keys are arbitrary byte lists *)
Definition wf_num (raw : text) : Prop := raw <> [] /\ forallb is_num_char raw = true.

Fixpoint wf_json (v : json) : Prop :=
  match v with
  | JNum raw => wf_num raw
  | JArr l =>
    (fix all (l : list json) : Prop :=
       match l with [] => True | x :: l' => wf_json x /\ all l' end) l
  | JObj l =>
    (fix all (l : list (text * json)) : Prop :=
       match l with [] => True | kv :: l' => wf_json (snd kv) /\ all l' end) l
  | _ => True
  end.

Lemma wf_json_arr (l : list json) : wf_json (JArr l) <-> Forall wf_json l.
Proof.
  induction l as [|x l IH].
  - split; intros _; [constructor | exact I].
  - split.
    + intros [Hx Hl]. constructor; [exact Hx | apply IH; exact Hl].
    + intros H. inversion H; subst. split; [assumption | apply IH; assumption].
Qed.

Lemma wf_json_obj (l : list (text * json)) :
  wf_json (JObj l) <-> Forall (fun kv => wf_json (snd kv)) l.
Proof.
  induction l as [|x l IH].
  - split; intros _; [constructor | exact I].
  - split.
    + intros [Hx Hl]. constructor; [exact Hx | apply IH; exact Hl].
    + intros H. inversion H; subst. split; [assumption | apply IH; assumption].
Qed.

(* ---- the two local loops of parse_value, named ---- *)
Definition elems_fix (pv : text -> option (json * text)) :=
  fix elems (n : nat) (s : text) (acc : list json) : option (json * text) :=
    match n with
    | O => None
    | S n' =>
      match pv s with
      | Some (v, r) =>
        match skip_ws r with
        | 44 :: r' => elems n' r' (v :: acc)
        | 93 :: r' => Some (JArr (rev (v :: acc)), r')
        | _ => None
        end
      | None => None
      end
    end.

Definition members_fix (pv : text -> option (json * text)) :=
  fix members (n : nat) (s : text) (acc : list (text * json)) : option (json * text) :=
    match n with
    | O => None
    | S n' =>
      match skip_ws s with
      | 34 :: s1 =>
        match parse_str (S (length s1)) s1 [] with
        | Some (k, r) =>
          match skip_ws r with
          | 58 :: r1 =>
            match pv r1 with
            | Some (v, r2) =>
              match skip_ws r2 with
              | 44 :: r3 => members n' r3 ((k, v) :: acc)
              | 125 :: r3 => Some (JObj (rev ((k, v) :: acc)), r3)
              | _ => None
              end
            | None => None
            end
          | _ => None
          end
        | None => None
        end
      | _ => None
      end
    end.

Lemma parse_value_S (f : nat) (s : text) :
  parse_value (S f) s =
  match skip_ws s with
  | [] => None
  | c :: s' =>
    if c =? 34 then
      match parse_str (S (length s')) s' [] with
      | Some (str, r) => Some (JStr str, r)
      | None => None
      end
    else if c =? 91 then
      match skip_ws s' with
      | 93 :: r => Some (JArr [], r)
      | _ => elems_fix (parse_value f) (S (length s')) s' []
      end
    else if c =? 123 then
      match skip_ws s' with
      | 125 :: r => Some (JObj [], r)
      | _ => members_fix (parse_value f) (S (length s')) s' []
      end
    else if c =? 110 then match lit [117; 108; 108] s' with Some r => Some (JNull, r) | None => None end
    else if c =? 116 then match lit [114; 117; 101] s' with Some r => Some (JBool true, r) | None => None end
    else if c =? 102 then match lit [97; 108; 115; 101] s' with Some r => Some (JBool false, r) | None => None end
    else if is_num_char c then
      let '(raw, r) := span_num (c :: s') [] in Some (JNum raw, r)
    else None
  end.
Proof. reflexivity. Qed.

Lemma elems_fix_S pv n s acc :
  elems_fix pv (S n) s acc =
  match pv s with
  | Some (v, r) =>
    match skip_ws r with
    | 44 :: r' => elems_fix pv n r' (v :: acc)
    | 93 :: r' => Some (JArr (rev (v :: acc)), r')
    | _ => None
    end
  | None => None
  end.
Proof. reflexivity. Qed.

Lemma members_fix_S pv n s acc :
  members_fix pv (S n) s acc =
  match skip_ws s with
  | 34 :: s1 =>
    match parse_str (S (length s1)) s1 [] with
    | Some (k, r) =>
      match skip_ws r with
      | 58 :: r1 =>
        match pv r1 with
        | Some (v, r2) =>
          match skip_ws r2 with
          | 44 :: r3 => members_fix pv n r3 ((k, v) :: acc)
          | 125 :: r3 => Some (JObj (rev ((k, v) :: acc)), r3)
          | _ => None
          end
        | None => None
        end
      | _ => None
      end
    | None => None
    end
  | _ => None
  end.
Proof. reflexivity. Qed.

(* ---- dispatch on the first character ---- *)
Lemma pv_null f r : parse_value (S f) ([110; 117; 108; 108] ++ r) = Some (JNull, r).
Proof. reflexivity. Qed.
Lemma pv_true f r : parse_value (S f) ([116; 114; 117; 101] ++ r) = Some (JBool true, r).
Proof. reflexivity. Qed.
Lemma pv_false f r : parse_value (S f) ([102; 97; 108; 115; 101] ++ r) = Some (JBool false, r).
Proof. reflexivity. Qed.
Lemma pv_str f s' :
  parse_value (S f) (34 :: s') =
  match parse_str (S (length s')) s' [] with
  | Some (str, r) => Some (JStr str, r)
  | None => None
  end.
Proof. reflexivity. Qed.
Lemma pv_arr_empty f r : parse_value (S f) (91 :: 93 :: r) = Some (JArr [], r).
Proof. reflexivity. Qed.
Lemma pv_obj_empty f r : parse_value (S f) (123 :: 125 :: r) = Some (JObj [], r).
Proof. reflexivity. Qed.
Lemma pv_obj f t :
  parse_value (S f) (123 :: 34 :: t) = members_fix (parse_value f) (S (length (34 :: t))) (34 :: t) [].
Proof. reflexivity. Qed.

Lemma pv_arr f c t :
  is_ws c = false -> c <> 93 ->
  parse_value (S f) (91 :: c :: t) = elems_fix (parse_value f) (S (length (c :: t))) (c :: t) [].
Proof.
  intros W N93.
  change (parse_value (S f) (91 :: c :: t))
    with (match skip_ws (c :: t) with
          | 93 :: r => Some (JArr [], r)
          | _ => elems_fix (parse_value f) (S (length (c :: t))) (c :: t) []
          end).
  cbn [skip_ws]. rewrite W.
  destruct c as [|p]; [reflexivity|].
  do 7 (destruct p as [p|p|]; try reflexivity).
  contradiction N93; reflexivity.
Qed.

Lemma is_num_char_props (c : N) :
  is_num_char c = true ->
  is_ws c = false /\ c <> 34 /\ c <> 91 /\ c <> 93 /\ c <> 123 /\ c <> 125 /\
  c <> 110 /\ c <> 116 /\ c <> 102 /\ c <> 44 /\ c <> 58.
Proof.
  intros H. unfold is_num_char in H.
  rewrite !orb_true_iff, andb_true_iff, !N.eqb_eq, !N.leb_le in H.
  split; [|lia].
  destruct (is_ws c) eqn:E; [|reflexivity].
  exfalso. unfold is_ws in E. rewrite !orb_true_iff, !N.eqb_eq in E. lia.
Qed.

Lemma pv_num f c s' :
  is_num_char c = true ->
  parse_value (S f) (c :: s') = let '(raw, r) := span_num (c :: s') [] in Some (JNum raw, r).
Proof.
  intros H. destruct (is_num_char_props c H) as [W NE].
  rewrite parse_value_S. cbn [skip_ws]. rewrite W.
  destruct (N.eqb_spec c 34); [lia|].
  destruct (N.eqb_spec c 91); [lia|].
  destruct (N.eqb_spec c 123); [lia|].
  destruct (N.eqb_spec c 110); [lia|].
  destruct (N.eqb_spec c 116); [lia|].
  destruct (N.eqb_spec c 102); [lia|].
  rewrite H. reflexivity.
Qed.

(* ---- numbers ---- *)
Definition no_num_head (rest : text) : Prop :=
  match rest with [] => True | c :: _ => is_num_char c = false end.

(* what may follow a printed value: only numbers are open-ended *)
Definition ok_after (v : json) (rest : text) : Prop :=
  match v with JNum _ => no_num_head rest | _ => True end.

Lemma ok_after_sep v c r : is_num_char c = false -> ok_after v (c :: r).
Proof. intros H. destruct v; try exact I. exact H. Qed.

Lemma ok_after_nil v : ok_after v [].
Proof. destruct v; exact I. Qed.

Lemma span_num_app (raw : text) :
  forall acc rest,
    forallb is_num_char raw = true -> no_num_head rest ->
    span_num (raw ++ rest) acc = (rev acc ++ raw, rest).
Proof.
  induction raw as [|c raw IH]; intros acc rest Hall Hrest.
  - cbn [app]. rewrite app_nil_r. destruct rest as [|d r]; [reflexivity|].
    cbn [span_num]. cbn in Hrest. rewrite Hrest. reflexivity.
  - cbn [forallb] in Hall. apply andb_true_iff in Hall. destruct Hall as [Hc Hall].
    cbn [app span_num]. rewrite Hc. rewrite IH by assumption.
    cbn [rev]. rewrite <- app_assoc. reflexivity.
Qed.

(* ---- first character of a printed value ---- *)
Lemma print_head (v : json) :
  wf_json v -> exists c t, print v = c :: t /\ is_ws c = false /\ c <> 93.
Proof.
  intros W. destruct v as [|b|raw|s|l|l].
  - eexists _, _. split; [reflexivity|]. split; [reflexivity | discriminate].
  - destruct b; (eexists _, _; split; [reflexivity|]; split; [reflexivity | discriminate]).
  - destruct W as [Hne Hall]. destruct raw as [|c t]; [contradiction|].
    cbn [forallb] in Hall. apply andb_true_iff in Hall. destruct Hall as [Hc _].
    destruct (is_num_char_props c Hc) as [Hw Hn].
    exists c, t. split; [reflexivity|]. split; [exact Hw | lia].
  - eexists _, _. split; [reflexivity|]. split; [reflexivity | discriminate].
  - eexists _, _. split; [reflexivity|]. split; [reflexivity | discriminate].
  - eexists _, _. split; [reflexivity|]. split; [reflexivity | discriminate].
Qed.

(* ---- sep_by bookkeeping ---- *)
Lemma sep_by_cons2 (sep x y : text) (l : list text) :
  sep_by sep (x :: y :: l) = x ++ sep ++ sep_by sep (y :: l).
Proof. reflexivity. Qed.

Lemma sep_by_count (ts : list text) : (length ts <= S (length (sep_by [44%N] ts)))%nat.
Proof.
  induction ts as [|x ts IH]; [cbn; lia|].
  destruct ts as [|y ts]; [cbn [length]; lia|].
  rewrite sep_by_cons2, !app_length. cbn [length] in *. lia.
Qed.

Lemma sep_by_In_length (sep : text) (ts : list text) (t : text) :
  In t ts -> (length t <= length (sep_by sep ts))%nat.
Proof.
  induction ts as [|x ts IH]; [intros []|].
  intros [->|Hin].
  - destruct ts as [|y ts]; [cbn [sep_by]; lia|].
    rewrite sep_by_cons2, !app_length. lia.
  - destruct ts as [|y ts]; [destruct Hin|].
    rewrite sep_by_cons2, !app_length. specialize (IH Hin). lia.
Qed.

(* ---- the array loop ---- *)
Lemma elems_ok (f : nat) (l : list json) :
  Forall (fun e => forall rest, ok_after e rest -> parse_value f (print e ++ rest) = Some (e, rest)) l ->
  l <> [] ->
  forall (n : nat) (acc : list json) (rest : text),
    (length l <= n)%nat ->
    elems_fix (parse_value f) n (sep_by [44] (map print l) ++ 93 :: rest) acc
    = Some (JArr (rev acc ++ l), rest).
Proof.
  induction l as [|e l IH]; intros HP Hne n acc rest Hn; [contradiction|].
  inversion HP as [|? ? He Hl]; subst.
  destruct n as [|n]; [cbn [length] in Hn; lia|].
  destruct l as [|e2 l].
  - cbn [map sep_by]. rewrite elems_fix_S.
    rewrite He by (apply ok_after_sep; reflexivity).
    reflexivity.
  - cbn [map]. rewrite sep_by_cons2. rewrite <- !app_assoc. rewrite elems_fix_S.
    rewrite He by (apply ok_after_sep; reflexivity).
    change (skip_ws ([44] ++ sep_by [44] (print e2 :: map print l) ++ 93 :: rest))
      with (44 :: (sep_by [44] (map print (e2 :: l)) ++ 93 :: rest)).
    cbv iota beta.
    rewrite IH; [| assumption | discriminate | cbn [length] in *; lia].
    cbn [rev]. rewrite <- app_assoc. reflexivity.
Qed.

(* ---- the object loop ---- *)
Definition print_member (kv : text * json) : text :=
  print_string (fst kv) ++ [58] ++ print (snd kv).

Lemma print_member_shape (k : text) (v : json) (X : text) :
  print_member (k, v) ++ X = 34 :: (flat_map escape_byte k ++ [34] ++ (58 :: print v ++ X)).
Proof.
  unfold print_member, print_string. cbn [fst snd app]. rewrite <- !app_assoc. reflexivity.
Qed.

Lemma members_ok (f : nat) (l : list (text * json)) :
  Forall (fun kv => forall rest, ok_after (snd kv) rest ->
                                 parse_value f (print (snd kv) ++ rest) = Some (snd kv, rest)) l ->
  l <> [] ->
  forall (n : nat) (acc : list (text * json)) (rest : text),
    (length l <= n)%nat ->
    members_fix (parse_value f) n (sep_by [44] (map print_member l) ++ 125 :: rest) acc
    = Some (JObj (rev acc ++ l), rest).
Proof.
  induction l as [|[k v] l IH]; intros HP Hne n acc rest Hn; [contradiction|].
  inversion HP as [|? ? He Hl]; subst. cbn [snd] in He.
  destruct n as [|n]; [cbn [length] in Hn; lia|].
  destruct l as [|kv2 l].
  - cbn [map sep_by]. rewrite members_fix_S. rewrite print_member_shape.
    cbn [skip_ws]. change (is_ws 34) with false. cbv iota beta.
    rewrite parse_str_print_self.
    change (skip_ws (58 :: print v ++ 125 :: rest)) with (58 :: print v ++ 125 :: rest).
    cbv iota beta.
    rewrite He by (apply ok_after_sep; reflexivity).
    reflexivity.
  - cbn [map]. rewrite sep_by_cons2. rewrite <- app_assoc. rewrite members_fix_S.
    rewrite print_member_shape.
    cbn [skip_ws]. change (is_ws 34) with false. cbv iota beta.
    rewrite parse_str_print_self.
    match goal with |- context [skip_ws (58 :: ?x)] => change (skip_ws (58 :: x)) with (58 :: x) end.
    cbv iota beta.
    rewrite <- app_assoc.
    rewrite He by (apply ok_after_sep; reflexivity).
    match goal with |- context [skip_ws ([44] ++ ?x)] => change (skip_ws ([44] ++ x)) with (44 :: x) end.
    cbv iota beta.
    change (print_member kv2 :: map print_member l) with (map print_member (kv2 :: l)).
    rewrite IH; [| assumption | discriminate | cbn [length] in *; lia].
    cbn [rev]. rewrite <- app_assoc. reflexivity.
Qed.

Lemma print_obj_eq (l : list (text * json)) :
  print (JObj l) = [123] ++ sep_by [44] (map print_member l) ++ [125].
Proof. reflexivity. Qed.

(* ---- J2, general form ---- *)
Theorem parse_value_print (v : json) :
  wf_json v ->
  forall (fuel : nat) (rest : text),
    (length (print v) < fuel)%nat -> ok_after v rest ->
    parse_value fuel (print v ++ rest) = Some (v, rest).
Proof.
  induction v as [|b|raw|s|l IH|l IH] using json_ind_nested; intros W fuel rest Hf Hr;
    (destruct fuel as [|f]; [inversion Hf|]).
  - apply pv_null.
  - destruct b; [apply pv_true | apply pv_false].
  - destruct W as [Hne Hall]. cbn [print]. destruct raw as [|c t]; [contradiction|].
    assert (Hc : is_num_char c = true).
    { cbn [forallb] in Hall. apply andb_true_iff in Hall. tauto. }
    cbn [app]. rewrite (pv_num f c _ Hc).
    change (c :: t ++ rest) with ((c :: t) ++ rest).
    rewrite (span_num_app (c :: t) [] rest Hall Hr). reflexivity.
  - cbn [print]. unfold print_string. cbn [app]. rewrite <- app_assoc.
    rewrite pv_str. rewrite parse_str_print_self. reflexivity.
  - (* arrays *)
    apply wf_json_arr in W.
    change (print (JArr l) ++ rest) with (91 :: ((sep_by [44] (map print l) ++ [93]) ++ rest)).
    rewrite <- app_assoc. cbn [app].
    destruct l as [|e l]; [apply pv_arr_empty|].
    assert (Hhead : exists c t, sep_by [44] (map print (e :: l)) ++ 93 :: rest = c :: t
                                /\ is_ws c = false /\ c <> 93).
    { inversion W as [|? ? We _]; subst.
      destruct (print_head e We) as (c & t & E & Hw & Hn).
      cbn [map]. destruct l as [|e2 l].
      - cbn [map sep_by]. rewrite E. eexists _, _. split; [reflexivity | auto].
      - cbn [map]. rewrite sep_by_cons2, E. eexists _, _. split; [reflexivity | auto]. }
    destruct Hhead as (c & t & E & Hw & Hn).
    rewrite E, (pv_arr f c t Hw Hn), <- E.
    rewrite elems_ok with (acc := []); [reflexivity | | discriminate |].
    + rewrite Forall_forall in *. intros x Hx rest' Hr'.
      apply IH; [exact Hx | apply W; exact Hx | | exact Hr'].
      assert (L : (length (print x) <= length (sep_by [44%N] (map print (e :: l))))%nat)
        by (apply sep_by_In_length, in_map, Hx).
      cbn [print] in Hf. rewrite !app_length in Hf. cbn [length] in Hf. lia.
    + pose proof (sep_by_count (map print (e :: l))) as C. rewrite map_length in C.
      rewrite app_length. lia.
  - (* objects *)
    apply wf_json_obj in W.
    rewrite print_obj_eq in *.
    change (([123] ++ sep_by [44] (map print_member l) ++ [125]) ++ rest)
      with (123 :: ((sep_by [44] (map print_member l) ++ [125]) ++ rest)).
    rewrite <- app_assoc. cbn [app].
    destruct l as [|[k v] l]; [apply pv_obj_empty|].
    assert (Hhead : exists t, sep_by [44] (map print_member ((k, v) :: l)) ++ 125 :: rest = 34 :: t).
    { cbn [map]. destruct l as [|kv2 l].
      - cbn [map sep_by]. rewrite print_member_shape. eexists; reflexivity.
      - cbn [map]. rewrite sep_by_cons2, <- app_assoc, print_member_shape. eexists; reflexivity. }
    destruct Hhead as (t & E).
    rewrite E, pv_obj, <- E.
    rewrite members_ok with (acc := []); [reflexivity | | discriminate |].
    + rewrite Forall_forall in *. intros x Hx rest' Hr'.
      apply IH; [exact Hx | apply W; exact Hx | | exact Hr'].
      assert (L : (length (print_member x) <= length (sep_by [44%N] (map print_member ((k, v) :: l))))%nat)
        by (apply sep_by_In_length, in_map, Hx).
      unfold print_member in L at 1. rewrite !app_length in L.
      rewrite !app_length in Hf. cbn [length] in Hf, L. lia.
    + pose proof (sep_by_count (map print_member ((k, v) :: l))) as C. rewrite map_length in C.
      rewrite app_length. lia.
Qed.

Lemma parse_value_print_nil (v : json) :
  wf_json v -> parse_value (S (length (print v))) (print v) = Some (v, []).
Proof.
  intros W.
  pose proof (parse_value_print v W (S (length (print v))) [] (Nat.lt_succ_diag_r _) (ok_after_nil v)) as E.
  rewrite app_nil_r in E. exact E.
Qed.

(* J2 *)
Theorem parse_print (v : json) : wf_json v -> parse (print v) = Some v.
Proof.
  intros W. unfold parse. rewrite (parse_value_print_nil v W). reflexivity.
Qed.

Print Assumptions parse_str_print.
Print Assumptions parse_value_print.
Print Assumptions parse_print.
