(* Warm caches over combined-map leaves, part 2: definitions.
   The definitions of WarmTreeDefs.v with the class widened to `rshape2` (leaves may be
   SourceMapSources with an inner map) and the accounting of WarmCombBounds.v:
     `cls2 s`    k2_shape s = false, rshape2 (uncache s), treeA s, rsmall (uncache s), tiny2 (uncache s);
     `Sound2`    every stored entry is a `good_entry2`: it attributes source(inner) exactly as the
                 freshly built cache-free tree `uncache inner` (`refA`, unchanged), is replayable
                 (`mapR`, unchanged) and stays inside the bounds KB2 / asrc2 / anam2 (`mbnd2`);
     `TG2`/`FG2` what the induction carries for a text-carrying / text-less stream. *)
From RS Require Import Base.Prelude Base.Text Rope.RopeModel Codec.Vlq Codec.CodecSpec
  Checkers.ChkCodec Stream.Types Stream.Leaves Stream.Concat Stream.Replace Stream.Combined Stream.Tree
  Api.ApiTree Sem.Attr Sem.HashEq Api.ApiHist Checkers.ChkTree Checkers.ChkHist
  Proofs.CodecKept Proofs.StreamText Proofs.StreamLeaves Proofs.StreamMap Proofs.StreamConcat Proofs.StreamTree
  Proofs.WfStream Proofs.WfFinal Proofs.RStreamText Proofs.RStreamPos Proofs.RStreamTree
  Proofs.AttrCodec Proofs.AttrSms Proofs.LawConcatAttr Proofs.LawWrappers
  Proofs.CacheStore Proofs.CacheReplay Proofs.FinalDense Proofs.FinalConcat Proofs.FinalTree Proofs.FinalCache
  Proofs.ReplAttrStream Proofs.LinesBase Proofs.LinesConcat Proofs.LinesTree
  Proofs.ColdCache Proofs.ColdCacheTree Proofs.BoundsPos Proofs.BoundsOrig Proofs.BoundsIdx
  Proofs.CombLeafTree Proofs.WarmTreeDefs Proofs.WarmCombBounds.
Require Import Lia List.

Local Open Scope N_scope.

(* ------------------------------------------------------------------ *)
(* what a stored map must satisfy                                       *)
(* ------------------------------------------------------------------ *)
Definition mbnd2 (inner : src) (m : smap) : Prop :=
  Forall (segb KB2) (decode_mappings (sm_mappings m)) /\
  (forall c, In c (sm_contents m) -> len c <= KB2) /\
  len (sm_sources m) <= asrc2 inner /\ len (sm_names m) <= anam2 inner.

Definition good_entry2 (inner : src) (c : bool) (v : option smap) : Prop :=
  attr_of_map v (source inner) c = refA inner c /\
  match v with Some m => mapR (source inner) m /\ mbnd2 inner m | None => True end.

Definition Sound2 (st : store) (U : src) : Prop :=
  forall id inner, In (id, inner) (nodes U) ->
  forall c f v, cache_get (store_get st id) (mkOpts c f) = Some v -> good_entry2 inner c v.

Theorem sound2_empty (U : src) : Sound2 [] U.
Proof. intros id inner _ c f v H. discriminate. Qed.

Lemma sound2_put (U : src) st id inner c f v : ids_distinct U -> In (id, inner) (nodes U) ->
  Sound2 st U -> good_entry2 inner c v -> Sound2 (store_put st id (mkOpts c f) v) U.
Proof.
  intros Hd Hin Hs Hv id' inner' Hin' c' f' x H. apply store_put_get_inv in H.
  destruct H as [H|[Ei [Eo [Ex _]]]].
  - apply (Hs id' inner' Hin' c' f' x H).
  - subst id' x. inversion Eo. subst c' f'.
    rewrite (nodes_inj U Hd id inner' inner Hin' Hin). exact Hv.
Qed.

Lemma sound2_sub (U s : src) st : incl (nodes s) (nodes U) -> Sound2 st U -> Sound2 st s.
Proof. intros Hi Hs id inner Hin. apply Hs. apply Hi. exact Hin. Qed.

(* an entry good in the sense of WarmTreeDefs.v is good here: `Sound` stores are `Sound2` *)
Lemma mbnd_mbnd2 inner m : mbnd inner m -> mbnd2 inner m.
Proof.
  intros [A [B [C D]]]. pose proof KB_KB2 as K. pose proof (asrc_le2 inner). pose proof (anam_le2 inner).
  split; [|split; [|split; lia]].
  - eapply Forall_impl; [|exact A]. intros mp. apply ob_mono. exact K.
  - intros c Hc. specialize (B c Hc). lia.
Qed.

Lemma good_entry_2 inner c v : good_entry inner c v -> good_entry2 inner c v.
Proof.
  intros [A B]. split; [exact A|]. destruct v as [m|]; [|exact I]. destruct B as [R M].
  split; [exact R|apply mbnd_mbnd2; exact M].
Qed.

Lemma Sound_Sound2 st U : Sound st U -> Sound2 st U.
Proof. intros H id inner Hin c f v G. apply good_entry_2. apply (H id inner Hin c f v G). Qed.

(* ------------------------------------------------------------------ *)
(* size bounds of a stream                                              *)
(* ------------------------------------------------------------------ *)
Definition bnd2 (s : src) (evs : list event) : Prop :=
  Forall (evb KB2) evs /\ nS evs <= asrc2 s /\ nN evs <= anam2 s.

(* ------------------------------------------------------------------ *)
(* what the induction carries                                           *)
(* ------------------------------------------------------------------ *)
Definition TG2 (c : bool) (s : src) (r : list event * (N * N)) : Prop :=
  dense (fst r) 0 0 = true /\ Reass (fst r) (source s) /\ WP (fst r) (1, 0) /\ NLL (fst r) /\
  (c = false -> no_empty_chunks (fst r) = true) /\
  snd r = advance 1 0 (source s) /\
  attr_of_stream (fst r) c = refA s c /\
  bnd2 s (fst r).

Definition FG2 (c : bool) (s : src) (r : list event * (N * N)) : Prop :=
  kid_ok (r, source s) /\ (c = false -> kidL_ok (r, source s)) /\
  attr_of_final_events (fst r) (source s) c = refA s c /\
  bnd2 s (fst r).

(* ------------------------------------------------------------------ *)
(* the class of trees                                                   *)
(* ------------------------------------------------------------------ *)
Definition cls2 (s : src) : Prop :=
  k2_shape s = false /\ rshape2 (uncache s) = true /\ treeA s = true /\
  rsmall (uncache s) = true /\ tiny2 (uncache s) = true.

(* the class of WarmTreeDefs.v is inside *)
Lemma cls_cls2 s : cls s -> cls2 s.
Proof.
  intros [K [Sh [A [Sm T]]]]. split; [exact K|]. split; [apply rshape_rshape2; exact Sh|].
  split; [exact A|]. split; [exact Sm|]. rewrite (rshape_tiny2 _ Sh). exact T.
Qed.

Lemma tiny2_concat_child cs c : tiny2 (SConcat cs) = true -> In c cs -> tiny2 c = true.
Proof.
  intros H Hc. destruct (tiny2_parts _ H) as [T1 [T2 [T3 [T4 T5]]]].
  cbn [tsize asrc2 anam2 nleaves maps_tiny2] in *.
  pose proof (fold_sum_in tsize cs c Hc). pose proof (fold_sum_in asrc2 cs c Hc).
  pose proof (fold_sum_in anam2 cs c Hc). pose proof (fold_sum_in nleaves cs c Hc).
  rewrite forallb_forall in T5. unfold tiny2.
  rewrite (T5 c Hc), !andb_true_r.
  repeat (apply andb_true_iff; split); apply N.ltb_lt; lia.
Qed.

Lemma tiny2_replace_inner i rs : tiny2 (SReplace i rs) = true -> tiny2 i = true.
Proof.
  intros H. destruct (tiny2_parts _ H) as [T1 [T2 [T3 [T4 T5]]]].
  cbn [tsize asrc2 anam2 nleaves maps_tiny2] in *. unfold tiny2. rewrite T5, !andb_true_r.
  repeat (apply andb_true_iff; split); apply N.ltb_lt; lia.
Qed.

Lemma cls2_concat cs c : cls2 (SConcat cs) -> In c cs -> cls2 c.
Proof.
  intros [K [Sh [A [Sm T]]]] Hc. cbn [k2_shape uncache rshape2 rsmall] in *.
  rewrite forallb_map in Sh, Sm. rewrite forallb_forall in Sh, Sm.
  split; [|split; [apply Sh; exact Hc|split; [apply (treeA_concat cs A c Hc)|split; [apply Sm; exact Hc|]]]].
  - destruct (k2_shape c) eqn:E; [|reflexivity].
    assert (X : existsb k2_shape cs = true) by (apply existsb_exists; exists c; split; assumption). congruence.
  - apply (tiny2_concat_child (map uncache cs)); [exact T|apply in_map; exact Hc].
Qed.

Lemma cls2_replace i rs : cls2 (SReplace i rs) -> cls2 i /\ (rs <> [] -> has_cached i = false).
Proof.
  intros [K [Sh [A [Sm T]]]]. cbn [k2_shape uncache rshape2 rsmall] in *.
  apply orb_false_iff in K. destruct K as [K1 K2].
  apply andb_true_iff in Sm. destruct Sm as [Sm _]. split.
  - split; [exact K2|]. split; [exact Sh|]. split; [apply (treeA_replace_in i rs A)|].
    split; [exact Sm|apply (tiny2_replace_inner _ rs T)].
  - intros Hrs. destruct rs as [|r rs]; [contradiction|]. cbn [is_nil negb andb] in K1. exact K1.
Qed.

Lemma cls2_cached id i : cls2 (SCached id i) -> cls2 i.
Proof. intros H. exact H. Qed.

Lemma cls2_nocache s : cls2 s -> has_cached s = false ->
  rshape2 s = true /\ treeA s = true /\ rsmall s = true /\ tiny2 s = true.
Proof. intros [_ [Sh [A [Sm T]]]] Hn. rewrite (uncache_id s Hn) in *. auto. Qed.

Lemma uncache_counts2 : forall s, asrc2 (uncache s) = asrc2 s /\ anam2 (uncache s) = anam2 s.
Proof.
  apply (src_ind' (fun s => asrc2 (uncache s) = asrc2 s /\ anam2 (uncache s) = anam2 s));
    cbn [uncache asrc2 anam2]; try (intros; split; reflexivity).
  - intros cs IH. rewrite !fold_sum_map. split.
    + induction IH as [|c cs [Hc _] _ IHl]; [reflexivity|]. cbn [fold_right]. rewrite Hc, IHl. reflexivity.
    + induction IH as [|c cs [_ Hc] _ IHl]; [reflexivity|]. cbn [fold_right]. rewrite Hc, IHl. reflexivity.
  - intros i rs [H1 H2]. rewrite H1, H2. split; reflexivity.
  - intros k i IH. exact IH.
Qed.

(* what `tiny2` is used for *)
Lemma cls2_sizes s : cls2 s ->
  len (source s) < KB /\ asrc2 s < KB /\ anam2 s < KB /\ ascii (source s) = true.
Proof.
  intros [_ [_ [A [_ T]]]]. destruct (tiny2_parts _ T) as [T1 [T2 [T3 _]]].
  pose proof (len_source_le (uncache s) (treeA_wf _ (treeA_uncache s A))) as L. rewrite uncache_source in L.
  destruct (uncache_counts2 s) as [E1 E2]. rewrite E1 in T2. rewrite E2 in T3.
  split; [lia|]. split; [exact T2|]. split; [exact T3|].
  apply ascii_source_tree. unfold treeA in A. apply andb_true_iff in A. apply A.
Qed.

Print Assumptions sound2_empty.
Print Assumptions sound2_put.
Print Assumptions Sound_Sound2.
Print Assumptions cls_cls2.
Print Assumptions cls2_concat.
Print Assumptions cls2_sizes.
