(* C20, N2 and N3: equal normal forms answer alike - chunk streams, generated info and map() -
   on trees without combined maps (`noinner`: no SourceMapSource with an inner map), with valid
   binary leaves; hence, on the `delimited` class, sources that differ in map(), in their chunk
   stream, in source() or in buffer() have different hasher streams and compare unequal.

   The proof is the simulation of Proofs/EqObsTree.v (`sim`, `store_rel`) with the hypothesis
   `erase a = erase b` weakened: besides the cache ids, the trees may now differ in the
   RawSource flag, the insertion order of replacements and the names of SourceMapSources
   WITHOUT inner map (`normI`).  The name of a SourceMapSource WITH an inner map is observable
   (Proofs/HashObsInner.v), so `normI` keeps it; `normI` and `norm` coincide on `noinner`
   trees, and in general on trees whose combined leaves carry the same names
   (`norm_names_normI`). *)
From RS Require Import Base.Prelude Base.Text Rope.RopeModel Codec.Vlq
  Stream.Types Stream.Leaves Stream.Concat Stream.Replace Stream.Combined Stream.Tree
  Sem.HashEq Checkers.ChkTree Checkers.ChkHist
  Proofs.ReplaceSort Proofs.ViewsUtf8 Proofs.HashEqBasic Proofs.HashInjective Proofs.HashViews
  Proofs.StreamTree Proofs.CacheStore Proofs.EqObsTree Proofs.ReassAll Proofs.HashObsLeaf.
Require Import Lia List.

Local Open Scope N_scope.

(* ------------------------------------------------------------------ *)
(* the ids of the cache nodes: their number is fixed by the normal form *)
(* ------------------------------------------------------------------ *)
Lemma ids_length_norm (a : src) : forall b, norm a = norm b -> length (ids a) = length (ids b).
Proof.
  induction a as [b v|v|v|v n|v n m o i r|cs IH|inner rs IH|id inner IH]
    using src_nested_ind;
    intros [bb vb|vb|vb|vb nb|vb nb mb ob ib rb|cb|ib rb|idb ib] He;
    cbn [norm] in He; try discriminate; try reflexivity.
  - injection He as He. cbn [ids]. revert cb He.
    induction IH as [|x l Hx HF IHl]; intros [|y cb] He; try discriminate; [reflexivity|].
    cbn [map] in He. injection He as He1 He2. cbn [flat_map]. rewrite !app_length.
    rewrite (Hx y He1), (IHl cb He2). reflexivity.
  - injection He as He1 He2. cbn [ids]. apply IH. exact He1.
  - injection He as He. cbn [ids length]. f_equal. apply IH. exact He.
Qed.

Lemma raw_source_valid (b : bool) (v : text) :
  all_leaves_valid (SRaw b v) = true -> source (SRaw b v) = v.
Proof.
  destruct b; [|reflexivity]. cbn [all_leaves_valid source]. apply utf8_lossy_valid.
Qed.

Lemma valid_concat (x : src) (l : list src) :
  all_leaves_valid (SConcat (x :: l)) = true ->
  all_leaves_valid x = true /\ all_leaves_valid (SConcat l) = true.
Proof. cbn [all_leaves_valid forallb]. intros H. apply andb_true_iff in H. exact H. Qed.

(* ------------------------------------------------------------------ *)
(* normI: `norm`, except that the name of a combined leaf is kept        *)
(* ------------------------------------------------------------------ *)
Fixpoint normI (s : src) : src :=
  match s with
  | SRaw _ v => SRaw false v
  | SMapped v _ m o None r => SMapped v [] m o None r
  | SConcat cs => SConcat (map normI cs)
  | SReplace inner rs => SReplace (normI inner) (sort_repls rs)
  | SCached _ inner => SCached 0 (normI inner)
  | _ => s
  end.

(* the names of the combined leaves, left to right *)
Fixpoint inner_names (s : src) : list text :=
  match s with
  | SMapped _ n _ _ (Some _) _ => [n]
  | SConcat cs => flat_map inner_names cs
  | SReplace inner _ => inner_names inner
  | SCached _ inner => inner_names inner
  | _ => []
  end.

Lemma norm_normI_absorb (s : src) : norm (normI s) = norm s.
Proof.
  induction s as [b v|v|v|v n|v n m o i r|cs IH|inner rs IH|id inner IH]
    using src_nested_ind; try reflexivity.
  - destruct i; reflexivity.
  - cbn [normI norm]. f_equal. induction IH as [|x l Hx HF IHl]; [reflexivity|].
    cbn [map]. rewrite Hx, IHl. reflexivity.
  - cbn [normI norm]. rewrite IH, sort_repls_idem. reflexivity.
  - cbn [normI norm]. rewrite IH. reflexivity.
Qed.

Lemma normI_norm (a b : src) : normI a = normI b -> norm a = norm b.
Proof.
  intros H. rewrite <- (norm_normI_absorb a), <- (norm_normI_absorb b), H. reflexivity.
Qed.

Lemma noinner_names (s : src) : noinner s = true -> inner_names s = [].
Proof.
  induction s as [b v|v|v|v n|v n m o i r|cs IH|inner rs IH|id inner IH]
    using src_nested_ind; intros H; try reflexivity.
  - destruct i; [discriminate H|reflexivity].
  - cbn [noinner inner_names] in *. induction IH as [|x l Hx HF IHl]; [reflexivity|].
    cbn [forallb flat_map] in *. apply andb_true_iff in H. destruct H as [H1 H2].
    rewrite (Hx H1), (IHl H2). reflexivity.
  - exact (IH H).
  - exact (IH H).
Qed.

Lemma inner_names_length_norm (a : src) :
  forall b, norm a = norm b -> length (inner_names a) = length (inner_names b).
Proof.
  induction a as [b v|v|v|v n|v n m o i r|cs IH|inner rs IH|id inner IH]
    using src_nested_ind;
    intros [bb vb|vb|vb|vb nb|vb nb mb ob ib rb|cb|ib rb|idb ib] He;
    cbn [norm] in He; try discriminate; try reflexivity.
  - injection He as E1 E2 E3 E4 E5. subst. destruct ib; reflexivity.
  - injection He as He. cbn [inner_names]. revert cb He.
    induction IH as [|x l Hx HF IHl]; intros [|y cb] He; try discriminate; [reflexivity|].
    cbn [map] in He. injection He as He1 He2. cbn [flat_map]. rewrite !app_length.
    rewrite (Hx y He1), (IHl cb He2). reflexivity.
  - injection He as He1 He2. cbn [inner_names]. apply IH. exact He1.
  - injection He as He. cbn [inner_names]. apply IH. exact He.
Qed.

Lemma app_eq_split {A} (p : list A) : forall q r s,
  length p = length q -> p ++ r = q ++ s -> p = q /\ r = s.
Proof.
  induction p as [|u p IHp]; intros [|v q] r s Hl Hi; try discriminate.
  - split; [reflexivity|exact Hi].
  - cbn [app] in Hi. injection Hi as Hu Hi. cbn [length] in Hl. injection Hl as Hl.
    destruct (IHp q r s Hl Hi) as [A1 B1]. subst. split; reflexivity.
Qed.

(* equal normal forms + equal names of the combined leaves = equal normI *)
Lemma norm_names_normI (a : src) :
  forall b, norm a = norm b -> inner_names a = inner_names b -> normI a = normI b.
Proof.
  induction a as [ba va|va|va|va na|va na ma oa ia ra|ca IH|ia ra IH|ida ia IH]
    using src_nested_ind;
    intros [bb vb|vb|vb|vb nb|vb nb mb ob ib rb|cb|ib rb|idb ib] He Hn;
    cbn [norm] in He; try discriminate; try exact He.
  - injection He as E1 E2 E3 E4 E5. subst. destruct ib as [im|]; [|reflexivity].
    cbn [inner_names] in Hn. injection Hn as Hn. subst. reflexivity.
  - injection He as He. cbn [normI]. f_equal. cbn [inner_names] in Hn. revert cb He Hn.
    induction IH as [|x l Hx HF IHl]; intros [|y cb] He Hn; try discriminate; [reflexivity|].
    cbn [map] in He. injection He as He1 He2. cbn [flat_map] in Hn.
    destruct (app_eq_split _ _ _ _ (inner_names_length_norm x y He1) Hn) as [H1 H2].
    cbn [map]. rewrite (Hx y He1 H1), (IHl cb He2 H2). reflexivity.
  - injection He as He1 He2. cbn [inner_names] in Hn. cbn [normI].
    rewrite (IH ib He1 Hn), He2. reflexivity.
  - injection He as He. cbn [inner_names] in Hn. cbn [normI]. rewrite (IH ib He Hn). reflexivity.
Qed.

Corollary noinner_norm_normI (a b : src) :
  noinner a = true -> noinner b = true -> norm a = norm b -> normI a = normI b.
Proof.
  intros Na Nb H. apply norm_names_normI; [exact H|].
  rewrite (noinner_names a Na), (noinner_names b Nb). reflexivity.
Qed.

(* ------------------------------------------------------------------ *)
(* the simulation                                                      *)
(* ------------------------------------------------------------------ *)
Theorem sim_normI (P : list (N * N)) : biinj P ->
  forall a b, normI a = normI b -> all_leaves_valid a = true -> all_leaves_valid b = true ->
    incl (corr a b) P -> sim P a b.
Proof.
  intros HP. unfold corr.
  induction a as [ba va|va|va|va na|va na ma oa ia ra|ca IH|ia ra IH|ida ia IH] using src_ind';
    intros [bb vb|vb|vb|vb nb|vb nb mb ob ib rb|cb|ib rb|idb ib] He Va Vb Hi;
    try (destruct ia; cbn [normI] in He; discriminate He);
    try (destruct ib; cbn [normI] in He; discriminate He);
    cbn [normI] in He; try discriminate.
  - (* SRaw: the flag *)
    injection He as He. subst vb.
    pose proof (raw_source_valid ba va Va) as Sa. pose proof (raw_source_valid bb va Vb) as Sb.
    split.
    + intros sta stb o HR.
      change (stream sta (SRaw ba va) o) with (raw_stream (source (SRaw ba va)) (final_source o), sta).
      change (stream stb (SRaw bb va) o) with (raw_stream (source (SRaw bb va)) (final_source o), stb).
      rewrite Sa, Sb. split; [reflexivity|exact HR].
    + intros sta stb c HR. split; [reflexivity|exact HR].
  - inversion He. subst. apply sim_leaf; intros; reflexivity.
  - inversion He. subst. apply sim_leaf; intros; reflexivity.
  - (* SOriginal *) inversion He. subst.
    assert (S : forall st o, stream st (SOriginal vb nb) o = (fst (stream [] (SOriginal vb nb) o), st))
      by (intros; reflexivity).
    apply sim_leaf; [exact S|]. intros st c. exact (leaf_get_map _ S st c).
  - (* SMapped *)
    destruct ia as [ima|], ib as [imb|]; try discriminate He.
    + (* combined leaves: the name is part of normI *)
      inversion He. subst.
      assert (S : forall st o, stream st (SMapped vb nb mb ob (Some imb) rb) o =
                               (fst (stream [] (SMapped vb nb mb ob (Some imb) rb) o), st))
        by (intros st o; reflexivity).
      apply sim_leaf; [exact S|]. intros st c. exact (leaf_get_map _ S st c).
    + (* no inner map: the name is not used *)
      injection He as E1 E2 E3 E4. subst vb mb ob rb.
      split.
      * intros sta stb o HR. cbn [stream fst snd]. split; [reflexivity|exact HR].
      * intros sta stb c HR. cbn [map_of fst snd]. split; [reflexivity|exact HR].
  - (* SConcat *) injection He as He. cbn [ids] in Hi.
    assert (F : Forall2 (sim P) ca cb).
    { revert cb He Vb Hi. induction IH as [|x l Hx HF IHl]; intros [|y cb] He Vb Hi; try discriminate.
      - constructor.
      - cbn [map] in He. injection He as He1 He2. cbn [flat_map] in Hi.
        rewrite (combine_app _ _ _ _ (ids_length_norm x y (normI_norm x y He1))) in Hi.
        destruct (valid_concat _ _ Va) as [Va1 Va2]. destruct (valid_concat _ _ Vb) as [Vb1 Vb2].
        constructor.
        + apply Hx; [exact He1|exact Va1|exact Vb1|].
          intros p Hp. apply Hi. apply in_or_app. left. exact Hp.
        + apply IHl; [exact Va2|exact He2|exact Vb2|].
          intros p Hp. apply Hi. apply in_or_app. right. exact Hp. }
    assert (S : sim_stream P (SConcat ca) (SConcat cb)).
    { intros sta stb o HR. rewrite !stream_concat_eq.
      destruct F as [|x y ca cb Hxy F].
      - cbn [fold_left fst snd]. split; [reflexivity|exact HR].
      - destruct F as [|x2 y2 ca cb Hxy2 F].
        + destruct Hxy as [Hs _]. exact (Hs sta stb o HR).
        + pose proof (sim_cfold P o (x :: x2 :: ca) (y :: y2 :: cb)
                        (Forall2_cons _ _ Hxy (Forall2_cons _ _ Hxy2 F)) concat_init [] sta stb HR) as [A B].
          destruct (fold_left (cfold_step o) (x :: x2 :: ca) (concat_init, [], sta)) as [[ca1 ea] sa].
          destruct (fold_left (cfold_step o) (y :: y2 :: cb) (concat_init, [], stb)) as [[cb1 eb] sb].
          cbn [fst snd] in *. inversion A. subst. split; [reflexivity|exact B]. }
    split; [exact S|]. intros sta stb c HR. exact (sim_get_map P _ _ S sta stb c HR).
  - (* SReplace: the insertion order *)
    injection He as He1 He2. cbn [ids] in Hi. cbn [all_leaves_valid] in Va, Vb.
    destruct (IH ib He1 Va Vb Hi) as [A B].
    assert (S : sim_stream P (SReplace ia ra) (SReplace ib rb)).
    { intros sta stb o HR. cbn [stream]. rewrite He2.
      destruct (A sta stb (mkOpts (columns o) false) HR) as [A1 A2].
      destruct (stream sta ia (mkOpts (columns o) false)) as [[ea ga] sa].
      destruct (stream stb ib (mkOpts (columns o) false)) as [[eb gb] sb].
      cbn [fst snd] in *. inversion A1. subst. split; [reflexivity|exact A2]. }
    split; [exact S|]. intros sta stb c HR. cbn [map_of].
    assert (En : is_nil ra = is_nil rb).
    { rewrite <- (sort_repls_nil_iff ra), <- (sort_repls_nil_iff rb), He2. reflexivity. }
    rewrite En. destruct (is_nil rb).
    + exact (B sta stb c HR).
    + exact (sim_get_map P _ _ S sta stb c HR).
  - (* SCached: the id *)
    injection He as He. cbn [ids combine] in Hi. cbn [all_leaves_valid] in Va, Vb.
    assert (Hin : In (ida, idb) P) by (apply Hi; left; reflexivity).
    assert (Hi' : incl (combine (ids ia) (ids ib)) P) by (intros p Hp; apply Hi; right; exact Hp).
    destruct (IH ib He Va Vb Hi') as [A B].
    assert (Hsrc : source ia = source ib).
    { exact (proj1 (norm_views_valid ia ib Va Vb (normI_norm ia ib He))). }
    split.
    + intros sta stb o HR. cbn [stream]. rewrite (HR ida idb Hin), Hsrc.
      destruct (cache_get (store_get stb idb) o) as [[m|]|].
      * split; [reflexivity|exact HR].
      * split; [reflexivity|exact HR].
      * destruct (A sta stb o HR) as [A1 A2].
        destruct (stream sta ia o) as [[ea ga] sa]. destruct (stream stb ib o) as [[eb gb] sb].
        cbn [fst snd] in *. inversion A1. subst. split; [reflexivity|].
        apply store_rel_put; assumption.
    + intros sta stb c HR. cbn [map_of]. rewrite (HR ida idb Hin).
      destruct (cache_get (store_get stb idb) (mkOpts c false)) as [m|].
      * split; [reflexivity|exact HR].
      * destruct (B sta stb c HR) as [B1 B2].
        destruct (map_of sta ia c) as [ma sa]. destruct (map_of stb ib c) as [mb sb].
        cbn [fst snd] in *. subst mb.
        pose proof (store_rel_put P sa sb ida idb (mkOpts c false) ma HP Hin B2) as R.
        split; [|exact R]. rewrite (R ida idb Hin). reflexivity.
Qed.

(* N2 for ALL trees with valid leaves (combined leaves included), in terms of normI *)
Theorem N2I_related_stores (a b : src) :
  all_leaves_valid a = true -> all_leaves_valid b = true ->
  normI a = normI b -> same_sharing a b ->
  forall sta stb, store_rel (corr a b) sta stb ->
    (forall o, fst (stream sta a o) = fst (stream stb b o) /\
               store_rel (corr a b) (snd (stream sta a o)) (snd (stream stb b o))) /\
    (forall c, fst (map_of sta a c) = fst (map_of stb b c) /\
               store_rel (corr a b) (snd (map_of sta a c)) (snd (map_of stb b c))).
Proof.
  intros Va Vb H HS sta stb HR.
  destruct (sim_normI (corr a b) HS a b H Va Vb (incl_refl _)) as [A B].
  split; [intros o; exact (A sta stb o HR)|intros c; exact (B sta stb c HR)].
Qed.

Theorem N2I_cold_answers (a b : src) :
  all_leaves_valid a = true -> all_leaves_valid b = true ->
  ids_distinct a -> ids_distinct b ->
  normI a = normI b ->
  forall o c,
    fst (stream [] a o) = fst (stream [] b o) /\
    fst (map_of [] a c) = fst (map_of [] b c).
Proof.
  intros Va Vb Da Db H o c.
  destruct (N2I_related_stores a b Va Vb H (ids_distinct_same_sharing a b Da Db) [] []
              (store_rel_nil _)) as [A B].
  split; [exact (proj1 (A o))|exact (proj1 (B c))].
Qed.

(* ------------------------------------------------------------------ *)
(* N2                                                                  *)
(* ------------------------------------------------------------------ *)
(* general form: caches shared in the same pattern, stores that agree on corresponding caches
   (warm or cold); the answers agree and the stores stay related *)
Theorem N2_norm_related_stores (a b : src) :
  noinner a = true -> noinner b = true ->
  all_leaves_valid a = true -> all_leaves_valid b = true ->
  norm a = norm b -> same_sharing a b ->
  forall sta stb, store_rel (corr a b) sta stb ->
    (forall o, fst (stream sta a o) = fst (stream stb b o) /\
               store_rel (corr a b) (snd (stream sta a o)) (snd (stream stb b o))) /\
    (forall c, fst (map_of sta a c) = fst (map_of stb b c) /\
               store_rel (corr a b) (snd (map_of sta a c)) (snd (map_of stb b c))).
Proof.
  intros Na Nb Va Vb H HS. apply N2I_related_stores; try assumption.
  apply noinner_norm_normI; assumption.
Qed.

(* N2 as asked: cold caches, cache ids pairwise distinct in each tree *)
Theorem N2_norm_cold_answers (a b : src) :
  noinner a = true -> noinner b = true ->
  all_leaves_valid a = true -> all_leaves_valid b = true ->
  ids_distinct a -> ids_distinct b ->
  norm a = norm b ->
  forall o c,
    fst (fst (stream [] a o)) = fst (fst (stream [] b o)) /\
    snd (fst (stream [] a o)) = snd (fst (stream [] b o)) /\
    fst (map_of [] a c) = fst (map_of [] b c).
Proof.
  intros Na Nb Va Vb Da Db H o c.
  destruct (N2_norm_related_stores a b Na Nb Va Vb H (ids_distinct_same_sharing a b Da Db) [] []
              (store_rel_nil _)) as [A B].
  destruct (A o) as [A1 _]. destruct (B c) as [B1 _]. rewrite A1, B1.
  split; [reflexivity|]. split; reflexivity.
Qed.

(* a tree and its normal form: `norm` sets every cache id to 0, so the normal form of a tree with
   two cache nodes shares its caches; for trees with at most one cache node - in particular
   cache-free trees - the normal form itself is an equally observable representative *)
Corollary N2_norm_itself (a : src) :
  noinner a = true -> all_leaves_valid a = true -> (length (ids a) <= 1)%nat ->
  forall o c,
    fst (stream [] a o) = fst (stream [] (norm a) o) /\
    fst (map_of [] a c) = fst (map_of [] (norm a) c).
Proof.
  intros Na Va Hl o c.
  assert (Nn : forall s, noinner s = true -> noinner (norm s) = true).
  { induction s as [b v|v|v|v n|v n m o' i r|cs IH|inner rs IH|id inner IH]
      using src_nested_ind; intros H; try reflexivity; try exact H.
    - cbn [norm noinner] in *. induction IH as [|x l Hx HF IHl]; [reflexivity|].
      cbn [forallb map] in *. apply andb_true_iff in H. destruct H as [H1 H2].
      rewrite (Hx H1), (IHl H2). reflexivity.
    - cbn [norm noinner] in *. exact (IH H).
    - cbn [norm noinner] in *. exact (IH H). }
  assert (Vn : forall s, all_leaves_valid s = true -> all_leaves_valid (norm s) = true).
  { induction s as [b v|v|v|v n|v n m o' i r|cs IH|inner rs IH|id inner IH]
      using src_nested_ind; intros H; try reflexivity; try exact H.
    - cbn [norm all_leaves_valid] in *. induction IH as [|x l Hx HF IHl]; [reflexivity|].
      cbn [forallb map] in *. apply andb_true_iff in H. destruct H as [H1 H2].
      rewrite (Hx H1), (IHl H2). reflexivity.
    - cbn [norm all_leaves_valid] in *. exact (IH H).
    - cbn [norm all_leaves_valid] in *. exact (IH H). }
  assert (Hn : norm a = norm (norm a)) by (symmetry; apply norm_idem).
  assert (Ll : length (ids (norm a)) = length (ids a)) by (symmetry; apply ids_length_norm; exact Hn).
  assert (D1 : forall l : list N, (length l <= 1)%nat -> NoDup l).
  { intros [|x [|y l]] H; [constructor|constructor; [intros []|constructor]|cbn in H; lia]. }
  destruct (N2_norm_cold_answers a (norm a) Na (Nn a Na) Va (Vn a Va) (D1 _ Hl)
              (D1 _ ltac:(rewrite Ll; exact Hl)) Hn o c) as [A1 [A2 A3]].
  split; [|exact A3].
  destruct (stream [] a o) as [[e1 g1] s1]. destruct (stream [] (norm a) o) as [[e2 g2] s2].
  cbn [fst snd] in *. subst. reflexivity.
Qed.

(* ------------------------------------------------------------------ *)
(* N3: the property                                                    *)
(* ------------------------------------------------------------------ *)
Section N3.
Variables a b : src.
Hypothesis Da : delimited a = true.
Hypothesis Db : delimited b = true.
Hypothesis Na : noinner a = true.
Hypothesis Nb : noinner b = true.
Hypothesis Va : all_leaves_valid a = true.
Hypothesis Vb : all_leaves_valid b = true.
Hypothesis Ia : ids_distinct a.
Hypothesis Ib : ids_distinct b.

(* equal hasher streams: nothing observable differs *)
Theorem N3_hash_eq_observations :
  hash_events a = hash_events b ->
  (forall o, fst (stream [] a o) = fst (stream [] b o)) /\
  (forall c, fst (map_of [] a c) = fst (map_of [] b c)) /\
  source a = source b /\ buffer a = buffer b.
Proof.
  intros H. pose proof (hash_injective a b Da Db H) as Hn.
  split; [|split].
  - intros o. destruct (N2_norm_cold_answers a b Na Nb Va Vb Ia Ib Hn o true) as [A1 [A2 _]].
    destruct (stream [] a o) as [[e1 g1] s1]. destruct (stream [] b o) as [[e2 g2] s2].
    cbn [fst snd] in *. subst. reflexivity.
  - intros c. exact (proj2 (proj2 (N2_norm_cold_answers a b Na Nb Va Vb Ia Ib Hn (mkOpts c false) c))).
  - exact (norm_views_valid a b Va Vb Hn).
Qed.

(* N3 as asked: an observable difference in map(), source() or buffer() separates the hashes *)
Theorem N3_observable_difference_hash :
  (exists c, fst (map_of [] a c) <> fst (map_of [] b c)) \/ source a <> source b \/ buffer a <> buffer b ->
  hash_events a <> hash_events b.
Proof.
  intros Hd Hh. destruct (N3_hash_eq_observations Hh) as [_ [Hm [Hs Hb]]].
  destruct Hd as [[c Hc]|[Hd|Hd]].
  - exact (Hc (Hm c)).
  - exact (Hd Hs).
  - exact (Hd Hb).
Qed.

(* ... the same for a difference in the chunk stream (events or generated info, any options) *)
Theorem N3_stream_difference_hash :
  (exists o, fst (stream [] a o) <> fst (stream [] b o)) -> hash_events a <> hash_events b.
Proof.
  intros [o Ho] Hh. destruct (N3_hash_eq_observations Hh) as [Hst _]. exact (Ho (Hst o)).
Qed.

(* ... and `==` is false *)
Theorem N3_observable_difference_unequal :
  (exists c, fst (map_of [] a c) <> fst (map_of [] b c)) \/ source a <> source b \/ buffer a <> buffer b ->
  src_eqb a b = false.
Proof.
  intros Hd. pose proof (N3_observable_difference_hash Hd) as H.
  destruct (src_eqb a b) eqn:E; [|reflexivity].
  exfalso. exact (H (eq_implies_hash a b E)).
Qed.

Theorem N3_stream_difference_unequal :
  (exists o, fst (stream [] a o) <> fst (stream [] b o)) -> src_eqb a b = false.
Proof.
  intros Hd. pose proof (N3_stream_difference_hash Hd) as H.
  destruct (src_eqb a b) eqn:E; [|reflexivity].
  exfalso. exact (H (eq_implies_hash a b E)).
Qed.
End N3.

Print Assumptions norm_names_normI.
Print Assumptions sim_normI.
Print Assumptions N2I_related_stores.
Print Assumptions N2I_cold_answers.
Print Assumptions N2_norm_related_stores.
Print Assumptions N2_norm_cold_answers.
Print Assumptions N2_norm_itself.
Print Assumptions N3_hash_eq_observations.
Print Assumptions N3_observable_difference_hash.
Print Assumptions N3_stream_difference_hash.
Print Assumptions N3_observable_difference_unequal.
Print Assumptions N3_stream_difference_unequal.
