(* Input-side size bounds, part 1 (B1, B2): the boolean `tiny` on source trees - a bound,
   checkable on the input alone, on the total text size, the number of announced sources and
   names, and every field of every leaf map - and the generated positions of every stream of a
   tree of the class `rshape` / `treeA`: each segment lies on a position of source(), whose
   length is bounded by the total text size. *)
From RS Require Import Base.Prelude Base.Text Rope.RopeModel Codec.Vlq Codec.CodecSpec
  Checkers.ChkCodec Stream.Types Stream.Leaves Stream.Concat Stream.Replace Stream.Combined Stream.Tree
  Sem.Attr Checkers.ChkTree
  Proofs.RopeWf Proofs.CodecKept Proofs.StreamText Proofs.StreamLeaves Proofs.StreamMap Proofs.StreamConcat Proofs.StreamTree
  Proofs.WfStream Proofs.WfFinal Proofs.RStreamText Proofs.RStreamPos Proofs.RStreamTree
  Proofs.AttrCodec Proofs.AttrSms Proofs.AttrLeaves Proofs.LawConcatAttr Proofs.LawWrappers
  Proofs.CacheReplay Proofs.FinalDense Proofs.FinalReplace Proofs.FinalConcat Proofs.FinalTree
  Proofs.ReplAttrStream Proofs.ReplAttrOrigin Proofs.ReplAttrSms Proofs.ReplAttrTree
  Proofs.LinesBase Proofs.LinesSelf Proofs.LinesConcat Proofs.LinesTree.
Require Import Lia List.

Local Open Scope N_scope.

(* ------------------------------------------------------------------ *)
(* B1: the bound                                                       *)
(* ------------------------------------------------------------------ *)
Definition KB : N := 268435456.        (* 2^28 *)
Definition K30 : N := 1073741824.      (* 2^30, the encoder's domain *)

(* (i) total length of the leaf texts (as source() reports them) and replacement contents *)
Fixpoint tsize (s : src) : N :=
  match s with
  | SConcat cs => fold_right (fun c acc => tsize c + acc) 0 cs
  | SReplace inner rs => tsize inner + len (concat (map r_content rs))
  | SCached _ inner => tsize inner
  | _ => len (source s)
  end.

(* (ii) announced sources, announced names (a ReplaceSource adds at most one name per
   replacement), leaves *)
Fixpoint asrc (s : src) : N :=
  match s with
  | SOriginal _ _ => 1
  | SMapped _ _ m _ _ _ => len (sm_sources m)
  | SConcat cs => fold_right (fun c acc => asrc c + acc) 0 cs
  | SReplace inner _ => asrc inner
  | SCached _ inner => asrc inner
  | _ => 0
  end.

Fixpoint anam (s : src) : N :=
  match s with
  | SMapped _ _ m _ _ _ => len (sm_names m)
  | SConcat cs => fold_right (fun c acc => anam c + acc) 0 cs
  | SReplace inner rs => anam inner + len rs
  | SCached _ inner => anam inner
  | _ => 0
  end.

Fixpoint nleaves (s : src) : N :=
  match s with
  | SConcat cs => fold_right (fun c acc => nleaves c + acc) 0 cs
  | SReplace inner _ => nleaves inner
  | SCached _ inner => nleaves inner
  | _ => 1
  end.

(* (iii) every field of every segment of a leaf map; (iv) every sourcesContent entry *)
Definition orig_tiny (o : orig) : bool :=
  (o_src o <? KB) && (o_line o <? KB) && (o_col o <? KB)
  && match o_name o with Some n => n <? KB | None => true end.

Definition map_tiny (m : smap) : bool :=
  forallb (fun mp => match m_orig mp with Some o => orig_tiny o | None => true end)
          (decode_mappings (sm_mappings m))
  && forallb (fun c => len c <? KB) (sm_contents m).

Fixpoint maps_tiny (s : src) : bool :=
  match s with
  | SMapped _ _ m _ _ _ => map_tiny m
  | SConcat cs => forallb maps_tiny cs
  | SReplace inner _ => maps_tiny inner
  | SCached _ inner => maps_tiny inner
  | _ => true
  end.

Definition tiny (s : src) : bool :=
  (tsize s <? KB) && (asrc s <? KB) && (anam s <? KB) && (nleaves s <? KB) && maps_tiny s.

Lemma tiny_parts s : tiny s = true ->
  tsize s < KB /\ asrc s < KB /\ anam s < KB /\ nleaves s < KB /\ maps_tiny s = true.
Proof.
  unfold tiny. intros H.
  apply andb_true_iff in H. destruct H as [H H5]. apply andb_true_iff in H. destruct H as [H H4].
  apply andb_true_iff in H. destruct H as [H H3]. apply andb_true_iff in H. destruct H as [H1 H2].
  apply N.ltb_lt in H1, H2, H3, H4. auto.
Qed.

(* ------------------------------------------------------------------ *)
(* the text of source() is no longer than the total text size            *)
(* ------------------------------------------------------------------ *)
Lemma len_concat_sum {A} (f : A -> text) (g : A -> N) (l : list A) :
  Forall (fun x => len (f x) <= g x) l ->
  len (concat (map f l)) <= fold_right (fun c acc => g c + acc) 0 l.
Proof.
  induction 1 as [|x l Hx _ IH]; [cbn; lia|].
  cbn [map concat fold_right]. rewrite len_app. lia.
Qed.

Lemma len_slice_le {A} (x y : N) (l : list A) : len (slice x y l) <= len l - x.
Proof. unfold slice. rewrite len_take, len_drop. lia. Qed.

Lemma len_splice (T : text) : forall rs pos, Forall ordered rs ->
  len (splice T rs pos) <= (len T - pos) + clen rs.
Proof.
  induction rs as [|r rs IH]; intros pos Ho.
  - cbn [splice]. rewrite len_drop. unfold clen. cbn. lia.
  - inversion Ho as [|? ? Hr Ho']. subst. unfold ordered in Hr.
    cbn [splice]. rewrite clen_cons, !len_app.
    specialize (IH (N.min (N.max pos (r_end r)) (len T)) Ho').
    destruct (pos <? r_start r) eqn:E.
    + apply N.ltb_lt in E.
      assert (S2 : len (slice pos (N.min (r_start r) (len T)) T) <= N.min (r_start r) (len T) - pos).
      { unfold slice. rewrite len_take. lia. }
      lia.
    + apply N.ltb_ge in E. change (len (@nil N)) with 0. lia.
Qed.

(* (without the ordering of tree_wf the splice may repeat text: start 2, end 0 on "ab") *)
Example splice_unordered_longer :
  replace_source_text [97; 98] [mkRepl 2 0 [] None 1] = [97; 98; 97; 98].
Proof. vm_compute. reflexivity. Qed.

Lemma len_replace_text (T : text) (rs : list repl) : forallb (repl_ok T) rs = true ->
  len (replace_source_text T rs) <= len T + len (concat (map r_content rs)).
Proof.
  intros Hok. rewrite replace_source_text_splice.
  assert (Ho : Forall ordered (sort_repls rs)).
  { apply sort_repls_ordered. apply (repl_ok_ordered _ _ Hok). }
  pose proof (len_splice T (sort_repls rs) 0 Ho) as H.
  rewrite clen_sort in H. unfold clen in H. lia.
Qed.

Lemma len_source_le : forall s, tree_wf s = true -> len (source s) <= tsize s.
Proof.
  apply (src_ind' (fun s => tree_wf s = true -> len (source s) <= tsize s)); try (intros; cbn [tsize]; lia).
  - intros cs IH Hw. cbn [source tsize tree_wf] in *. apply len_concat_sum.
    rewrite Forall_forall in *. rewrite forallb_forall in Hw. intros c Hc. apply (IH c Hc). apply Hw. exact Hc.
  - intros i rs IH Hw. cbn [source tsize tree_wf] in *. apply andb_true_iff in Hw. destruct Hw as [Hw1 Hw2].
    pose proof (len_replace_text (source i) rs Hw2). specialize (IH Hw1). lia.
  - intros id i IH Hw. cbn [source tsize tree_wf] in *. apply IH. exact Hw.
Qed.

Lemma tsize_child cs : forall c, In c cs -> tsize c <= tsize (SConcat cs).
Proof.
  induction cs as [|x cs IH]; intros c Hc; [destruct Hc|].
  cbn [tsize fold_right]. destruct Hc as [->|Hc]; [lia|].
  specialize (IH c Hc). cbn [tsize] in IH. lia.
Qed.

Lemma treeA_wf s : treeA s = true -> tree_wf s = true.
Proof. unfold treeA. intros H. apply andb_true_iff in H. apply H. Qed.

(* ------------------------------------------------------------------ *)
(* rsmall and csmall follow from the bound                               *)
(* ------------------------------------------------------------------ *)
Lemma tsize_rsmall : forall s, tree_wf s = true -> tsize s < KB -> rsmall s = true.
Proof.
  apply (src_ind' (fun s => tree_wf s = true -> tsize s < KB -> rsmall s = true)); try (intros; reflexivity).
  - intros cs IH Hw H. cbn [rsmall tree_wf] in *. apply forallb_forall. intros c Hc.
    rewrite Forall_forall in IH. rewrite forallb_forall in Hw.
    apply (IH c Hc); [apply Hw; exact Hc|]. pose proof (tsize_child cs c Hc). lia.
  - intros i rs IH Hw H. cbn [rsmall tsize tree_wf] in *. apply andb_true_iff in Hw. destruct Hw as [Hw1 Hw2].
    apply andb_true_iff. split; [apply IH; [exact Hw1|lia]|].
    apply N.ltb_lt. pose proof (len_source_le i Hw1). unfold KB in H. lia.
Qed.

Lemma tiny_rsmall s : treeA s = true -> tiny s = true -> rsmall s = true.
Proof. intros Ha H. apply tsize_rsmall; [apply treeA_wf; exact Ha|apply (tiny_parts s H)]. Qed.

Lemma tsize_csmall : forall s, tsize s < KB -> maps_tiny s = true -> csmall s = true.
Proof.
  apply (src_ind' (fun s => tsize s < KB -> maps_tiny s = true -> csmall s = true)); try (intros; reflexivity).
  - intros v n H _. cbn [csmall tsize source] in *. apply N.ltb_lt. unfold KB, two32 in *. lia.
  - intros v n m o i r _ H. cbn [csmall maps_tiny] in *. unfold map_tiny in H.
    apply andb_true_iff in H. destruct H as [_ H]. apply forallb_forall. intros c Hc.
    rewrite forallb_forall in H. specialize (H c Hc). apply N.ltb_lt in H. apply N.ltb_lt.
    unfold KB, two32 in *. lia.
  - intros cs IH H Hm. cbn [csmall maps_tiny] in *. apply forallb_forall. intros c Hc.
    rewrite Forall_forall in IH. rewrite forallb_forall in Hm.
    apply (IH c Hc); [pose proof (tsize_child cs c Hc); lia|apply Hm; exact Hc].
  - intros i rs IH H Hm. cbn [csmall maps_tiny tsize] in *. apply IH; [lia|exact Hm].
  - intros id i IH H Hm. cbn [csmall maps_tiny tsize] in *. apply IH; assumption.
Qed.

Lemma tiny_csmall s : tiny s = true -> csmall s = true.
Proof. intros H. destruct (tiny_parts s H) as [H1 [_ [_ [_ H5]]]]. apply tsize_csmall; assumption. Qed.

(* ------------------------------------------------------------------ *)
(* a position of a text t: line <= len t + 1, column <= len t            *)
(* ------------------------------------------------------------------ *)
Lemma advance_le : forall t l c, fst (advance l c t) <= l + len t /\ snd (advance l c t) <= c + len t.
Proof.
  induction t as [|b t IH]; intros l c; [cbn; lia|].
  cbn [advance]. rewrite len_cons. destruct (b =? NL).
  - destruct (IH (l + 1) 0). lia.
  - destruct (IH l (c + 1)). lia.
Qed.

Lemma in_concat_len (ls : list text) (l : text) : In l ls -> len l <= len (concat ls).
Proof.
  induction ls as [|x ls IH]; intros H; [destruct H|].
  cbn [concat]. rewrite len_app. destruct H as [->|H]; [lia|]. specialize (IH H). lia.
Qed.

Lemma len_removelast {A} (l : list A) : len (removelast l) <= len l.
Proof.
  induction l as [|x l IH]; [cbn; lia|]. cbn [removelast]. destruct l as [|y l']; [cbn; lia|].
  rewrite (len_cons x (removelast (y :: l'))), (len_cons x (y :: l')). lia.
Qed.

Lemma line_contents_len t line : In line (line_contents t) -> len line <= len t.
Proof.
  unfold line_contents. intros H. apply in_app_or in H. destruct H as [H|H].
  - apply in_map_iff in H. destruct H as [l [<- Hl]].
    pose proof (in_concat_len _ _ Hl) as A. rewrite concat_split_lines in A.
    destruct (ends_with_nl l); [pose proof (len_removelast l); lia|exact A].
  - destruct (is_nil t || ends_with_nl t); [|destruct H]. destruct H as [<-|[]]. cbn. lia.
Qed.

Lemma is_position_small t l c : is_position t l c = true ->
  1 <= l /\ l <= len t + 1 /\ c <= len t.
Proof.
  intros H. pose proof (is_position_ple t l c H) as [A B].
  pose proof (advance_le t 1 0) as [C _].
  split; [exact A|]. split.
  - destruct B as [B|[B _]]; cbn [fst] in B; lia.
  - unfold is_position in H. destruct (l =? 0); [discriminate|].
    destruct (nth_opt (line_contents t) (l - 1)) as [line|] eqn:E; [|discriminate].
    apply N.leb_le in H. unfold nth_opt in E. apply nth_error_In in E.
    pose proof (line_contents_len t line E). lia.
Qed.

(* ------------------------------------------------------------------ *)
(* well-positioned chunks lie within the text they carry                *)
(* ------------------------------------------------------------------ *)
Fixpoint tlen (chs : list (option text * mapping)) : N :=
  match chs with
  | [] => 0
  | (Some t, _) :: chs' => len t + tlen chs'
  | (None, _) :: chs' => tlen chs'
  end.

Lemma well_positioned_small : forall chs l c, well_positioned chs l c = true ->
  Forall (fun x => l <= g_line (snd x) /\ g_line (snd x) <= l + tlen chs /\ g_col (snd x) <= c + tlen chs) chs.
Proof.
  induction chs as [|[[t|] m] chs IH]; intros l c H; [constructor| |discriminate].
  cbn [well_positioned] in H. apply andb_true_iff in H. destruct H as [H H3].
  apply andb_true_iff in H. destruct H as [H1 H2]. apply N.eqb_eq in H1, H2.
  pose proof (advance_le t l c) as [A1 A2].
  assert (A0 : l <= fst (advance l c t)).
  { clear. revert l c. induction t as [|b t IH]; intros l c; [cbn; lia|]. cbn [advance].
    destruct (b =? NL); [specialize (IH (l + 1) 0)|specialize (IH l (c + 1))]; lia. }
  destruct (advance l c t) as [l' c'] eqn:E. cbn [fst snd] in *.
  specialize (IH l' c' H3). cbn [tlen]. constructor.
  - cbn [snd]. lia.
  - eapply Forall_impl; [|exact IH]. cbn beta. intros x [B1 [B2 B3]]. lia.
Qed.

Lemma tlen_reassembles evs t : reassembles evs t = true -> tlen (chunks_of evs) = len t.
Proof.
  unfold reassembles. destruct (all_some (chunk_texts evs)) as [ts|] eqn:E; [|discriminate].
  intros H. apply text_eqb_eq in H. subst t. revert ts E.
  induction evs as [|e evs IH]; intros ts E.
  - cbn in E. inversion E. reflexivity.
  - destruct e as [[x|] m|i n c|i n]; cbn [chunk_texts chunks_of all_some tlen] in *.
    + destruct (all_some (chunk_texts evs)) as [r|]; [|discriminate]. inversion E. subst ts.
      cbn [concat]. rewrite len_app, (IH r eq_refl). reflexivity.
    + discriminate.
    + apply IH. exact E.
    + apply IH. exact E.
Qed.

(* ------------------------------------------------------------------ *)
(* B2: generated positions of every stream                               *)
(* ------------------------------------------------------------------ *)
Definition gen_in (t : text) (m : mapping) : Prop :=
  1 <= g_line m /\ g_line m <= len t + 1 /\ g_col m <= len t.

Theorem gen_positions (st : store) (s : src) (c f : bool) :
  rshape s = true -> treeA s = true -> rsmall s = true ->
  Forall (gen_in (source s)) (chunk_mappings (fst (fst (stream st s (mkOpts c f))))).
Proof.
  intros H1 H2 H3. destruct f.
  - assert (P : positions_of_text (source s) (chunks_of (fst (fst (stream st s (mkOpts c true))))) = true).
    { destruct c.
      - destruct (final_stream_facts st s H1 H2 H3) as [_ [P _]]. exact P.
      - destruct (final_stream_facts_lines st s H1 H2 H3) as [_ [P _]]. exact P. }
    rewrite chunk_mappings_chunks_of. apply Forall_forall. intros m Hm.
    apply in_map_iff in Hm. destruct Hm as [x [<- Hx]].
    unfold positions_of_text in P. rewrite forallb_forall in P. specialize (P x Hx).
    apply is_position_small. exact P.
  - pose proof (rshape_stream_good st s c H1 H2 H3) as G.
    destruct (stream st s (mkOpts c false)) as [[evs gi] st']. cbn [fst]. destruct G as [R [W _]].
    pose proof (well_positioned_small _ 1 0 W) as F. rewrite (tlen_reassembles _ _ R) in F.
    rewrite chunk_mappings_chunks_of. apply Forall_forall. intros m Hm.
    apply in_map_iff in Hm. destruct Hm as [x [<- Hx]]. rewrite Forall_forall in F.
    destruct (F x Hx) as [A [B C]]. unfold gen_in. lia.
Qed.

(* B2 *)
Theorem gen_small (st : store) (s : src) (c f : bool) :
  rshape s = true -> treeA s = true -> tiny s = true ->
  Forall (fun m => 1 <= g_line m /\ g_line m < K30 /\ g_col m < K30)
         (chunk_mappings (fst (fst (stream st s (mkOpts c f))))).
Proof.
  intros H1 H2 H3. pose proof (gen_positions st s c f H1 H2 (tiny_rsmall s H2 H3)) as G.
  destruct (tiny_parts s H3) as [T _]. pose proof (len_source_le s (treeA_wf s H2)) as L.
  eapply Forall_impl; [|exact G]. cbn beta. intros m [A [B C]]. unfold KB, K30 in *. lia.
Qed.

(* sanity: the bound on a small tree *)
Example tiny_example :
  tiny (SReplace (SConcat [SOriginal [97; 10; 98] [102]; SRaw false [99]]) [mkRepl 1 2 [120] None 1]) = true.
Proof. vm_compute. reflexivity. Qed.

Print Assumptions len_source_le.
Print Assumptions tiny_rsmall.
Print Assumptions tiny_csmall.
Print Assumptions gen_positions.
Print Assumptions gen_small.
