(* Trees with combined-map leaves, part 3 (L2, columns = false): for trees of the class `rshape2`
   (CombLeafTree.v), `treeA`, `rsmall`, the analogues of LinesTree.v:
     ne2_tree_lines          no text-carrying chunk is empty;
     final_attr_tree_lines2  the text-less stream, looked up by line, attributes every byte of
                             source() as the text-carrying stream does (first mapped piece of the
                             output line) - Leibniz equality;
     final_stream_facts_lines2, mapped_same_tree_lines2;
     C03_tree_lines2         map() attributes as the stream and is None exactly when no text-mode
                             chunk is mapped (given the encoder's domain).
   No restriction on remove_original_source (see CombLeafLines.v). *)
From RS Require Import Base.Prelude Base.Text Rope.RopeModel Codec.Vlq Codec.CodecSpec
  Checkers.ChkCodec Stream.Types Stream.Leaves Stream.Concat Stream.Replace Stream.Combined Stream.Tree
  Sem.Attr Checkers.ChkTree Checkers.ChkCombined
  Proofs.CodecKept Proofs.StreamText Proofs.StreamLeaves Proofs.StreamMap Proofs.StreamConcat Proofs.StreamTree
  Proofs.WfStream Proofs.WfFinal Proofs.RStreamText Proofs.RStreamPos Proofs.RStreamTree
  Proofs.AttrCodec Proofs.AttrSms Proofs.AttrLeaves Proofs.LawConcatAttr Proofs.LawWrappers
  Proofs.CacheReplay Proofs.FinalDense Proofs.FinalReplace Proofs.FinalConcat Proofs.FinalTree
  Proofs.ReplAttrStream Proofs.ReplAttrOrigin Proofs.ReplAttrSms Proofs.ReplAttrTree
  Proofs.LinesBase Proofs.LinesSelf Proofs.LinesConcat Proofs.LinesTree
  Proofs.CombAllSpec Proofs.CombAllT12 Proofs.CombLeafBase Proofs.CombLeafLines Proofs.CombLeafTree
  Proofs.CombLeafTreeCols.
Require Import Lia List.

Local Open Scope N_scope.

(* ------------------------------------------------------------------ *)
(* A: no text-carrying chunk is empty                                   *)
(* ------------------------------------------------------------------ *)
Lemma concat_ne_all cs : Forall ne_all cs ->
  (forall c, In c cs -> forall o st, dense (fst (fst (stream st c o))) 0 0 = true) ->
  ne_all (SConcat cs).
Proof.
  intros Hall HD st. destruct (Nat.eq_dec (length cs) 1) as [E|E].
  - destruct cs as [|c [|c2 r]]; try discriminate. inversion Hall as [|? ? Hc _]. apply Hc.
  - pose proof (kid_streams_ne cs Hall st) as Hkn.
    assert (Hkd : Forall (fun k => dense (fst k) 0 0 = true) (fst (kid_streams st cs (mkOpts false false)))).
    { apply kid_streams_dense_any. rewrite Forall_forall. intros c Hc o st0. apply HD. exact Hc. }
    pose proof (concat_kids_ta st cs false E Hkd) as [A1 _].
    rewrite ne_tas. unfold oLT. rewrite A1. apply ne_flat_tas. exact Hkn.
Qed.

Lemma replace_ne_all i rs : ne_all i -> tfacts i ->
  (forall o st, dense (fst (fst (stream st i o))) 0 0 = true) ->
  forallb (repl_ok (source i)) rs = true -> ne_all (SReplace i rs).
Proof.
  intros N0 HT HD Hrs st. pose proof (N0 st) as N1. pose proof (HD (mkOpts false false) st) as D.
  pose proof (HT st false) as [[G1 _] _]. cbn zeta in G1. apply reassembles_iff in G1.
  unfold LawWrappers.evs_of in *. unfold oLT in *. rewrite stream_replace_eq.
  destruct (stream st i (mkOpts false false)) as [[ievs gi] st1]. cbn [fst snd] in *.
  apply (ReplAttrOrigin.replace_stream_dense rs ievs (source i) gi (repl_ok_ordered _ _ Hrs) G1 N1 D).
Qed.

Theorem ne2_tree_lines : forall s, rshape2 s = true -> treeA s = true -> rsmall s = true -> ne_all s.
Proof.
  apply (src_ind' (fun s => rshape2 s = true -> treeA s = true -> rsmall s = true -> ne_all s)).
  - intros b v _ H2 H3. apply (ne_tree_lines (SRaw b v) eq_refl H2 H3).
  - intros v _ H2 H3. apply (ne_tree_lines (SRawString v) eq_refl H2 H3).
  - intros v _ H2 H3. apply (ne_tree_lines (SRawBuffer v) eq_refl H2 H3).
  - intros v n _ H2 H3. apply (ne_tree_lines (SOriginal v n) eq_refl H2 H3).
  - intros v n m og i r H1 H2 H3. destruct i as [im|].
    + cbn [rshape2] in H1. apply c09_wfb_iff in H1. intros st. unfold LawWrappers.evs_of. cbn [stream fst].
      apply (combined_text_good v n m og im r H1 H2 false).
    + apply (ne_tree_lines (SMapped v n m og None r) eq_refl H2 H3).
  - intros cs IH Hsh HA Hsm. pose proof (rshape2_concat cs Hsh) as Hsh'.
    pose proof (treeA_concat cs HA) as Ha'. pose proof (rsmall_concat cs Hsm) as Hsm'.
    apply concat_ne_all.
    + rewrite Forall_forall in *. intros c Hc. apply IH; [exact Hc|apply Hsh'|apply Ha'|apply Hsm']; exact Hc.
    + intros c Hc o st. apply dense2_tree_any; [apply Hsh'|apply Ha']; exact Hc.
  - intros i rs IH Hsh HA Hsm. cbn [rshape2 rsmall] in Hsh, Hsm.
    apply andb_true_iff in Hsm. destruct Hsm as [Hsm1 Hsm2].
    assert (HAi : treeA i = true /\ forallb (repl_ok (source i)) rs = true).
    { unfold treeA in *. cbn [tree_wf tree_ascii] in HA. apply andb_true_iff in HA. destruct HA as [Hw Ha].
      apply andb_true_iff in Hw. destruct Hw as [Hw1 Hw2]. apply andb_true_iff in Ha. destruct Ha as [Ha1 _].
      rewrite Hw1, Ha1. split; [reflexivity|exact Hw2]. }
    destruct HAi as [HAi Hrs]. apply replace_ne_all.
    + apply IH; assumption.
    + apply rgood2_all; assumption.
    + intros o st. apply dense2_tree_any; assumption.
    + exact Hrs.
  - intros id i _ Hsh. discriminate.
Qed.

(* ------------------------------------------------------------------ *)
(* B: the induction                                                    *)
(* ------------------------------------------------------------------ *)
Definition lfacts (s : src) : Prop :=
  forall st,
    kid_ok (fst (stream st s oLF), source s) /\ kidL_ok (fst (stream st s oLF), source s) /\
    snd (stream st s oLF) = st /\
    attr_of_final_events (fst (fst (stream st s oLF))) (source s) false =
    attr_of_stream (fst (fst (stream st s oLT))) false.

Definition tgoodL2 (s : src) : Prop :=
  rshape2 s = true -> treeA s = true -> rsmall s = true -> lfacts s.

Lemma rshape_lfacts s : rshape s = true -> treeA s = true -> rsmall s = true -> lfacts s.
Proof. intros H1 H2 H3 st. apply (tgoodL_all s st H1 H2 H3). Qed.

Lemma combined_lfacts v n m og im r :
  c09_wf v m n og im -> lfacts (SMapped v n m og (Some im) r).
Proof.
  intros Hwf st. cbn [stream fst snd source].
  split; [apply (combined_kid v n m og im r Hwf false)|].
  split; [apply (combined_kidL v n m og im r Hwf)|]. split; [reflexivity|].
  apply combined_final_text_attr_lines; assumption.
Qed.

Lemma concat_lfacts cs : Forall lfacts cs -> Forall tfacts cs ->
  (forall c, In c cs -> forall o st, dense (fst (fst (stream st c o))) 0 0 = true) ->
  lfacts (SConcat cs).
Proof.
  intros IH IT HD st. rewrite Forall_forall in IH, IT.
  destruct (Nat.eq_dec (length cs) 1) as [E|E].
  { destruct cs as [|c [|c2 r]]; try discriminate.
    assert (Hin : In c [c]) by (left; reflexivity).
    pose proof (IH c Hin st) as X.
    change (stream st (SConcat [c]) oLF) with (stream st c oLF).
    change (stream st (SConcat [c]) oLT) with (stream st c oLT).
    cbn [source map concat]. rewrite app_nil_r. exact X. }
  assert (PF : forall c, In c cs -> forall st0, snd (stream st0 c oLF) = st0).
  { intros c Hin st0. apply (IH c Hin st0). }
  assert (PT : forall c, In c cs -> forall st0, snd (stream st0 c oLT) = st0).
  { intros c Hin st0. apply (IT c Hin st0 false). }
  rewrite (stream_concat_fold st cs oLF E), (stream_concat_fold st cs oLT E).
  rewrite (kid_streams_pure oLF cs PF st), (kid_streams_pure oLT cs PT st). cbn [fst snd final_source oLF oLT].
  set (trs := map (fun c => (fst (stream st c oLF), source c)) cs : list kid).
  assert (E1 : map (fun c => fst (stream st c oLF)) cs = map fst trs).
  { unfold trs. rewrite map_map. apply map_ext. intros c. reflexivity. }
  assert (E2 : map source cs = map tr_text trs).
  { unfold trs. rewrite map_map. apply map_ext. intros c. reflexivity. }
  assert (Hk : Forall kid_ok trs).
  { unfold trs. rewrite Forall_map. apply Forall_forall. intros c Hin. apply (IH c Hin st). }
  assert (HkL : Forall kidL_ok trs).
  { unfold trs. rewrite Forall_map. apply Forall_forall. intros c Hin. apply (IH c Hin st). }
  cbn [source]. rewrite E1, E2.
  split; [apply concat_kid_ok; exact Hk|]. split; [apply concat_kidL_ok; exact HkL|]. split; [reflexivity|].
  apply concat_lines_vs_text; [exact HkL|].
  unfold trs. apply Forall2_map_same. intros c Hin. unfold tr_events, tr_text. cbn [fst snd].
  pose proof (IT c Hin st false) as [[A1 _] [A3 _]]. cbn zeta in *.
  split; [apply HD; exact Hin|]. split; [exact A1|]. split; [exact A3|]. apply (IH c Hin st).
Qed.

Lemma replace_lfacts i rs : tfacts (SReplace i rs) -> ne_all (SReplace i rs) ->
  (forall o st, dense (fst (fst (stream st (SReplace i rs) o))) 0 0 = true) ->
  lfacts (SReplace i rs).
Proof.
  intros HT HN HD st. pose proof (HT st false) as [[A1 A2] [A3 [A4 A5]]]. cbn zeta in *.
  pose proof (HN st) as Hne. unfold LawWrappers.evs_of in Hne. pose proof (HD oLT st) as Hd.
  change (stream st (SReplace i rs) oLF) with (stream st (SReplace i rs) oLT).
  fold oLT in A1, A2, A3, A4, A5.
  split; [|split; [|split; [exact A5|]]].
  - unfold kid_ok, tr_events, tr_info, tr_text. cbn [fst snd].
    pose proof (wp_facts _ [] _ A1 A2) as [W1 W2]. cbn [app] in W2.
    split; [exact Hd|]. split; [|split; [exact A4|exact W1]].
    apply cm_ev_pos. eapply Forall_impl; [|exact W2]. intros mp [Hm _]. exact Hm.
  - destruct (stream st (SReplace i rs) oLT) as [[evs gi] st'] eqn:Es. cbn [fst snd] in *.
    apply text_stream_kidL; assumption.
  - apply self_lines_dense; [exact Hd|exact A1|exact A2|exact A3|].
    apply no_empty_ne_chunk. exact Hne.
Qed.

Lemma tgoodL2_all : forall s, tgoodL2 s.
Proof.
  apply src_ind'.
  - intros b v _ H2 H3. apply rshape_lfacts; [reflexivity|assumption|assumption].
  - intros v _ H2 H3. apply rshape_lfacts; [reflexivity|assumption|assumption].
  - intros v _ H2 H3. apply rshape_lfacts; [reflexivity|assumption|assumption].
  - intros v n _ H2 H3. apply rshape_lfacts; [reflexivity|assumption|assumption].
  - intros v n m og i r H1 H2 H3. destruct i as [im|].
    + cbn [rshape2] in H1. apply c09_wfb_iff in H1. apply combined_lfacts; assumption.
    + apply rshape_lfacts; [reflexivity|assumption|assumption].
  - intros cs IH Hsh Ha Hsm. pose proof (rshape2_concat cs Hsh) as Hsh'.
    pose proof (treeA_concat cs Ha) as Ha'. pose proof (rsmall_concat cs Hsm) as Hsm'.
    rewrite Forall_forall in IH. apply concat_lfacts.
    + apply Forall_forall. intros c Hc. apply (IH c Hc (Hsh' c Hc) (Ha' c Hc) (Hsm' c Hc)).
    + apply Forall_forall. intros c Hc. apply (rgood2_all c (Hsh' c Hc) (Ha' c Hc) (Hsm' c Hc)).
    + intros c Hc o st. apply dense2_tree_any; [apply Hsh'|apply Ha']; exact Hc.
  - intros i rs _ Hsh Ha Hsm. apply replace_lfacts.
    + apply (rgood2_all (SReplace i rs) Hsh Ha Hsm).
    + apply (ne2_tree_lines (SReplace i rs) Hsh Ha Hsm).
    + intros o st. apply dense2_tree_any; assumption.
  - intros id i _ Hsh. discriminate.
Qed.

(* ------------------------------------------------------------------ *)
(* the analogues of LinesTree.v                                         *)
(* ------------------------------------------------------------------ *)
Theorem final_attr_tree_lines2 (st : store) (s : src) :
  rshape2 s = true -> treeA s = true -> rsmall s = true ->
  attr_of_final_events (fst (fst (stream st s (mkOpts false true)))) (source s) false =
  attr_of_stream (fst (fst (stream st s (mkOpts false false)))) false.
Proof. intros H1 H2 H3. apply (tgoodL2_all s H1 H2 H3 st). Qed.

Corollary final_attr_tree_lines2_fl (st : store) (s : src) :
  rshape2 s = true -> treeA s = true -> rsmall s = true ->
  list_eqb_attr attr_eqb_fl
    (attr_of_final_events (fst (fst (stream st s (mkOpts false true)))) (source s) false)
    (attr_of_stream (fst (fst (stream st s (mkOpts false false)))) false) = true.
Proof. intros H1 H2 H3. apply attr_lists_eqb_fl. apply final_attr_tree_lines2; assumption. Qed.

Theorem final_stream_facts_lines2 (st : store) (s : src) :
  rshape2 s = true -> treeA s = true -> rsmall s = true ->
  let r := stream st s (mkOpts false true) in
  dense (fst (fst r)) 0 0 = true /\
  positions_of_text (source s) (chunks_of (fst (fst r))) = true /\
  snd (fst r) = advance 1 0 (source s) /\
  sorted_by pos_le (chunk_mappings (fst (fst r))) = true /\
  snd r = st /\
  Forall (seg_before (snd (fst r))) (fsegs (fst (fst r)) [] []).
Proof.
  intros H1 H2 H3. destruct (tgoodL2_all s H1 H2 H3 st) as [[K1 [K2 [K3 K4]]] [[_ [_ L3]] [S _]]].
  unfold tr_events, tr_info, tr_text in *. cbn [fst snd] in *. fold oLF. cbn zeta.
  split; [exact K1|]. split; [apply positions_of_events; exact K2|]. split; [exact K3|].
  split; [apply ssorted_sorted; exact K4|]. split; [exact S|exact L3].
Qed.

Theorem final_enc_domain_lines2 (st : store) (s : src) :
  rshape2 s = true -> treeA s = true -> rsmall s = true ->
  forallb mapping_small (chunk_mappings (fst (fst (stream st s (mkOpts false true))))) = true ->
  enc_domain (chunk_mappings (fst (fst (stream st s (mkOpts false true))))) = true.
Proof.
  intros H1 H2 H3 Hs. destruct (final_stream_facts_lines2 st s H1 H2 H3) as [_ [_ [_ [So _]]]]. cbn zeta in So.
  unfold enc_domain. rewrite So, Hs. reflexivity.
Qed.

Theorem get_map_attr_tree_lines2 (st : store) (s : src) :
  rshape2 s = true -> treeA s = true -> rsmall s = true ->
  forallb mapping_small (chunk_mappings (fst (fst (stream st s (mkOpts false true))))) = true ->
  attr_of_map (fst (get_map st s false)) (source s) false =
  attr_of_stream (fst (fst (stream st s (mkOpts false false)))) false.
Proof.
  intros H1 H2 H3 Hs. pose proof (final_enc_domain_lines2 st s H1 H2 H3 Hs) as He.
  pose proof (dense2_tree_any s st (mkOpts false true) H1 H2) as Hd.
  pose proof (final_attr_tree_lines2 st s H1 H2 H3) as G3.
  unfold get_map. destruct (stream st s (mkOpts false true)) as [[evs gi] st']. cbn [fst snd] in *.
  rewrite (attr_codec_dense evs (source s) false Hd He). exact G3.
Qed.

(* ---- a chunk is mapped in one mode iff one is in the other ---- *)
Definition msameL2 (s : src) : Prop :=
  rshape2 s = true -> treeA s = true -> rsmall s = true -> forall st,
    mapped_chunk_exists (fst (fst (stream st s oLF))) = mapped_chunk_exists (fst (fst (stream st s oLT))).

Lemma msameL2_all : forall s, msameL2 s.
Proof.
  apply src_ind'.
  - intros b v _ H2 H3 st. apply (msameL_all (SRaw b v) st eq_refl H2 H3).
  - intros v _ H2 H3 st. apply (msameL_all (SRawString v) st eq_refl H2 H3).
  - intros v _ H2 H3 st. apply (msameL_all (SRawBuffer v) st eq_refl H2 H3).
  - intros v n _ H2 H3 st. apply (msameL_all (SOriginal v n) st eq_refl H2 H3).
  - intros v n m og i r H1 H2 H3 st. destruct i as [im|].
    + cbn [rshape2] in H1. apply c09_wfb_iff in H1. cbn [stream fst]. apply combined_mapped_same_lines; assumption.
    + apply (msameL_all (SMapped v n m og None r) st eq_refl H2 H3).
  - intros cs IH Hsh Ha Hsm st.
    pose proof (rshape2_concat cs Hsh) as Hsh'. pose proof (treeA_concat cs Ha) as Ha'.
    pose proof (rsmall_concat cs Hsm) as Hsm'. rewrite Forall_forall in IH.
    destruct (Nat.eq_dec (length cs) 1) as [E|E].
    { destruct cs as [|c [|c2 r]]; try discriminate.
      assert (Hin : In c [c]) by (left; reflexivity).
      change (stream st (SConcat [c]) oLF) with (stream st c oLF).
      change (stream st (SConcat [c]) oLT) with (stream st c oLT).
      apply (IH c Hin (Hsh' c Hin) (Ha' c Hin) (Hsm' c Hin) st). }
    assert (PF : forall c, In c cs -> forall st0, snd (stream st0 c oLF) = st0).
    { intros c Hin st0. apply (tgoodL2_all c (Hsh' c Hin) (Ha' c Hin) (Hsm' c Hin) st0). }
    assert (PT : forall c, In c cs -> forall st0, snd (stream st0 c oLT) = st0).
    { intros c Hin st0. apply (rgood2_all c (Hsh' c Hin) (Ha' c Hin) (Hsm' c Hin) st0 false). }
    rewrite (stream_concat_fold st cs oLF E), (stream_concat_fold st cs oLT E).
    rewrite (kid_streams_pure oLF cs PF st), (kid_streams_pure oLT cs PT st). cbn [fst snd final_source oLF oLT].
    set (trs := map (fun c => (fst (stream st c oLF), source c)) cs : list kid).
    assert (E1 : map (fun c => fst (stream st c oLF)) cs = map fst trs).
    { unfold trs. rewrite map_map. apply map_ext. intros c. reflexivity. }
    assert (Hk : Forall kid_ok trs).
    { unfold trs. rewrite Forall_map. apply Forall_forall. intros c Hin.
      apply (tgoodL2_all c (Hsh' c Hin) (Ha' c Hin) (Hsm' c Hin) st). }
    rewrite E1, (concat_final_mapped trs Hk), concat_text_mapped.
    2:{ rewrite Forall_map. apply Forall_forall. intros c Hin.
        apply dense2_tree_any; [apply Hsh'|apply Ha']; exact Hin. }
    unfold trs. rewrite !existsb_map'. apply existsb_map_same. intros c Hin.
    unfold tr_events. cbn [fst]. apply (IH c Hin (Hsh' c Hin) (Ha' c Hin) (Hsm' c Hin) st).
  - intros i rs _ _ _ _ st. reflexivity.
  - intros id i _ Hsh. discriminate.
Qed.

Theorem mapped_same_tree_lines2 (st : store) (s : src) :
  rshape2 s = true -> treeA s = true -> rsmall s = true ->
  mapped_chunk_exists (fst (fst (stream st s (mkOpts false true)))) =
  mapped_chunk_exists (fst (fst (stream st s (mkOpts false false)))).
Proof. intros H1 H2 H3. apply (msameL2_all s H1 H2 H3 st). Qed.

Theorem get_map_none_tree_lines2 (st : store) (s : src) :
  rshape2 s = true -> treeA s = true -> rsmall s = true ->
  forallb mapping_small (chunk_mappings (fst (fst (stream st s (mkOpts false true))))) = true ->
  is_none (fst (get_map st s false)) =
  negb (mapped_chunk_exists (fst (fst (stream st s (mkOpts false false))))).
Proof.
  intros H1 H2 H3 Hs. pose proof (final_enc_domain_lines2 st s H1 H2 H3 Hs) as He.
  rewrite <- (mapped_same_tree_lines2 st s H1 H2 H3).
  unfold get_map. destruct (stream st s (mkOpts false true)) as [[evs gi] st']. cbn [fst snd] in *.
  apply map_of_events_none. exact He.
Qed.

(* property C03, columns = false, for trees with combined-map leaves *)
Theorem C03_tree_lines2 (st : store) (s : src) :
  rshape2 s = true -> treeA s = true -> rsmall s = true ->
  forallb mapping_small (chunk_mappings (fst (fst (stream st s (mkOpts false true))))) = true ->
  attr_of_map (fst (get_map st s false)) (source s) false =
  attr_of_stream (fst (fst (stream st s (mkOpts false false)))) false /\
  is_none (fst (get_map st s false)) =
  negb (mapped_chunk_exists (fst (fst (stream st s (mkOpts false false))))).
Proof.
  intros H1 H2 H3 Hs. split; [apply get_map_attr_tree_lines2|apply get_map_none_tree_lines2]; assumption.
Qed.

Corollary C03_tree_lines2_fl (st : store) (s : src) :
  rshape2 s = true -> treeA s = true -> rsmall s = true ->
  forallb mapping_small (chunk_mappings (fst (fst (stream st s (mkOpts false true))))) = true ->
  list_eqb_attr attr_eqb_fl (attr_of_map (fst (get_map st s false)) (source s) false)
                (attr_of_stream (fst (fst (stream st s (mkOpts false false)))) false) = true.
Proof. intros H1 H2 H3 Hs. apply attr_lists_eqb_fl. apply get_map_attr_tree_lines2; assumption. Qed.

Print Assumptions ne2_tree_lines.
Print Assumptions final_attr_tree_lines2.
Print Assumptions final_stream_facts_lines2.
Print Assumptions mapped_same_tree_lines2.
Print Assumptions C03_tree_lines2.
