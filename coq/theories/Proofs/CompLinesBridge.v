(* C06, columns = false, part 1 (G1): the bridge between the two line-first rules.
   `attr_of_stream evs false` (Sem/Attr.v: line_firsts_cover) works on CHUNKS: every byte of an
   output line carries (file, line, 0, no name) of the first mapped non-empty chunk on the line.
   `line_first_bytes` (Checkers/ChkComp.v) works on BYTES: the first mapped byte of the line,
   given a per-byte attribution.  For a text-carrying stream whose chunks carry a line feed at
   most as last byte the two agree (Leibniz) when the per-byte attribution is the covering one
   (`attr_of_stream evs true` = attr_cover): `lines_bridge`.
   No hypothesis on empty chunks is needed: an empty chunk contributes nothing on either side.
   The line-feed hypothesis is needed (`lines_bridge_needs_nl_last`). *)
From RS Require Import Base.Prelude Base.Text Rope.RopeModel Codec.Vlq Codec.CodecSpec
  Stream.Types Stream.Leaves Stream.Concat Sem.Attr Checkers.ChkTree Checkers.ChkComp
  Proofs.StreamText Proofs.StreamLeaves Proofs.AttrCodec Proofs.AttrSms
  Proofs.LawConcatAttr Proofs.RStreamPos Proofs.LinesBase.
Require Import Lia List.

Local Open Scope N_scope.

Notation lfb := line_first_bytes.

(* the `cur'` of line_first_bytes *)
Lemma lfb_cur cur a :
  match cur, a with
  | None, Some x => Some (mkLoc (l_file x) (l_line x) 0 None)
  | _, _ => cur end = orA cur (norm a).
Proof. destruct cur, a; reflexivity. Qed.

Lemma lfb_cons b t a A cur n acc :
  lfb (b :: t) (a :: A) cur n acc =
  if b =? NL then lfb t A None 0 (repeat (orA cur (norm a)) (S n) ++ acc)
  else lfb t A (orA cur (norm a)) (S n) acc.
Proof. cbn [line_first_bytes]. rewrite lfb_cur. reflexivity. Qed.

Lemma orA_piece cur t a : orA (orA cur (norm a)) (piece_attr t a) = orA cur (norm a).
Proof.
  unfold piece_attr. destruct (is_nil t); [apply orA_none_r|].
  destruct cur; [reflexivity|]. cbn [orA]. destruct (norm a); reflexivity.
Qed.

(* one chunk: a run of bytes with the same attribution, a line feed at most at its end *)
Lemma lfb_chunk a T A : forall t cur n acc, AttrSms.nl_last t ->
  lfb (t ++ T) (map (fun _ => a) t ++ A) cur n acc =
  if ends_with_nl t
  then lfb T A None 0 (repeat (orA cur (piece_attr t a)) (n + length t) ++ acc)
  else lfb T A (orA cur (piece_attr t a)) (n + length t) acc.
Proof.
  induction t as [|b t IH]; intros cur n acc H.
  - change (ends_with_nl []) with false. cbn iota. cbn [app map length]. unfold piece_attr. cbn [is_nil].
    rewrite orA_none_r, Nat.add_0_r. reflexivity.
  - destruct H as [H1 H2]. cbn [app map]. rewrite lfb_cons.
    assert (Ep : piece_attr (b :: t) a = norm a) by reflexivity. rewrite Ep.
    destruct (b =? NL) eqn:E.
    + apply N.eqb_eq in E. rewrite (H1 E). subst b. cbn [app map length].
      change (ends_with_nl [NL]) with true. cbn iota. rewrite Nat.add_1_r. reflexivity.
    + apply N.eqb_neq in E. rewrite (nl_last_cons_ends b t (conj H1 H2) E).
      rewrite (IH (orA cur (norm a)) (S n) acc H2), orA_piece.
      cbn [length]. rewrite Nat.add_succ_r. reflexivity.
Qed.

(* all chunks *)
Lemma lfc_lfb l : tnl l -> forall cur acc n,
  lfc l cur acc n = lfb (ttext l) (cover l) cur n acc.
Proof.
  induction 1 as [|[[t|] a] l Ht _ IH]; intros cur acc n.
  - reflexivity.
  - cbn [fst] in Ht. cbn [lfc ttext cover]. rewrite lfc_cur, (lfb_chunk a _ _ t cur n acc Ht).
    destruct (ends_with_nl t); apply IH.
  - cbn [lfc ttext cover]. apply IH.
Qed.

(* G1 *)
Theorem lines_bridge_NLL (evs : list event) (t : text) : Reass evs t -> NLL evs ->
  attr_of_stream evs false = line_first_bytes t (attr_of_stream evs true) None 0 [].
Proof.
  intros Hr Hn. rewrite !attr_of_stream_ta. fold (tal evs).
  rewrite (lfc_lfb _ (tal_tnl evs Hn)), (tal_text evs t Hr). reflexivity.
Qed.

Theorem lines_bridge (evs : list event) (t : text) :
  reassembles evs t = true -> chunks_nl_last evs = true ->
  attr_of_stream evs false =
  line_first_bytes t (attr_cover (rsegs_of_events evs [] [])) None 0 [].
Proof.
  intros Hr Hn. apply reassembles_iff in Hr. apply chunks_nl_last_iff in Hn.
  apply (lines_bridge_NLL evs t Hr Hn).
Qed.

(* in the checker's form *)
Corollary lines_bridge_fl (evs : list event) (t : text) :
  reassembles evs t = true -> chunks_nl_last evs = true ->
  list_eqb_attr attr_eqb_fl (attr_of_stream evs false)
    (line_first_bytes t (attr_cover (rsegs_of_events evs [] [])) None 0 []) = true.
Proof. intros Hr Hn. apply attr_lists_eqb_fl. apply lines_bridge; assumption. Qed.

(* a chunk with a line feed in the middle: the chunk rule keeps the whole chunk on the line it
   starts on, the byte rule does not *)
Lemma lines_bridge_needs_nl_last :
  let evs := [ESource 0 [102] None; ESource 1 [103] None;
              EChunk (Some [97]) (mkMapping 1 0 (Some (mkOrig 0 1 0 None)));
              EChunk (Some [98; 10; 99]) (mkMapping 1 1 (Some (mkOrig 1 7 0 None)))] in
  reassembles evs [97; 98; 10; 99] = true /\ chunks_nl_last evs = false /\
  list_eqb_attr attr_eqb_fl (attr_of_stream evs false)
    (line_first_bytes [97; 98; 10; 99] (attr_cover (rsegs_of_events evs [] [])) None 0 []) = false.
Proof. vm_compute. auto. Qed.

Print Assumptions lines_bridge.
Print Assumptions lines_bridge_fl.
Print Assumptions lines_bridge_needs_nl_last.
