(* C07, V2-V6: the text views of a source tree agree.
   size() = len(buffer()); the to_writer payloads concatenate to buffer();
   buffer() = source() when every binary leaf is valid UTF-8; source() of a
   well-formed tree is valid UTF-8; rope() never hits a rejected slice and
   renders to source(). *)
From Coq Require Import List NArith Bool Lia Permutation.
From RS Require Import Base.Prelude Base.Text Rope.RopeModel Stream.Types Stream.Leaves
  Stream.Replace Stream.Tree Api.ApiTree Checkers.ChkTree.
From RS Require Import Proofs.RopeBasic Proofs.RopeWf Proofs.RopeUtf8 Proofs.RopeOps
  Proofs.RopeSlice Proofs.ReplaceSort Proofs.ViewsUtf8.
Import ListNotations.

(* ---------- induction principle for the nested type ---------- *)
Lemma src_ind_nested (P : src -> Prop) :
  (forall b v, P (SRaw b v)) ->
  (forall v, P (SRawString v)) ->
  (forall v, P (SRawBuffer v)) ->
  (forall v name, P (SOriginal v name)) ->
  (forall v name m orig inner remove, P (SMapped v name m orig inner remove)) ->
  (forall cs, Forall P cs -> P (SConcat cs)) ->
  (forall inner rs, P inner -> P (SReplace inner rs)) ->
  (forall id inner, P inner -> P (SCached id inner)) ->
  forall s, P s.
Proof.
  intros HRaw HStr HBuf HOrig HMap HConcat HRepl HCached.
  fix IH 1. intros s. destruct s as [b v|v|v|v name|v name m orig inner remove|cs|inner rs|id inner].
  - apply HRaw.
  - apply HStr.
  - apply HBuf.
  - apply HOrig.
  - apply HMap.
  - apply HConcat. induction cs as [|c cs IHcs]; constructor; [apply IH|exact IHcs].
  - apply HRepl. apply IH.
  - apply HCached. apply IH.
Qed.

(* ---------- V2 ---------- *)
Theorem size_is_buffer_len (s : src) : size s = len (buffer s).
Proof.
  induction s as [b v|v|v|v name|v name m orig inner remove|cs IH|inner rs IH|id inner IH]
    using src_ind_nested; try reflexivity.
  - cbn [size buffer]. induction IH as [|c cs Hc Hcs IH]; [reflexivity|].
    cbn [fold_right map concat]. rewrite len_app, Hc, IH. reflexivity.
  - cbn [size buffer]. exact IH.
Qed.

(* ---------- V3 ---------- *)
Theorem writer_calls_buffer (s : src) : concat (writer_calls s) = buffer s.
Proof.
  induction s as [b v|v|v|v name|v name m orig inner remove|cs IH|inner rs IH|id inner IH]
    using src_ind_nested;
    try (cbn [writer_calls concat]; apply app_nil_r).
  - cbn [writer_calls buffer]. induction IH as [|c cs Hc Hcs IH]; [reflexivity|].
    cbn [flat_map map concat]. rewrite concat_app, Hc, IH. reflexivity.
  - cbn [writer_calls buffer]. exact IH.
Qed.

(* ---------- V4 ---------- *)
Theorem buffer_is_source (s : src) : all_leaves_valid s = true -> buffer s = source s.
Proof.
  induction s as [b v|v|v|v name|v name m orig inner remove|cs IH|inner rs IH|id inner IH]
    using src_ind_nested; intros H; try reflexivity.
  - destruct b; [|reflexivity]. cbn [all_leaves_valid] in H. cbn [buffer source].
    symmetry. apply utf8_lossy_valid. exact H.
  - cbn [all_leaves_valid] in H. cbn [buffer source].
    symmetry. apply utf8_lossy_valid. exact H.
  - cbn [all_leaves_valid] in H. cbn [buffer source]. f_equal.
    induction IH as [|c cs Hc Hcs IH]; [reflexivity|].
    cbn [forallb] in H. apply andb_prop in H. destruct H as [H1 H2].
    cbn [map]. rewrite (Hc H1), (IH H2). reflexivity.
  - cbn [all_leaves_valid] in H. cbn [buffer source]. exact (IH H).
Qed.

Theorem binary_leaf (b : text) :
  buffer (SRawBuffer b) = b /\ source (SRawBuffer b) = utf8_lossy b.
Proof. split; reflexivity. Qed.

Theorem binary_leaf_raw (b : text) :
  buffer (SRaw true b) = b /\ source (SRaw true b) = utf8_lossy b.
Proof. split; reflexivity. Qed.

Theorem concat_views (cs : list src) :
  source (SConcat cs) = concat (map source cs) /\ buffer (SConcat cs) = concat (map buffer cs).
Proof. split; reflexivity. Qed.

(* ---------- positions that are char boundaries of a text ---------- *)
Definition bpos (t : text) (p : N) : Prop := p <= len t /\ is_boundary t p = true.

Lemma bpos_0 (t : text) : bpos t 0.
Proof. split; [apply N.le_0_l|reflexivity]. Qed.

Lemma bpos_len (t : text) : bpos t (len t).
Proof. split; [apply N.le_refl|apply is_boundary_len]. Qed.

Lemma bound_ok_min (t : text) (p : N) : bound_ok t p = true -> bpos t (N.min p (len t)).
Proof.
  unfold bound_ok. intros H. apply orb_true_iff in H.
  destruct (N.le_ge_cases (len t) p) as [Hle|Hge].
  - rewrite N.min_r by exact Hle. apply bpos_len.
  - rewrite N.min_l by exact Hge. destruct H as [H|H].
    + apply N.leb_le in H. assert (E : p = len t) by lia. rewrite E. apply bpos_len.
    + split; [exact Hge|exact H].
Qed.

Lemma bpos_next (t : text) (pos e : N) :
  bpos t pos -> bound_ok t e = true -> bpos t (N.min (N.max pos e) (len t)).
Proof.
  intros Hp He. destruct (N.le_ge_cases e pos) as [Hle|Hge].
  - rewrite N.max_l by exact Hle. destruct Hp as [Hp Hb].
    rewrite N.min_l by exact Hp. split; assumption.
  - rewrite N.max_r by exact Hge. apply bound_ok_min. exact He.
Qed.

Lemma repl_ok_parts (t : text) (r : repl) :
  repl_ok t r = true ->
  r_start r <= r_end r /\ bound_ok t (r_start r) = true /\ bound_ok t (r_end r) = true /\
  uv (r_content r).
Proof.
  unfold repl_ok. intros H.
  apply andb_prop in H. destruct H as [H H4].
  apply andb_prop in H. destruct H as [H H3].
  apply andb_prop in H. destruct H as [H1 H2].
  apply N.leb_le in H1. apply valid_uv in H4. auto.
Qed.

Lemma slice_to_len {A} (a : N) (l : list A) : slice a (len l) l = drop a l.
Proof. unfold slice. apply take_all. rewrite len_drop. apply N.le_refl. Qed.

(* ---------- V5 ---------- *)
Lemma splice_uv (t : text) (rs : list repl) :
  uv t -> forallb (repl_ok t) rs = true -> forall pos, bpos t pos -> uv (splice t rs pos).
Proof.
  intros Ht. induction rs as [|r rs IH]; intros Hrs pos Hpos; cbn [splice].
  - destruct Hpos as [Hp Hb]. exact (proj2 (uv_split t pos Ht Hp Hb)).
  - cbn [forallb] in Hrs. apply andb_prop in Hrs. destruct Hrs as [Hr Hrs].
    apply repl_ok_parts in Hr. destruct Hr as (Hse & Hs & He & Hc).
    apply uv_app; [|apply uv_app; [exact Hc|]].
    + destruct (pos <? r_start r) eqn:E; [|constructor]. apply N.ltb_lt in E.
      destruct (bound_ok_min _ _ Hs) as [H1 H2]. destruct Hpos as [Hp Hb].
      apply uv_slice; try assumption. lia.
    + apply IH; [exact Hrs|]. apply bpos_next; assumption.
Qed.

Lemma forallb_perm {A} (f : A -> bool) (l l' : list A) :
  Permutation l l' -> forallb f l' = true -> forallb f l = true.
Proof.
  intros Hp H. rewrite forallb_forall in *. intros x Hx. apply H.
  eapply Permutation_in; eassumption.
Qed.

Lemma sort_repls_ok (t : text) (rs : list repl) :
  forallb (repl_ok t) rs = true -> forallb (repl_ok t) (sort_repls rs) = true.
Proof. apply forallb_perm. apply sort_repls_perm. Qed.

Lemma replace_source_text_uv (t : text) (rs : list repl) :
  uv t -> forallb (repl_ok t) rs = true -> uv (replace_source_text t rs).
Proof.
  intros Ht Hrs. unfold replace_source_text.
  destruct (is_nil (sort_repls rs)); [exact Ht|].
  apply splice_uv; [exact Ht|apply sort_repls_ok; exact Hrs|apply bpos_0].
Qed.

Lemma source_uv (s : src) : tree_wf s = true -> uv (source s).
Proof.
  induction s as [b v|v|v|v name|v name m orig inner remove|cs IH|inner rs IH|id inner IH]
    using src_ind_nested; intros H.
  - destruct b; cbn [source tree_wf] in *.
    + apply valid_uv. apply utf8_lossy_is_valid.
    + apply valid_uv. exact H.
  - cbn [source tree_wf] in *. apply valid_uv. exact H.
  - cbn [source]. apply valid_uv. apply utf8_lossy_is_valid.
  - cbn [source tree_wf] in *. apply andb_prop in H. apply valid_uv. exact (proj1 H).
  - cbn [source tree_wf] in *. apply andb_prop in H. apply valid_uv. exact (proj1 H).
  - cbn [source tree_wf] in *.
    induction IH as [|c cs Hc Hcs IH]; [constructor|].
    cbn [forallb] in H. apply andb_prop in H. destruct H as [H1 H2].
    cbn [map concat]. apply uv_app; [exact (Hc H1)|exact (IH H2)].
  - cbn [source tree_wf] in *. apply andb_prop in H. destruct H as [H1 H2].
    apply replace_source_text_uv; [exact (IH H1)|exact H2].
  - cbn [source tree_wf] in *. exact (IH H).
Qed.

Theorem source_valid (s : src) : tree_wf s = true -> valid_utf8 (source s) = true.
Proof. intros H. apply valid_uv. apply source_uv. exact H. Qed.

(* ---------- V6 ---------- *)
Definition good_rope (r : rope) (t : text) : Prop :=
  flat r = t /\ rope_wf r = true /\ rope_valid r = true.

Lemma rope_slice_ok (r : rope) (a b : N) :
  rope_wf r = true -> rope_valid r = true -> a <= b -> bpos (flat r) a -> bpos (flat r) b ->
  exists r', rope_slice r a b = SOk r' /\ good_rope r' (slice a b (flat r)).
Proof.
  intros Hwf Hv Hab [Ha Ba] [Hb Bb].
  pose proof (rope_slice_flat r a b Hwf Hv) as H.
  rewrite str_get_intro in H by assumption. rewrite Ba, Bb in H. cbn [andb] in H.
  exact H.
Qed.

Lemma good_append (a s : rope) (ta ts : text) :
  good_rope a ta -> good_rope s ts -> good_rope (rope_append a s) (ta ++ ts).
Proof.
  intros (F1 & W1 & V1) (F2 & W2 & V2). split; [|split].
  - rewrite flat_append, F1, F2. reflexivity.
  - apply rope_wf_append; assumption.
  - apply rope_valid_append; assumption.
Qed.

Lemma good_add (a : rope) (ta v : text) :
  good_rope a ta -> uv v -> good_rope (rope_add a v) (ta ++ v).
Proof.
  intros (F1 & W1 & V1) Hv. split; [|split].
  - rewrite flat_add, F1. reflexivity.
  - apply rope_wf_add; assumption.
  - apply rope_valid_add; [assumption|apply valid_uv; exact Hv].
Qed.

Lemma splice_rope_spec (inner : rope) (rs : list repl) :
  rope_wf inner = true -> rope_valid inner = true ->
  forallb (repl_ok (flat inner)) rs = true ->
  forall pos acc tacc, bpos (flat inner) pos -> good_rope acc tacc ->
  exists r', splice_rope inner rs pos acc = Some r' /\
             good_rope r' (tacc ++ splice (flat inner) rs pos).
Proof.
  intros Hwf Hv. induction rs as [|r rs IH]; intros Hrs pos acc tacc Hpos Hacc;
    cbn [splice_rope splice]; rewrite (rope_len_flat inner Hwf).
  - destruct (rope_slice_ok inner pos (len (flat inner)) Hwf Hv (proj1 Hpos) Hpos (bpos_len _))
      as (s & E & Hs).
    rewrite E. exists (rope_append acc s). split; [reflexivity|].
    rewrite <- slice_to_len. apply good_append; assumption.
  - cbn [forallb] in Hrs. apply andb_prop in Hrs. destruct Hrs as [Hr Hrs].
    apply repl_ok_parts in Hr. destruct Hr as (Hse & Hs & He & Hc).
    pose proof (bpos_next _ _ _ Hpos He) as Hnext.
    destruct (pos <? r_start r) eqn:E.
    + apply N.ltb_lt in E. pose proof (bound_ok_min _ _ Hs) as Hmin.
      assert (Hle : pos <= N.min (r_start r) (len (flat inner))) by (destruct Hpos; lia).
      destruct (rope_slice_ok inner pos _ Hwf Hv Hle Hpos Hmin) as (s & Es & Hgs).
      rewrite Es.
      destruct (IH Hrs _ (rope_add (rope_append acc s) (r_content r))
                   ((tacc ++ slice pos (N.min (r_start r) (len (flat inner))) (flat inner))
                      ++ r_content r) Hnext) as (r' & Er & Hr').
      { apply good_add; [apply good_append; assumption|exact Hc]. }
      exists r'. split; [exact Er|]. rewrite <- !app_assoc in Hr'. exact Hr'.
    + destruct (IH Hrs _ (rope_add acc (r_content r)) (tacc ++ r_content r) Hnext)
        as (r' & Er & Hr').
      { apply good_add; assumption. }
      exists r'. split; [exact Er|]. rewrite <- app_assoc in Hr'. exact Hr'.
Qed.

Lemma good_new : good_rope rope_new [].
Proof. split; [reflexivity|split; reflexivity]. Qed.

Lemma replace_rope_spec (inner : rope) (rs : list repl) :
  rope_wf inner = true -> rope_valid inner = true ->
  forallb (repl_ok (flat inner)) rs = true ->
  exists r', replace_rope inner rs = Some r' /\
             good_rope r' (replace_source_text (flat inner) rs).
Proof.
  intros Hwf Hv Hrs. unfold replace_rope, replace_source_text.
  destruct (is_nil (sort_repls rs)).
  - exists inner. split; [reflexivity|]. split; [reflexivity|split; assumption].
  - apply (splice_rope_spec inner (sort_repls rs) Hwf Hv (sort_repls_ok _ _ Hrs) 0 rope_new []
             (bpos_0 _) good_new).
Qed.

Definition rope_step (acc : option rope) (c : src) : option rope :=
  match acc, rope_of c with
  | Some a, Some r => Some (rope_append a r)
  | _, _ => None
  end.

Lemma rope_of_concat (cs : list src) :
  rope_of (SConcat cs) =
  match cs with
  | [c] => rope_of c
  | _ => fold_left rope_step cs (Some rope_new)
  end.
Proof. destruct cs as [|c [|c2 cs]]; reflexivity. Qed.

Definition renders (s : src) : Prop :=
  tree_wf s = true -> exists r, rope_of s = Some r /\ good_rope r (source s).

Lemma fold_rope_step (cs : list src) :
  Forall renders cs -> forallb tree_wf cs = true ->
  forall a ta, good_rope a ta ->
  exists r, fold_left rope_step cs (Some a) = Some r /\
            good_rope r (ta ++ concat (map source cs)).
Proof.
  induction 1 as [|c cs Hc Hcs IH]; intros Hwf a ta Ha.
  - exists a. split; [reflexivity|]. cbn [map concat]. rewrite app_nil_r. exact Ha.
  - cbn [forallb] in Hwf. apply andb_prop in Hwf. destruct Hwf as [H1 H2].
    destruct (Hc H1) as (rc & Ec & Hrc).
    cbn [fold_left]. unfold rope_step at 2. rewrite Ec.
    destruct (IH H2 (rope_append a rc) (ta ++ source c)) as (r & Er & Hr).
    { apply good_append; assumption. }
    exists r. split; [exact Er|]. cbn [map concat]. rewrite app_assoc. exact Hr.
Qed.

Lemma renders_leaf (s : src) :
  rope_of s = Some (Light (source s)) -> renders s.
Proof.
  intros E Hwf. exists (Light (source s)). split; [exact E|].
  split; [reflexivity|split; [reflexivity|]].
  rewrite rope_valid_light. apply source_valid. exact Hwf.
Qed.

Lemma renders_all (s : src) : renders s.
Proof.
  induction s as [b v|v|v|v name|v name m orig inner remove|cs IH|inner rs IH|id inner IH]
    using src_ind_nested; try (apply renders_leaf; reflexivity).
  - intros Hwf. rewrite rope_of_concat. cbn [tree_wf] in Hwf.
    destruct cs as [|c [|c2 cs]].
    + exists rope_new. split; [reflexivity|]. exact good_new.
    + cbn [forallb] in Hwf. apply andb_prop in Hwf. destruct Hwf as [H1 _].
      inversion IH as [|? ? Hc _]; subst.
      destruct (Hc H1) as (r & E & Hr). exists r. split; [exact E|].
      cbn [source map concat]. rewrite app_nil_r. exact Hr.
    + destruct (fold_rope_step _ IH Hwf rope_new [] good_new) as (r & E & Hr).
      exists r. split; [exact E|exact Hr].
  - intros Hwf. cbn [tree_wf] in Hwf. apply andb_prop in Hwf. destruct Hwf as [H1 H2].
    destruct (IH H1) as (r & E & (F & W & V)).
    cbn [rope_of source]. rewrite E. rewrite <- F in *.
    apply replace_rope_spec; assumption.
  - intros Hwf. cbn [tree_wf] in Hwf. destruct (IH Hwf) as (r & E & Hr).
    exists r. split; [exact E|exact Hr].
Qed.

Theorem rope_renders_source (s : src) :
  tree_wf s = true ->
  exists r, rope_of s = Some r /\ flat r = source s /\ rope_wf r = true /\ rope_valid r = true.
Proof. exact (renders_all s). Qed.

(* ---------- the C07 checker accepts the model's own observations ---------- *)
Theorem chk_C07_model (s : src) (ws : list (N * wop)) :
  tree_wf s = true -> chk_C07 s (api_tree s ws) = 0.
Proof.
  intros Hwf. unfold chk_C07, api_tree.
  cbn [to_source to_buffer to_size to_rope to_writer].
  rewrite Hwf. cbn [negb].
  destruct (rope_renders_source s Hwf) as (r & E & F & _ & _). rewrite E, F.
  cbn [opt_eqb]. rewrite text_eqb_refl. cbn [negb].
  rewrite size_is_buffer_len, N.eqb_refl. cbn [negb].
  rewrite writer_calls_buffer, text_eqb_refl. cbn [negb].
  assert (E4 : all_leaves_valid s && negb (text_eqb (buffer s) (source s)) = false).
  { destruct (all_leaves_valid s) eqn:Ev; [|reflexivity].
    rewrite (buffer_is_source s Ev), text_eqb_refl. reflexivity. }
  rewrite E4.
  destruct s as [b v|v|v|v name|v name m orig inner remove|cs|inner rs|id inner];
    try reflexivity.
  - destruct b; [|reflexivity]. cbn [buffer source]. rewrite !text_eqb_refl. reflexivity.
  - cbn [buffer source]. rewrite !text_eqb_refl. reflexivity.
Qed.

Print Assumptions src_ind_nested.
Print Assumptions size_is_buffer_len.
Print Assumptions writer_calls_buffer.
Print Assumptions buffer_is_source.
Print Assumptions binary_leaf.
Print Assumptions binary_leaf_raw.
Print Assumptions concat_views.
Print Assumptions source_valid.
Print Assumptions rope_renders_source.
Print Assumptions chk_C07_model.
