(* ReplaceSource, text: the string splice loop of source() computes the
   reference application of the ordered replacements; hence the rendered text
   is the reference text. *)
From Coq Require Import List NArith Bool Lia.
From RS Require Import Base.Prelude Base.Text Rope.RopeModel Stream.Types Stream.Replace Sem.ReplaceObj.
From RS Require Import Proofs.ReplaceSort.
Import ListNotations.

(* ---------- bridging lemmas on the N-indexed list helpers ---------- *)
Lemma slice_empty {A} (a b : N) (l : list A) : b <= a -> slice a b l = [].
Proof.
  intros H. unfold slice, take. replace (b - a) with 0 by lia. reflexivity.
Qed.

Lemma drop_0 {A} (l : list A) : drop 0 l = l.
Proof. reflexivity. Qed.

Lemma is_nil_spec {A} (l : list A) : is_nil l = true <-> l = [].
Proof. destruct l; split; intros H; try reflexivity; discriminate. Qed.

(* ---------- S4 ---------- *)
Lemma splice_ref_pos (inner : text) (rs : list repl) (pos : N) :
  pos <= len inner -> splice inner rs pos = ref_apply inner rs pos.
Proof.
  revert pos. induction rs as [|r rs IH]; intros pos Hpos; [reflexivity|].
  cbn [splice ref_apply].
  assert (Hnext : N.min (N.max pos (r_end r)) (len inner) =
                  N.max pos (N.min (r_end r) (len inner))) by lia.
  rewrite Hnext, IH by lia.
  f_equal.
  destruct (N.ltb_spec pos (r_start r)) as [H1|H1];
    destruct (N.ltb_spec pos (N.min (r_start r) (len inner))) as [H2|H2];
    try reflexivity.
  - apply slice_empty. exact H2.
  - exfalso. lia.
Qed.

Theorem splice_ref (inner : text) (sorted : list repl) :
  splice inner sorted 0 = ref_apply inner sorted 0.
Proof. apply splice_ref_pos. apply N.le_0_l. Qed.

Lemma text_of_sorted_ref (inner : text) (sorted : list repl) :
  text_of_sorted inner sorted = ref_apply inner sorted 0.
Proof.
  unfold text_of_sorted. destruct sorted as [|r l]; cbn [is_nil].
  - reflexivity.
  - apply splice_ref.
Qed.

Theorem replace_source_text_ref (inner : text) (rs : list repl) :
  replace_source_text inner rs = ref_text inner rs.
Proof.
  unfold ref_text. rewrite <- sort_repls_ref.
  change (replace_source_text inner rs) with (text_of_sorted inner (sort_repls rs)).
  apply text_of_sorted_ref.
Qed.

Print Assumptions splice_ref.
Print Assumptions replace_source_text_ref.
