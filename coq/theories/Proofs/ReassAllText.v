(* Property C01, second sentence: every chunk delivered with final_source = false carries its
   text - for ALL source trees of the model, WITHOUT any well-formedness hypothesis (texts that
   are not valid UTF-8, replacements with start > end, any store content included). *)
From RS Require Import Base.Prelude Base.Text Rope.RopeModel Codec.Vlq Codec.CodecSpec
  Stream.Types Stream.Leaves Stream.Concat Stream.Replace Stream.Combined Stream.Tree
  Checkers.ChkTree
  Proofs.StreamText Proofs.StreamLeaves Proofs.StreamMap Proofs.StreamConcat
  Proofs.StreamTree Proofs.RStreamText Proofs.RStreamTree Proofs.ReassAll.
Require Import Lia List ZArith.

Local Open Scope N_scope.

(* every chunk of the event list carries text *)
Definition CT (evs : list event) : Prop := Forall (fun t : option text => t <> None) (chunk_texts evs).

Lemma CT_nil : CT [].
Proof. constructor. Qed.

Lemma CT_app a b : CT a -> CT b -> CT (a ++ b).
Proof. unfold CT. intros Ha Hb. rewrite chunk_texts_app. apply Forall_app. auto. Qed.

Lemma CT_one t m : CT [EChunk (Some t) m].
Proof. constructor; [discriminate|constructor]. Qed.

Lemma CT_chunk t m evs : CT evs -> CT (EChunk (Some t) m :: evs).
Proof. intros H. constructor; [discriminate|exact H]. Qed.

Lemma CT_silent evs : chunk_texts evs = [] -> CT evs.
Proof. unfold CT. intros ->. constructor. Qed.

Lemma CT_texts a b : chunk_texts a = chunk_texts b -> CT b -> CT a.
Proof. unfold CT. intros ->. auto. Qed.

Lemma CT_Reass evs T : Reass evs T -> CT evs.
Proof.
  revert T. induction evs as [|e evs IH]; intros T HR; [apply CT_nil|].
  destruct e as [t m|i n c|i n].
  - apply Reass_chunk_inv in HR. destruct HR as [t' [x' [-> [_ HR]]]]. apply CT_chunk. apply (IH _ HR).
  - apply (IH _ HR).
  - apply (IH _ HR).
Qed.

Lemma CT_in evs : CT evs -> forall t m, In (EChunk t m) evs -> exists x, t = Some x.
Proof.
  induction evs as [|e evs IH]; intros H t m Hin; [contradiction|].
  destruct Hin as [->|Hin].
  - inversion H as [|? ? H1 _]. subst. destruct t as [x|]; [eauto|contradiction].
  - apply (IH (ltac:(destruct e; [inversion H; assumption|exact H|exact H])) t m Hin).
Qed.

Lemma CT_nochunk evs : chunks_of evs = [] -> CT evs.
Proof. intros H. apply CT_silent. rewrite chunk_texts_map, H. reflexivity. Qed.

(* ------------------------------------------------------------------ *)
(* SourceMapSource splitters, ANY text and ANY map                      *)
(* ------------------------------------------------------------------ *)
Lemma whole_lines_CT ls : forall i cur target, CT (whole_lines ls i cur target).
Proof.
  induction ls as [|l ls IH]; intros i cur target; [apply CT_nil|].
  cbn [whole_lines]. destruct ((cur <=? i) && (i <? target)); [apply CT_chunk|]; apply IH.
Qed.

Lemma CT_if_one (b : bool) t m : CT (if b then [] else [EChunk (Some t) m]).
Proof. destruct b; [apply CT_nil|apply CT_one]. Qed.

Lemma sm_full_step_body_CT ls fl fc st m : CT (snd (sm_full_step_body ls fl fc st m)).
Proof.
  unfold sm_full_step_body. cbn zeta.
  repeat break_match; cbn [snd fst];
    repeat first [apply CT_app | apply CT_nil | apply CT_if_one | apply whole_lines_CT | apply CT_one].
Qed.

Lemma sm_full_step_CT ls fl fc st m : CT (snd (sm_full_step ls fl fc st m)).
Proof.
  unfold sm_full_step. destruct (_ || _); [apply CT_nil|apply sm_full_step_body_CT].
Qed.

Lemma sm_full_loop_CT ls fl fc : forall ms st, CT (snd (sm_full_loop ls fl fc st ms)).
Proof.
  induction ms as [|m ms IH]; intros st; [apply CT_nil|].
  cbn [sm_full_loop]. pose proof (sm_full_step_CT ls fl fc st m) as A.
  destruct (sm_full_step ls fl fc st m) as [st1 e1]. specialize (IH st1).
  destruct (sm_full_loop ls fl fc st1 ms) as [st2 e2]. cbn [snd] in *. apply CT_app; assumption.
Qed.

Lemma sm_stream_full_CT t m : CT (fst (sm_stream_full t m)).
Proof.
  unfold sm_stream_full. destruct (is_nil (split_lines t)); [apply CT_nil|].
  destruct (lines_end_info (split_lines t)) as [fl fc].
  pose proof (sm_full_loop_CT (split_lines t) fl fc (decode_mappings (sm_mappings m)) (mkF 1 0 false None)) as A.
  destruct (sm_full_loop (split_lines t) fl fc (mkF 1 0 false None) (decode_mappings (sm_mappings m))) as [st evs].
  pose proof (sm_full_step_CT (split_lines t) fl fc st (unmapped fl fc)) as B.
  destruct (sm_full_step (split_lines t) fl fc st (unmapped fl fc)) as [st' evs']. cbn [fst snd] in *.
  apply CT_app; [apply CT_nochunk; apply announce_sources_chunks|].
  apply CT_app; [apply CT_nochunk; apply announce_names_chunks|].
  apply CT_app; assumption.
Qed.

Lemma sm_stream_CT t m cols : CT (fst (sm_stream t m (mkOpts cols false))).
Proof.
  unfold sm_stream. cbn [columns final_source]. destruct cols.
  - apply sm_stream_full_CT.
  - apply (CT_Reass _ t). apply reassembles_iff. apply sm_stream_lines_full_reassembles.
Qed.

Lemma combined_stream_CT v m name orig im remove cols :
  CT (fst (combined_stream v m name orig im remove (mkOpts cols false))).
Proof. apply (CT_texts _ _ (combined_stream_texts v m name orig im remove _)). apply sm_stream_CT. Qed.

(* ------------------------------------------------------------------ *)
(* ReplaceSource: ANY replacements, ANY inner events                    *)
(* ------------------------------------------------------------------ *)
Lemma emit_content_CT ls st line gc mo name : CT (snd (emit_content st ls line gc mo name)).
Proof.
  destruct (emit_content st ls line gc mo name) as [[st' line'] evs] eqn:E.
  apply emit_content_text in E. destruct E as [_ E]. apply (CT_Reass _ _ E).
Qed.

Lemma loop_pre_CT st v r chunk line : CT (snd (loop_pre st v r chunk line)).
Proof. unfold loop_pre. destruct (rs_pos st <? r_start r); [apply CT_one|apply CT_nil]. Qed.

Lemma loop_name_CT st1 v1 r : CT (snd (loop_name st1 v1 r)).
Proof.
  destruct (loop_name st1 v1 r) as [[st2 ni] evn] eqn:E. apply loop_name_text in E.
  destruct E as [_ [E _]]. apply CT_silent. exact E.
Qed.

Lemma repl_loop_CT chunk gl end_pos : forall rest st v,
  CT (snd (fst (repl_loop rest st v chunk gl end_pos))).
Proof.
  induction rest as [|r rest IH]; intros st v; [apply CT_nil|].
  rewrite repl_loop_cons. destruct (negb (r_start r <? end_pos)); [apply CT_nil|]. cbn zeta.
  pose proof (loop_pre_CT st v r chunk (Z.of_N gl + rs_loff st)%Z) as A.
  destruct (loop_pre st v r chunk (Z.of_N gl + rs_loff st)%Z) as [[st1 v1] ev1].
  pose proof (loop_name_CT st1 v1 r) as B.
  destruct (loop_name st1 v1 r) as [[st2 ni] evn].
  pose proof (emit_content_CT (split_lines (r_content r)) st2 (Z.of_N gl + rs_loff st)%Z (v_gc v1) (v_orig v1) ni) as C.
  destruct (emit_content st2 (split_lines (r_content r)) (Z.of_N gl + rs_loff st)%Z (v_gc v1) (v_orig v1) ni)
    as [[st3 l3] ev2].
  cbn [fst snd] in A, B, C.
  destruct (0 <? _)%Z.
  - destruct (end_pos <=? new_rend st3 r).
    + cbn [fst snd]. repeat apply CT_app; assumption.
    + match goal with |- context [repl_loop rest ?a ?b chunk gl end_pos] =>
        pose proof (IH a b) as D; destruct (repl_loop rest a b chunk gl end_pos) as [[[st6 v3] ev3] early] end.
      cbn [fst snd] in *. repeat apply CT_app; assumption.
  - match goal with |- context [repl_loop rest ?a ?b chunk gl end_pos] =>
      pose proof (IH a b) as D; destruct (repl_loop rest a b chunk gl end_pos) as [[[st6 v3] ev3] early] end.
    cbn [fst snd] in *. repeat apply CT_app; assumption.
Qed.

Lemma replace_chunk_CT st chunk m : CT (snd (replace_chunk st chunk m)).
Proof.
  unfold replace_chunk. cbn zeta.
  match goal with |- CT (snd (match ?X with _ => _ end)) => destruct X as [[st1 v1] early] end.
  destruct early; [apply CT_nil|].
  pose proof (repl_loop_CT chunk (g_line m) (rs_pos st + len chunk) (rs_rest st1) st1 v1) as A.
  destruct (repl_loop (rs_rest st1) st1 v1 chunk (g_line m) (rs_pos st + len chunk)) as [[[st2 v2] ev2] early2].
  cbn [fst snd] in A. destruct early2; [exact A|]. cbn [snd].
  apply CT_app; [exact A|]. destruct (v_cpos v2 <? len chunk); [apply CT_one|apply CT_nil].
Qed.

Lemma replace_event_CT st e : CT (snd (replace_event st e)).
Proof.
  destruct e as [[t|] m|i n c|i n]; cbn [replace_event].
  - apply replace_chunk_CT.
  - apply CT_nil.
  - apply CT_silent. reflexivity.
  - destruct (find_text (rs_names st) n 0); apply CT_silent; reflexivity.
Qed.

Lemma replace_events_CT : forall evs st, CT (snd (replace_events st evs)).
Proof.
  induction evs as [|e evs IH]; intros st; [apply CT_nil|].
  cbn [replace_events]. pose proof (replace_event_CT st e) as A.
  destruct (replace_event st e) as [st1 o1]. specialize (IH st1).
  destruct (replace_events st1 evs) as [st2 o2]. cbn [snd] in *. apply CT_app; assumption.
Qed.

Lemma replace_stream_CT sorted ievs gi : CT (fst (replace_stream sorted ievs gi)).
Proof.
  unfold replace_stream. pose proof (replace_events_CT ievs (replace_init sorted)) as A.
  destruct (replace_events (replace_init sorted) ievs) as [st evs]. cbn [snd] in A.
  rewrite emit_remainder_content.
  match goal with |- context [emit_content ?a ?b ?c ?d ?e ?f] =>
    pose proof (emit_content_CT b a c d e f) as B; destruct (emit_content a b c d e f) as [[st' line'] evs'] end.
  cbn [fst snd] in *. apply CT_app; assumption.
Qed.

(* ------------------------------------------------------------------ *)
(* the tree induction                                                  *)
(* ------------------------------------------------------------------ *)
Definition ct_good (s : src) : Prop :=
  forall st cols, CT (fst (fst (stream st s (mkOpts cols false)))).

Lemma cfold_CT cols cs : Forall ct_good cs ->
  forall cst evs st, c_close cst = false -> CT evs ->
  let r := fold_left (cfold_step (mkOpts cols false)) cs (cst, evs, st) in
  c_close (fst (fst r)) = false /\ CT (snd (fst r)).
Proof.
  induction 1 as [|c cs Hc _ IH]; intros cst evs st HC HR.
  - cbn [fold_left fst snd]. auto.
  - cbn [fold_left]. rewrite cfold_step_eq.
    pose proof (Hc st cols) as A1.
    destruct (stream st c (mkOpts cols false)) as [[cevs gi] st1]. cbn [fst snd] in *.
    cbn [final_source].
    pose proof (concat_child_texts cst cevs gi HC) as [B1 B2].
    destruct (concat_child false cst cevs gi) as [cst' out]. cbn [fst snd] in *.
    apply (IH cst' (evs ++ out) st1 B1). apply CT_app; [exact HR|]. apply (CT_texts _ _ B2). exact A1.
Qed.

Lemma ct_good_all : forall s, ct_good s.
Proof.
  apply src_ind'.
  - intros b v st cols. cbn [stream fst final_source]. apply (CT_Reass _ _ (raw_stream_Reass _)).
  - intros v st cols. cbn [stream fst final_source]. apply (CT_Reass _ _ (raw_stream_Reass _)).
  - intros v st cols. cbn [stream fst final_source]. apply (CT_Reass _ _ (raw_stream_Reass _)).
  - intros v n st cols. cbn [stream fst]. apply (CT_Reass _ v). apply original_stream_good. reflexivity.
  - intros v n m o i r st cols. cbn [stream]. destruct i as [im|]; cbn [fst].
    + apply combined_stream_CT.
    + apply sm_stream_CT.
  - intros cs IH st cols. rewrite stream_concat_eq.
    pose proof (cfold_CT cols cs IH concat_init [] st eq_refl CT_nil) as [A1 A2]. cbn zeta in *.
    destruct cs as [|c [|c2 r]].
    + cbn [fold_left fst snd]. apply CT_nil.
    + inversion IH as [|? ? Hc _]. subst. apply Hc.
    + destruct (fold_left (cfold_step (mkOpts cols false)) (c :: c2 :: r) (concat_init, [], st))
        as [[cst evs] st']. cbn [fst snd] in *. exact A2.
  - intros i rs IH st cols. rewrite stream_replace_eq.
    destruct (stream st i (mkOpts cols false)) as [[ievs gi] st1]. cbn [fst]. apply replace_stream_CT.
  - intros id i IH st cols. rewrite stream_cached_eq.
    destruct (cache_get (store_get st id) (mkOpts cols false)) as [[m|]|].
    + cbn [fst]. apply sm_stream_CT.
    + cbn [fst final_source]. apply (CT_Reass _ _ (raw_stream_Reass _)).
    + pose proof (IH st cols) as A1.
      destruct (stream st i (mkOpts cols false)) as [[evs gi] st1]. cbn [fst snd] in *. exact A1.
Qed.

(* A4: every chunk delivered with final_source = false carries its text; all trees, all stores *)
Theorem all_stream_chunks_carry_text : forall s st cols t m,
  In (EChunk t m) (fst (fst (stream st s (mkOpts cols false)))) -> exists x, t = Some x.
Proof. intros s st cols. apply CT_in. apply ct_good_all. Qed.

(* the same through the checker's view: the chunk texts are all present *)
Corollary all_stream_all_some : forall s st cols,
  exists ts, all_some (chunk_texts (fst (fst (stream st s (mkOpts cols false))))) = Some ts.
Proof.
  intros s st cols. pose proof (ct_good_all s st cols) as H. unfold CT in H.
  induction (chunk_texts (fst (fst (stream st s (mkOpts cols false))))) as [|t l IH]; [exists []; reflexivity|].
  inversion H as [|? ? H1 H2]. subst. destruct t as [x|]; [|contradiction].
  destruct (IH H2) as [ts E]. exists (x :: ts). cbn [all_some]. rewrite E. reflexivity.
Qed.

(* final_source = true is different by design: chunks are text-less there *)
Example final_source_chunks_textless :
  chunk_texts (fst (fst (stream [] (SOriginal [97; 10; 98] [120]) (mkOpts false true)))) = [None; None].
Proof. vm_compute. reflexivity. Qed.

Print Assumptions all_stream_chunks_carry_text.
Print Assumptions all_stream_all_some.
