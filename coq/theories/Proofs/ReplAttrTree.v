(* ReplaceSource attribution (C06), R4: on source trees built from raw leaves, OriginalSource,
   SourceMapSource without inner map, ConcatSource and ReplaceSource (rshape / treeA / rsmall,
   Proofs/RStreamTree.v) the model's own observations pass clause 4 of the checker chk_C06. *)
From RS Require Import Base.Prelude Base.Text Rope.RopeModel Codec.Vlq Codec.CodecSpec
  Stream.Types Stream.Leaves Stream.Concat Stream.Replace Stream.Combined Stream.Tree
  Sem.Attr Checkers.ChkTree Checkers.ChkComp
  Proofs.RopeWf Proofs.StreamText Proofs.StreamLeaves Proofs.StreamMap Proofs.StreamConcat
  Proofs.StreamTree Proofs.WfStream Proofs.ReplaceSort Proofs.ReplaceText Proofs.RStreamText Proofs.RStreamPos
  Proofs.RStreamTree Proofs.AttrCodec Proofs.LawConcatAttr Proofs.LawWrappers
  Proofs.ReplAttrRef Proofs.ReplAttrStream Proofs.ReplAttrOrigin Proofs.ReplAttrCols Proofs.ReplAttrSms.
Require Import Lia List.

Local Open Scope N_scope.

Definition o10 : opts := mkOpts true false.

(* ------------------------------------------------------------------ *)
(* the streams of these trees are dense and carry no empty chunk        *)
(* ------------------------------------------------------------------ *)
Definition tidy (evs : list event) : Prop := dense evs 0 0 = true /\ no_empty_chunks evs = true.

Definition tidy_all (s : src) : Prop := forall st, tidy (evs_of (stream st s o10)).

Lemma kid_streams_tidy cs : Forall tidy_all cs -> forall st,
  Forall (fun k => tidy (fst k)) (fst (kid_streams st cs o10)).
Proof.
  induction 1 as [|c cs Hc _ IH]; intros st; [constructor|].
  cbn [kid_streams]. specialize (Hc st). unfold evs_of in Hc.
  destruct (stream st c o10) as [[evs gi] st1]. specialize (IH st1).
  destruct (kid_streams st1 cs o10) as [ks st2]. cbn [fst snd] in *.
  constructor; assumption.
Qed.

Definition ne_ot (ot : option text) : bool := match ot with Some (_ :: _) => true | _ => false end.

Lemma ne_tas evs : no_empty_chunks evs = forallb ne_ot (map fst (tas evs)).
Proof. unfold tas. rewrite ta_texts. reflexivity. Qed.

Lemma ne_flat_tas (kids : list (list event * (N * N))) :
  Forall (fun k => no_empty_chunks (fst k) = true) kids ->
  forallb ne_ot (map fst (flat_map (fun k => tas (fst k)) kids)) = true.
Proof.
  induction 1 as [|k kids Hk _ IH]; [reflexivity|].
  cbn [flat_map]. rewrite map_app, forallb_app. apply andb_true_iff. split; [|exact IH].
  rewrite <- Hk. symmetry. apply ne_tas.
Qed.

Lemma treeA_concat_inv cs c : treeA (SConcat cs) = true -> In c cs -> treeA c = true.
Proof.
  unfold treeA. cbn [tree_wf tree_ascii]. intros H Hc. apply andb_true_iff in H. destruct H as [H1 H2].
  rewrite forallb_forall in H1, H2. rewrite (H1 c Hc), (H2 c Hc). reflexivity.
Qed.

Theorem tidy_tree : forall s, rshape s = true -> treeA s = true -> rsmall s = true -> tidy_all s.
Proof.
  apply (src_ind' (fun s => rshape s = true -> treeA s = true -> rsmall s = true -> tidy_all s)).
  - intros b v _ _ _ st. unfold evs_of. cbn [stream fst o10 final_source].
    split; [apply raw_stream_dense|apply raw_stream_ne].
  - intros v _ _ _ st. unfold evs_of. cbn [stream fst o10 final_source].
    split; [apply raw_stream_dense|apply raw_stream_ne].
  - intros v _ _ _ st. unfold evs_of. cbn [stream fst o10 final_source].
    split; [apply raw_stream_dense|apply raw_stream_ne].
  - intros v n _ _ _ st. unfold evs_of. cbn [stream fst].
    split; [apply original_stream_dense|apply original_stream_ne].
  - intros v n m og i r Hsh HA _ st. cbn [rshape] in Hsh. destruct i as [im|]; [discriminate|].
    unfold treeA in HA. cbn [tree_wf tree_ascii] in HA. apply andb_true_iff in HA. destruct HA as [_ HA].
    rewrite andb_true_r in HA. apply andb_true_iff in HA. destruct HA as [HA _].
    apply andb_true_iff in HA. destruct HA as [HA Hmc]. apply andb_true_iff in HA. destruct HA as [HA _].
    apply andb_true_iff in HA. destruct HA as [Hav _].
    unfold evs_of. cbn [stream fst]. split; [apply sm_stream_dense; exact Hmc|].
    apply sm_stream_full_ne; assumption.
  - (* ConcatSource *)
    intros cs IH Hsh HA Hsm st. cbn [rshape rsmall] in Hsh, Hsm.
    assert (Hall : Forall tidy_all cs).
    { rewrite Forall_forall in *. rewrite forallb_forall in Hsh, Hsm. intros c Hc.
      apply IH; [exact Hc|apply Hsh; exact Hc|apply (treeA_concat_inv cs c HA Hc)|apply Hsm; exact Hc]. }
    destruct (Nat.eq_dec (length cs) 1) as [E|E].
    + destruct cs as [|c [|c2 r]]; try discriminate. inversion Hall as [|? ? Hc _]. apply Hc.
    + pose proof (kid_streams_tidy cs Hall st) as Hk.
      assert (Hkd : Forall (fun k => dense (fst k) 0 0 = true) (fst (kid_streams st cs (mkOpts true false)))).
      { eapply Forall_impl; [|exact Hk]. intros k [A _]. exact A. }
      assert (Hkn : Forall (fun k => no_empty_chunks (fst k) = true) (fst (kid_streams st cs (mkOpts true false)))).
      { eapply Forall_impl; [|exact Hk]. intros k [_ A]. exact A. }
      pose proof (concat_kids_ta st cs true E Hkd) as [A1 [A2 _]].
      split; [exact A2|]. rewrite ne_tas. unfold o10. rewrite A1. apply ne_flat_tas. exact Hkn.
  - (* ReplaceSource *)
    intros i rs IH Hsh HA Hsm st. cbn [rshape rsmall] in Hsh, Hsm.
    apply andb_true_iff in Hsm. destruct Hsm as [Hsm1 Hsm2].
    assert (HAi : treeA i = true /\ forallb (repl_ok (source i)) rs = true).
    { unfold treeA in *. cbn [tree_wf tree_ascii] in HA. apply andb_true_iff in HA. destruct HA as [Hw Ha].
      apply andb_true_iff in Hw. destruct Hw as [Hw1 Hw2]. apply andb_true_iff in Ha. destruct Ha as [Ha1 _].
      rewrite Hw1, Ha1. split; [reflexivity|exact Hw2]. }
    destruct HAi as [HAi Hrs].
    pose proof (IH Hsh HAi Hsm1 st) as [D N0].
    pose proof (rshape_stream_good st i true Hsh HAi Hsm1) as G.
    unfold evs_of in *. unfold o10 in *. rewrite stream_replace_eq.
    destruct (stream st i (mkOpts true false)) as [[ievs gi] st1]. cbn [fst snd] in *.
    destruct G as [G1 _].
    apply (replace_stream_dense rs ievs (source i) gi (repl_ok_ordered _ _ Hrs) G1 N0 D).
  - intros id i _ Hsh. discriminate.
Qed.

(* ------------------------------------------------------------------ *)
(* R4                                                                  *)
(* ------------------------------------------------------------------ *)
Theorem replace_tree_attr (st : store) (inner : src) (rs : list repl) :
  rshape inner = true -> treeA (SReplace inner rs) = true -> rsmall inner = true ->
  let comp10 := evs_of (stream st (SReplace inner rs) o10) in
  let k10 := evs_of (stream st inner o10) in
  bindings_consistent (contents_of_events k10) = true -> contents_small k10 = true ->
  attr_of_stream comp10 true = replace_reference k10 rs.
Proof.
  intros Hsh HA Hsm comp10 k10 Hb Hs.
  assert (HAi : treeA inner = true /\ forallb (repl_ok (source inner)) rs = true).
  { unfold treeA in *. cbn [tree_wf tree_ascii] in HA. apply andb_true_iff in HA. destruct HA as [Hw Ha].
    apply andb_true_iff in Hw. destruct Hw as [Hw1 Hw2]. apply andb_true_iff in Ha. destruct Ha as [Ha1 _].
    rewrite Hw1, Ha1. split; [reflexivity|exact Hw2]. }
  destruct HAi as [HAi Hrs].
  pose proof (tidy_tree inner Hsh HAi Hsm st) as [D N0].
  pose proof (rshape_stream_good st inner true Hsh HAi Hsm) as G.
  unfold comp10, k10, evs_of, o10 in *. rewrite stream_replace_eq.
  destruct (stream st inner (mkOpts true false)) as [[ievs gi] st1]. cbn [fst snd] in *.
  destruct G as [G1 _].
  apply (replace_attr_full rs ievs (source inner) gi (repl_ok_ordered _ _ Hrs) G1 N0 D Hb Hs).
Qed.

(* clause 4 of the checker never fails on the model's own observations *)
Theorem C06_replace_clause4 (st : store) (inner : src) (rs : list repl) (comp00 k00 : list event) :
  rshape inner = true -> treeA (SReplace inner rs) = true -> rsmall inner = true ->
  let comp10 := evs_of (stream st (SReplace inner rs) o10) in
  let k10 := evs_of (stream st inner o10) in
  contents_small k10 = true ->
  chk_C06 (SReplace inner rs) (source (SReplace inner rs)) comp10 comp00 [k10] [k00] <> 4.
Proof.
  intros Hsh HA Hsm comp10 k10 Hs. unfold chk_C06. rewrite HA. cbn [negb].
  cbn [flat_map]. rewrite app_nil_r.
  destruct (bindings_consistent (contents_of_events k10)) eqn:Hb; cbn [negb]; [|discriminate].
  pose proof (replace_tree_attr st inner rs Hsh HA Hsm Hb Hs) as E. fold comp10 k10 in E.
  rewrite E, (list_eqb_attr_refl attr_eqb attr_eqb_refl). cbn [negb].
  destruct (negb (contents_preserved comp10 [k10])); [discriminate|].
  destruct (negb _); discriminate.
Qed.

(* ------------------------------------------------------------------ *)
(* contents below 2^32 bytes, as a condition on the tree                *)
(* ------------------------------------------------------------------ *)
(* every file content announced anywhere in the tree: an OriginalSource's own text, the
   sourcesContent of a SourceMapSource's map *)
Fixpoint csmall (s : src) : bool :=
  match s with
  | SOriginal v _ => len v <? two32
  | SMapped _ _ m _ _ _ => forallb (fun c => len c <? two32) (sm_contents m)
  | SConcat cs => forallb csmall cs
  | SReplace inner _ => csmall inner
  | SCached _ inner => csmall inner
  | _ => true
  end.

Definition small_pair (p : text * option text) : Prop :=
  match snd p with Some c => len c < two32 | None => True end.

Definition csm (evs : list event) : Prop := forall p, In p (contents_of_events evs) -> small_pair p.

Lemma csm_contents_small evs : csm evs -> contents_small evs = true.
Proof.
  intros H. unfold contents_small. apply forallb_forall. intros p Hp. specialize (H p Hp).
  unfold small_pair in H. destruct p as [nm [c|]]; cbn [snd] in *; [apply N.ltb_lt; exact H|reflexivity].
Qed.

Lemma contents_chunk_ok ns nn evs : Forall (chunk_ok ns nn) evs -> contents_of_events evs = [].
Proof.
  induction 1 as [|e evs He _ IH]; [reflexivity|].
  destruct e; cbn [chunk_ok] in He; try contradiction. exact IH.
Qed.

Lemma csm_nil evs : contents_of_events evs = [] -> csm evs.
Proof. intros H p Hp. rewrite H in Hp. destruct Hp. Qed.

Lemma csm_app a b : csm a -> csm b -> csm (a ++ b).
Proof.
  intros Ha Hb p Hp. rewrite contents_of_events_app in Hp. apply in_app_or in Hp.
  destruct Hp as [Hp|Hp]; [apply Ha|apply Hb]; exact Hp.
Qed.

Lemma announce_sources_csm m : forallb (fun c => len c <? two32) (sm_contents m) = true ->
  forall srcs i, csm (announce_sources m srcs i).
Proof.
  intros Hm. induction srcs as [|s srcs IH]; intros i p Hp; [destruct Hp|].
  cbn [announce_sources contents_of_events] in Hp. destruct Hp as [<-|Hp]; [|apply (IH (i + 1) p Hp)].
  unfold small_pair. cbn [snd]. destruct (nth_opt (sm_contents m) i) as [c|] eqn:E; [|exact I].
  rewrite forallb_forall in Hm. apply N.ltb_lt. apply Hm. unfold nth_opt in E. eapply nth_error_In. exact E.
Qed.

Lemma announce_names_contents names : forall i, contents_of_events (announce_names names i) = [].
Proof. induction names as [|x names IH]; intros i; [reflexivity|]. cbn [announce_names contents_of_events]. apply IH. Qed.

Lemma sm_stream_full_csm t m : map_consistent t m = true ->
  forallb (fun c => len c <? two32) (sm_contents m) = true -> csm (fst (sm_stream_full t m)).
Proof.
  intros Hc Hm. pose proof (map_consistent_segs t m Hc) as Hs.
  set (ns := len (sm_sources m)) in *. set (nn := len (sm_names m)) in *.
  unfold sm_stream_full. destruct (is_nil (split_lines t)); [apply csm_nil; reflexivity|].
  destruct (lines_end_info (split_lines t)) as [fl fc].
  pose proof (sm_full_loop_ok ns nn (split_lines t) fl fc _ Hs (mkF 1 0 false None) I) as [A B].
  destruct (sm_full_loop (split_lines t) fl fc (mkF 1 0 false None) (decode_mappings (sm_mappings m)))
    as [st evs]. cbn [fst snd] in A, B.
  pose proof (sm_full_step_ok ns nn (split_lines t) fl fc st (unmapped fl fc) A I) as [_ D].
  destruct (sm_full_step (split_lines t) fl fc st (unmapped fl fc)) as [st' evs']. cbn [fst snd] in *.
  apply csm_app; [apply announce_sources_csm; exact Hm|].
  apply csm_app; [apply csm_nil; apply announce_names_contents|].
  apply csm_app; apply csm_nil; eapply contents_chunk_ok; eassumption.
Qed.

(* ConcatSource forwards source announcements of its children (first announcement of a name) *)
Lemma concat_events_contents final : forall evs st p,
  In p (contents_of_events (snd (concat_events final st evs))) -> In p (contents_of_events evs).
Proof.
  induction evs as [|e evs IH]; intros st p Hp; [exact Hp|].
  cbn [concat_events] in Hp.
  destruct (concat_event final st e) as [st1 o1] eqn:E1.
  specialize (IH st1 p). destruct (concat_events final st1 evs) as [st2 o2]. cbn [snd] in *.
  rewrite contents_of_events_app in Hp. apply in_app_or in Hp.
  destruct e as [t m|i nm c|i nm]; cbn [concat_event] in E1.
  - inversion E1. subst st1 o1. clear E1. destruct Hp as [Hp|Hp]; [|apply IH; exact Hp].
    exfalso. rewrite contents_of_events_app in Hp. apply in_app_or in Hp. destruct Hp as [Hp|Hp].
    + destruct (c_close st && negb ((g_line m =? 1) && (g_col m =? 0))); destruct Hp.
    + destruct (match m_orig m with Some o => lm_get (c_src_idx st) (o_src o) | None => None end);
        destruct (m_orig m); destruct Hp.
  - cbn [contents_of_events]. destruct (find_text (c_sources st) nm 0); inversion E1; subst st1 o1; clear E1.
    + destruct Hp as [[]|Hp]. right. apply IH. exact Hp.
    + destruct Hp as [[Hp|[]]|Hp]; [left; exact Hp|right; apply IH; exact Hp].
  - destruct (find_text (c_names st) nm 0); inversion E1; subst st1 o1; clear E1.
    + destruct Hp as [[]|Hp]. apply IH. exact Hp.
    + destruct Hp as [[]|Hp]. apply IH. exact Hp.
Qed.

Lemma concat_child_contents final st evs gi p :
  In p (contents_of_events (snd (concat_child final st evs gi))) -> In p (contents_of_events evs).
Proof.
  unfold concat_child. pose proof (concat_events_contents final evs (concat_child_start st) p) as K.
  destruct (concat_events final (concat_child_start st) evs) as [st1 o1]. cbn [snd] in K.
  unfold concat_child_end. cbn [snd]. rewrite contents_of_events_app. intros Hp.
  apply in_app_or in Hp. destruct Hp as [Hp|Hp]; [apply K; exact Hp|].
  destruct (c_close st1 && negb ((fst gi =? 1) && (snd gi =? 0))); destruct Hp.
Qed.

Lemma concat_fold_csm final : forall kids acc,
  csm (snd acc) -> Forall (fun k => csm (fst k)) kids -> csm (snd (concat_fold final kids acc)).
Proof.
  induction kids as [|k kids IH]; intros acc Ha Hk; [exact Ha|].
  inversion Hk as [|? ? Hk1 Hk2]. subst. rewrite concat_fold_cons. apply IH; [|exact Hk2].
  cbn [snd]. apply csm_app; [exact Ha|]. intros p Hp. apply Hk1.
  apply (concat_child_contents final (fst acc) (fst k) (snd k) p Hp).
Qed.

(* ReplaceSource forwards source announcements unchanged *)
Lemma emit_content_contents : forall ls st line gc mo name,
  contents_of_events (snd (emit_content st ls line gc mo name)) = [].
Proof.
  induction ls as [|cl ls IH]; intros st line gc mo name; [reflexivity|].
  cbn [emit_content]. destruct (is_nil ls && negb (ends_with_nl cl)).
  - match goal with |- context [emit_content ?a ls ?b ?c ?d ?e] =>
      specialize (IH a b c d e); destruct (emit_content a ls b c d e) as [[st2 line2] evs2] end.
    cbn [snd contents_of_events] in *. exact IH.
  - match goal with |- context [emit_content ?a ls ?b ?c ?d ?e] =>
      specialize (IH a b c d e); destruct (emit_content a ls b c d e) as [[st2 line2] evs2] end.
    cbn [snd contents_of_events] in *. exact IH.
Qed.

Lemma repl_loop_contents chunk gl end_pos : forall rest st v,
  contents_of_events (snd (fst (repl_loop rest st v chunk gl end_pos))) = [].
Proof.
  induction rest as [|r rest IH]; intros st v; [reflexivity|].
  rewrite repl_loop_cons. destruct (negb (r_start r <? end_pos)); [reflexivity|]. cbn zeta.
  destruct (loop_pre st v r chunk (Z.of_N gl + rs_loff st)%Z) as [[st1 v1] ev1] eqn:E1.
  assert (C1 : contents_of_events ev1 = []).
  { unfold loop_pre in E1. destruct (rs_pos st <? r_start r); inversion E1; reflexivity. }
  destruct (loop_name st1 v1 r) as [[st2 ni] evn] eqn:E2.
  assert (C2 : contents_of_events evn = []).
  { unfold loop_name in E2. destruct (r_name r); [destruct (v_orig v1); [destruct (find_text (rs_names st1) t 0)|]|];
      inversion E2; reflexivity. }
  pose proof (emit_content_contents (split_lines (r_content r)) st2 (Z.of_N gl + rs_loff st)%Z (v_gc v1) (v_orig v1) ni) as C3.
  destruct (emit_content st2 (split_lines (r_content r)) (Z.of_N gl + rs_loff st)%Z (v_gc v1) (v_orig v1) ni)
    as [[st3 l3] ev2]. cbn [snd] in C3.
  destruct (0 <? _)%Z.
  - destruct (end_pos <=? new_rend st3 r).
    + cbn [fst snd]. rewrite !contents_of_events_app, C1, C2, C3. reflexivity.
    + cbn zeta.
      match goal with |- context [repl_loop rest ?a ?b chunk gl end_pos] =>
        specialize (IH a b); destruct (repl_loop rest a b chunk gl end_pos) as [[[st6 v3] ev3] early3] end.
      cbn [fst snd] in *. rewrite !contents_of_events_app, C1, C2, C3, IH. reflexivity.
  - match goal with |- context [repl_loop rest ?a ?b chunk gl end_pos] =>
      specialize (IH a b); destruct (repl_loop rest a b chunk gl end_pos) as [[[st6 v3] ev3] early3] end.
    cbn [fst snd] in *. rewrite !contents_of_events_app, C1, C2, C3, IH. reflexivity.
Qed.

Lemma replace_chunk_contents st chunk m : contents_of_events (snd (replace_chunk st chunk m)) = [].
Proof.
  rewrite replace_chunk_eq. cbn zeta. destruct (chunk_entry st chunk m) as [[st1 v1] early].
  destruct early; [reflexivity|].
  pose proof (repl_loop_contents chunk (g_line m) (rs_pos st + len chunk) (rs_rest st1) st1 v1) as K.
  destruct (repl_loop (rs_rest st1) st1 v1 chunk (g_line m) (rs_pos st + len chunk)) as [[[st2 v2] ev2] early2].
  cbn [fst snd] in K. destruct early2; cbn [snd]; [exact K|].
  rewrite contents_of_events_app, K. destruct (v_cpos v2 <? len chunk); reflexivity.
Qed.

Lemma replace_events_contents : forall evs st,
  contents_of_events (snd (replace_events st evs)) = contents_of_events evs.
Proof.
  induction evs as [|e evs IH]; intros st; [reflexivity|].
  cbn [replace_events]. destruct (replace_event st e) as [st1 o1] eqn:E1.
  specialize (IH st1). destruct (replace_events st1 evs) as [st2 o2]. cbn [snd] in *.
  rewrite contents_of_events_app, IH.
  destruct e as [[t|] m|i nm c|i nm]; cbn [replace_event] in E1.
  - pose proof (replace_chunk_contents st t m) as K. rewrite E1 in K. cbn [snd] in K. rewrite K. reflexivity.
  - inversion E1. reflexivity.
  - inversion E1. reflexivity.
  - destruct (find_text (rs_names st) nm 0); inversion E1; reflexivity.
Qed.

Lemma replace_stream_contents sorted ievs gi :
  contents_of_events (fst (replace_stream sorted ievs gi)) = contents_of_events ievs.
Proof.
  unfold replace_stream. pose proof (replace_events_contents ievs (replace_init sorted)) as K.
  destruct (replace_events (replace_init sorted) ievs) as [st evs]. cbn [snd] in K.
  rewrite emit_remainder_content.
  pose proof (emit_content_contents (split_lines (concat (map r_content (rs_rest st)))) st
                (Z.of_N (fst gi) + rs_loff st)%Z (snd gi) None None) as K2.
  destruct (emit_content st (split_lines (concat (map r_content (rs_rest st))))
              (Z.of_N (fst gi) + rs_loff st)%Z (snd gi) None None) as [[st' line'] evs'].
  cbn [fst snd] in *. rewrite contents_of_events_app, K, K2, app_nil_r. reflexivity.
Qed.

Definition csm_all (s : src) : Prop := forall st, csm (evs_of (stream st s o10)).

Lemma kid_streams_csm cs : Forall csm_all cs -> forall st,
  Forall (fun k => csm (fst k)) (fst (kid_streams st cs o10)).
Proof.
  induction 1 as [|c cs Hc _ IH]; intros st; [constructor|].
  cbn [kid_streams]. specialize (Hc st). unfold evs_of in Hc.
  destruct (stream st c o10) as [[evs gi] st1]. specialize (IH st1).
  destruct (kid_streams st1 cs o10) as [ks st2]. cbn [fst snd] in *.
  constructor; assumption.
Qed.

Theorem csmall_tree : forall s, rshape s = true -> treeA s = true -> csmall s = true -> csm_all s.
Proof.
  apply (src_ind' (fun s => rshape s = true -> treeA s = true -> csmall s = true -> csm_all s)).
  - intros b v _ _ _ st. unfold evs_of. cbn [stream fst o10 final_source]. apply csm_nil.
    unfold raw_stream. cbn [fst]. apply (contents_chunk_ok 0 0). apply raw_chunks_ok.
  - intros v _ _ _ st. unfold evs_of. cbn [stream fst o10 final_source]. apply csm_nil.
    unfold raw_stream. cbn [fst]. apply (contents_chunk_ok 0 0). apply raw_chunks_ok.
  - intros v _ _ _ st. unfold evs_of. cbn [stream fst o10 final_source]. apply csm_nil.
    unfold raw_stream. cbn [fst]. apply (contents_chunk_ok 0 0). apply raw_chunks_ok.
  - intros v n _ _ Hc st. cbn [csmall] in Hc. apply N.ltb_lt in Hc.
    unfold evs_of. cbn [stream fst]. unfold original_stream. cbn [o10 columns final_source].
    pose proof (original_tokens_ok false (potential_tokens v) 1 0) as H.
    destruct (original_tokens (potential_tokens v) false 1 0) as [evs gi]. cbn [fst] in *.
    intros p Hp. cbn [contents_of_events] in Hp. rewrite (contents_chunk_ok _ _ _ H) in Hp.
    destruct Hp as [<-|[]]. exact Hc.
  - intros v n m og i r Hsh HA Hc st. cbn [rshape] in Hsh. destruct i as [im|]; [discriminate|].
    cbn [csmall] in Hc.
    unfold treeA in HA. cbn [tree_wf tree_ascii] in HA. apply andb_true_iff in HA. destruct HA as [_ HA].
    rewrite andb_true_r in HA. apply andb_true_iff in HA. destruct HA as [HA _].
    apply andb_true_iff in HA. destruct HA as [HA Hmc].
    unfold evs_of. cbn [stream fst]. apply sm_stream_full_csm; assumption.
  - (* ConcatSource *)
    intros cs IH Hsh HA Hc st. cbn [rshape csmall] in Hsh, Hc.
    assert (Hall : Forall csm_all cs).
    { rewrite Forall_forall in *. rewrite forallb_forall in Hsh, Hc. intros c Hin.
      apply IH; [exact Hin|apply Hsh; exact Hin|apply (treeA_concat_inv cs c HA Hin)|apply Hc; exact Hin]. }
    destruct (Nat.eq_dec (length cs) 1) as [E|E].
    + destruct cs as [|c [|c2 r]]; try discriminate. inversion Hall as [|? ? Hc1 _]. apply Hc1.
    + unfold evs_of. rewrite (stream_concat_fold st cs _ E). cbn [fst snd o10 final_source].
      apply concat_fold_csm; [apply csm_nil; reflexivity|]. apply (kid_streams_csm cs Hall st).
  - (* ReplaceSource *)
    intros i rs IH Hsh HA Hc st. cbn [rshape csmall] in Hsh, Hc.
    assert (HAi : treeA i = true).
    { unfold treeA in *. cbn [tree_wf tree_ascii] in HA. apply andb_true_iff in HA. destruct HA as [Hw Ha].
      apply andb_true_iff in Hw. destruct Hw as [Hw1 Hw2]. apply andb_true_iff in Ha. destruct Ha as [Ha1 _].
      rewrite Hw1, Ha1. reflexivity. }
    pose proof (IH Hsh HAi Hc st) as K. unfold evs_of, o10 in *. rewrite stream_replace_eq.
    destruct (stream st i (mkOpts true false)) as [[ievs gi] st1]. cbn [fst snd] in *.
    intros p Hp. rewrite replace_stream_contents in Hp. apply K. exact Hp.
  - intros id i _ Hsh. discriminate.
Qed.

(* R4 with conditions on the tree only *)
Corollary C06_replace_clause4_tree (st : store) (inner : src) (rs : list repl) (comp00 k00 : list event) :
  rshape inner = true -> treeA (SReplace inner rs) = true -> rsmall inner = true -> csmall inner = true ->
  let comp10 := evs_of (stream st (SReplace inner rs) o10) in
  let k10 := evs_of (stream st inner o10) in
  chk_C06 (SReplace inner rs) (source (SReplace inner rs)) comp10 comp00 [k10] [k00] <> 4.
Proof.
  intros Hsh HA Hsm Hc. apply C06_replace_clause4; try assumption.
  apply csm_contents_small. apply csmall_tree; [exact Hsh| |exact Hc].
  unfold treeA in *. cbn [tree_wf tree_ascii] in HA. apply andb_true_iff in HA. destruct HA as [Hw Ha].
  apply andb_true_iff in Hw. destruct Hw as [Hw1 Hw2]. apply andb_true_iff in Ha. destruct Ha as [Ha1 _].
  rewrite Hw1, Ha1. reflexivity.
Qed.

Print Assumptions tidy_tree.
Print Assumptions replace_tree_attr.
Print Assumptions C06_replace_clause4.
Print Assumptions csmall_tree.
Print Assumptions C06_replace_clause4_tree.
