(* C07, V1: String::from_utf8_lossy is the identity on valid UTF-8 and always
   produces valid UTF-8. *)
From Coq Require Import List NArith Bool Lia.
From RS Require Import Base.Prelude Base.Text Rope.RopeModel Proofs.RopeBasic Proofs.RopeWf
  Proofs.RopeUtf8.
Import ListNotations.

(* one decoding step: emitted bytes and number of bytes of the tail consumed *)
Definition lossy_step (b0 : N) (t1 : text) : text * nat :=
  if b0 <? 128 then ([b0], 0%nat)
  else
    let '(n, lo, hi) :=
      if in_range 194 223 b0 then (2, 128, 191)
      else if b0 =? 224 then (3, 160, 191)
      else if in_range 225 236 b0 || in_range 238 239 b0 then (3, 128, 191)
      else if b0 =? 237 then (3, 128, 159)
      else if b0 =? 240 then (4, 144, 191)
      else if in_range 241 243 b0 then (4, 128, 191)
      else if b0 =? 244 then (4, 128, 143)
      else (0, 0, 0) in
    if n =? 0 then (REPL, 0%nat)
    else
      match t1 with
      | b1 :: t2 =>
        if negb (in_range lo hi b1) then (REPL, 0%nat)
        else if n =? 2 then ([b0; b1], 1%nat)
        else
          match t2 with
          | b2 :: t3 =>
            if negb (in_range 128 191 b2) then (REPL, 1%nat)
            else if n =? 3 then ([b0; b1; b2], 2%nat)
            else
              match t3 with
              | b3 :: t4 =>
                if negb (in_range 128 191 b3) then (REPL, 2%nat)
                else ([b0; b1; b2; b3], 3%nat)
              | [] => (REPL, 2%nat)
              end
          | [] => (REPL, 1%nat)
          end
      | [] => (REPL, 0%nat)
      end.

Lemma lossy_fuel_nil (f : nat) : utf8_lossy_fuel f [] = [].
Proof. destruct f; reflexivity. Qed.

Ltac step_ifs :=
  repeat (cbv beta iota;
          try change (0 =? 0) with true; try change (2 =? 0) with false;
          try change (3 =? 0) with false; try change (4 =? 0) with false;
          try change (2 =? 2) with true; try change (3 =? 2) with false;
          try change (4 =? 2) with false; try change (3 =? 3) with true;
          try change (4 =? 3) with false;
          cbv beta iota;
          match goal with
          | |- context [if ?c then _ else _] => destruct c eqn:?
          end).

Lemma lossy_fuel_step (f : nat) (b0 : N) (t1 : text) :
  utf8_lossy_fuel (S f) (b0 :: t1) =
  fst (lossy_step b0 t1) ++ utf8_lossy_fuel f (skipn (snd (lossy_step b0 t1)) t1).
Proof.
  cbn [utf8_lossy_fuel]. unfold lossy_step.
  destruct t1 as [|b1 [|b2 [|b3 t4]]]; step_ifs; cbv beta iota;
    cbn [fst snd skipn app]; rewrite ?lossy_fuel_nil, ?app_nil_r; reflexivity.
Qed.

Ltac rew_conds :=
  repeat match goal with
         | E : negb ?c = false |- _ => apply negb_false_iff in E
         | E : negb ?c = true |- _ => apply negb_true_iff in E
         end;
  repeat match goal with E : ?c = _ |- context [?c] => rewrite E end.

Lemma lossy_step_valid (b0 : N) (t1 : text) :
  valid_utf8 (fst (lossy_step b0 t1)) = true.
Proof.
  unfold lossy_step.
  destruct t1 as [|b1 [|b2 [|b3 t4]]]; step_ifs; cbv beta iota; cbn [fst];
    try discriminate; try reflexivity;
    unfold valid_utf8; cbn [length valid_utf8_fuel]; rew_conds; cbn [andb orb]; reflexivity.
Qed.

Lemma lossy_step_char (b0 : N) (t1 : text) (k : nat) :
  char_len_ok b0 t1 = Some k -> lossy_step b0 t1 = (b0 :: firstn k t1, k).
Proof.
  unfold char_len_ok, lossy_step. intros H.
  destruct t1 as [|b1 [|b2 [|b3 t4]]]; destr_ifs_in H; try discriminate;
    injection H as H; subst k; cbv beta iota;
    repeat match goal with E : _ && _ = true |- _ => apply andb_prop in E; destruct E end;
    repeat match goal with E : ?c = _ |- context [?c] => rewrite E end;
    cbv beta iota; cbn [negb firstn];
    try change (2 =? 0) with false;
    try change (3 =? 0) with false; try change (4 =? 0) with false;
    try change (2 =? 2) with true; try change (3 =? 2) with false;
    try change (4 =? 2) with false; try change (3 =? 3) with true;
    try change (4 =? 3) with false; cbv beta iota;
    try reflexivity.
Qed.

(* ---------- V1, first part ---------- *)
Lemma utf8_lossy_fuel_valid (f : nat) (t : text) :
  valid_utf8_fuel f t = true -> utf8_lossy_fuel f t = t.
Proof.
  revert t. induction f as [|f IH]; intros t H.
  - destruct t; [reflexivity|discriminate].
  - destruct t as [|b0 t1]; [reflexivity|].
    rewrite valid_fuel_step in H.
    destruct (char_len_ok b0 t1) as [k|] eqn:E; [|discriminate].
    rewrite lossy_fuel_step, (lossy_step_char _ _ _ E). cbn [fst snd].
    rewrite (IH _ H). cbn [app]. rewrite firstn_skipn. reflexivity.
Qed.

Theorem utf8_lossy_valid (t : text) : valid_utf8 t = true -> utf8_lossy t = t.
Proof. apply utf8_lossy_fuel_valid. Qed.

(* ---------- V1, second part ---------- *)
Lemma utf8_lossy_fuel_uv (f : nat) (t : text) : uv (utf8_lossy_fuel f t).
Proof.
  revert t. induction f as [|f IH]; intros t; [constructor|].
  destruct t as [|b0 t1]; [constructor|].
  rewrite lossy_fuel_step. apply uv_app; [|apply IH].
  apply valid_uv. apply lossy_step_valid.
Qed.

Theorem utf8_lossy_is_valid (t : text) : valid_utf8 (utf8_lossy t) = true.
Proof. apply valid_uv. apply utf8_lossy_fuel_uv. Qed.

Print Assumptions utf8_lossy_valid.
Print Assumptions utf8_lossy_is_valid.
