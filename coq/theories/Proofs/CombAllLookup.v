(* C09, whole stream, part 6: the inner chunk that covers a character of the inner source
   carries the original position that the DECODED inner map gives for that character
   (`lookup_from`), and no segment of the inner map starts strictly inside it.  This links
   `last_at` on the inner chunks (what the row tables and the binary search compute,
   CombAllInner.v) with the reference of the checker, which looks the position up in
   `decode_mappings (sm_mappings inner)`. *)
From RS Require Import Base.Prelude Base.Text Rope.RopeModel Codec.Vlq Codec.CodecSpec
  Stream.Types Stream.Leaves Stream.Combined Sem.Attr Checkers.ChkTree Checkers.ChkCombined
  Proofs.CodecKept Proofs.StreamText Proofs.StreamLeaves Proofs.StreamMap Proofs.WfStream Proofs.AttrCodec Proofs.AttrSms
  Proofs.CombSearch Proofs.CombPass Proofs.CombRows Proofs.CombAllSpec Proofs.CombAllInner.
Require Import Lia List ZArith.

Local Open Scope N_scope.

(* ------------------------------------------------------------------ *)
(* no segment starts strictly inside a chunk of the full splitter       *)
(* ------------------------------------------------------------------ *)
Definition chunk_lo (ms : list mapping) (e : event) : Prop :=
  match e with
  | EChunk (Some x) mp =>
    forall sg, In sg ms -> g_line sg = g_line mp -> g_col sg < g_col mp + len x -> g_col sg <= g_col mp
  | _ => True
  end.

Lemma span_lo ls pre post p q e :
  Forall (fun sg => ple (mpos sg) p) pre -> Forall (fun sg => ple q (mpos sg)) post ->
  span_ok ls p q e -> chunk_lo (pre ++ post) e.
Proof.
  destruct e as [[x|] mp|i n c|i n]; cbn [span_ok chunk_lo]; try (intros; exact I).
  intros Hpre Hpost [_ Hk] sg Hin Hl Hc.
  destruct (N.eq_dec (len x) 0) as [E0|E0]; [lia|].
  apply in_app_or in Hin. destruct Hin as [Hin|Hin].
  - rewrite Forall_forall in Hpre. specialize (Hpre sg Hin).
    destruct (Hk 0 ltac:(lia)) as [A _]. unfold ple, mpos in *. cbn [fst snd] in *. lia.
  - rewrite Forall_forall in Hpost. specialize (Hpost sg Hin).
    destruct (Hk (len x - 1) ltac:(lia)) as [_ [B _]]. unfold ple, plt, mpos in *. cbn [fst snd] in *. lia.
Qed.

Section FullLo.
Variable ls : list text.
Hypothesis Hasc : Forall (fun l => ascii l = true) ls.
Hypothesis Hshape : lines_shape ls.
Hypothesis SOK : Forall starts_ok ls.
Variables fl fc : N.
Hypothesis Hend : fl <= len ls + 1 /\ (fl = len ls + 1 -> fc = 0).

Lemma step_lo pre post st m :
  Inv fl fc st -> ple (fpos st) (mpos m) -> Vb ls (g_line m) (g_col m) ->
  Forall (fun sg => ple (mpos sg) (fpos st)) pre -> Forall (fun sg => ple (mpos m) (mpos sg)) post ->
  Forall (chunk_lo (pre ++ post)) (snd (sm_full_step ls fl fc st m)).
Proof.
  intros HI Hle HV Hpre Hpost.
  pose proof (step_spec ls (Vb ls) SOK fl fc Hend st m HI Hle HV) as [_ [_ A3]].
  apply (tiles_span ls Hasc Hshape) in A3.
  eapply Forall_impl; [|exact A3]. intros e He. apply (span_lo ls pre post _ _ e Hpre Hpost He).
Qed.

Lemma loop_lo : forall rest pre st,
  Inv fl fc st -> ssorted (pre ++ rest) ->
  Forall (fun m => Vb ls (g_line m) (g_col m)) rest ->
  match rest with m :: _ => ple (fpos st) (mpos m) | [] => True end ->
  Forall (fun sg => ple (mpos sg) (fpos st)) pre ->
  Forall (chunk_lo (pre ++ rest)) (snd (sm_full_loop ls fl fc st rest)) /\
  Inv fl fc (fst (sm_full_loop ls fl fc st rest)) /\
  Forall (fun sg => ple (mpos sg) (fpos (fst (sm_full_loop ls fl fc st rest)))) (pre ++ rest).
Proof.
  induction rest as [|m rest IH]; intros pre st HI Hs HV Hle Hpre.
  - cbn [sm_full_loop fst snd]. rewrite app_nil_r. split; [constructor|]. split; assumption.
  - inversion HV as [|? ? HVm HVr]; subst. cbn [sm_full_loop].
    pose proof (step_spec ls (Vb ls) SOK fl fc Hend st m HI Hle HVm) as [A1 [A2 _]].
    assert (Hsuf : ssorted (m :: rest)) by (apply ssorted_app in Hs; apply Hs).
    assert (Hpost : Forall (fun sg => ple (mpos m) (mpos sg)) (m :: rest)).
    { constructor; [apply ple_refl|]. destruct Hsuf as [Hm _]. eapply Forall_impl; [|exact Hm].
      cbn beta. intros x Hx. apply pos_le_ple. exact Hx. }
    pose proof (step_lo pre (m :: rest) st m HI Hle HVm Hpre Hpost) as A3.
    destruct (sm_full_step ls fl fc st m) as [st1 e1]. cbn [fst snd] in *.
    assert (Hle' : match rest with m' :: _ => ple (fpos st1) (mpos m') | [] => True end).
    { destruct rest as [|m' rest']; [exact I|]. rewrite A1. inversion Hpost as [|? ? _ Q]. inversion Q. assumption. }
    assert (Hs' : ssorted ((pre ++ [m]) ++ rest)) by (rewrite <- app_assoc; exact Hs).
    assert (Hpre' : Forall (fun sg => ple (mpos sg) (fpos st1)) (pre ++ [m])).
    { rewrite A1. apply Forall_app. split; [|constructor; [apply ple_refl|constructor]].
      eapply Forall_impl; [|exact Hpre]. cbn beta. intros sg Hsg. eapply ple_trans; eassumption. }
    pose proof (IH (pre ++ [m]) st1 A2 Hs' HVr Hle' Hpre') as [B1 [B2 B3]].
    rewrite <- app_assoc in B1, B3. cbn [app] in B1, B3.
    destruct (sm_full_loop ls fl fc st1 rest) as [st2 e2]. cbn [fst snd] in *.
    split; [apply Forall_app; split; assumption|]. split; assumption.
Qed.

Lemma full_lo ms :
  sorted_by pos_le ms = true -> Forall (fun m => Vb ls (g_line m) (g_col m)) ms ->
  Forall (fun m => 1 <= g_line m) ms -> Vb ls fl fc -> len ls <= fl ->
  Forall (chunk_lo ms)
    (snd (sm_full_loop ls fl fc (mkF 1 0 false None) ms) ++
     snd (sm_full_step ls fl fc (fst (sm_full_loop ls fl fc (mkF 1 0 false None) ms)) (unmapped fl fc))).
Proof.
  intros Hs HV H1 HVe Hn.
  assert (HI0 : Inv fl fc (mkF 1 0 false None)) by (split; [cbn; lia|cbn; discriminate]).
  assert (Hh : match ms with m :: _ => ple (fpos (mkF 1 0 false None)) (mpos m) | [] => True end).
  { destruct ms as [|m ms']; [exact I|]. inversion H1. subst. unfold ple, fpos, mpos. cbn [fst snd f_line f_col]. lia. }
  pose proof (loop_lo ms [] _ HI0 (sorted_ssorted _ Hs) HV Hh (Forall_nil _)) as [A1 [A2 A3]]. cbn [app] in A1, A3.
  destruct (sm_full_loop ls fl fc (mkF 1 0 false None) ms) as [st evs]. cbn [fst snd] in *.
  apply Forall_app. split; [exact A1|].
  assert (Hdec : ple (fpos st) (fl, fc) \/ ~ ple (fpos st) (fl, fc)) by (unfold ple; cbn [fst snd]; lia).
  destruct Hdec as [Hle|Hnle].
  - pose proof (step_lo ms [] st (unmapped fl fc) A2 Hle HVe A3 (Forall_nil _)) as Q.
    rewrite app_nil_r in Q. exact Q.
  - assert (Ha : f_active st = false).
    { destruct (f_active st) eqn:Ea; [|reflexivity]. destruct A2 as [_ A2]. specialize (A2 Ea).
      exfalso. apply Hnle. unfold plt in A2. unfold ple. lia. }
    rewrite (inert_step ls fl fc st Hn Ha Hnle). constructor.
Qed.

End FullLo.

(* ------------------------------------------------------------------ *)
(* the chunk that covers a byte of a well positioned, reassembling stream *)
(* ------------------------------------------------------------------ *)
Lemma adv_take_nl_last : forall x j p, nl_last x -> j < len x -> adv p (take j x) = (fst p, snd p + j).
Proof.
  induction x as [|b x IH]; intros j p Hx Hj; [cbn in Hj; lia|]. destruct p as [l c]. cbn [fst snd].
  destruct (N.eq_dec j 0) as [->|Hne].
  - rewrite stake_0. unfold adv. cbn. f_equal. lia.
  - rewrite stake_pos by lia. rewrite slen_cons in Hj. destruct Hx as [H1 H2].
    assert (Hb : b <> 10).
    { intros E. specialize (H1 E). subst x. cbn in Hj. lia. }
    unfold adv. cbn [fst snd advance]. replace (b =? NL) with false by (symmetry; apply N.eqb_neq; exact Hb).
    change (advance l (c + 1) (take (j - 1) x)) with (adv (l, c + 1) (take (j - 1) x)).
    rewrite IH by (try assumption; lia). cbn [fst snd]. f_equal. lia.
Qed.

Lemma adv_plt_inside x j p : j < len x -> plt (adv p (take j x)) (adv p x).
Proof.
  intros Hj. rewrite <- (stake_drop j x) at 2. rewrite adv_app.
  destruct (drop j x) as [|b r] eqn:E.
  - apply (f_equal len) in E. rewrite slen_drop in E. cbn in E. lia.
  - destruct (adv p (take j x)) as [l c]. unfold adv. cbn [fst snd]. apply advance_plt.
Qed.

Lemma wp_later : forall evs q, WP evs q -> forall x mp, In (x, mp) (tchunks evs) -> ple q (mpos mp).
Proof.
  induction evs as [|e evs IH]; intros q Hw x mp Hin; [destruct Hin|].
  destruct e as [tx mp'|i n c|i n].
  - apply WP_chunk_inv in Hw. destruct Hw as [x' [-> [Hl [Hc Hw]]]]. cbn [tchunks] in Hin.
    destruct Hin as [Hin|Hin].
    + inversion Hin. subst. unfold ple, mpos. cbn [fst snd]. lia.
    + eapply ple_trans; [|apply (IH _ Hw x mp Hin)]. destruct q as [l c]. unfold adv. cbn [fst snd]. apply advance_ple.
  - apply (IH q Hw x mp Hin).
  - apply (IH q Hw x mp Hin).
Qed.

Lemma last_at_skip : forall chs L c best,
  (forall x mp, In (x, mp) chs -> plt (L, c) (mpos mp)) -> last_at chs L c best = best.
Proof.
  induction chs as [|[x mp] chs IH]; intros L c best H; [reflexivity|]. cbn [last_at].
  pose proof (H x mp (or_introl eq_refl)) as Q. unfold plt, mpos in Q. cbn [fst snd] in Q.
  replace ((g_line mp =? L) && (g_col mp <=? c)) with false.
  - apply IH. intros x' mp' Hin. apply (H x' mp' (or_intror Hin)).
  - symmetry. apply andb_false_iff. destruct (N.eq_dec (g_line mp) L) as [E|E].
    + right. apply N.leb_gt. lia.
    + left. apply N.eqb_neq. exact E.
Qed.

Definition nl_chunk (e : event) : Prop := match e with EChunk (Some x) _ => nl_last x | _ => True end.

Lemma stake_app_r {A} (a b : list A) (j : N) : len a <= j -> take j (a ++ b) = a ++ take (j - len a) b.
Proof.
  intros H. unfold take, len in *. rewrite firstn_app.
  rewrite firstn_all2 by lia. f_equal. f_equal. lia.
Qed.

Lemma cover_last : forall evs p t best L c j,
  Reass evs t -> WP evs p -> Forall nl_chunk evs -> j < len t -> adv p (take j t) = (L, c) ->
  exists x mp, last_at (tchunks evs) L c best = Some (x, mp) /\ In (EChunk (Some x) mp) evs /\
               g_line mp = L /\ g_col mp <= c /\ c < g_col mp + len x.
Proof.
  induction evs as [|e evs IH]; intros p t best L c j Hr Hw Hnl Hj Hpos.
  - apply Reass_nil_inv in Hr. subst t. cbn in Hj. lia.
  - inversion Hnl as [|? ? Hnle Hnl']; subst. destruct e as [tx mp|i n c0|i n].
    + apply Reass_chunk_inv in Hr. destruct Hr as [x [t' [-> [-> Hr]]]].
      apply WP_chunk_inv in Hw. destruct Hw as [x' [Ex [Hl [Hc Hw]]]]. inversion Ex. subst x'.
      cbn [nl_chunk] in Hnle. cbn [tchunks last_at].
      destruct (N.lt_ge_cases j (len x)) as [Hlt|Hge].
      * rewrite stake_app_l in Hpos by lia. rewrite (adv_take_nl_last x j p Hnle Hlt) in Hpos.
        inversion Hpos. subst L c.
        replace ((g_line mp =? fst p) && (g_col mp <=? snd p + j)) with true
          by (symmetry; apply andb_true_iff; split; [apply N.eqb_eq; exact Hl|apply N.leb_le; lia]).
        exists x, mp. split.
        { apply last_at_skip. intros x' mp' Hin. pose proof (wp_later _ _ Hw x' mp' Hin) as Q.
          eapply plt_ple_trans; [|exact Q].
          rewrite <- (adv_take_nl_last x j p Hnle Hlt). apply adv_plt_inside. exact Hlt. }
        split; [left; reflexivity|]. split; [exact Hl|]. split; lia.
      * rewrite stake_app_r in Hpos by exact Hge. rewrite adv_app in Hpos. rewrite slen_app in Hj.
        destruct (IH (adv p x) t'
                    (if (g_line mp =? L) && (g_col mp <=? c) then Some (x, mp) else best) L c (j - len x)
                    Hr Hw Hnl' ltac:(lia) Hpos) as (x1 & mp1 & E & Hin & Q).
        exists x1, mp1. split.
        { destruct ((g_line mp =? L) && (g_col mp <=? c)); exact E. }
        split; [right; exact Hin|exact Q].
    + destruct (IH p t best L c j Hr Hw Hnl' Hj Hpos) as (x1 & mp1 & E & Hin & Q).
      exists x1, mp1. split; [exact E|]. split; [right; exact Hin|exact Q].
    + destruct (IH p t best L c j Hr Hw Hnl' Hj Hpos) as (x1 & mp1 & E & Hin & Q).
      exists x1, mp1. split; [exact E|]. split; [right; exact Hin|exact Q].
Qed.

(* ------------------------------------------------------------------ *)
(* a character of a text, as an offset                                  *)
(* ------------------------------------------------------------------ *)
Lemma real_offset t L c : ascii t = true -> real (split_lines t) (L, c) ->
  exists j, j < len t /\ adv (1, 0) (take j t) = (L, c).
Proof.
  intros Ha [line [Hl Hc]]. cbn [fst snd] in Hl, Hc. set (ls := split_lines t) in *.
  pose proof (lines_ok_forall t (ascii_lines_ok t Ha)) as SOK. fold ls in SOK.
  pose proof (ascii_line ls L line (ascii_lines t Ha) Hl) as Hal.
  assert (HV : Vb ls L c).
  { intros line' Hl'. rewrite Hl in Hl'. inversion Hl'. subst line'. unfold blen.
    destruct (ends_with_nl line); lia. }
  pose proof (HV_ascii ls (split_lines_shape t) (ascii_lines t Ha) L c line HV Hl) as Hadv.
  pose proof (prefix_rest ls L c line SOK Hl) as Hrest.
  rewrite (substring_ascii_none line c Hal) in Hrest.
  assert (Hpre : exists r, t = prefix ls (L + 1, 0) ++ r).
  { rewrite prefix_line_start. replace (L + 1 - 1) with L by lia. exists (concat (drop L ls)).
    rewrite <- concat_app, stake_drop. symmetry. apply concat_split_lines. }
  destruct Hpre as [r Hr]. rewrite <- Hrest, <- app_assoc in Hr.
  exists (len (prefix ls (L, c))). split.
  - rewrite Hr. rewrite !slen_app, slen_drop. lia.
  - rewrite Hr. rewrite stake_app_l by lia. rewrite stake_all by lia. exact Hadv.
Qed.

Lemma lookup_from_some : forall ms l c best sg, lookup_from ms l c best = Some sg ->
  best = Some sg \/ (In sg ms /\ g_line sg = l /\ g_col sg <= c).
Proof.
  induction ms as [|m ms IH]; intros l c best sg H; [left; exact H|].
  cbn [lookup_from] in H. destruct ((g_line m =? l) && (g_col m <=? c)) eqn:E.
  - destruct (IH _ _ _ _ H) as [Q|[Q1 Q2]].
    + inversion Q. subst sg. right. apply andb_true_iff in E. destruct E as [E1 E2].
      apply N.eqb_eq in E1. apply N.leb_le in E2. split; [left; reflexivity|]. split; assumption.
    + right. split; [right; exact Q1|exact Q2].
  - destruct (IH _ _ _ _ H) as [Q|[Q1 Q2]]; [left; exact Q|right; split; [right; exact Q1|exact Q2]].
Qed.

(* ------------------------------------------------------------------ *)
(* the inner chunk covering a character and the decoded inner map       *)
(* ------------------------------------------------------------------ *)
Theorem inner_chunk_lookup (ot : text) (im : smap) (L c : N) :
  ascii ot = true -> map_consistent ot im = true -> real (split_lines ot) (L, c) ->
  exists x mpi,
    last_at (inner_chunks true im ot) L c None = Some (x, mpi) /\
    g_col mpi <= c /\
    m_orig mpi = lookup (decode_mappings (sm_mappings im)) L c /\
    forall sg, lookup_from (decode_mappings (sm_mappings im)) L c None = Some sg -> g_col sg <= g_col mpi.
Proof.
  intros Ha Hc Hreal. destruct (map_consistent_ok ot im Hc) as [Hs Hseg].
  set (ms := decode_mappings (sm_mappings im)) in *.
  pose proof (sm_stream_full_reassembles_ascii ot im Ha Hs) as Hr. apply reassembles_iff in Hr.
  pose proof (sm_stream_full_positioned_partial ot im Ha Hs Hseg) as Hw.
  change (WP (fst (sm_stream_full ot im)) (1, 0)) in Hw.
  unfold inner_chunks, sm_stream. cbn [columns final_source].
  unfold sm_stream_full in *. destruct (is_nil (split_lines ot)) eqn:Hnil.
  { exfalso. apply is_nil_true in Hnil. destruct Hreal as [line [Hl _]]. rewrite Hnil in Hl.
    unfold line_at in Hl. cbn [fst] in Hl. destruct (L =? 0); [discriminate|]. rewrite nth_opt_nil in Hl. discriminate. }
  destruct (lines_end_info (split_lines ot)) as [fl fc] eqn:Hinfo.
  pose proof (end_info_ok _ fl fc (is_nil_false _ Hnil) Hinfo) as [He HVe].
  assert (Hend : fl <= len (split_lines ot) + 1 /\ (fl = len (split_lines ot) + 1 -> fc = 0)).
  { destruct He as [[A B]|[A _]]; lia. }
  assert (Hn : len (split_lines ot) <= fl) by (destruct He as [[A B]|[A _]]; lia).
  pose proof (full_attr (split_lines ot) (ascii_lines ot Ha) (split_lines_shape ot)
                (lines_ok_forall ot (ascii_lines_ok ot Ha)) fl fc Hend He ms Hs
                (segs_ok_forall ot _ Hseg) (decode_lines_ge1 _) HVe Hn) as Hg.
  pose proof (full_lo (split_lines ot) (ascii_lines ot Ha) (split_lines_shape ot)
                (lines_ok_forall ot (ascii_lines_ok ot Ha)) fl fc Hend ms Hs
                (segs_ok_forall ot _ Hseg) (decode_lines_ge1 _) HVe Hn) as Hlo.
  fold ms in Hr, Hw |- *.
  destruct (sm_full_loop (split_lines ot) fl fc (mkF 1 0 false None) ms) as [st evs].
  cbn [fst snd] in *.
  destruct (sm_full_step (split_lines ot) fl fc st (unmapped fl fc)) as [st' evs']. cbn [fst snd] in *.
  apply Reass_nochunk_inv in Hr; [|apply announce_sources_chunks].
  apply Reass_nochunk_inv in Hr; [|apply announce_names_chunks].
  apply WP_nochunk_inv in Hw; [|apply announce_sources_chunks].
  apply WP_nochunk_inv in Hw; [|apply announce_names_chunks].
  rewrite !tchunks_app, (tchunks_nochunks _ (announce_sources_chunks _ _ _)),
    (tchunks_nochunks _ (announce_names_chunks _ _)). cbn [app].
  rewrite <- tchunks_app.
  destruct (real_offset ot L c Ha Hreal) as [j [Hj Hpos]].
  assert (Hnl : Forall nl_chunk (evs ++ evs')).
  { eapply Forall_impl; [|exact Hg]. intros [[x|] mp|? ? ?|? ?]; cbn [chunk_good nl_chunk]; tauto. }
  destruct (cover_last (evs ++ evs') (1, 0) ot None L c j Hr Hw Hnl Hj Hpos) as (x & mpi & E & Hin & Q1 & Q2 & Q3).
  exists x, mpi. split; [exact E|]. split; [exact Q2|].
  rewrite Forall_forall in Hg, Hlo. pose proof (Hg _ Hin) as G. pose proof (Hlo _ Hin) as Lo.
  cbn [chunk_good] in G. cbn [chunk_lo] in Lo. destruct G as [_ G].
  split.
  - specialize (G (c - g_col mpi) ltac:(lia)). rewrite Q1 in G. replace (g_col mpi + (c - g_col mpi)) with c in G by lia.
    symmetry. exact G.
  - intros sg Hsg.
    destruct (lookup_from_some _ _ _ _ _ Hsg) as [Q|(H1 & H2 & H3)]; [discriminate|].
    apply (Lo sg H1); [rewrite Q1; exact H2|lia].
Qed.

Print Assumptions inner_chunk_lookup.
