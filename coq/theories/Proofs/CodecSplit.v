(* Streaming view of the declarative spec: the hierarchical reading
   (split on ';', split on ',', vlq_ints, seg_of) is re-expressed as a walk
   over "segment ++ separator-started rest".  Generic in the per-segment
   function so that the same lemmas serve the format's `seg_of` and the
   relaxed `rseg_of` (which lets the 1-based original line reach 0, as the
   crate's encoder/decoder do). *)
From RS Require Import Base.Prelude Codec.Vlq Codec.CodecSpec.

Local Open Scope N_scope.

(* ---------- split_on ---------- *)
Lemma split_on_aux_cur (sep : N) : forall s cur,
  split_on_aux sep s cur =
  match split_on sep s with l0 :: ls => (rev cur ++ l0) :: ls | [] => [] end.
Proof.
  induction s as [|c s IH]; intros cur.
  - cbn [split_on split_on_aux rev app]. rewrite app_nil_r. reflexivity.
  - unfold split_on. cbn [split_on_aux]. destruct (c =? sep).
    + cbn [rev app]. rewrite app_nil_r. reflexivity.
    + rewrite (IH (c :: cur)), (IH [c]). destruct (split_on sep s) as [|l0 ls]; [reflexivity|].
      cbn [rev app]. rewrite <- app_assoc. reflexivity.
Qed.

Lemma split_on_nonnil (sep : N) : forall s, exists l0 ls, split_on sep s = l0 :: ls.
Proof.
  unfold split_on. intros s. generalize (@nil N). induction s as [|c s IH]; intros cur.
  - cbn [split_on_aux]. eauto.
  - cbn [split_on_aux]. destruct (c =? sep); eauto.
Qed.

Lemma split_on_nil sep : split_on sep [] = [[]].
Proof. reflexivity. Qed.

Lemma split_on_sep_cons sep b : split_on sep (sep :: b) = [] :: split_on sep b.
Proof. unfold split_on. cbn [split_on_aux]. rewrite N.eqb_refl. reflexivity. Qed.

Lemma split_on_nosep_app (sep : N) : forall a b,
  Forall (fun c => c <> sep) a ->
  split_on sep (a ++ b) =
  match split_on sep b with l0 :: ls => (a ++ l0) :: ls | [] => [] end.
Proof.
  induction a as [|x a IH]; intros b H.
  - cbn [app]. destruct (split_on sep b); reflexivity.
  - inversion H as [|? ? Hx Ha]; subst. rewrite <- app_comm_cons.
    unfold split_on at 1. cbn [split_on_aux].
    apply N.eqb_neq in Hx. rewrite Hx. rewrite split_on_aux_cur, (IH b Ha).
    destruct (split_on sep b); reflexivity.
Qed.

Lemma split_on_nosep (sep : N) a : Forall (fun c => c <> sep) a -> split_on sep a = [a].
Proof.
  intros H. rewrite <- (app_nil_r a) at 1. rewrite split_on_nosep_app by exact H.
  rewrite split_on_nil, app_nil_r. reflexivity.
Qed.

(* ---------- generic spec ---------- *)
Definition seg_fun := N -> Z -> run -> list Z -> option (Z * run * option mapping).

Definition ocons (om : option mapping) (ms : list mapping) : list mapping :=
  match om with Some m => m :: ms | None => ms end.

Definition nosep (s : text) : Prop := Forall (fun c => c <> 44 /\ c <> 59) s.
Definition sep_start (s : text) : Prop :=
  match s with [] => True | c :: _ => c = 44 \/ c = 59 end.

Section Generic.
Variable SEG : seg_fun.

Fixpoint gspec_line (gline : N) (gcol : Z) (r : run) (segs : list text)
  : option (run * list mapping) :=
  match segs with
  | [] => Some (r, [])
  | s :: segs' =>
    match vlq_ints s with
    | None => None
    | Some fs =>
      match SEG gline gcol r fs with
      | None => None
      | Some (c, r', om) =>
        match gspec_line gline c r' segs' with
        | None => None
        | Some (r'', ms) => Some (r'', match om with Some m => m :: ms | None => ms end)
        end
      end
    end
  end.

Fixpoint gspec_lines (gline : N) (r : run) (lines : list text) : option (list mapping) :=
  match lines with
  | [] => Some []
  | l :: lines' =>
    match gspec_line gline 0 r (split_on 44 l) with
    | None => None
    | Some (r', ms) =>
      match gspec_lines (gline + 1) r' lines' with
      | None => None
      | Some ms' => Some (ms ++ ms')
      end
    end
  end.

Definition gspec_decode (s : text) : option (list mapping) :=
  gspec_lines 1 run0 (split_on 59 s).

(* at a segment start, on line gl with running column gc *)
Definition gspec_from (gl : N) (gc : Z) (r : run) (s : text) : option (list mapping) :=
  match split_on 59 s with
  | [] => None
  | l :: ls =>
    match gspec_line gl gc r (split_on 44 l) with
    | None => None
    | Some (r', ms) =>
      match gspec_lines (gl + 1) r' ls with
      | None => None
      | Some ms' => Some (ms ++ ms')
      end
    end
  end.

(* just after a segment: the rest is empty or starts with a separator *)
Definition gspec_after (gl : N) (gc : Z) (r : run) (s : text) : option (list mapping) :=
  match s with
  | [] => Some []
  | c :: s' =>
    if c =? 44 then gspec_from gl gc r s'
    else if c =? 59 then gspec_from (gl + 1) 0 r s'
    else None
  end.

Lemma gspec_decode_from s : gspec_decode s = gspec_from 1 0 run0 s.
Proof.
  unfold gspec_decode, gspec_from. destruct (split_on_nonnil 59 s) as (l0 & ls & E).
  rewrite E. reflexivity.
Qed.

Lemma gspec_lines_from gl r s :
  gspec_lines gl r (split_on 59 s) = gspec_from gl 0 r s.
Proof.
  unfold gspec_from. destruct (split_on_nonnil 59 s) as (l0 & ls & E).
  rewrite E. reflexivity.
Qed.

Lemma gspec_after_comma gl gc r s : gspec_after gl gc r (44 :: s) = gspec_from gl gc r s.
Proof. reflexivity. Qed.

Lemma gspec_after_semi gl gc r s : gspec_after gl gc r (59 :: s) = gspec_from (gl + 1) 0 r s.
Proof. reflexivity. Qed.

Lemma nosep_ne44 s : nosep s -> Forall (fun c => c <> 44) s.
Proof. apply Forall_impl. intros c [H _]. exact H. Qed.
Lemma nosep_ne59 s : nosep s -> Forall (fun c => c <> 59) s.
Proof. apply Forall_impl. intros c [_ H]. exact H. Qed.

Lemma gspec_from_seg gl gc r seg rest :
  nosep seg -> sep_start rest ->
  gspec_from gl gc r (seg ++ rest) =
  match vlq_ints seg with
  | None => None
  | Some fs =>
    match SEG gl gc r fs with
    | None => None
    | Some (c, r', om) =>
      match gspec_after gl c r' rest with
      | None => None
      | Some ms => Some (ocons om ms)
      end
    end
  end.
Proof.
  intros Hns Hst. pose proof (nosep_ne44 seg Hns) as H44. pose proof (nosep_ne59 seg Hns) as H59.
  destruct rest as [|c rest'].
  - rewrite app_nil_r. unfold gspec_from. rewrite (split_on_nosep 59 seg H59).
    rewrite (split_on_nosep 44 seg H44). cbn [gspec_line gspec_lines gspec_after].
    destruct (vlq_ints seg) as [fs|]; [|reflexivity].
    destruct (SEG gl gc r fs) as [[[c r'] om]|]; [|reflexivity].
    rewrite app_nil_r. reflexivity.
  - cbn [sep_start] in Hst. destruct Hst as [-> | ->].
    + unfold gspec_after. change (44 =? 44) with true. cbv iota.
      unfold gspec_from.
      assert (Hs : Forall (fun c => c <> 59) (seg ++ [44])).
      { apply Forall_app. split; [exact H59|]. constructor; [discriminate|constructor]. }
      replace (seg ++ 44 :: rest') with ((seg ++ [44]) ++ rest')
        by (rewrite <- app_assoc; reflexivity).
      rewrite (split_on_nosep_app 59 _ rest' Hs).
      destruct (split_on_nonnil 59 rest') as (l0 & ls & E). rewrite E.
      rewrite <- app_assoc. cbn [app].
      rewrite (split_on_nosep_app 44 seg (44 :: l0) H44), split_on_sep_cons, app_nil_r.
      cbn [gspec_line].
      destruct (vlq_ints seg) as [fs|]; [|reflexivity].
      destruct (SEG gl gc r fs) as [[[c r'] om]|]; [|reflexivity].
      destruct (gspec_line gl c r' (split_on 44 l0)) as [[r'' ms]|]; [|reflexivity].
      destruct (gspec_lines (gl + 1) r'' ls) as [ms'|]; [|reflexivity].
      destruct om; reflexivity.
    + unfold gspec_after. change (59 =? 44) with false. change (59 =? 59) with true. cbv iota.
      unfold gspec_from at 1.
      rewrite (split_on_nosep_app 59 seg (59 :: rest') H59), split_on_sep_cons, app_nil_r.
      rewrite (split_on_nosep 44 seg H44). cbn [gspec_line].
      destruct (vlq_ints seg) as [fs|]; [|reflexivity].
      destruct (SEG gl gc r fs) as [[[c r'] om]|]; [|reflexivity].
      rewrite gspec_lines_from.
      destruct (gspec_from (gl + 1) 0 r' rest') as [ms'|]; [|reflexivity].
      destruct om; reflexivity.
Qed.

(* empty segment: SEG on [] is whatever SEG says; specialised below *)
End Generic.

(* ---------- the format's spec is the generic one at seg_of ---------- *)
Lemma spec_line_gspec : forall segs gl gc r,
  spec_line gl gc r segs = gspec_line seg_of gl gc r segs.
Proof.
  induction segs as [|s segs IH]; intros gl gc r; [reflexivity|].
  cbn [spec_line gspec_line]. destruct (vlq_ints s) as [fs|]; [|reflexivity].
  destruct (seg_of gl gc r fs) as [[[c r'] om]|]; [|reflexivity].
  rewrite IH. reflexivity.
Qed.

Lemma spec_lines_gspec : forall lines gl r,
  spec_lines gl r lines = gspec_lines seg_of gl r lines.
Proof.
  induction lines as [|l lines IH]; intros gl r; [reflexivity|].
  cbn [spec_lines gspec_lines]. rewrite spec_line_gspec.
  destruct (gspec_line seg_of gl 0 r (split_on 44 l)) as [[r' ms]|]; [|reflexivity].
  rewrite IH. reflexivity.
Qed.

Lemma spec_decode_gspec s : spec_decode s = gspec_decode seg_of s.
Proof. apply spec_lines_gspec. Qed.

(* ---------- relaxed segment reading ---------- *)
(* identical to seg_of except that the (1-based) original line may be 0 *)
Definition rseg_of (gline : N) (gcol : Z) (r : run) (fs : list Z)
  : option (Z * run * option mapping) :=
  match fs with
  | [] => Some (gcol, r, None)
  | [dc] =>
    let c := (gcol + dc)%Z in
    if nonneg c then Some (c, r, Some (mkMapping gline (Z.to_N c) None)) else None
  | [dc; ds; dl; dcol] =>
    let c := (gcol + dc)%Z in
    let r' := mkRun (r_src r + ds) (r_line r + dl) (r_col r + dcol) (r_name r) in
    if nonneg c && nonneg (r_src r') && nonneg (r_line r' + 1) && nonneg (r_col r') then
      Some (c, r', Some (mkMapping gline (Z.to_N c)
             (Some (mkOrig (Z.to_N (r_src r')) (Z.to_N (r_line r' + 1)) (Z.to_N (r_col r')) None))))
    else None
  | [dc; ds; dl; dcol; dn] =>
    let c := (gcol + dc)%Z in
    let r' := mkRun (r_src r + ds) (r_line r + dl) (r_col r + dcol) (r_name r + dn) in
    if nonneg c && nonneg (r_src r') && nonneg (r_line r' + 1) && nonneg (r_col r') && nonneg (r_name r') then
      Some (c, r', Some (mkMapping gline (Z.to_N c)
             (Some (mkOrig (Z.to_N (r_src r')) (Z.to_N (r_line r' + 1)) (Z.to_N (r_col r'))
                           (Some (Z.to_N (r_name r')))))))
    else None
  | _ => None
  end.

Definition rspec_decode : text -> option (list mapping) := gspec_decode rseg_of.

(* ---------- transfer between two segment functions ---------- *)
Section Transfer.
Variables SEG1 SEG2 : seg_fun.
Variable P : mapping -> Prop.
Hypothesis HSEG : forall gl gc r fs c r' om,
  SEG1 gl gc r fs = Some (c, r', om) ->
  (forall m, om = Some m -> P m) ->
  SEG2 gl gc r fs = Some (c, r', om).

Lemma gspec_line_transfer : forall segs gl gc r r' ms,
  gspec_line SEG1 gl gc r segs = Some (r', ms) -> Forall P ms ->
  gspec_line SEG2 gl gc r segs = Some (r', ms).
Proof.
  induction segs as [|s segs IH]; intros gl gc r r' ms H HP; [exact H|].
  cbn [gspec_line] in *. destruct (vlq_ints s) as [fs|]; [|discriminate].
  destruct (SEG1 gl gc r fs) as [[[c r1] om]|] eqn:E1; [|discriminate].
  destruct (gspec_line SEG1 gl c r1 segs) as [[r2 ms2]|] eqn:E2; [|discriminate].
  inversion H; subst; clear H.
  assert (HP2 : Forall P ms2).
  { destruct om; [inversion HP; assumption|exact HP]. }
  rewrite (HSEG _ _ _ _ _ _ _ E1).
  - rewrite (IH _ _ _ _ _ E2 HP2). reflexivity.
  - intros m ->. inversion HP; assumption.
Qed.

Lemma gspec_lines_transfer : forall lines gl r ms,
  gspec_lines SEG1 gl r lines = Some ms -> Forall P ms ->
  gspec_lines SEG2 gl r lines = Some ms.
Proof.
  induction lines as [|l lines IH]; intros gl r ms H HP; [exact H|].
  cbn [gspec_lines] in *.
  destruct (gspec_line SEG1 gl 0 r (split_on 44 l)) as [[r1 ms1]|] eqn:E1; [|discriminate].
  destruct (gspec_lines SEG1 (gl + 1) r1 lines) as [ms2|] eqn:E2; [|discriminate].
  inversion H; subst; clear H. apply Forall_app in HP. destruct HP as [HP1 HP2].
  rewrite (gspec_line_transfer _ _ _ _ _ _ E1 HP1), (IH _ _ _ E2 HP2). reflexivity.
Qed.

Lemma gspec_decode_transfer s ms :
  gspec_decode SEG1 s = Some ms -> Forall P ms -> gspec_decode SEG2 s = Some ms.
Proof. apply gspec_lines_transfer. Qed.
End Transfer.

(* original lines are 1-based in segment lists *)
Definition oline_pos (m : mapping) : Prop :=
  match m_orig m with Some o => 1 <= o_line o | None => True end.

Lemma seg_of_rseg_of gl gc r fs c r' om :
  seg_of gl gc r fs = Some (c, r', om) ->
  (forall m, om = Some m -> True) ->
  rseg_of gl gc r fs = Some (c, r', om).
Proof.
  intros H _. unfold seg_of, rseg_of in *.
  destruct fs as [|dc [|ds [|dl [|dcol [|dn [|? ?]]]]]]; try discriminate; try exact H;
    cbv zeta in *; cbn [r_src r_line r_col r_name] in *.
  - destruct (nonneg (gc + dc)) eqn:E0; [|discriminate].
    destruct (nonneg (r_src r + ds)) eqn:E1; [|discriminate].
    cbn [r_src r_line r_col r_name andb] in *.
    destruct (nonneg (r_line r + dl)) eqn:E2; [|discriminate].
    assert (E2' : nonneg (r_line r + dl + 1) = true)
      by (unfold nonneg in *; apply Z.leb_le; apply Z.leb_le in E2; lia).
    rewrite E2'. cbn [andb] in *.
    destruct (nonneg (r_col r + dcol)); [|discriminate].
    replace (Z.to_N (r_line r + dl + 1)) with (Z.to_N (r_line r + dl) + 1); [exact H|].
    unfold nonneg in E2. apply Z.leb_le in E2. lia.
  - destruct (nonneg (gc + dc)) eqn:E0; [|discriminate].
    destruct (nonneg (r_src r + ds)) eqn:E1; [|discriminate].
    cbn [r_src r_line r_col r_name andb] in *.
    destruct (nonneg (r_line r + dl)) eqn:E2; [|discriminate].
    assert (E2' : nonneg (r_line r + dl + 1) = true)
      by (unfold nonneg in *; apply Z.leb_le; apply Z.leb_le in E2; lia).
    rewrite E2'. cbn [andb] in *.
    destruct (nonneg (r_col r + dcol)); [|discriminate].
    replace (Z.to_N (r_line r + dl + 1)) with (Z.to_N (r_line r + dl) + 1); [exact H|].
    unfold nonneg in E2. apply Z.leb_le in E2. lia.
Qed.

Lemma rseg_of_seg_of gl gc r fs c r' om :
  rseg_of gl gc r fs = Some (c, r', om) ->
  (forall m, om = Some m -> oline_pos m) ->
  seg_of gl gc r fs = Some (c, r', om).
Proof.
  intros H HP. unfold seg_of, rseg_of in *.
  destruct fs as [|dc [|ds [|dl [|dcol [|dn [|? ?]]]]]]; try discriminate; try exact H;
    cbv zeta in *; cbn [r_src r_line r_col r_name] in *.
  - destruct (nonneg (gc + dc)) eqn:E0; [|discriminate].
    destruct (nonneg (r_src r + ds)) eqn:E1; [|discriminate].
    cbn [r_src r_line r_col r_name andb] in *.
    destruct (nonneg (r_line r + dl + 1)) eqn:E2; [|discriminate]. cbn [andb] in *.
    destruct (nonneg (r_col r + dcol)) eqn:E3; [|discriminate].
    inversion H; subst; clear H.
    specialize (HP _ eq_refl). unfold oline_pos in HP. cbn [m_orig o_line] in HP.
    unfold nonneg in E2. apply Z.leb_le in E2.
    assert (E2' : nonneg (r_line r + dl) = true) by (unfold nonneg; apply Z.leb_le; lia).
    rewrite E2'. cbn [andb].
    replace (Z.to_N (r_line r + dl + 1)) with (Z.to_N (r_line r + dl) + 1) by lia.
    reflexivity.
  - destruct (nonneg (gc + dc)) eqn:E0; [|discriminate].
    destruct (nonneg (r_src r + ds)) eqn:E1; [|discriminate].
    cbn [r_src r_line r_col r_name andb] in *.
    destruct (nonneg (r_line r + dl + 1)) eqn:E2; [|discriminate]. cbn [andb] in *.
    destruct (nonneg (r_col r + dcol)) eqn:E3; [|discriminate]. cbn [andb] in *.
    destruct (nonneg (r_name r + dn)) eqn:E4; [|discriminate].
    inversion H; subst; clear H.
    specialize (HP _ eq_refl). unfold oline_pos in HP. cbn [m_orig o_line] in HP.
    unfold nonneg in E2. apply Z.leb_le in E2.
    assert (E2' : nonneg (r_line r + dl) = true) by (unfold nonneg; apply Z.leb_le; lia).
    rewrite E2'. cbn [andb].
    replace (Z.to_N (r_line r + dl + 1)) with (Z.to_N (r_line r + dl) + 1) by lia.
    reflexivity.
Qed.

(* the format's spec refines the relaxed one ... *)
Lemma spec_decode_rspec s l : spec_decode s = Some l -> rspec_decode s = Some l.
Proof.
  intros H. rewrite spec_decode_gspec in H.
  apply (gspec_decode_transfer seg_of rseg_of (fun _ => True)).
  - intros; eapply seg_of_rseg_of; eauto.
  - exact H.
  - apply Forall_forall. intros; exact I.
Qed.

(* ... and they coincide when every original line of the result is >= 1 *)
Lemma rspec_decode_spec s l :
  rspec_decode s = Some l -> Forall oline_pos l -> spec_decode s = Some l.
Proof.
  intros H HP. rewrite spec_decode_gspec.
  apply (gspec_decode_transfer rseg_of seg_of oline_pos); try assumption.
  intros; eapply rseg_of_seg_of; eauto.
Qed.

Print Assumptions gspec_from_seg.
Print Assumptions spec_decode_rspec.
Print Assumptions rspec_decode_spec.
