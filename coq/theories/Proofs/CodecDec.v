(* T6: on every string of the v3 grammar whose segments fit in u32, the
   decoder returns exactly the segments the format defines.  Proved against
   the relaxed spec (CodecSplit.rspec_decode), which the format's spec refines,
   so that it also serves the encoder round trips with original line 0. *)
From RS Require Import Base.Prelude Codec.Vlq Codec.CodecSpec Checkers.ChkCodec
  Proofs.CodecAlphabet Proofs.CodecVlq Proofs.CodecSplit.

Local Open Scope N_scope.

(* ---------- raw VLQ values (before the sign/magnitude reading) ---------- *)
Fixpoint vlq_raw_aux (s : text) (acc : N) (k : N) (pending : bool) : option (list N) :=
  match s with
  | [] => if pending then None else Some []
  | c :: s' =>
    match b64_digit c with
    | None => None
    | Some d =>
      let acc' := acc + (d mod 32) * k in
      if 32 <=? d then vlq_raw_aux s' acc' (k * 32) true
      else
        match vlq_raw_aux s' 0 1 false with
        | Some r => Some (acc' :: r)
        | None => None
        end
    end
  end.

Lemma vlq_ints_raw : forall s acc k p,
  vlq_ints_aux s acc k p = option_map (map zz) (vlq_raw_aux s acc k p).
Proof.
  induction s as [|c s IH]; intros acc k p.
  - cbn. destruct p; reflexivity.
  - cbn [vlq_ints_aux vlq_raw_aux]. destruct (b64_digit c) as [d|]; [|reflexivity].
    destruct (32 <=? d); [apply IH|].
    rewrite (IH 0 1 false). destruct (vlq_raw_aux s 0 1 false); reflexivity.
Qed.

Lemma vlq_raw_pending : forall s acc k ts, vlq_raw_aux s acc k true = Some ts -> ts <> [].
Proof.
  induction s as [|c s IH]; intros acc k ts H; [discriminate|].
  cbn [vlq_raw_aux] in H. destruct (b64_digit c) as [d|]; [|discriminate].
  destruct (32 <=? d); [eapply IH; exact H|].
  destruct (vlq_raw_aux s 0 1 false); [|discriminate]. inversion H. discriminate.
Qed.

Lemma vlq_raw_digits : forall s acc k p ts,
  vlq_raw_aux s acc k p = Some ts -> Forall (fun c => b64_digit c <> None) s.
Proof.
  induction s as [|c s IH]; intros acc k p ts H; [constructor|].
  cbn [vlq_raw_aux] in H. destruct (b64_digit c) as [d|] eqn:Ed; [|discriminate].
  constructor; [rewrite Ed; discriminate|].
  destruct (32 <=? d); [eapply IH; exact H|].
  destruct (vlq_raw_aux s 0 1 false) eqn:E; [|discriminate]. eapply IH; exact E.
Qed.

(* ---------- the decoder on one byte ---------- *)
Definition apply_bits (d : dec) (bits : N) : dec :=
  let fv := final_value bits in
  let d1' := if d_pos d <? 5
    then dec_set d (d_pos d) (wrap32z (Z.of_N (dec_get d (d_pos d)) + fv))
    else d in
  mkDec (d0 d1') (d1 d1') (d2 d1') (d3 d1') (d4 d1') (d_pos d + 1) 0 0 (d_gline d).

Definition apply_one (d : dec) (t : N) : dec := apply_bits d (t mod two64).

Fixpoint apply_fields (d : dec) (ts : list N) : dec :=
  match ts with [] => d | t :: ts' => apply_fields (apply_one d t) ts' end.

Definition cont_state (d : dec) (bits : N) : dec :=
  mkDec (d0 d) (d1 d) (d2 d) (d3 d) (d4 d) (d_pos d) bits (d_vpos d + 5) (d_gline d).

Definition reset_c (d : dec) : dec :=
  mkDec (d0 d) (d1 d) (d2 d) (d3 d) (d4 d) 0 (d_val d) (d_vpos d) (d_gline d).
Definition reset_s (d : dec) : dec :=
  mkDec 0 (d1 d) (d2 d) (d3 d) (d4 d) 0 (d_val d) (d_vpos d) (d_gline d + 1).

Lemma digit_bits (dg : N) : dg < 64 ->
  (dg =? ERR) = false /\ (N.land dg COM =? 0) = true /\
  (N.land dg 32 =? 0) = (dg <? 32) /\ (32 <=? dg) = negb (dg <? 32).
Proof.
  intros H.
  assert (E : (negb (dg =? ERR) && (N.land dg COM =? 0)
               && Bool.eqb (N.land dg 32 =? 0) (dg <? 32)
               && Bool.eqb (32 <=? dg) (negb (dg <? 32))) = true).
  { apply (sweep64 (fun dg => negb (dg =? ERR) && (N.land dg COM =? 0)
               && Bool.eqb (N.land dg 32 =? 0) (dg <? 32)
               && Bool.eqb (32 <=? dg) (negb (dg <? 32))));
      [vm_compute; reflexivity|exact H]. }
  rewrite !andb_true_iff in E. destruct E as [[[E1 E2] E3] E4].
  apply negb_true_iff in E1. apply Bool.eqb_prop in E3. apply Bool.eqb_prop in E4.
  repeat split; assumption.
Qed.

Lemma dec_byte_digit d c dg :
  c < 256 -> b64_digit c = Some dg ->
  dec_byte d c =
  if dg <? 32 then (apply_bits d (acc_or (d_val d) dg (d_vpos d)), None)
  else (cont_state d (acc_or (d_val d) (dg mod 32) (d_vpos d)), None).
Proof.
  intros Hc Hd. pose proof (b64_val_digit c Hc) as Hv. rewrite Hd in Hv.
  destruct Hv as [Hv Hlt]. destruct (digit_bits dg Hlt) as (E1 & E2 & E3 & _).
  unfold dec_byte. rewrite Hv. cbv zeta. rewrite E1, E2. cbn [negb]. rewrite E3.
  rewrite land31. destruct (dg <? 32); reflexivity.
Qed.

Lemma dec_byte_comma d : dec_byte d 44 = (reset_c d, emit d (d_pos d)).
Proof. reflexivity. Qed.
Lemma dec_byte_semi d : dec_byte d 59 = (reset_s d, emit d (d_pos d)).
Proof. reflexivity. Qed.

Lemma apply_bits_indep a0 a1 a2 a3 a4 p v vp g v' vp' bits :
  apply_bits (mkDec a0 a1 a2 a3 a4 p v vp g) bits =
  apply_bits (mkDec a0 a1 a2 a3 a4 p v' vp' g) bits.
Proof.
  unfold apply_bits, dec_set, dec_get. cbn [d0 d1 d2 d3 d4 d_pos d_val d_vpos d_gline].
  destruct (p <? 5); [|reflexivity].
  destruct (p =? 0); [reflexivity|]. destruct (p =? 1); [reflexivity|].
  destruct (p =? 2); [reflexivity|]. destruct (p =? 3); reflexivity.
Qed.

Lemma apply_one_cont d bits t : apply_one (cont_state d bits) t = apply_one d t.
Proof. destruct d as [a0 a1 a2 a3 a4 p v vp g]. unfold apply_one, cont_state. cbn [d0 d1 d2 d3 d4 d_pos d_val d_vpos d_gline].
  apply apply_bits_indep. Qed.

(* ---------- the decoder on a run of digits ---------- *)
Fixpoint dec_seg (d : dec) (s : text) : dec :=
  match s with [] => d | c :: s' => dec_seg (fst (dec_byte d c)) s' end.

Lemma dec_run_seg : forall seg d rest,
  Forall (fun c => c < 256) seg -> Forall (fun c => b64_digit c <> None) seg ->
  dec_run d (seg ++ rest) = dec_run (dec_seg d seg) rest.
Proof.
  induction seg as [|c seg IH]; intros d rest Hb Hd; [reflexivity|].
  inversion Hb as [|? ? Hb1 Hb2]; subst. inversion Hd as [|? ? Hd1 Hd2]; subst.
  rewrite <- app_comm_cons. cbn [dec_run dec_seg].
  destruct (b64_digit c) as [dg|] eqn:Edg; [|contradiction].
  rewrite (dec_byte_digit d c dg Hb1 Edg).
  destruct (dg <? 32); cbn [fst]; apply IH; assumption.
Qed.

Lemma dec_seg_vlq : forall seg acc k pend ts d,
  vlq_raw_aux seg acc k pend = Some ts -> Forall (fun c => c < 256) seg ->
  k = 2 ^ d_vpos d -> acc < k -> d_val d = acc mod two64 ->
  dec_seg d seg = match ts with [] => d | t :: ts' => apply_fields (apply_one d t) ts' end.
Proof.
  induction seg as [|c seg IH]; intros acc k pend ts d H Hb Hk Hacc Hval.
  - cbn [vlq_raw_aux] in H. destruct pend; [discriminate|]. inversion H. reflexivity.
  - inversion Hb as [|? ? Hb1 Hb2]; subst.
    cbn [vlq_raw_aux] in H. destruct (b64_digit c) as [dg|] eqn:Edg; [|discriminate].
    cbn [dec_seg]. rewrite (dec_byte_digit d c dg Hb1 Edg).
    pose proof (b64_val_digit c Hb1) as Hv. rewrite Edg in Hv. destruct Hv as [_ Hlt].
    destruct (digit_bits dg Hlt) as (_ & _ & _ & E4). rewrite E4 in H.
    destruct (dg <? 32) eqn:E32; cbn [negb fst] in *.
    + apply N.ltb_lt in E32.
      destruct (vlq_raw_aux seg 0 1 false) as [r|] eqn:Er; [|discriminate].
      inversion H; subst ts; clear H.
      rewrite (N.mod_small dg 32) by exact E32.
      rewrite Hval, acc_or_spec by exact Hacc. fold (apply_one d (acc + dg * 2 ^ d_vpos d)).
      rewrite (IH 0 1 false r _ Er Hb2); try reflexivity.
      destruct r; reflexivity.
    + rewrite Hval, acc_or_spec by exact Hacc.
      assert (Hm : dg mod 32 < 32) by apply mod32_lt.
      set (x := dg mod 32) in *.
      rewrite (IH _ _ _ ts (cont_state d ((acc + x * 2 ^ d_vpos d) mod two64)) H Hb2).
      * pose proof (vlq_raw_pending _ _ _ _ H) as Hne.
        destruct ts as [|t ts']; [contradiction|]. rewrite apply_one_cont. reflexivity.
      * cbn [cont_state d_vpos]. rewrite N.pow_add_r. reflexivity.
      * assert (Hle : (x + 1) * 2 ^ d_vpos d <= 32 * 2 ^ d_vpos d)
          by (apply N.mul_le_mono_r; lia).
        lia.
      * reflexivity.
Qed.

Lemma dec_seg_fields seg ts d :
  vlq_raw_aux seg 0 1 false = Some ts -> Forall (fun c => c < 256) seg ->
  d_val d = 0 -> d_vpos d = 0 ->
  dec_seg d seg = apply_fields d ts.
Proof.
  intros H Hb Hv Hp. rewrite (dec_seg_vlq seg 0 1 false ts d H Hb).
  - destruct ts; reflexivity.
  - rewrite Hp. reflexivity.
  - lia.
  - rewrite Hv. reflexivity.
Qed.

(* ---------- slots after 1, 4, 5 fields ---------- *)
Definition w (cur t : N) : N := wrap32z (Z.of_N cur + final_value (t mod two64)).

Lemma apply_fields_1 a0 a1 a2 a3 a4 v vp g t1 :
  apply_fields (mkDec a0 a1 a2 a3 a4 0 v vp g) [t1] =
  mkDec (w a0 t1) a1 a2 a3 a4 1 0 0 g.
Proof. reflexivity. Qed.

Lemma apply_fields_4 a0 a1 a2 a3 a4 v vp g t1 t2 t3 t4 :
  apply_fields (mkDec a0 a1 a2 a3 a4 0 v vp g) [t1; t2; t3; t4] =
  mkDec (w a0 t1) (w a1 t2) (w a2 t3) (w a3 t4) a4 4 0 0 g.
Proof. reflexivity. Qed.

Lemma apply_fields_5 a0 a1 a2 a3 a4 v vp g t1 t2 t3 t4 t5 :
  apply_fields (mkDec a0 a1 a2 a3 a4 0 v vp g) [t1; t2; t3; t4; t5] =
  mkDec (w a0 t1) (w a1 t2) (w a2 t3) (w a3 t4) (w a4 t5) 5 0 0 g.
Proof. reflexivity. Qed.

Lemma w_spec cur t (z : Z) :
  cur < two32 -> Z.of_N cur = z -> nonneg (z + zz t) = true -> Z.to_N (z + zz t) < two32 ->
  w cur t = Z.to_N (z + zz t).
Proof.
  intros Hc <- Hn Hlt. unfold nonneg in Hn. apply Z.leb_le in Hn.
  unfold w. apply wrap_final; [exact Hc|exact Hn|]. unfold two32 in *. lia.
Qed.

(* ---------- state correspondence ---------- *)
Record st_rel (d : dec) (gl : N) (gc : Z) (r : run) : Prop := mkStRel {
  sr_pos : d_pos d = 0; sr_val : d_val d = 0; sr_vpos : d_vpos d = 0; sr_gl : d_gline d = gl;
  sr_0 : Z.of_N (d0 d) = gc; sr_1 : Z.of_N (d1 d) = r_src r;
  sr_2 : Z.of_N (d2 d) = (r_line r + 1)%Z;
  sr_3 : Z.of_N (d3 d) = r_col r; sr_4 : Z.of_N (d4 d) = r_name r;
  sr_b0 : d0 d < two32; sr_b1 : d1 d < two32; sr_b2 : d2 d < two32;
  sr_b3 : d3 d < two32; sr_b4 : d4 d < two32 }.

Lemma u32_lt n : u32 n = true -> n < two32.
Proof. unfold u32. apply N.ltb_lt. Qed.

Lemma nonneg_id z : nonneg z = true -> Z.of_N (Z.to_N z) = z.
Proof. unfold nonneg. intros H. apply Z.leb_le in H. apply Z2N.id. exact H. Qed.

Lemma seg_rel d gl gc r ts c r' om :
  st_rel d gl gc r ->
  rseg_of gl gc r (map zz ts) = Some (c, r', om) ->
  (forall m, om = Some m -> mapping_u32 m = true) ->
  emit (apply_fields d ts) (d_pos (apply_fields d ts)) = om /\
  st_rel (reset_c (apply_fields d ts)) gl c r' /\
  st_rel (reset_s (apply_fields d ts)) (gl + 1) 0 r'.
Proof.
  intros [Hp Hv Hvp Hg H0 H1 H2 H3 H4 B0 B1 B2 B3 B4] H Hu.
  destruct d as [a0 a1 a2 a3 a4 p v vp g].
  cbn [d0 d1 d2 d3 d4 d_pos d_val d_vpos d_gline] in *. subst p v vp g.
  destruct ts as [|t1 [|t2 [|t3 [|t4 [|t5 [|t6 ts]]]]]]; cbn [map] in H; unfold rseg_of in H;
    try discriminate; cbv zeta in H; cbn [r_src r_line r_col r_name] in H.
  - injection H as Ec Er Eo; subst c r' om. cbn [apply_fields]. cbv zeta.
    split; [reflexivity|].
    split; constructor; cbn [reset_c reset_s d0 d1 d2 d3 d4 d_pos d_val d_vpos d_gline];
      try assumption; try reflexivity; unfold two32; lia.
  - destruct (nonneg (gc + zz t1)) eqn:N0; [|discriminate].
    injection H as Ec Er Eo; subst c r' om.
    specialize (Hu _ eq_refl). unfold mapping_u32 in Hu.
    cbn [g_line g_col m_orig] in Hu. rewrite !andb_true_iff in Hu.
    destruct Hu as [[_ U0] _]. apply u32_lt in U0.
    rewrite apply_fields_1. cbv zeta.
    rewrite (w_spec a0 t1 gc B0 H0 N0 U0).
    cbn [d_pos emit N.eqb Pos.eqb d0 d1 d2 d3 d4 d_gline].
    split; [reflexivity|].
    split; constructor; cbn [reset_c reset_s d0 d1 d2 d3 d4 d_pos d_val d_vpos d_gline];
      try assumption; try reflexivity; try (apply nonneg_id; exact N0); unfold two32; lia.
  - destruct (nonneg (gc + zz t1)) eqn:N0; [|discriminate].
    destruct (nonneg (r_src r + zz t2)) eqn:N1; [|discriminate].
    destruct (nonneg (r_line r + zz t3 + 1)) eqn:N2; [|discriminate].
    destruct (nonneg (r_col r + zz t4)) eqn:N3; [|discriminate].
    cbn [andb] in H. injection H as Ec Er Eo; subst c r' om.
    specialize (Hu _ eq_refl). unfold mapping_u32 in Hu.
    cbn [g_line g_col m_orig o_src o_line o_col o_name] in Hu. rewrite !andb_true_iff in Hu.
    destruct Hu as [[_ U0] [[[U1 U2] U3] _]].
    apply u32_lt in U0. apply u32_lt in U1. apply u32_lt in U2. apply u32_lt in U3.
    replace (r_line r + zz t3 + 1)%Z with (r_line r + 1 + zz t3)%Z in * by lia.
    rewrite apply_fields_4. cbv zeta.
    rewrite (w_spec a0 t1 gc B0 H0 N0 U0), (w_spec a1 t2 _ B1 H1 N1 U1),
      (w_spec a2 t3 _ B2 H2 N2 U2), (w_spec a3 t4 _ B3 H3 N3 U3).
    cbn [d_pos emit N.eqb Pos.eqb d0 d1 d2 d3 d4 d_gline].
    split; [reflexivity|].
    split; constructor; cbn [reset_c reset_s d0 d1 d2 d3 d4 d_pos d_val d_vpos d_gline r_src r_line r_col r_name];
      try assumption; try reflexivity;
      try (apply nonneg_id; assumption);
      try (rewrite nonneg_id by assumption; lia); unfold two32; lia.
  - destruct (nonneg (gc + zz t1)) eqn:N0; [|discriminate].
    destruct (nonneg (r_src r + zz t2)) eqn:N1; [|discriminate].
    destruct (nonneg (r_line r + zz t3 + 1)) eqn:N2; [|discriminate].
    destruct (nonneg (r_col r + zz t4)) eqn:N3; [|discriminate].
    destruct (nonneg (r_name r + zz t5)) eqn:N4; [|discriminate].
    cbn [andb] in H. injection H as Ec Er Eo; subst c r' om.
    specialize (Hu _ eq_refl). unfold mapping_u32 in Hu.
    cbn [g_line g_col m_orig o_src o_line o_col o_name] in Hu. rewrite !andb_true_iff in Hu.
    destruct Hu as [[_ U0] [[[U1 U2] U3] U4]].
    apply u32_lt in U0. apply u32_lt in U1. apply u32_lt in U2. apply u32_lt in U3.
    apply u32_lt in U4.
    replace (r_line r + zz t3 + 1)%Z with (r_line r + 1 + zz t3)%Z in * by lia.
    rewrite apply_fields_5. cbv zeta.
    rewrite (w_spec a0 t1 gc B0 H0 N0 U0), (w_spec a1 t2 _ B1 H1 N1 U1),
      (w_spec a2 t3 _ B2 H2 N2 U2), (w_spec a3 t4 _ B3 H3 N3 U3), (w_spec a4 t5 _ B4 H4 N4 U4).
    cbn [d_pos emit N.eqb Pos.eqb d0 d1 d2 d3 d4 d_gline].
    split; [reflexivity|].
    split; constructor; cbn [reset_c reset_s d0 d1 d2 d3 d4 d_pos d_val d_vpos d_gline r_src r_line r_col r_name];
      try assumption; try reflexivity;
      try (apply nonneg_id; assumption);
      try (rewrite nonneg_id by assumption; lia); unfold two32; lia.
Qed.

Lemma apply_fields_val : forall ts d,
  d_val d = 0 -> d_vpos d = 0 ->
  d_val (apply_fields d ts) = 0 /\ d_vpos (apply_fields d ts) = 0.
Proof.
  induction ts as [|t ts IH]; intros d Hv Hp; [split; assumption|].
  cbn [apply_fields]. apply IH; reflexivity.
Qed.

(* ---------- decomposition of a string ---------- *)
Lemma span_sep : forall s, exists seg rest, s = seg ++ rest /\ nosep seg /\ sep_start rest.
Proof.
  induction s as [|c s IH].
  - exists [], []. repeat split. constructor.
  - destruct (N.eq_dec c 44) as [E1|E1].
    { exists [], (c :: s). repeat split; [constructor|left; exact E1]. }
    destruct (N.eq_dec c 59) as [E2|E2].
    { exists [], (c :: s). repeat split; [constructor|right; exact E2]. }
    destruct IH as (seg & rest & -> & Hn & Hs).
    exists (c :: seg), rest. repeat split; [constructor; [split; assumption|exact Hn]|exact Hs].
Qed.

Lemma forallb_ocons (p : mapping -> bool) om ms :
  forallb p (ocons om ms) = true ->
  (forall m, om = Some m -> p m = true) /\ forallb p ms = true.
Proof.
  destruct om as [m|]; cbn [ocons forallb]; intros H.
  - apply andb_true_iff in H. destruct H as [H1 H2]. split; [|exact H2].
    intros m' E. inversion E; subst. exact H1.
  - split; [discriminate|exact H].
Qed.

(* ---------- main induction ---------- *)
Lemma dec_rspec : forall n s, (length s <= n)%nat ->
  forall gl gc r d l,
  Forall (fun c => c < 256) s ->
  gspec_from rseg_of gl gc r s = Some l -> forallb mapping_u32 l = true ->
  st_rel d gl gc r -> dec_run d s = l.
Proof.
  induction n as [|n IH]; intros s Hlen gl gc r d l Hb H Hu Hr.
  - destruct s; [|cbn in Hlen; lia].
    change (gspec_from rseg_of gl gc r []) with (Some (@nil mapping)) in H.
    inversion H; subst. cbn [dec_run]. rewrite (sr_pos _ _ _ _ Hr). reflexivity.
  - destruct (span_sep s) as (seg & rest & -> & Hns & Hst).
    apply Forall_app in Hb. destruct Hb as [Hb1 Hb2].
    rewrite (gspec_from_seg rseg_of _ _ _ _ _ Hns Hst) in H.
    unfold vlq_ints in H. rewrite vlq_ints_raw in H.
    destruct (vlq_raw_aux seg 0 1 false) as [ts|] eqn:Eraw; [|discriminate].
    cbn [option_map] in H.
    destruct (rseg_of gl gc r (map zz ts)) as [[[c r'] om]|] eqn:Eseg; [|discriminate].
    destruct (gspec_after rseg_of gl c r' rest) as [ms|] eqn:Eaft; [|discriminate].
    inversion H; subst l; clear H.
    apply forallb_ocons in Hu. destruct Hu as [Hu1 Hu2].
    rewrite (dec_run_seg seg d rest Hb1 (vlq_raw_digits _ _ _ _ _ Eraw)).
    rewrite (dec_seg_fields seg ts d Eraw Hb1 (sr_val _ _ _ _ Hr) (sr_vpos _ _ _ _ Hr)).
    destruct (seg_rel d gl gc r ts c r' om Hr Eseg Hu1) as (Hemit & Hrc & Hrs).
    set (d' := apply_fields d ts) in *.
    rewrite app_length in Hlen.
    destruct rest as [|c0 rest'].
    + cbn [gspec_after] in Eaft. inversion Eaft; subst ms.
      cbn [dec_run]. rewrite Hemit. destruct om; reflexivity.
    + pose proof (Forall_inv_tail Hb2) as Hb4. cbn [length] in Hlen.
      cbn [sep_start] in Hst. destruct Hst as [-> | ->].
      * rewrite gspec_after_comma in Eaft.
        cbn [dec_run]. rewrite dec_byte_comma, Hemit.
        rewrite (IH rest' ltac:(lia) gl c r' (reset_c d') ms Hb4 Eaft Hu2 Hrc).
        destruct om; reflexivity.
      * rewrite gspec_after_semi in Eaft.
        cbn [dec_run]. rewrite dec_byte_semi, Hemit.
        rewrite (IH rest' ltac:(lia) (gl + 1) 0%Z r' (reset_s d') ms Hb4 Eaft Hu2 Hrs).
        destruct om; reflexivity.
Qed.

Lemma st_rel_init : st_rel dec_init 1 0 run0.
Proof. constructor; reflexivity. Qed.

(* the decoder against the relaxed spec *)
Theorem decode_matches_rspec (s : text) (l : list mapping) :
  rspec_decode s = Some l -> forallb mapping_u32 l = true ->
  Forall (fun c => c < 256) s -> decode_mappings s = l.
Proof.
  intros H Hu Hb. unfold rspec_decode in H. rewrite gspec_decode_from in H.
  unfold decode_mappings.
  exact (dec_rspec (length s) s (le_n _) 1 0%Z run0 dec_init l Hb H Hu st_rel_init).
Qed.

(* T6 *)
Theorem decode_matches_spec (s : text) (l : list mapping) :
  spec_decode s = Some l -> forallb mapping_u32 l = true ->
  Forall (fun c => c < 256) s -> decode_mappings s = l.
Proof.
  intros H. apply decode_matches_rspec. apply spec_decode_rspec. exact H.
Qed.

Print Assumptions decode_matches_rspec.
Print Assumptions decode_matches_spec.
