(* C09, whole stream, part 1: the state after the outer map has announced the inner source.
   - the row table `b_lines` holds, line by line, exactly the text-carrying chunks of the
     inner stream (`line_rows`);
   - hence `find_inner` (the binary search) returns `last_at`: the last chunk of the inner
     stream that starts on the wanted line at or before the wanted column;
   - the other inner tables hold the inner map's sources, contents and names. *)
From RS Require Import Base.Prelude Base.Text Rope.RopeModel Codec.Vlq Codec.CodecSpec
  Stream.Types Stream.Leaves Stream.Combined Sem.Attr Checkers.ChkTree Checkers.ChkCombined
  Proofs.StreamText Proofs.StreamLeaves Proofs.StreamMap Proofs.WfStream Proofs.AttrCodec Proofs.AttrSms
  Proofs.CombSearch Proofs.CombPass Proofs.CombRows Proofs.CombReach Proofs.CombAllSpec.
Require Import Lia List ZArith.

Local Open Scope N_scope.

(* ------------------------------------------------------------------ *)
(* line tables read with a default                                     *)
(* ------------------------------------------------------------------ *)
Definition get_line (ls : list line_data) (i : N) : line_data :=
  match nth_opt ls i with Some x => x | None => ([], []) end.

Definition row_of (mp : mapping) : row :=
  match m_orig mp with
  | Some o => (Z.of_N (g_col mp), Z.of_N (o_src o), Z.of_N (o_line o), Z.of_N (o_col o), zopt (o_name o))
  | None => (Z.of_N (g_col mp), -1, -1, -1, -1)%Z
  end.

Lemma row_col_of mp : row_col (row_of mp) = Z.of_N (g_col mp).
Proof. unfold row_of. destruct (m_orig mp); reflexivity. Qed.

Definition on_line (L : N) (c : text * mapping) : bool := g_line (snd c) =? L.

Definition line_rows (chs : list (text * mapping)) (L : N) : line_data :=
  (map (fun c => row_of (snd c)) (filter (on_line L) chs), map fst (filter (on_line L) chs)).

Lemma get_line_app_repeat (ls : list line_data) n i : get_line (ls ++ repeat ([], []) n) i = get_line ls i.
Proof.
  unfold get_line, line_data in *. destruct (nth_opt (ls ++ repeat ([], []) n) i) as [x|] eqn:E.
  - apply nth_opt_app_cases in E. destruct E as [E|[E1 E2]]; [rewrite E; reflexivity|].
    apply nth_opt_repeat in E2. subst x. rewrite cs_nth_opt_none by exact E1. reflexivity.
  - destruct (nth_opt ls i) as [y|] eqn:E2; [|reflexivity].
    rewrite (nth_opt_app_some ls _ i y E2) in E. discriminate.
Qed.

Lemma get_line_insert d (ls : list line_data) k v i : k < len ls ->
  get_line (lm_insert d ls k v) i = if i =? k then v else get_line ls i.
Proof.
  intros Hk. unfold get_line, line_data in *. destruct (i =? k) eqn:E.
  - apply N.eqb_eq in E. subst i. change (nth_opt (lm_insert d ls k v) k) with (lm_get (lm_insert d ls k v) k).
    rewrite lm_get_insert_same. reflexivity.
  - apply N.eqb_neq in E. destruct (nth_opt ls i) as [x|] eqn:Ex.
    + change (nth_opt (lm_insert d ls k v) i) with (lm_get (lm_insert d ls k v) i).
      rewrite (lm_get_insert_other d ls k v i x E Ex). reflexivity.
    + rewrite cs_nth_opt_none; [reflexivity|]. rewrite lm_insert_len.
      destruct (N.le_gt_cases (len ls) i) as [H|H]; [lia|].
      destruct (cs_nth_opt_some ls i H) as [y Hy]. rewrite Hy in Ex. discriminate.
Qed.

Lemma get_line_push ls gl r ch i : 1 <= gl ->
  get_line (push_row ls gl r ch) i =
  if i =? gl - 1 then (fst (get_line ls i) ++ [r], snd (get_line ls i) ++ [ch]) else get_line ls i.
Proof.
  intros Hgl. unfold push_row.
  set (padded := ls ++ repeat ([], []) (N.to_nat (gl + 1) - length ls)).
  assert (Hlen : gl - 1 < len padded).
  { unfold padded, len. rewrite app_length, repeat_length. lia. }
  destruct (cs_nth_opt_some padded (gl - 1) Hlen) as [[rows0 chunks0] H0]. rewrite H0.
  rewrite (get_line_insert _ _ _ _ _ Hlen). unfold padded at 1. rewrite get_line_app_repeat.
  destruct (i =? gl - 1) eqn:E; [|reflexivity]. apply N.eqb_eq in E. subst i.
  assert (G : get_line ls (gl - 1) = (rows0, chunks0)).
  { rewrite <- (get_line_app_repeat ls (N.to_nat (gl + 1) - length ls)). fold padded.
    unfold get_line. rewrite H0. reflexivity. }
  rewrite G. reflexivity.
Qed.

(* ------------------------------------------------------------------ *)
(* the row table after the inner stream                                *)
(* ------------------------------------------------------------------ *)
Lemma line_rows_cons x mp chs L :
  line_rows ((x, mp) :: chs) L =
  if g_line mp =? L then (row_of mp :: fst (line_rows chs L), x :: snd (line_rows chs L))
  else line_rows chs L.
Proof.
  unfold line_rows. cbn [filter]. change (on_line L (x, mp)) with (g_line mp =? L).
  destruct (g_line mp =? L); reflexivity.
Qed.

Lemma inner_event_chunk_lines st x mp :
  b_lines (inner_event st (EChunk (Some x) mp)) = push_row (b_lines st) (g_line mp) (row_of mp) x.
Proof. cbn [inner_event b_lines]. unfold row_of. destruct (m_orig mp); reflexivity. Qed.

Lemma inner_fold_lines : forall evs st i,
  Forall (fun c : text * mapping => 1 <= g_line (snd c)) (tchunks evs) ->
  get_line (b_lines (fold_left inner_event evs st)) i =
  (fst (get_line (b_lines st) i) ++ fst (line_rows (tchunks evs) (i + 1)),
   snd (get_line (b_lines st) i) ++ snd (line_rows (tchunks evs) (i + 1))).
Proof.
  induction evs as [|e evs IH]; intros st i Hge.
  - cbn [fold_left tchunks line_rows filter map fst snd]. rewrite !app_nil_r.
    destruct (get_line (b_lines st) i); reflexivity.
  - cbn [fold_left]. destruct e as [[x|] mp|k s c|k n].
    + cbn [tchunks] in Hge. inversion Hge as [|? ? H1 H2]; subst. cbn [snd] in H1.
      rewrite (IH _ i H2), inner_event_chunk_lines, (get_line_push _ _ _ _ _ H1).
      cbn [tchunks]. rewrite line_rows_cons.
      destruct (i =? g_line mp - 1) eqn:E.
      * apply N.eqb_eq in E. replace (g_line mp =? i + 1) with true by (symmetry; apply N.eqb_eq; lia).
        cbn [fst snd]. rewrite <- !app_assoc. reflexivity.
      * apply N.eqb_neq in E. replace (g_line mp =? i + 1) with false by (symmetry; apply N.eqb_neq; lia).
        reflexivity.
    + cbn [tchunks] in Hge |- *. rewrite (IH _ i Hge). reflexivity.
    + cbn [tchunks] in Hge |- *. rewrite (IH _ i Hge). reflexivity.
    + cbn [tchunks] in Hge |- *. rewrite (IH _ i Hge). reflexivity.
Qed.

(* ------------------------------------------------------------------ *)
(* last_at and the partition point                                     *)
(* ------------------------------------------------------------------ *)
(* the last element of a list of chunks (all of one line) at or before column c *)
Fixpoint lastq (F : list (text * mapping)) (c : N) (best : option (text * mapping)) : option (text * mapping) :=
  match F with
  | [] => best
  | x :: F' => if g_col (snd x) <=? c then lastq F' c (Some x) else lastq F' c best
  end.

Lemma last_at_filter : forall chs L c best, last_at chs L c best = lastq (filter (on_line L) chs) c best.
Proof.
  induction chs as [|[x mp] chs IH]; intros L c best; [reflexivity|].
  cbn [last_at filter]. change (on_line L (x, mp)) with (g_line mp =? L).
  destruct (g_line mp =? L); cbn [andb lastq snd].
  - destruct (g_col mp <=? c); apply IH.
  - apply IH.
Qed.

Lemma lastq_app : forall a b c best, lastq (a ++ b) c best = lastq b c (lastq a c best).
Proof.
  induction a as [|x a IH]; intros b c best; [reflexivity|]. cbn [app lastq].
  destruct (g_col (snd x) <=? c); apply IH.
Qed.

Lemma lastq_none : forall F c best, Forall (fun x => c < g_col (snd x)) F -> lastq F c best = best.
Proof.
  induction F as [|x F IH]; intros c best H; [reflexivity|]. inversion H as [|? ? H1 H2]; subst.
  cbn [lastq]. replace (g_col (snd x) <=? c) with false by (symmetry; apply N.leb_gt; exact H1).
  apply IH. exact H2.
Qed.

Lemma lastq_all : forall F c best, Forall (fun x => g_col (snd x) <= c) F ->
  lastq F c best = match rev F with [] => best | x :: _ => Some x end.
Proof.
  induction F as [|x F IH]; intros c best H; [reflexivity|]. inversion H as [|? ? H1 H2]; subst.
  cbn [lastq]. replace (g_col (snd x) <=? c) with true by (symmetry; apply N.leb_le; exact H1).
  rewrite (IH c (Some x) H2). cbn [rev]. destruct (rev F) as [|y r]; reflexivity.
Qed.

Lemma rev_head_nth_last {A} (F : list A) : F <> [] ->
  match rev F with [] => None | x :: _ => Some x end = nth_opt F (len F - 1).
Proof.
  intros H. destruct (exists_last H) as [l' [y Hy]]. subst F. rewrite rev_app_distr. cbn [rev app].
  rewrite slen_app. change (len [y]) with 1. replace (len l' + 1 - 1) with (len l') by lia.
  rewrite nth_opt_app_last. reflexivity.
Qed.

Lemma nth_error_firstn_lt {A} : forall (n : nat) (l : list A) (i : nat), (i < n)%nat ->
  nth_error (firstn n l) i = nth_error l i.
Proof.
  induction n as [|n IH]; intros l i Hi; [lia|]. destruct l as [|x l]; [reflexivity|].
  destruct i as [|i]; [reflexivity|]. cbn [firstn nth_error]. apply IH. lia.
Qed.

Lemma nth_error_skipn_add {A} : forall (n : nat) (l : list A) (i : nat),
  nth_error (skipn n l) i = nth_error l (n + i).
Proof.
  induction n as [|n IH]; intros l i; [reflexivity|]. destruct l as [|x l].
  - cbn [skipn]. destruct i; reflexivity.
  - cbn [skipn Nat.add nth_error]. apply IH.
Qed.

Lemma take_drop_nth {A} (F : list A) (l : N) : 0 < l -> l <= len F ->
  nth_opt (take l F) (len (take l F) - 1) = nth_opt F (l - 1).
Proof.
  intros H0 Hl. rewrite slen_take, N.min_l by exact Hl.
  unfold nth_opt, take. rewrite nth_error_firstn_lt; [reflexivity|lia].
Qed.

Lemma Forall_nth_opt {A} (P : A -> Prop) (l : list A) :
  (forall i x, nth_opt l i = Some x -> P x) -> Forall P l.
Proof.
  intros H. apply Forall_forall. intros x Hx. apply In_nth_error in Hx. destruct Hx as [k Hk].
  apply (H (N.of_nat k) x). unfold nth_opt. rewrite Nat2N.id. exact Hk.
Qed.

Lemma nth_opt_take {A} (F : list A) (l i : N) x : nth_opt (take l F) i = Some x -> i < l /\ nth_opt F i = Some x.
Proof.
  intros H. pose proof (cs_nth_opt_lt _ _ _ H) as Hi. rewrite slen_take in Hi.
  split; [lia|]. unfold nth_opt, take in *. rewrite nth_error_firstn_lt in H; [exact H|lia].
Qed.

Lemma nth_opt_drop {A} (F : list A) (l i : N) : nth_opt (drop l F) i = nth_opt F (l + i).
Proof.
  unfold nth_opt, drop. rewrite nth_error_skipn_add. f_equal. lia.
Qed.

(* the answer of the search loop on the rows of a list of chunks of one line *)
Lemma lastq_partition F c l :
  partition_point (map (fun x => row_of (snd x)) F) (Z.of_N c) l ->
  lastq F c None = if l =? 0 then None else nth_opt F (l - 1).
Proof.
  intros [A [B C]]. unfold len in A. rewrite map_length in A. fold (len F) in A.
  rewrite <- (stake_drop l F) at 1. rewrite lastq_app.
  assert (Hd : Forall (fun x => c < g_col (snd x)) (drop l F)).
  { apply Forall_nth_opt. intros i x Hx. rewrite nth_opt_drop in Hx.
    assert (Hr : nth_opt (map (fun x => row_of (snd x)) F) (l + i) = Some (row_of (snd x))).
    { rewrite snth_map, Hx. reflexivity. }
    pose proof (C (l + i) _ ltac:(lia) Hr) as Q. rewrite row_col_of in Q. lia. }
  rewrite (lastq_none _ _ _ Hd).
  assert (Ht : Forall (fun x => g_col (snd x) <= c) (take l F)).
  { apply Forall_nth_opt. intros i x Hx. apply nth_opt_take in Hx. destruct Hx as [Hi Hx].
    assert (Hr : nth_opt (map (fun x => row_of (snd x)) F) i = Some (row_of (snd x))).
    { rewrite snth_map, Hx. reflexivity. }
    pose proof (B i _ Hi Hr) as Q. rewrite row_col_of in Q. lia. }
  rewrite (lastq_all _ _ _ Ht). destruct (l =? 0) eqn:E.
  - apply N.eqb_eq in E. subst l. rewrite stake_0. reflexivity.
  - apply N.eqb_neq in E. assert (Hne : take l F <> []).
    { intros Q. apply (f_equal len) in Q. rewrite slen_take, N.min_l in Q by exact A. cbn in Q. lia. }
    rewrite (rev_head_nth_last _ Hne). apply take_drop_nth; lia.
Qed.

(* find_inner, read through get_line *)
Lemma find_inner_get_line st line column :
  find_inner st line column =
  if (line <? 1)%Z then None
  else
    let '(rows, chunks) := get_line (b_lines st) (Z.to_N line - 1) in
    let l := bs_loop (S (length rows)) rows column 0 (len rows) in
    if l =? 0 then None
    else match nth_opt rows (l - 1), nth_opt chunks (l - 1) with
         | Some rw, Some ch => Some (rw, ch)
         | _, _ => None
         end.
Proof.
  unfold find_inner, get_line. destruct (line <? 1)%Z; [reflexivity|].
  destruct (nth_opt (b_lines st) (Z.to_N line - 1)) as [[rows chunks]|]; reflexivity.
Qed.

(* the search on a table that holds the chunks `chs` *)
Theorem find_inner_chunks st chs L c :
  (forall i, get_line (b_lines st) i = line_rows chs (i + 1)) ->
  (forall i, cols_sorted (fst (get_line (b_lines st) i))) ->
  Forall (fun x : text * mapping => 1 <= g_line (snd x)) chs ->
  find_inner st (Z.of_N L) (Z.of_N c) =
  match last_at chs L c None with Some (x, mp) => Some (row_of mp, x) | None => None end.
Proof.
  intros Htab Hsort Hge. rewrite find_inner_get_line, last_at_filter.
  destruct (Z.of_N L <? 1)%Z eqn:E0.
  - apply Z.ltb_lt in E0. assert (L = 0) by lia. subst L.
    assert (Hf : filter (on_line 0) chs = []).
    { clear Htab. induction chs as [|x chs IH]; [reflexivity|]. inversion Hge as [|? ? H1 H2]; subst.
      cbn [filter]. unfold on_line at 1. replace (g_line (snd x) =? 0) with false by (symmetry; apply N.eqb_neq; lia).
      apply IH. exact H2. }
    rewrite Hf. reflexivity.
  - apply Z.ltb_ge in E0. rewrite N2Z.id.
    specialize (Htab (L - 1)). specialize (Hsort (L - 1)). replace (L - 1 + 1) with L in Htab by lia.
    rewrite Htab in Hsort |- *. unfold line_rows in Hsort |- *. cbn [fst] in Hsort.
    set (F := filter (on_line L) chs) in *.
    pose proof (bs_loop_partition _ (Z.of_N c) (S (length (map (fun x => row_of (snd x)) F))) Hsort
                  (Nat.lt_succ_diag_r _)) as P.
    rewrite (lastq_partition F c _ P).
    set (l := bs_loop _ _ _ _ _) in *. destruct (l =? 0); [reflexivity|].
    rewrite !snth_map. destruct (nth_opt F (l - 1)) as [[x mp]|]; reflexivity.
Qed.

(* ------------------------------------------------------------------ *)
(* the inner tables                                                    *)
(* ------------------------------------------------------------------ *)
(* what the announcements of the inner map leave in the tables *)
Definition in_tables (st : bstate) (srcs : list (text * option text)) (names : list text) : Prop :=
  b_in_src_val st = srcs /\ b_in_contents st = map snd srcs /\
  b_in_src_idx st = map (fun _ => (-2)%Z) srcs /\
  b_in_name_val st = names /\ b_in_name_idx st = map (fun _ => (-2)%Z) names.

Definition src_pairs (im : smap) (srcs : list text) (i : N) : list (text * option text) :=
  map (fun e => match e with ESource _ s c => (s, c) | _ => ([], None) end) (announce_sources im srcs i).

Lemma inner_sources_tables im : forall srcs st S0 N0 i,
  in_tables st S0 N0 -> i = len S0 ->
  in_tables (fold_left inner_event (announce_sources im srcs i) st) (S0 ++ src_pairs im srcs i) N0.
Proof.
  induction srcs as [|s srcs IH]; intros st S0 N0 i H Hi.
  - cbn [announce_sources fold_left src_pairs map]. rewrite app_nil_r. exact H.
  - cbn [announce_sources fold_left]. unfold src_pairs. cbn [announce_sources map].
    change (S0 ++ (get_source im s, nth_opt (sm_contents im) i) :: map _ (announce_sources im srcs (i + 1)))
      with (S0 ++ (get_source im s, nth_opt (sm_contents im) i) :: src_pairs im srcs (i + 1)).
    replace (S0 ++ (get_source im s, nth_opt (sm_contents im) i) :: src_pairs im srcs (i + 1))
      with ((S0 ++ [(get_source im s, nth_opt (sm_contents im) i)]) ++ src_pairs im srcs (i + 1))
      by (rewrite <- app_assoc; reflexivity).
    apply IH; [|rewrite slen_app; change (len [_]) with 1; lia].
    destruct H as (A1 & A2 & A3 & A4 & A5). unfold in_tables. cbn [inner_event]. bsimp.
    rewrite A1, A2, A3, A4, A5. subst i.
    split; [apply lm_insert_at_len|]. split.
    { rewrite map_app. cbn [map snd]. rewrite <- (slen_map snd S0). apply lm_insert_at_len. }
    split.
    { rewrite map_app. cbn [map]. rewrite <- (slen_map (fun _ => (-2)%Z) S0). apply lm_insert_at_len. }
    split; reflexivity.
Qed.

Lemma inner_names_tables : forall ns st S0 N0 i,
  in_tables st S0 N0 -> i = len N0 ->
  in_tables (fold_left inner_event (announce_names ns i) st) S0 (N0 ++ ns).
Proof.
  induction ns as [|n ns IH]; intros st S0 N0 i H Hi.
  - cbn [announce_names fold_left]. rewrite app_nil_r. exact H.
  - cbn [announce_names fold_left].
    replace (N0 ++ n :: ns) with ((N0 ++ [n]) ++ ns) by (rewrite <- app_assoc; reflexivity).
    apply IH; [|rewrite slen_app; change (len [n]) with 1; lia].
    destruct H as (A1 & A2 & A3 & A4 & A5). unfold in_tables. cbn [inner_event]. bsimp.
    rewrite A1, A2, A3, A4, A5. subst i. split; [reflexivity|]. split; [reflexivity|]. split; [reflexivity|].
    split; [apply lm_insert_at_len|].
    rewrite map_app. cbn [map]. rewrite <- (slen_map (fun _ => (-2)%Z) N0). apply lm_insert_at_len.
Qed.

Lemma inner_chunks_tables : forall evs st S0 N0, only_chunks evs = true ->
  in_tables st S0 N0 -> in_tables (fold_left inner_event evs st) S0 N0.
Proof.
  induction evs as [|e evs IH]; intros st S0 N0 Hc H; [exact H|].
  cbn [only_chunks forallb] in Hc. apply andb_true_iff in Hc. destruct Hc as [H1 H2].
  cbn [fold_left]. apply IH; [exact H2|]. destruct e as [[x|] mp|? ? ?|? ?]; try discriminate; exact H.
Qed.

(* fields the inner stream never touches *)
Definition outer_same (st st' : bstate) : Prop :=
  b_sources st' = b_sources st /\ b_names st' = b_names st /\ b_src_idx st' = b_src_idx st /\
  b_name_idx st' = b_name_idx st /\ b_name_val st' = b_name_val st /\
  b_inner_index st' = b_inner_index st /\ b_inner_source st' = b_inner_source st.

Lemma inner_fold_outer_same : forall evs st, outer_same st (fold_left inner_event evs st).
Proof.
  induction evs as [|e evs IH]; intros st; [repeat split|]. cbn [fold_left].
  destruct (IH (inner_event st e)) as (A1 & A2 & A3 & A4 & A5 & A6 & A7).
  assert (H : outer_same st (inner_event st e)) by (destruct e as [[x|] mp|? ? ?|? ?]; repeat split).
  destruct H as (B1 & B2 & B3 & B4 & B5 & B6 & B7). repeat split; congruence.
Qed.

Lemma src_pairs_nth im : forall srcs i k,
  nth_opt (src_pairs im srcs i) k =
  match nth_opt srcs k with Some s => Some (get_source im s, nth_opt (sm_contents im) (i + k)) | None => None end.
Proof.
  induction srcs as [|s srcs IH]; intros i k.
  - unfold src_pairs. cbn [announce_sources map]. rewrite !nth_opt_nil. reflexivity.
  - unfold src_pairs. cbn [announce_sources map]. destruct (N.eq_dec k 0) as [->|Hk].
    + rewrite !snth_0, N.add_0_r. reflexivity.
    + rewrite !snth_pos by lia. fold (src_pairs im srcs (i + 1)). rewrite IH.
      replace (i + 1 + (k - 1)) with (i + k) by lia. reflexivity.
Qed.

Lemma src_pairs_len im srcs i : len (src_pairs im srcs i) = len srcs.
Proof.
  unfold src_pairs. rewrite slen_map. revert i. induction srcs as [|s srcs IH]; intros i; [reflexivity|].
  cbn [announce_sources]. rewrite !slen_cons, IH. reflexivity.
Qed.

(* ------------------------------------------------------------------ *)
(* the inner stream as a whole                                         *)
(* ------------------------------------------------------------------ *)
Definition inner_evs (cols : bool) (im : smap) (ot : text) : list event :=
  fst (sm_stream ot im (mkOpts cols false)).

Lemma tchunks_app a b : tchunks (a ++ b) = tchunks a ++ tchunks b.
Proof.
  induction a as [|e a IH]; [reflexivity|]. destruct e as [[x|] mp|? ? ?|? ?]; cbn [app tchunks]; rewrite IH; reflexivity.
Qed.

Lemma tchunks_nochunks a : chunks_of a = [] -> tchunks a = [].
Proof.
  induction a as [|e a IH]; [reflexivity|]. destruct e as [[x|] mp|? ? ?|? ?]; cbn [chunks_of tchunks]; try discriminate; exact IH.
Qed.

Lemma tchunks_lines_ge1 evs : Forall (fun e => match e with EChunk _ mp => 1 <= g_line mp | _ => True end) evs ->
  Forall (fun x : text * mapping => 1 <= g_line (snd x)) (tchunks evs).
Proof.
  induction 1 as [|e evs He _ IH]; [constructor|]. destruct e as [[x|] mp|? ? ?|? ?]; cbn [tchunks]; try exact IH.
  constructor; [exact He|exact IH].
Qed.

(* a well positioned stream starting on line 1 has all its chunks on lines >= 1 *)
Lemma wp_lines_ge1 : forall chs l c, 1 <= l -> well_positioned chs l c = true ->
  Forall (fun ch : option text * mapping => 1 <= g_line (snd ch)) chs.
Proof.
  induction chs as [|[[x|] mp] chs IH]; intros l c Hl H; [constructor| |discriminate].
  cbn [well_positioned] in H. apply andb_true_iff in H. destruct H as [H H3].
  apply andb_true_iff in H. destruct H as [H1 H2]. apply N.eqb_eq in H1.
  constructor; [cbn [snd]; lia|].
  pose proof (advance_line_ge l c x) as G. destruct (advance l c x) as [l' c']. cbn [fst] in G.
  apply (IH l' c'); [lia|exact H3].
Qed.

Lemma tchunks_of_chunks : forall evs,
  Forall (fun ch : option text * mapping => 1 <= g_line (snd ch)) (chunks_of evs) ->
  Forall (fun x : text * mapping => 1 <= g_line (snd x)) (tchunks evs).
Proof.
  induction evs as [|e evs IH]; intros H; [constructor|].
  destruct e as [[x|] mp|? ? ?|? ?]; cbn [chunks_of tchunks] in *.
  - inversion H; subst. constructor; [assumption|apply IH; assumption].
  - inversion H; subst. apply IH. assumption.
  - apply IH. exact H.
  - apply IH. exact H.
Qed.

Section Inner.
Variables (cols : bool) (im : smap) (ot : text).
Hypothesis Hasc : ascii ot = true.
Hypothesis Hcons : map_consistent ot im = true.

Let evs := inner_evs cols im ot.

Lemma inner_evs_ge1 : Forall (fun x : text * mapping => 1 <= g_line (snd x)) (tchunks evs).
Proof.
  apply tchunks_of_chunks. apply (wp_lines_ge1 _ 1 0); [lia|].
  apply inner_stream_positioned; assumption.
Qed.

(* the state reached from a state with empty inner tables *)
Theorem inner_state (st : bstate) :
  b_lines st = [] -> in_tables st [] [] ->
  let st' := fold_left inner_event evs st in
  outer_same st st' /\
  (forall L c, find_inner st' (Z.of_N L) (Z.of_N c) =
     match last_at (tchunks evs) L c None with Some (x, mp) => Some (row_of mp, x) | None => None end) /\
  (evs = [] /\ in_tables st' [] [] \/
   in_tables st' (src_pairs im (sm_sources im) 0) (if cols then sm_names im else [])).
Proof.
  intros Hb Ht st'. split; [apply inner_fold_outer_same|]. split.
  - intros L c. apply find_inner_chunks.
    + intros i. unfold st'. rewrite (inner_fold_lines evs st i inner_evs_ge1).
      unfold get_line at 1 2. rewrite Hb, nth_opt_nil. cbn [fst snd app].
      destruct (line_rows (tchunks evs) (i + 1)); reflexivity.
    + intros i. unfold get_line. destruct (nth_opt (b_lines st') i) as [[rows chunks]|] eqn:E.
      * cbn [fst]. apply (inner_rows_sorted evs st Hb (inner_stream_positioned ot im cols Hasc Hcons) i rows chunks E).
      * apply cols_sorted_nil.
    + apply inner_evs_ge1.
  - destruct (sm_stream_shape (fun _ => True) (fun _ => True) I I (fun _ _ => I) ot im (mkOpts cols false))
      as [E|[chunks [E Hch]]].
    { apply Forall_forall. intros; exact I. }
    + left. fold (inner_evs cols im ot) in E. fold evs in E. split; [exact E|]. unfold st'. rewrite E. exact Ht.
    + right. fold (inner_evs cols im ot) in E. fold evs in E. unfold st'. rewrite E, !fold_left_app.
      cbn [columns] in *.
      assert (Hoc : only_chunks chunks = true).
      { unfold only_chunks. apply forallb_forall. intros e He.
        assert (Q : chunkP (fun _ => True) e) by (destruct cols; rewrite Forall_forall in Hch; apply Hch; exact He).
        destruct e; [reflexivity|contradiction|contradiction]. }
      apply (inner_chunks_tables _ _ _ _ Hoc).
      apply (inner_names_tables _ _ _ [] 0); [|reflexivity].
      apply (inner_sources_tables im (sm_sources im) st [] [] 0 Ht eq_refl).
Qed.

End Inner.

Print Assumptions find_inner_chunks.
Print Assumptions inner_state.
