(* C13 over warm caches (J3), part 3: the law "a CachedSource around `a` behaves as `a`" with
   the STRICT comparison of chk_C13, all six clauses, on the model's own pair observations
   (api_pair: both sides after arbitrary observer histories).
   The contents clauses 5/6 need the domain condition the checker does not test
   (CompWarmLaws.cached_law_contents_counterexample): a file name determines its content,
   here `decl_consistent a`: the leaves of `a` declare (CompWarmContInv.decl) one content per
   file name, up to "absent = empty".
     C13_cached_warm           chk_C13 (SCached id a) a false (api_pair ..) = 0 *)
From RS Require Import Base.Prelude Base.Text Rope.RopeModel Codec.Vlq Codec.CodecSpec
  Stream.Types Stream.Leaves Stream.Concat Stream.Replace Stream.Combined Stream.Tree
  Api.ApiTree Sem.Attr Sem.HashEq Api.ApiHist Checkers.ChkTree Checkers.ChkHist Checkers.ChkCombined Checkers.ChkComp
  Proofs.StreamText Proofs.WfStream Proofs.AttrCodec Proofs.AttrSms Proofs.LawWrappers Proofs.RStreamTree
  Proofs.ColdCache Proofs.ColdCacheTree Proofs.BoundsPos
  Proofs.WarmTreeDefs Proofs.WarmTreeNodes Proofs.WarmTreeMain Proofs.WarmTreeHist
  Proofs.CompWarmLaws Proofs.CompWarmContBase Proofs.CompWarmContInv.
Require Import Lia List.
Import ListNotations.

Local Open Scope N_scope.

(* ------------------------------------------------------------------ *)
(* one name, one content                                                *)
(* ------------------------------------------------------------------ *)
Definition consistent (D : list (text * option text)) : Prop :=
  forall n c1 c2, In (n, c1) D -> In (n, c2) D -> ceq c1 c2.

Definition decl_consistent (a : src) : Prop := consistent (decl a).

(* decidable form *)
Fixpoint consistentb (D : list (text * option text)) : bool :=
  match D with
  | [] => true
  | (n, c) :: D' => forallb (fun p => negb (text_eqb (fst p) n) || content_eqv (snd p) c) D' && consistentb D'
  end.

Lemma consistentb_spec D : consistentb D = true -> consistent D.
Proof.
  induction D as [|[n c] D IH]; intros H n' c1 c2 H1 H2; [destruct H1|].
  cbn [consistentb] in H. apply andb_true_iff in H. destruct H as [Hf Hr]. rewrite forallb_forall in Hf.
  assert (K : forall c', In (n', c') D -> n' = n -> ceq c' c).
  { intros c' Hin ->. specialize (Hf (n, c') Hin). cbn [fst snd] in Hf. rewrite text_eqb_refl in Hf. exact Hf. }
  destruct H1 as [H1|H1], H2 as [H2|H2].
  - inversion H1. inversion H2. subst. apply ceq_refl.
  - inversion H1. subst. apply ceq_sym. apply (K c2 H2 eq_refl).
  - inversion H2. subst. apply (K c1 H1 eq_refl).
  - apply (IH Hr n' c1 c2 H1 H2).
Qed.

(* ------------------------------------------------------------------ *)
(* the contents clause from two tables over the same declarations       *)
(* ------------------------------------------------------------------ *)
Definition segs_in (v : option smap) : Prop :=
  match v with
  | Some m => Forall (seg_ok (len (sm_sources m)) (len (sm_names m))) (decode_mappings (sm_mappings m))
  | None => True
  end.

Lemma good_entry_segs_in s c v : good_entry s c v -> segs_in v.
Proof. intros [_ H]. destruct v as [m|]; [|exact I]. destruct H as [[_ [_ K]] _]. exact K. Qed.

Lemma in_none_map {A} (t : list A) (l : loc) : ~ In (Some l) (map (fun _ => @None loc) t).
Proof. intros H. apply in_map_iff in H. destruct H as [x [E _]]. discriminate. Qed.

Theorem contents_same D (x y : option smap) (t : text) (c : bool) :
  consistent D -> attr_of_map x t c = attr_of_map y t c ->
  tab_ok D x -> tab_ok D y -> segs_in x -> segs_in y ->
  referenced_contents_same x y t c = true.
Proof.
  intros HD Eq Tx Ty Sx Sy. unfold referenced_contents_same. apply forallb_forall. intros a Ha.
  destruct a as [l|]; [|reflexivity].
  pose proof Ha as Hb. rewrite Eq in Hb.
  destruct x as [mx|]; [|exfalso; apply (in_none_map t l Ha)].
  destruct y as [my|]; [|exfalso; apply (in_none_map t l Hb)].
  cbn [tab_ok segs_in] in *.
  destruct (content_of_file_ok D mx (l_file l) Tx (attr_of_map_file mx t c l Sx Ha)) as [cx [Dx Ex]].
  destruct (content_of_file_ok D my (l_file l) Ty (attr_of_map_file my t c l Sy Hb)) as [cy [Dy Ey]].
  apply content_same_ceq. apply (ceq_trans _ cx); [exact Ex|].
  apply (ceq_trans _ cy); [apply (HD _ _ _ Dx Dy)|apply ceq_sym; exact Ey].
Qed.

(* ------------------------------------------------------------------ *)
(* the two maps among the final answers of one side                     *)
(* ------------------------------------------------------------------ *)
Lemma final_maps (s : src) (st : store) :
  get_map (nth_ans (fst (run_hops st s final_ops)) 3) = fst (map_of st s true) /\
  get_map (nth_ans (fst (run_hops st s final_ops)) 4) = fst (map_of (snd (map_of st s true)) s false).
Proof.
  unfold final_ops. rewrite !run_hops_cons. cbn [fst].
  change (snd (run_hop st s OHash)) with st.
  change (snd (run_hop st s OSrc)) with st. change (snd (run_hop st s OBuf)) with st.
  rewrite !run_hop_map. cbn [fst snd]. unfold nth_ans. cbn [nth get_map]. split; reflexivity.
Qed.

Section Side.
Variable s : src.
Hypothesis Hd : ids_distinct s.
Hypothesis Hcl : cls s.

Lemma final_maps_ok (st : store) : InvC s st ->
  let m3 := get_map (nth_ans (fst (run_hops st s final_ops)) 3) in
  let m4 := get_map (nth_ans (fst (run_hops st s final_ops)) 4) in
  tab_ok (decl s) m3 /\ segs_in m3 /\ tab_ok (decl s) m4 /\ segs_in m4.
Proof.
  intros Hs. cbn zeta. destruct (final_maps s st) as [-> ->].
  destruct (map_invc s Hd Hcl st true Hs) as [T3 S3].
  destruct (map_invc s Hd Hcl _ false S3) as [T4 _].
  destruct (warm_all s Hd s (incl_refl _) Hcl) as [_ [_ M]].
  destruct (M st true (proj1 Hs)) as [G3 _]. destruct (M _ false (proj1 S3)) as [G4 _].
  split; [exact T3|]. split; [apply (good_entry_segs_in s true _ G3)|].
  split; [exact T4|apply (good_entry_segs_in s false _ G4)].
Qed.

End Side.

(* ------------------------------------------------------------------ *)
(* the law                                                              *)
(* ------------------------------------------------------------------ *)
Section Law.
Variable id : N.
Variable a : src.
Variables opsa opsb : list hop.
Hypothesis Hd : ids_distinct (SCached id a).
Hypothesis Hcl : cls a.
Hypothesis Hcons : decl_consistent a.

Local Notation A := (SCached id a).

Theorem C13_cached_warm : chk_C13 A a false (api_pair A opsa a opsb) = 0.
Proof.
  pose proof (Hda id a Hd) as Hd'. pose proof (HclA id a Hcl) as HclA'.
  destruct (pair_facts id a opsa opsb Hd Hcl) as [A1 [B1 [A2 [B2 M]]]].
  pose proof (M true) as M3. pose proof (M false) as M4. cbn iota in M3, M4.
  pose proof (final_maps_ok A Hd HclA' _ (hops_invc A Hd HclA' opsa [] (invc_empty A))) as [TA3 [SA3 [TA4 SA4]]].
  pose proof (final_maps_ok a Hd' Hcl _ (hops_invc a Hd' Hcl opsb [] (invc_empty a))) as [TB3 [SB3 [TB4 SB4]]].
  cbn zeta in *. change (decl A) with (decl a) in TA3, TA4.
  unfold chk_C13. rewrite (treeA_both id a Hcl), (k2_both id a Hcl). cbn [negb]. unfold obs_equiv_laws.
  unfold api_pair in *. cbn [po_a po_b] in *.
  rewrite A1, B1, text_eqb_refl. cbn [negb]. rewrite A2, B2, text_eqb_refl. cbn [negb].
  rewrite (contents_same (decl a) _ _ (source a) true Hcons M3 TA3 TB3 SA3 SB3).
  rewrite (contents_same (decl a) _ _ (source a) false Hcons M4 TA4 TB4 SA4 SB4).
  rewrite M3, (list_eqb_attr_refl attr_eqb attr_eqb_refl). cbn [negb].
  rewrite M4, (list_eqb_attr_refl attr_eqb_fl attr_eqb_fl_refl). reflexivity.
Qed.

End Law.

(* the hypotheses spelled out *)
Theorem C13_cached_warm_checker (id : N) (a : src) (opsa opsb : list hop) :
  ids_distinct (SCached id a) -> k2_shape a = false -> rshape (uncache a) = true -> treeA a = true ->
  tiny (uncache a) = true -> consistentb (decl a) = true ->
  chk_C13 (SCached id a) a false (api_pair (SCached id a) opsa a opsb) = 0.
Proof.
  intros H1 H2 H3 H4 H5 H6. apply C13_cached_warm; [exact H1|apply tiny_cls; assumption|].
  apply consistentb_spec. exact H6.
Qed.

(* ------------------------------------------------------------------ *)
(* tests                                                                *)
(* ------------------------------------------------------------------ *)
(* the counterexample of CompWarmLaws.v violates exactly the new hypothesis *)
Example law_k7_inconsistent : consistentb (decl law_k7) = false.
Proof. vm_compute. reflexivity. Qed.

(* an instance: the bundler's shape of WarmTreeHist.v, any two histories *)
Example law_w_tree_instance (opsa opsb : list hop) :
  chk_C13 (SCached 9 w_tree) w_tree false (api_pair (SCached 9 w_tree) opsa w_tree opsb) = 0.
Proof.
  apply C13_cached_warm_checker; try (vm_compute; reflexivity).
  apply ids_distinctb_spec. vm_compute. reflexivity.
Qed.

(* a K7-shaped subtree and a SourceMapSource whose first source has no content are fine as long as
   names determine contents *)
Definition law_sm2 : src :=
  SMapped [97; 98] [109] (mkSmap None [65; 65; 65; 65; 44; 67; 67; 65; 65] [[115; 49]; [115; 50]] [[]; [120]] [] None None)
          None None false.
Definition law_t2 : src :=
  SConcat [SCached 1 law_sm2; SCached 2 (SConcat [SOriginal [] [102]; SRaw false [120]]); SOriginal [] [102];
           SCached 3 (SOriginal [98; 10] [103])].

Example law_t2_instance (opsa opsb : list hop) :
  chk_C13 (SCached 9 law_t2) law_t2 false (api_pair (SCached 9 law_t2) opsa law_t2 opsb) = 0.
Proof.
  apply C13_cached_warm_checker; try (vm_compute; reflexivity).
  apply ids_distinctb_spec. vm_compute. reflexivity.
Qed.

Example law_t2_k7 : k7_shape law_t2 = true.
Proof. vm_compute. reflexivity. Qed.

Print Assumptions contents_same.
Print Assumptions final_maps_ok.
Print Assumptions C13_cached_warm.
Print Assumptions C13_cached_warm_checker.
Print Assumptions law_k7_inconsistent.
Print Assumptions law_w_tree_instance.
Print Assumptions law_t2_instance.
