(* The base64 tables of encoder.rs / decoder.rs invert each other and agree
   with the RFC 4648 alphabet used by the independent spec (finite sweeps,
   lifted from forallb over the complete domain). *)
From RS Require Import Base.Prelude Codec.Vlq Codec.CodecSpec.

Definition upto (n : nat) : list N := map N.of_nat (seq 0 n).

Lemma in_upto (n : nat) (x : N) : x < N.of_nat n -> In x (upto n).
Proof.
  intros H. unfold upto. apply in_map_iff. exists (N.to_nat x). split.
  - apply N2Nat.id.
  - apply in_seq. lia.
Qed.

Lemma sweep64 (P : N -> bool) : forallb P (upto 64) = true -> forall d, d < 64 -> P d = true.
Proof.
  intros H d Hd. rewrite forallb_forall in H. apply H. apply in_upto. exact Hd.
Qed.

Lemma sweep256 (P : N -> bool) : forallb P (upto 256) = true -> forall d, d < 256 -> P d = true.
Proof.
  intros H d Hd. rewrite forallb_forall in H. apply H. apply in_upto. exact Hd.
Qed.

Lemma b64_val_char (d : N) : d < 64 -> b64_val (b64_char d) = d.
Proof.
  intros Hd. apply N.eqb_eq.
  apply (sweep64 (fun d => b64_val (b64_char d) =? d)); [vm_compute; reflexivity | exact Hd].
Qed.

Lemma b64_digit_char (d : N) : d < 64 -> b64_digit (b64_char d) = Some d.
Proof.
  intros Hd.
  assert (H : (match b64_digit (b64_char d) with Some x => x =? d | None => false end) = true).
  { apply (sweep64 (fun d => match b64_digit (b64_char d) with Some x => x =? d | None => false end));
      [vm_compute; reflexivity | exact Hd]. }
  destruct (b64_digit (b64_char d)) as [x|]; [|discriminate].
  apply N.eqb_eq in H. subst. reflexivity.
Qed.

(* the decoder table and the spec alphabet agree on every byte *)
Lemma b64_val_digit (c : N) : c < 256 ->
  match b64_digit c with
  | Some d => b64_val c = d /\ d < 64
  | None => b64_val c = COM /\ c = 44 \/ b64_val c = SEM /\ c = 59 \/ b64_val c = ERR
  end.
Proof.
  intros Hc.
  assert (H : (match b64_digit c with
               | Some d => (b64_val c =? d) && (d <? 64)
               | None => ((b64_val c =? COM) && (c =? 44)) || ((b64_val c =? SEM) && (c =? 59)) || (b64_val c =? ERR)
               end) = true).
  { apply (sweep256 (fun c => match b64_digit c with
               | Some d => (b64_val c =? d) && (d <? 64)
               | None => ((b64_val c =? COM) && (c =? 44)) || ((b64_val c =? SEM) && (c =? 59)) || (b64_val c =? ERR)
               end)); [vm_compute; reflexivity | exact Hc]. }
  destruct (b64_digit c) as [d|].
  - apply andb_true_iff in H. destruct H as [H1 H2]. apply N.eqb_eq in H1. apply N.ltb_lt in H2. auto.
  - apply orb_true_iff in H. destruct H as [H|H].
    + apply orb_true_iff in H. destruct H as [H|H]; apply andb_true_iff in H; destruct H as [H1 H2];
        apply N.eqb_eq in H1; apply N.eqb_eq in H2; auto.
    + apply N.eqb_eq in H. auto.
Qed.

(* every byte the encoder can emit for a digit is an ASCII letter, digit, '+' or '/' *)
Lemma b64_char_ascii (d : N) : d < 64 -> b64_char d < 128.
Proof.
  intros Hd. apply N.ltb_lt.
  apply (sweep64 (fun d => b64_char d <? 128)); [vm_compute; reflexivity | exact Hd].
Qed.
