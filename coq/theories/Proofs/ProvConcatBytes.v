(* Property C04 for trees of raw leaves, OriginalSource leaves and ConcatSource nodes (class
   `cshape`), byte level, columns = true (P1):
     every output byte whose true origin (Sem/Prov.v) is a byte of an OriginalSource resolves,
     through the map returned by map(), to its own file and line, with its own column at
     statement starts and a column not after its own otherwise (the line break of an empty
     line is exempt, as in the checker); every raw byte is unmapped.
   Route: byte_ok is a per-byte judgement `byte_ok_a` on (attribution, tag) pairs
   (ProvOriginal.byte_ok_all2); the attribution list of map() is that of the text-carrying
   stream (FinalTree.C03_tree_cols); that of a ConcatSource is its children's back to back
   (LawConcatAttr.concat_attr_cols); `prov (SConcat cs) = flat_map prov cs`; leaves by
   ProvOriginal.tokens_all2 and AttrLeaves.raw_stream_attr. *)
From RS Require Import Base.Prelude Base.Text Rope.RopeModel Codec.Vlq Codec.CodecSpec
  Checkers.ChkCodec Stream.Types Stream.Leaves Stream.Concat Stream.Replace Stream.Tree Api.ApiTree
  Sem.Attr Sem.Prov Checkers.ChkTree Checkers.ChkProv
  Proofs.StreamText Proofs.StreamLeaves Proofs.StreamMap Proofs.StreamConcat Proofs.StreamTree
  Proofs.WfStream Proofs.WfFinal Proofs.RStreamText Proofs.RStreamPos Proofs.RStreamTree
  Proofs.AttrCodec Proofs.AttrSms Proofs.AttrLeaves Proofs.ProvTokens Proofs.ProvOriginal
  Proofs.LawConcatAttr Proofs.FinalDense Proofs.FinalConcat Proofs.FinalTree.
Require Import Lia List.

Local Open Scope N_scope.

(* ------------------------------------------------------------------ *)
(* the class                                                           *)
(* ------------------------------------------------------------------ *)
Fixpoint cshape (s : src) : bool :=
  match s with
  | SRaw _ _ | SRawString _ | SRawBuffer _ | SOriginal _ _ => true
  | SConcat cs => forallb cshape cs
  | _ => false
  end.

Lemma cshape_concat cs : cshape (SConcat cs) = true -> forall c, In c cs -> cshape c = true.
Proof. cbn [cshape]. intros H c Hc. rewrite forallb_forall in H. apply H. exact Hc. Qed.

Lemma cshape_rshape : forall s, cshape s = true -> RStreamTree.rshape s = true.
Proof.
  apply (src_ind' (fun s => cshape s = true -> RStreamTree.rshape s = true));
    try (intros; reflexivity); try (intros; discriminate).
  intros cs IH H. cbn [RStreamTree.rshape]. apply forallb_forall. intros c Hc.
  rewrite Forall_forall in IH. apply (IH c Hc). apply (cshape_concat cs H c Hc).
Qed.

Lemma cshape_rsmall : forall s, cshape s = true -> rsmall s = true.
Proof.
  apply (src_ind' (fun s => cshape s = true -> rsmall s = true));
    try (intros; reflexivity); try (intros; discriminate).
  intros cs IH H. cbn [rsmall]. apply forallb_forall. intros c Hc.
  rewrite Forall_forall in IH. apply (IH c Hc). apply (cshape_concat cs H c Hc).
Qed.

(* ------------------------------------------------------------------ *)
(* lists of (attribution, tag) pairs                                    *)
(* ------------------------------------------------------------------ *)
Lemma all2_flat_map {A} (f : A -> list attr) (g : A -> list ptag) (l : list A) :
  (forall x, In x l -> length (f x) = length (g x) /\ all2 (f x) (g x) = true) ->
  length (flat_map f l) = length (flat_map g l) /\ all2 (flat_map f l) (flat_map g l) = true.
Proof.
  induction l as [|x l IH]; intros H; [split; reflexivity|].
  destruct (H x (or_introl eq_refl)) as [H1 H2].
  destruct (IH (fun y Hy => H y (or_intror Hy))) as [I1 I2].
  cbn [flat_map]. split.
  - rewrite !app_length, H1, I1. reflexivity.
  - rewrite all2_app by exact H1. rewrite H2, I2. reflexivity.
Qed.

Lemma all2_none_raw (t : text) : all2 (map (fun _ => None) t) (map (fun _ => PRaw) t) = true.
Proof. induction t as [|b t IH]; [reflexivity|]. cbn [map all2 byte_ok_a andb]. exact IH. Qed.

(* the text-carrying attribution has one entry per byte of the reassembled text *)
Lemma cover_length_all_some evs : forall s n ts, all_some (chunk_texts evs) = Some ts ->
  length (attr_cover (rsegs_of_events evs s n)) = length (concat ts).
Proof.
  induction evs as [|e evs IH]; intros s n ts H.
  - cbn [chunk_texts all_some] in H. inversion H. reflexivity.
  - destruct e as [t m|i nm c|i nm]; cbn [chunk_texts rsegs_of_events] in *; [|apply IH; exact H|apply IH; exact H].
    destruct t as [t|]; cbn [all_some] in H; [|discriminate].
    destruct (all_some (chunk_texts evs)) as [r|] eqn:E; [|discriminate]. inversion H. subst ts.
    cbn [attr_cover concat]. rewrite !app_length, map_length, (IH s n r eq_refl). reflexivity.
Qed.

Lemma cover_length_reass evs t : Reass evs t -> length (attr_of_stream evs true) = length t.
Proof.
  intros [ts [H1 H2]]. unfold attr_of_stream. rewrite (cover_length_all_some evs [] [] ts H1), H2. reflexivity.
Qed.

(* ------------------------------------------------------------------ *)
(* leaves                                                              *)
(* ------------------------------------------------------------------ *)
Lemma original_stream_prov v n :
  all2 (attr_of_stream (fst (original_stream v n (mkOpts true false))) true) (original_prov v n) = true.
Proof.
  rewrite original_stream_cols_fst. unfold attr_of_stream. rewrite rsegs_source0.
  pose proof (tokens_all2 n (potential_tokens v) 1 0 (potential_tokens_pieces v) (potential_tokens_ok v)) as H.
  rewrite <- otg_v_tokens in H. unfold otg_v in H. rewrite otg_tags in H. exact H.
Qed.

Lemma original_prov_length v n : length (original_prov v n) = length v.
Proof. unfold original_prov. apply orig_tags_length. apply stmt_starts_length. Qed.

(* ------------------------------------------------------------------ *)
(* the induction: tags and text-carrying attribution, byte by byte       *)
(* ------------------------------------------------------------------ *)
Definition pgood (s : src) : Prop :=
  forall st, cshape s = true -> treeA s = true ->
    length (prov s) = length (source s) /\
    all2 (attr_of_stream (fst (fst (stream st s oT))) true) (prov s) = true.

Lemma stream_attr_length st s : cshape s = true -> treeA s = true ->
  length (attr_of_stream (fst (fst (stream st s oT))) true) = length (source s).
Proof.
  intros Hc Ha.
  pose proof (rgood_all s st true (cshape_rshape s Hc) Ha (cshape_rsmall s Hc)) as [[A _] _]. cbn zeta in A.
  apply cover_length_reass. exact A.
Qed.

Lemma raw_pgood s : is_raw s = true -> pgood s.
Proof.
  intros Hr st _ _.
  assert (E : source_leaf s = source s) by (destruct s as [[|] v|v|v| | | | |]; try discriminate; reflexivity).
  assert (Ep : prov s = map (fun _ => PRaw) (source s)).
  { rewrite <- E. destruct s; try discriminate; reflexivity. }
  assert (Es : fst (fst (stream st s oT)) = fst (raw_stream (source s) false)).
  { destruct s; try discriminate; reflexivity. }
  rewrite Ep, Es, raw_stream_attr. split; [apply map_length|apply all2_none_raw].
Qed.

Lemma concat_pgood cs : Forall pgood cs -> pgood (SConcat cs).
Proof.
  intros IH st Hc Ha. rewrite Forall_forall in IH.
  pose proof (cshape_concat cs Hc) as Hc'. pose proof (treeA_concat cs Ha) as Ha'.
  assert (K : forall c, In c cs ->
            length (attr_of_stream (fst (fst (stream st c oT))) true) = length (prov c) /\
            all2 (attr_of_stream (fst (fst (stream st c oT))) true) (prov c) = true).
  { intros c Hin. destruct (IH c Hin st (Hc' c Hin) (Ha' c Hin)) as [L A]. split; [|exact A].
    rewrite L. apply stream_attr_length; [apply Hc'|apply Ha']; exact Hin. }
  assert (L : length (prov (SConcat cs)) = length (source (SConcat cs))).
  { cbn [prov source]. clear K. induction cs as [|c cs IHc]; [reflexivity|].
    cbn [flat_map map concat]. rewrite !app_length.
    destruct (IH c (or_introl eq_refl) st (Hc' c (or_introl eq_refl)) (Ha' c (or_introl eq_refl))) as [Lc _].
    rewrite Lc. f_equal. apply IHc.
    - intros x Hx. apply IH. right. exact Hx.
    - cbn [cshape forallb] in Hc. apply andb_true_iff in Hc. apply Hc.
    - unfold treeA in *. cbn [tree_wf tree_ascii forallb] in Ha.
      apply andb_true_iff in Ha. destruct Ha as [A B].
      apply andb_true_iff in A. apply andb_true_iff in B. cbn [tree_wf tree_ascii].
      destruct A as [_ A], B as [_ B]. rewrite A, B. reflexivity.
    - intros x Hx. apply Hc'. right. exact Hx.
    - intros x Hx. apply Ha'. right. exact Hx. }
  split; [exact L|].
  destruct (Nat.eq_dec (length cs) 1) as [E|E].
  { destruct cs as [|c [|c2 r]]; try discriminate.
    change (stream st (SConcat [c]) oT) with (stream st c oT).
    cbn [prov flat_map]. rewrite app_nil_r. apply K. left. reflexivity. }
  assert (PT : forall c, In c cs -> forall st0, snd (stream st0 c oT) = st0).
  { intros c Hin st0.
    apply (rgood_all c st0 true (cshape_rshape c (Hc' c Hin)) (Ha' c Hin) (cshape_rsmall c (Hc' c Hin))). }
  rewrite (stream_concat_fold st cs oT E), (kid_streams_pure oT cs PT st). cbn [fst snd final_source oT].
  rewrite concat_attr_cols.
  2:{ rewrite Forall_map. apply Forall_forall. intros c Hin.
      apply dense_tree_any; [apply cshape_rshape; apply Hc'|apply Ha']; exact Hin. }
  rewrite flat_map_map. cbn [prov fst].
  apply (all2_flat_map (fun c => attr_of_stream (fst (fst (stream st c oT))) true) prov cs K).
Qed.

Lemma pgood_all : forall s, pgood s.
Proof.
  apply src_ind'.
  - intros b v. apply raw_pgood. reflexivity.
  - intros v. apply raw_pgood. reflexivity.
  - intros v. apply raw_pgood. reflexivity.
  - intros v n st _ _. cbn [prov source]. split; [apply original_prov_length|].
    unfold oT. rewrite stream_original. apply original_stream_prov.
  - intros v n m og i r st Hc. discriminate.
  - intros cs IH. apply concat_pgood. exact IH.
  - intros i rs _ st Hc. discriminate.
  - intros id i _ st Hc. discriminate.
Qed.

(* the per-byte statement on the text-carrying stream: no size hypothesis *)
Theorem cshape_stream_prov (st : store) (s : src) : cshape s = true -> treeA s = true ->
  length (prov s) = length (source s) /\
  length (attr_of_stream (fst (fst (stream st s (mkOpts true false)))) true) = length (source s) /\
  all2 (attr_of_stream (fst (fst (stream st s (mkOpts true false)))) true) (prov s) = true.
Proof.
  intros Hc Ha. destruct (pgood_all s st Hc Ha) as [L A].
  split; [exact L|]. split; [apply stream_attr_length; assumption|exact A].
Qed.

(* ------------------------------------------------------------------ *)
(* map(): what it attributes is what the text-carrying stream attributes *)
(* ------------------------------------------------------------------ *)
(* the encoder's domain, as in C03_tree_cols: every field of a streamed segment below 2^30 *)
Definition fields_small (st : store) (s : src) : Prop :=
  forallb mapping_small (chunk_mappings (fst (fst (stream st s (mkOpts true true))))) = true.

Lemma map_of_get_map st s cols : cshape s = true -> is_raw s = false ->
  map_of st s cols = get_map st s cols.
Proof. destruct s; try discriminate; reflexivity. Qed.

Lemma cshape_map_attr (st : store) (s : src) : cshape s = true -> treeA s = true -> fields_small st s ->
  attr_of_map (fst (map_of st s true)) (source s) true =
  attr_of_stream (fst (fst (stream st s (mkOpts true false)))) true.
Proof.
  intros Hc Ha Hs. destruct (is_raw s) eqn:Er.
  - assert (Em : fst (map_of st s true) = None) by (destruct s; try discriminate; reflexivity).
    assert (Es : fst (fst (stream st s (mkOpts true false))) = fst (raw_stream (source s) false)).
    { destruct s; try discriminate; reflexivity. }
    rewrite Em, Es, raw_stream_attr. reflexivity.
  - rewrite (map_of_get_map st s true Hc Er).
    apply (C03_tree_cols st s (cshape_rshape s Hc) Ha (cshape_rsmall s Hc) Hs).
Qed.

Lemma segs_attr (m : option smap) (t : text) :
  attr_by_pos (segs_of m) true t 1 0 = attr_of_map m t true.
Proof. destruct m; [reflexivity|]. apply attr_by_pos_nil. Qed.

(* P1 *)
Theorem concat_c04_bytes (st : store) (s : src) :
  cshape s = true -> treeA s = true -> fields_small st s ->
  let m1 := fst (map_of st s true) in
  let tg := tagged (source s) (prov s) 1 0 in
  let segs := match m1 with Some m => rsegs_of_map m | None => [] end in
  forallb (byte_ok segs) tg = true.
Proof.
  intros Hc Ha Hs. cbn zeta. fold (segs_of (fst (map_of st s true))).
  rewrite byte_ok_all2, segs_attr, (cshape_map_attr st s Hc Ha Hs).
  apply (pgood_all s st Hc Ha).
Qed.

(* non-vacuous instances *)
Example concat_c04_bytes_example :
  let o1 := SOriginal [97; 59; 98; 10] [102] in
  let o2 := SOriginal [99] [103] in
  let o3 := SOriginal [10; 10] [104] in
  let r1 := SRawString [120] in
  let s := SConcat [SConcat [o1; SConcat []]; SConcat [r1]; o3; SConcat [o2; o3; o1]] in
  (cshape s, treeA s,
   match fst (map_of [] s true) with Some m => rsegs_of_map m | None => [] end) =
  (true, true,
   [(1, 0, Some (mkLoc [102] 1 0 None)); (1, 2, Some (mkLoc [102] 1 2 None));
    (4, 0, Some (mkLoc [103] 1 0 None)); (4, 1, None);
    (6, 0, Some (mkLoc [102] 1 0 None)); (6, 2, Some (mkLoc [102] 1 2 None))]).
Proof. vm_compute. reflexivity. Qed.

Print Assumptions cshape_stream_prov.
Print Assumptions concat_c04_bytes.
