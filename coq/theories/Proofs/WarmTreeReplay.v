(* C10 for caches nested inside trees, part 2: replaying a sound entry.
   The stream a warm CachedSource replays from a `good_entry` - `sm_stream (source inner) m o`
   for `Some m`, a raw stream for `None` - satisfies everything `TG` / `FG` ask of a stream of the
   cache-free tree `uncache inner`: same text, end info, positions, density, attribution. *)
From RS Require Import Base.Prelude Base.Text Rope.RopeModel Codec.Vlq Codec.CodecSpec
  Checkers.ChkCodec Stream.Types Stream.Leaves Stream.Concat Stream.Replace Stream.Combined Stream.Tree
  Api.ApiTree Sem.Attr Sem.HashEq Api.ApiHist Checkers.ChkTree Checkers.ChkHist
  Proofs.CodecKept Proofs.StreamText Proofs.StreamLeaves Proofs.StreamMap Proofs.StreamConcat Proofs.StreamTree
  Proofs.WfStream Proofs.WfFinal Proofs.RStreamText Proofs.RStreamPos Proofs.RStreamTree
  Proofs.AttrCodec Proofs.AttrSms Proofs.AttrLeaves Proofs.LawConcatAttr Proofs.LawWrappers
  Proofs.CacheStore Proofs.CacheReplay Proofs.FinalDense Proofs.FinalConcat Proofs.FinalTree Proofs.FinalCache
  Proofs.ReplAttrStream Proofs.ReplAttrSms Proofs.LinesBase Proofs.LinesConcat Proofs.LinesTree
  Proofs.ColdCache Proofs.ColdCacheTree Proofs.BoundsPos Proofs.BoundsOrig Proofs.BoundsIdx
  Proofs.WarmTreeDefs.
Require Import Lia List.

Local Open Scope N_scope.

(* ------------------------------------------------------------------ *)
(* the stream of a replayable map: dense announcements                  *)
(* ------------------------------------------------------------------ *)
Section ReplayMap.
Variables (t : text) (m : smap).
Hypothesis Ha : ascii t = true.
Hypothesis HR : mapR t m.

Let Hso : sorted_by pos_le (decode_mappings (sm_mappings m)) = true := proj1 HR.
Let Hpos : Forall (seg_pos t) (decode_mappings (sm_mappings m)) := proj1 (proj2 HR).
Let Hsegs : Forall (WfStream.seg_ok (len (sm_sources m)) (len (sm_names m))) (decode_mappings (sm_mappings m))
  := proj2 (proj2 HR).

Lemma replay_segs_ok : segs_ok t (decode_mappings (sm_mappings m)) = true.
Proof.
  apply positions_segs_ok. apply forallb_forall. intros mp Hmp.
  pose proof Hpos as H. rewrite Forall_forall in H. apply (H mp Hmp).
Qed.

Lemma replay_dense (o : opts) : dense (fst (sm_stream t m o)) 0 0 = true.
Proof.
  pose proof Hsegs as Hs.
  set (ns := len (sm_sources m)) in *. set (nn := len (sm_names m)) in *.
  destruct o as [cols f]. unfold sm_stream. cbn [columns final_source]. destruct cols, f.
  - unfold sm_stream_final. destruct (gen_info t) as [rl rc].
    destruct ((rl =? 1) && (rc =? 0)); cbn [fst]; [reflexivity|].
    apply announced_dense. apply sm_final_loop_ok. exact Hs.
  - unfold sm_stream_full. destruct (is_nil (split_lines t)); [reflexivity|].
    destruct (lines_end_info (split_lines t)) as [fl fc].
    pose proof (sm_full_loop_ok ns nn (split_lines t) fl fc _ Hs (mkF 1 0 false None) I) as [A B].
    destruct (sm_full_loop (split_lines t) fl fc (mkF 1 0 false None) (decode_mappings (sm_mappings m)))
      as [st evs]. cbn [fst snd] in A, B.
    pose proof (sm_full_step_ok ns nn (split_lines t) fl fc st (unmapped fl fc) A I) as [_ D].
    destruct (sm_full_step (split_lines t) fl fc st (unmapped fl fc)) as [st' evs']. cbn [fst snd] in *.
    apply announced_dense. apply Forall_app. split; assumption.
  - unfold sm_stream_lines_final. destruct (gen_info t) as [rl rc].
    destruct ((rl =? 1) && (rc =? 0)); cbn [fst]; [reflexivity|].
    apply announced_sources_dense. apply (sm_lines_final_loop_ok _ (len (sm_names m))). exact Hs.
  - unfold sm_stream_lines_full. destruct (is_nil (split_lines t)); [reflexivity|].
    pose proof (sm_lines_full_loop_ok ns nn (split_lines t) _ Hs 1) as A.
    destruct (sm_lines_full_loop (split_lines t) (decode_mappings (sm_mappings m)) 1) as [cur evs].
    cbn [fst snd] in *. apply announced_sources_dense. apply Forall_app. split; [exact A|apply whole_lines_ok].
Qed.

(* every segment of a text-less replay lies on a position of the text *)
Lemma replay_pos (cols : bool) : Forall (ev_pos t) (fst (sm_stream t m (mkOpts cols true))).
Proof.
  pose proof Hpos as Hs. unfold sm_stream. cbn [columns final_source]. destruct cols.
  - unfold sm_stream_final. destruct (gen_info t) as [rl rc].
    destruct ((rl =? 1) && (rc =? 0)); cbn [fst]; [constructor|].
    apply Forall_app. split; [apply announce_sources_pos|]. apply Forall_app.
    split; [apply announce_names_pos|]. apply sm_final_loop_pos. exact Hs.
  - unfold sm_stream_lines_final. destruct (gen_info t) as [rl rc].
    destruct ((rl =? 1) && (rc =? 0)); cbn [fst]; [constructor|].
    apply Forall_app. split; [apply announce_sources_pos|]. apply sm_lines_final_loop_pos. exact Hs.
Qed.

Lemma replay_kid_cols : kid_ok (sm_stream t m oF, t).
Proof.
  unfold kid_ok, tr_events, tr_info, tr_text. cbn [fst snd].
  split; [apply replay_dense|]. split; [apply (replay_pos true)|].
  split; [apply sm_stream_end|].
  unfold sm_stream, oF. cbn [columns final_source]. unfold sm_stream_final.
  destruct (gen_info t) as [rl rc]. destruct ((rl =? 1) && (rc =? 0)); cbn [fst]; [exact I|].
  rewrite !chunk_mappings_app, (chunk_mappings_chunks_of (announce_sources _ _ _)), announce_sources_chunks.
  rewrite (chunk_mappings_chunks_of (announce_names _ _)), announce_names_chunks. cbn [map app].
  apply final_loop_ssorted. apply sorted_ssorted. exact Hso.
Qed.

Lemma replay_kid_lines : kid_ok (sm_stream t m oLF, t).
Proof.
  unfold kid_ok, tr_events, tr_info, tr_text. cbn [fst snd].
  split; [apply replay_dense|]. split; [apply (replay_pos false)|].
  split; [apply sm_stream_end|].
  unfold sm_stream, oLF. cbn [columns final_source]. rewrite sm_lines_final_cm.
  destruct ((fst (gen_info t) =? 1) && (snd (gen_info t) =? 0)); [exact I|apply lines_final_loop_ssorted].
Qed.

Lemma replay_kidL : kidL_ok (sm_stream t m oLF, t).
Proof.
  unfold kidL_ok, tr_events, tr_info, tr_text. cbn [fst snd].
  pose proof (replay_dense oLF) as Hd.
  split; [exact Hd|]. split; [apply sm_stream_end|]. apply segs_before_cm; [exact Hd|].
  rewrite sm_stream_end. unfold sm_stream, oLF. cbn [columns final_source]. rewrite sm_lines_final_cm.
  destruct ((fst (gen_info t) =? 1) && (snd (gen_info t) =? 0)); [constructor|].
  eapply Forall_impl; [|apply (lines_final_loop_lines (marks_count t) _ 1)]. cbn beta.
  intros x [H1 [H2 H3]] _. split; [exact H1|]. unfold mpos. rewrite H3. apply count_before; lia.
Qed.

(* the text-carrying replays *)
Lemma replay_text_good (cols : bool) :
  Reass (fst (sm_stream t m (mkOpts cols false))) t /\ WP (fst (sm_stream t m (mkOpts cols false))) (1, 0) /\
  NLL (fst (sm_stream t m (mkOpts cols false))).
Proof.
  split; [|split].
  - unfold sm_stream. cbn [columns final_source]. destruct cols.
    + apply reassembles_iff. apply sm_stream_full_reassembles_ascii; assumption.
    + apply sm_stream_lines_full_good.
  - unfold sm_stream. cbn [columns final_source]. destruct cols.
    + apply (sm_stream_full_positioned_partial t m Ha Hso replay_segs_ok).
    + apply sm_stream_lines_full_good.
  - apply sm_stream_NLL; [apply ascii_lines_ok; exact Ha|exact Hso].
Qed.

Lemma replay_text_attr (cols : bool) :
  attr_of_stream (fst (sm_stream t m (mkOpts cols false))) cols = attr_of_map (Some m) t cols.
Proof.
  unfold sm_stream. cbn [columns final_source]. destruct cols.
  - apply sm_full_attr_sorted; [exact Ha|exact Hso|apply replay_segs_ok].
  - apply sm_lines_full_attr_sorted. exact Hso.
Qed.

Lemma replay_final_attr_m (cols : bool) :
  attr_of_final_events (fst (sm_stream t m (mkOpts cols true))) t cols = attr_of_map (Some m) t cols.
Proof.
  unfold sm_stream. cbn [columns final_source]. destruct cols.
  - apply sm_final_attr_sorted. exact Hso.
  - apply sm_lines_final_attr_sorted. exact Hso.
Qed.

End ReplayMap.

(* ------------------------------------------------------------------ *)
(* the raw replay of an entry `None`                                    *)
(* ------------------------------------------------------------------ *)
Lemma raw_text_good (t : text) : ascii t = true ->
  Reass (fst (raw_stream t false)) t /\ WP (fst (raw_stream t false)) (1, 0) /\ NLL (fst (raw_stream t false)).
Proof.
  intros _. destruct (raw_stream_good t) as [A B]. split; [exact A|]. split; [exact B|apply raw_stream_NLL].
Qed.

(* ------------------------------------------------------------------ *)
(* replaying a good entry                                               *)
(* ------------------------------------------------------------------ *)
Theorem replay_TG (c : bool) (inner : src) (v : option smap) :
  cls inner -> good_entry inner c v -> TG c inner (replay (source inner) v (mkOpts c false)).
Proof.
  intros Hcl [Hattr Hm]. destruct (cls_sizes inner Hcl) as [_ [_ [_ Ha]]].
  unfold TG. destruct v as [m|]; cbn [replay final_source].
  - destruct Hm as [HR [B1 [B2 [B3 B4]]]].
    destruct (replay_text_good _ m Ha HR c) as [G1 [G2 G3]].
    split; [apply replay_dense; exact HR|]. split; [exact G1|]. split; [exact G2|]. split; [exact G3|].
    split.
    { intros ->. unfold sm_stream. cbn [columns final_source]. apply sm_stream_lines_full_ne. }
    split; [apply sm_stream_end|]. split.
    { rewrite (replay_text_attr _ m Ha HR c). exact Hattr. }
    split; [apply sm_stream_b; assumption|].
    destruct (sm_stream_n (source inner) m (mkOpts c false)) as [N1 N2]. split; lia.
  - destruct (raw_text_good (source inner) Ha) as [G1 [G2 G3]].
    split; [apply raw_stream_dense|]. split; [exact G1|]. split; [exact G2|]. split; [exact G3|].
    split; [intros _; apply raw_stream_ne|]. split; [apply raw_stream_end|]. split.
    { rewrite raw_stream_attr. exact Hattr. }
    split; [apply raw_stream_b|]. destruct (raw_stream_n (source inner) false) as [N1 N2]. split; lia.
Qed.

Theorem replay_FG (c : bool) (inner : src) (v : option smap) :
  cls inner -> good_entry inner c v -> FG c inner (replay (source inner) v (mkOpts c true)).
Proof.
  intros Hcl [Hattr Hm]. destruct (cls_sizes inner Hcl) as [_ [_ [_ Ha]]].
  unfold FG. destruct v as [m|]; cbn [replay final_source].
  - destruct Hm as [HR [B1 [B2 [B3 B4]]]].
    split; [destruct c; [apply (replay_kid_cols _ m HR)|apply (replay_kid_lines _ m HR)]|].
    split; [intros ->; apply (replay_kidL _ m HR)|].
    split; [rewrite (replay_final_attr_m _ m HR c); exact Hattr|].
    split; [apply sm_stream_b; assumption|].
    destruct (sm_stream_n (source inner) m (mkOpts c true)) as [N1 N2]. split; lia.
  - split; [apply raw_kid|]. split; [intros _; apply raw_kidL|].
    split.
    { cbn [attr_of_map] in Hattr. rewrite <- Hattr. unfold attr_of_final_events, raw_stream.
      cbn [fst rsegs_of_events map]. apply attr_by_pos_nil. }
    split; [apply raw_stream_b|]. destruct (raw_stream_n (source inner) true) as [N1 N2]. split; lia.
Qed.

Print Assumptions replay_TG.
Print Assumptions replay_FG.
