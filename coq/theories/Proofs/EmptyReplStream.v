(* C13, law "a ReplaceSource whose replacements are all empty insertions behaves as its inner
   source", stream level: the text-carrying stream of `replace_stream (sort_repls rs) ievs gi`
   (columns = true) refines the attribution of the inner stream `ievs` pointwise (`loc_ref`).
   First with the domain condition of the reference (`bindings_consistent`: a file name
   determines its content), then WITHOUT it: the ReplaceSource looks recorded contents up by source
   INDEX, so renaming the announced files apart (`rn`) changes neither its state machine nor any
   line, column or name it reports; the renamed stream is consistent, and the file of every byte
   is known from the origin theorem (ReplAttrOrigin.replace_attr_origin). *)
From RS Require Import Base.Prelude Base.Text Rope.RopeModel Codec.Vlq Codec.CodecSpec
  Stream.Types Stream.Leaves Stream.Replace Stream.Tree Api.ApiTree Sem.Attr Sem.HashEq Api.ApiHist
  Checkers.ChkTree Checkers.ChkComp Checkers.ChkHist
  Proofs.HashEqBasic Proofs.RopeWf Proofs.StreamText Proofs.ReplaceSort Proofs.ReplaceText
  Proofs.RStreamText Proofs.RStreamPos Proofs.AttrCodec Proofs.LawConcatAttr
  Proofs.ReplAttrRef Proofs.ReplAttrStream Proofs.ReplAttrOrigin Proofs.ReplAttrCols Proofs.ReplAttrTree
  Proofs.EmptyReplText Proofs.EmptyReplRef.
Require Import Lia List.
Import ListNotations.

Local Open Scope N_scope.

Lemma empties_ordered rs : empties rs = true -> Forall (fun r => r_start r <= r_end r) rs.
Proof.
  intros H. apply empties_Forall in H. eapply Forall_impl; [|exact H]. cbn beta.
  intros r Hr. apply empty_ins_spec in Hr. destruct Hr as [Hr _]. lia.
Qed.

(* ------------------------------------------------------------------ *)
(* with the reference's domain condition                                 *)
(* ------------------------------------------------------------------ *)
Theorem replace_stream_empties_consistent (rs : list repl) (ievs : list event) (T : text) (gi : N * N) :
  empties rs = true ->
  reassembles ievs T = true -> no_empty_chunks ievs = true -> dense ievs 0 0 = true ->
  bindings_consistent (contents_of_events ievs) = true -> contents_small ievs = true ->
  Forall2 (fun x y => attr_ref x y = true)
          (attr_of_stream (fst (replace_stream (sort_repls rs) ievs gi)) true)
          (attr_of_stream ievs true).
Proof.
  intros He H2 H3 H4 H5 H6.
  destruct (replace_attr_full rs ievs T gi (empties_ordered rs He) H2 H3 H4 H5 H6) as [E _].
  rewrite E. apply (replace_reference_empties_Forall2 ievs rs He).
Qed.

(* ... with the upper bound: never beyond the byte's own column *)
Theorem replace_stream_empties_tight_consistent (rs : list repl) (ievs : list event) (T : text) (gi : N * N) :
  empties rs = true ->
  reassembles ievs T = true -> no_empty_chunks ievs = true -> dense ievs 0 0 = true ->
  bindings_consistent (contents_of_events ievs) = true -> contents_small ievs = true ->
  Forall2 tight (attr_of_stream (fst (replace_stream (sort_repls rs) ievs gi)) true)
                (cover_off (chunks_with_attr ievs)) /\
  map fst (cover_off (chunks_with_attr ievs)) = attr_of_stream ievs true.
Proof.
  intros He H2 H3 H4 H5 H6.
  destruct (replace_attr_full rs ievs T gi (empties_ordered rs He) H2 H3 H4 H5 H6) as [E _].
  rewrite E. apply (replace_reference_empties_tight ievs rs He).
Qed.

(* ------------------------------------------------------------------ *)
(* renaming the announced files apart                                    *)
(* ------------------------------------------------------------------ *)
Definition uname (i : N) : text := [i].

Definition rn (e : event) : event :=
  match e with
  | ESource i _ c => ESource i (uname i) c
  | _ => e
  end.

Lemma rn_silent : forall evs, contents_of_events evs = [] -> map rn evs = evs.
Proof.
  induction evs as [|e evs IH]; intros H; [reflexivity|].
  destruct e as [t m|i nm c|i nm]; cbn [contents_of_events] in H; [|discriminate|];
    cbn [map rn]; rewrite (IH H); reflexivity.
Qed.

Lemma rn_chunk_texts : forall evs, chunk_texts (map rn evs) = chunk_texts evs.
Proof.
  induction evs as [|e evs IH]; [reflexivity|].
  destruct e as [t m|i nm c|i nm]; cbn [map rn chunk_texts]; rewrite IH; reflexivity.
Qed.

Lemma rn_reassembles evs T : reassembles (map rn evs) T = reassembles evs T.
Proof. unfold reassembles. rewrite rn_chunk_texts. reflexivity. Qed.

Lemma rn_no_empty evs : no_empty_chunks (map rn evs) = no_empty_chunks evs.
Proof. unfold no_empty_chunks. rewrite rn_chunk_texts. reflexivity. Qed.

Lemma rn_dense : forall evs a b, dense (map rn evs) a b = dense evs a b.
Proof.
  induction evs as [|e evs IH]; intros a b; [reflexivity|].
  destruct e as [t m|i nm c|i nm]; cbn [map rn dense]; rewrite IH; reflexivity.
Qed.

Lemma rn_contents_snd : forall evs,
  map snd (contents_of_events (map rn evs)) = map snd (contents_of_events evs).
Proof.
  induction evs as [|e evs IH]; [reflexivity|].
  destruct e as [t m|i nm c|i nm]; cbn [map rn contents_of_events snd]; rewrite ?IH; reflexivity.
Qed.

Lemma forallb_map' {X Y} (p : Y -> bool) (f : X -> Y) (l : list X) :
  forallb p (map f l) = forallb (fun x => p (f x)) l.
Proof. induction l as [|x l IH]; [reflexivity|]. cbn [map forallb]. rewrite IH. reflexivity. Qed.

Lemma rn_contents_small : forall evs, contents_small (map rn evs) = contents_small evs.
Proof.
  unfold contents_small. induction evs as [|e evs IH]; [reflexivity|].
  destruct e as [t m|i nm c|i nm]; cbn [map rn contents_of_events forallb snd]; rewrite ?IH; reflexivity.
Qed.

(* the renamed announcements are consistent: every index is announced once *)
Lemma rn_consistent : forall evs a b, dense evs a b = true ->
  (forall p, In p (contents_of_events (map rn evs)) -> exists j, fst p = uname j /\ a <= j) /\
  bindings_consistent (contents_of_events (map rn evs)) = true.
Proof.
  induction evs as [|e evs IH]; intros a b H.
  - split; [intros p []|reflexivity].
  - destruct e as [t m|i nm c|i nm]; cbn [dense] in H; apply andb_true_iff in H; destruct H as [H1 H2];
      cbn [map rn contents_of_events].
    + apply (IH a b H2).
    + apply N.eqb_eq in H1. subst i. destruct (IH (a + 1) b H2) as [I1 I2]. split.
      * intros p [<-|Hp]; [exists a; split; [reflexivity|lia]|].
        destruct (I1 p Hp) as [j [E Hj]]. exists j. split; [exact E|lia].
      * cbn [bindings_consistent]. rewrite I2, andb_true_r. apply forallb_forall. intros p Hp.
        destruct (I1 p Hp) as [j [E Hj]]. rewrite E.
        destruct (text_eqb (uname j) (uname a)) eqn:Et; [|reflexivity].
        apply text_eqb_eq in Et. unfold uname in Et. inversion Et. lia.
    + apply (IH a (b + 1) H2).
Qed.

(* the state machine does not look at file names *)
Lemma replace_events_rn : forall evs st,
  replace_events st (map rn evs) = (fst (replace_events st evs), map rn (snd (replace_events st evs))).
Proof.
  induction evs as [|e evs IH]; intros st; [reflexivity|].
  destruct e as [[t|] m|i nm c|i nm].
  - cbn [map rn replace_events replace_event].
    pose proof (replace_chunk_contents st t m) as K.
    destruct (replace_chunk st t m) as [st1 o1]. cbn [snd] in K.
    rewrite (IH st1). destruct (replace_events st1 evs) as [st2 o2]. cbn [fst snd].
    rewrite map_app, (rn_silent o1 K). reflexivity.
  - cbn [map rn replace_events replace_event].
    rewrite (IH st). destruct (replace_events st evs) as [st2 o2]. reflexivity.
  - cbn [map rn replace_events replace_event].
    match goal with |- context [replace_events ?s (map rn evs)] => rewrite (IH s); destruct (replace_events s evs) as [st2 o2] end.
    reflexivity.
  - cbn [map rn replace_events replace_event].
    destruct (find_text (rs_names st) nm 0) as [g|].
    + match goal with |- context [replace_events ?s (map rn evs)] => rewrite (IH s); destruct (replace_events s evs) as [st2 o2] end.
      reflexivity.
    + match goal with |- context [replace_events ?s (map rn evs)] => rewrite (IH s); destruct (replace_events s evs) as [st2 o2] end.
      reflexivity.
Qed.

Lemma replace_stream_rn sorted ievs gi :
  fst (replace_stream sorted (map rn ievs) gi) = map rn (fst (replace_stream sorted ievs gi)).
Proof.
  unfold replace_stream. rewrite replace_events_rn.
  destruct (replace_events (replace_init sorted) ievs) as [st evs]. cbn [fst snd].
  rewrite emit_remainder_content.
  pose proof (emit_content_contents (split_lines (concat (map r_content (rs_rest st)))) st
                (Z.of_N (fst gi) + rs_loff st)%Z (snd gi) None None) as K.
  destruct (emit_content st (split_lines (concat (map r_content (rs_rest st))))
              (Z.of_N (fst gi) + rs_loff st)%Z (snd gi) None None) as [[st' line'] evs'].
  cbn [fst snd] in *. rewrite map_app, (rn_silent evs' K). reflexivity.
Qed.

(* attribution up to the file *)
Definition nofile (a : attr) : option (N * N * option text) :=
  option_map (fun l => (l_line l, l_col l, l_name l)) a.

Lemma map_nofile_const (a a' : attr) (t : text) : nofile a = nofile a' ->
  map nofile (map (fun _ => a) t) = map nofile (map (fun _ => a') t).
Proof. intros H. rewrite !map_map. apply map_ext. intros _. exact H. Qed.

Lemma rn_cover_nofile : forall evs S S' Nn,
  map nofile (attr_cover (rsegs_of_events (map rn evs) S' Nn))
  = map nofile (attr_cover (rsegs_of_events evs S Nn)).
Proof.
  induction evs as [|e evs IH]; intros S S' Nn; [reflexivity|].
  destruct e as [[t|] m|i nm c|i nm]; cbn [map rn rsegs_of_events attr_cover].
  - rewrite !map_app, (IH S S' Nn). f_equal. apply map_nofile_const.
    destruct (m_orig m) as [o|]; reflexivity.
  - apply IH.
  - apply IH.
  - apply IH.
Qed.

Lemma rn_attr_nofile evs :
  map nofile (attr_of_stream (map rn evs) true) = map nofile (attr_of_stream evs true).
Proof. unfold attr_of_stream. apply rn_cover_nofile. Qed.

(* ------------------------------------------------------------------ *)
(* putting the file back                                                 *)
(* ------------------------------------------------------------------ *)
Lemma attr_ref_transfer x' y' x y :
  attr_ref x' y' = true -> nofile x' = nofile x -> nofile y' = nofile y -> fl x = fl y ->
  attr_ref x y = true.
Proof.
  destruct x' as [a'|], y' as [b'|]; cbn [attr_ref opt_eqb]; try discriminate.
  - destruct x as [a|]; cbn [nofile option_map]; [|discriminate].
    destruct y as [b|]; [|discriminate]. cbn [fl nofile option_map].
    intros H Ha Hb Hf.
    assert (A1 : l_line a' = l_line a) by congruence.
    assert (A2 : l_col a' = l_col a) by congruence.
    assert (A3 : l_name a' = l_name a) by congruence.
    assert (B1 : l_line b' = l_line b) by congruence.
    assert (B2 : l_col b' = l_col b) by congruence.
    assert (B3 : l_name b' = l_name b) by congruence.
    assert (F1 : l_file a = l_file b) by congruence.
    assert (F2 : l_line a = l_line b) by congruence.
    unfold loc_ref in *. apply andb_true_iff in H. destruct H as [H Hn].
    apply andb_true_iff in H. destruct H as [H Hc]. apply andb_true_iff in H. destruct H as [_ Hl].
    rewrite A2, B2 in Hc. rewrite A3, B3 in Hn. unfold attr_ref, opt_eqb, loc_ref.
    rewrite F1, F2, text_eqb_refl, N.eqb_refl, Hc, Hn. reflexivity.
  - destruct x as [a|]; cbn [nofile option_map]; [discriminate|].
    destruct y as [b|]; [discriminate|]. reflexivity.
Qed.

Lemma Forall2_transfer : forall X' Y' X Y,
  Forall2 (fun x y => attr_ref x y = true) X' Y' ->
  map nofile X' = map nofile X -> map nofile Y' = map nofile Y -> map fl X = map fl Y ->
  Forall2 (fun x y => attr_ref x y = true) X Y.
Proof.
  intros X' Y' X Y H. revert X Y. induction H as [|x' y' X' Y' Hxy _ IH]; intros X Y HX HY HF.
  - destruct X; [|discriminate]. destruct Y; [|discriminate]. constructor.
  - destruct X as [|x X]; [discriminate|]. destruct Y as [|y Y]; [discriminate|].
    cbn [map] in HX, HY, HF. inversion HX. inversion HY. inversion HF.
    constructor; [eapply attr_ref_transfer; eassumption|]. apply IH; assumption.
Qed.

(* ------------------------------------------------------------------ *)
(* E3, stream level: no condition on the announced file names            *)
(* ------------------------------------------------------------------ *)
Theorem replace_stream_empties (rs : list repl) (ievs : list event) (T : text) (gi : N * N) :
  empties rs = true ->
  reassembles ievs T = true -> no_empty_chunks ievs = true -> dense ievs 0 0 = true ->
  contents_small ievs = true ->
  Forall2 (fun x y => attr_ref x y = true)
          (attr_of_stream (fst (replace_stream (sort_repls rs) ievs gi)) true)
          (attr_of_stream ievs true).
Proof.
  intros He H2 H3 H4 H6.
  assert (R : Forall2 (fun x y => attr_ref x y = true)
                (attr_of_stream (fst (replace_stream (sort_repls rs) (map rn ievs) gi)) true)
                (attr_of_stream (map rn ievs) true)).
  { apply (replace_stream_empties_consistent rs (map rn ievs) T gi He).
    - rewrite rn_reassembles. exact H2.
    - rewrite rn_no_empty. exact H3.
    - rewrite rn_dense. exact H4.
    - apply (rn_consistent ievs 0 0 H4).
    - rewrite rn_contents_small. exact H6. }
  apply (Forall2_transfer _ _ _ _ R).
  - rewrite replace_stream_rn. apply rn_attr_nofile.
  - apply rn_attr_nofile.
  - rewrite (replace_attr_origin rs ievs T gi (empties_ordered rs He) H2 H3 H4).
    apply (replace_reference_empties_fl ievs rs He).
Qed.

Corollary replace_stream_empties_chk (rs : list repl) (ievs : list event) (T : text) (gi : N * N) :
  empties rs = true ->
  reassembles ievs T = true -> no_empty_chunks ievs = true -> dense ievs 0 0 = true ->
  contents_small ievs = true ->
  list_eqb_attr (opt_eqb loc_ref)
    (attr_of_stream (fst (replace_stream (sort_repls rs) ievs gi)) true) (attr_of_stream ievs true) = true.
Proof. intros. apply list_eqb_attr_Forall2. eapply replace_stream_empties; eassumption. Qed.

(* (file, line): equal, for any inner event list that reassembles a text (both streaming modes
   of the inner source) *)
Theorem replace_stream_empties_fl (rs : list repl) (ievs : list event) (T : text) (gi : N * N) :
  empties rs = true ->
  reassembles ievs T = true -> no_empty_chunks ievs = true -> dense ievs 0 0 = true ->
  map fl (attr_of_stream (fst (replace_stream (sort_repls rs) ievs gi)) true)
  = map fl (attr_of_stream ievs true).
Proof.
  intros He H2 H3 H4.
  rewrite (replace_attr_origin rs ievs T gi (empties_ordered rs He) H2 H3 H4).
  apply (replace_reference_empties_fl ievs rs He).
Qed.

Print Assumptions replace_stream_empties_consistent.
Print Assumptions replace_stream_empties_tight_consistent.
Print Assumptions replace_stream_empties.
Print Assumptions replace_stream_empties_chk.
Print Assumptions replace_stream_empties_fl.
